#!/bin/sh
# Build the framework from files on disk only (offline). Run once after a fresh restore.
# Regenerates the model from /repo, builds the driver and every property module (also warms the Mathlib oleans).
cd "$(dirname "$0")"
python3 tools/translate.py /repo/src/pystog lean/PystogVerif/Gen
python3 tools/translate_stog.py /repo/src/pystog lean/PystogVerif/Gen
cd lean
lake build drv drvm drvp drvs 2>&1 | tail -3
lake build PystogVerif 2>&1 | tail -15
exit 0
