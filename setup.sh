#!/bin/sh
# Build the framework from files on disk only (offline). Run once after a fresh restore.
set -e
cd "$(dirname "$0")"
python3 tools/translate.py /repo/src/pystog lean/PystogVerif/Gen || true
cd lean
lake build PystogVerif drv 2>&1 | tail -5 || true
