/-!
# Numeric interface and vector library shared by the generated and hand-written models

Mathlib-free.  Everything is polymorphic in the scalar type `α` through the ordinary
(unbundled) operator classes plus `Transc`; instantiated at `Float` it is executable
(driver `Main.lean`), instantiated at `ℝ` (`PystogVerif/Real.lean`) it is what the theorems
are about.
-/

class Transc (α : Type) where
  sin : α → α
  cos : α → α
  sqrt : α → α
  pi : α

instance : Transc Float := ⟨Float.sin, Float.cos, Float.sqrt, 3.141592653589793⟩
instance : NatCast Float := ⟨Float.ofNat⟩

abbrev Vec (α : Type) := List α
abbrev Mask := List Bool

/-- what `np.divide(..., where=m)` *without* `out=` leaves where `m` is false:
    an arbitrary value per (site, index).  Theorems quantify over it. -/
abbrev Junk (α : Type) := Nat → Nat → α

/-- the ambient `**kwargs` options of the three algebra modules -/
structure Kw (α : Type) where
  rho : α
  bcoh : α
  btot : α
  lorch : Bool := false
  omitted : Bool := false
  xmin : Option α := none
  xmax : Option α := none

section
variable {α : Type} [Add α] [Sub α] [Mul α] [Div α] [Neg α] [LT α] [LE α] [NatCast α]
  [DecidableLT α] [DecidableLE α] [Transc α]

/-- options record with nothing supplied (numeric keys are never read through it: checked by the translator) -/
def Kw.none : Kw α := { rho := ((0:Nat):α), bcoh := ((0:Nat):α), btot := ((0:Nat):α) }

/-- `**kwargs` as seen inside a function whose named parameters `xmin`/`xmax` consumed those keys -/
def Kw.dropWindow (kw : Kw α) : Kw α := { kw with xmin := Option.none, xmax := Option.none }

namespace Cmp
def ne (a b : α) : Bool := !(decide (a ≤ b) && decide (b ≤ a))
def eq (a b : α) : Bool := decide (a ≤ b) && decide (b ≤ a)
def lt (a b : α) : Bool := decide (a < b)
def le (a b : α) : Bool := decide (a ≤ b)
def gt (a b : α) : Bool := decide (b < a)
def ge (a b : α) : Bool := decide (b ≤ a)
end Cmp

namespace Mask
def and (a b : Mask) : Mask := List.zipWith (· && ·) a b
end Mask

namespace Num
/-- `numpy.sinc(x)` = sin(πx)/(πx), equal to 1 at x = 0 (numpy evaluates the quotient at πx·1e-20-ish there, which is exactly 1.0) -/
def sinc (x : α) : α :=
  let y := Transc.pi * x
  if Cmp.ne y ((0:Nat):α) then Transc.sin y / y else ((1:Nat):α)
end Num

namespace Vec
def add (a b : Vec α) : Vec α := List.zipWith (· + ·) a b
def sub (a b : Vec α) : Vec α := List.zipWith (· - ·) a b
def mul (a b : Vec α) : Vec α := List.zipWith (· * ·) a b
def div (a b : Vec α) : Vec α := List.zipWith (· / ·) a b
def addS (a : Vec α) (s : α) : Vec α := a.map (· + s)
def subS (a : Vec α) (s : α) : Vec α := a.map (· - s)
def mulS (a : Vec α) (s : α) : Vec α := a.map (· * s)
def divS (a : Vec α) (s : α) : Vec α := a.map (· / s)
def sadd (s : α) (a : Vec α) : Vec α := a.map (s + ·)
def ssub (s : α) (a : Vec α) : Vec α := a.map (s - ·)
def smul (s : α) (a : Vec α) : Vec α := a.map (s * ·)
def sdiv (s : α) (a : Vec α) : Vec α := a.map (s / ·)
def neg (a : Vec α) : Vec α := a.map (- ·)
def sin (a : Vec α) : Vec α := a.map Transc.sin
def cos (a : Vec α) : Vec α := a.map Transc.cos
def sqrt (a : Vec α) : Vec α := a.map Transc.sqrt
def sinc (a : Vec α) : Vec α := a.map Num.sinc
def zerosLike (a : Vec α) : Vec α := a.map (fun _ => ((0:Nat):α))
def onesLike (a : Vec α) : Vec α := a.map (fun _ => ((1:Nat):α))
def gtS (a : Vec α) (s : α) : Mask := a.map (fun x => decide (s < x))
def geS (a : Vec α) (s : α) : Mask := a.map (fun x => decide (s ≤ x))
def ltS (a : Vec α) (s : α) : Mask := a.map (fun x => decide (x < s))
def leS (a : Vec α) (s : α) : Mask := a.map (fun x => decide (x ≤ s))
def neS (a : Vec α) (s : α) : Mask := a.map (fun x => Cmp.ne x s)
def eqS (a : Vec α) (s : α) : Mask := a.map (fun x => Cmp.eq x s)
def select (m : Mask) (t e : Vec α) : Vec α := List.zipWith (fun (b : Bool) (p : α × α) => if b then p.1 else p.2) m (t.zip e)
def divideWhere (n d : Vec α) (m : Mask) (out : Vec α) : Vec α := select m (div n d) out
/-- an "uninitialised" buffer shaped like `a`, contents taken from `junk` at site `k` -/
def junkLike (junk : Junk α) (k : Nat) (a : Vec α) : Vec α := (List.range a.length).map (junk k)
def compress (m : Mask) (a : Vec α) : Vec α := ((m.zip a).filter (·.1)).map (·.2)
def sum (a : Vec α) : α := a.foldl (· + ·) ((0:Nat):α)
def head (a : Vec α) : α := a.headD ((0:Nat):α)
def tail1 (a : Vec α) : Vec α := a.tail
def init1 (a : Vec α) : Vec α := a.dropLast
def min (a : Vec α) : α := match a with | [] => ((0:Nat):α) | x :: xs => xs.foldl (fun m y => if y < m then y else m) x
def max (a : Vec α) : α := match a with | [] => ((0:Nat):α) | x :: xs => xs.foldl (fun m y => if m < y then y else m) x
end Vec

namespace Numpy
def diff (a : Vec α) : Vec α := List.zipWith (· - ·) a.tail a
/-- numpy.trapezoid(y, x=x) = sum(diff(x) * (y[1:] + y[:-1]) / 2) -/
def trapezoid (y x : Vec α) : α :=
  Vec.sum (Vec.divS (Vec.mul (diff x) (Vec.add (Vec.tail1 y) (Vec.init1 y))) ((2:Nat):α))
end Numpy
end
