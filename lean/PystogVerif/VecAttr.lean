import PystogVerif.Vec
import PystogVerif.Attr
attribute [vec_unfold] Vec.add Vec.sub Vec.mul Vec.div Vec.addS Vec.subS Vec.mulS Vec.divS Vec.sadd Vec.ssub Vec.smul Vec.sdiv
  Vec.neg Vec.sin Vec.cos Vec.sqrt Vec.zerosLike Vec.onesLike Vec.gtS Vec.geS Vec.ltS Vec.leS Vec.neS Vec.eqS
  Vec.select Vec.divideWhere Mask.and Vec.junkLike
