import Lean.Meta.Tactic.Simp.RegisterCommand
/-! simp sets used by the uniform refinement tactic -/
register_simp_attr vec_unfold
register_simp_attr conv_unfold
