import PystogVerif.Gen.Facts

/-!
# Division audit (trusted-base tripwire for the ℝ reading)

The theorems read the generated code at ℝ, where Lean totalises `x / 0 = 0`; a statement can then hold at a vanishing denominator for a reason the
floating-point code does not share (finding F12: `codeTerm … qmax = 0`).  The translator lists every `/` of the three algebra modules whose
denominator is not a non-zero literal; this theorem pins the list, so a new unguarded division (e.g. a `np.divide(where=)` rewritten as a plain
quotient) breaks an obligation and has to be looked at.  The conditions under which each listed denominator is non-zero:

* `<b_coh>^2` in `FK_to_F`, `GK_to_G` — the properties quantify over `<b_coh>^2 ≠ 0` (C03) resp. `> 0` (C04, C06);
* `4πρ` in `G_to_GK` — `ρ > 0` (hypothesis `hrho` of every real-space theorem);
* `denominator[mask]` in `_safe_divide` — the mask is `denominator > 0` (`R_safe_divide`);
* `π` — a non-zero constant;
* `xmax` (Lorch window, in `fourier_transform` and `_low_x_correction`) and `2·π/xmax` — `xmax` is the largest abscissa entering the transform;
  it is 0 only for a grid without positive points, which C14/C15 exclude and which `_low_x_correction` now leaves before dividing (F12).
-/
namespace C16Div

theorem F_unguarded_divisions : Gen.Facts.unguardedDivisions =
    [("Converter.FK_to_F", "kwargs['<b_coh>^2']"), ("Converter.GK_to_G", "kwargs['<b_coh>^2']"),
     ("Converter.G_to_GK", "4.0 * np.pi * kwargs['rho']"), ("Converter._safe_divide", "denominator[mask]"),
     ("Transformer.F_to_G", "np.pi"), ("Transformer._low_x_correction", "2.0 * PiOverXmax"),
     ("Transformer._low_x_correction", "np.pi"), ("Transformer._low_x_correction", "xmax"),
     ("Transformer.fourier_transform", "xmax")] := by decide

end C16Div
