import PystogVerif.Model.Writer
import Mathlib.Data.Rat.Defs
import Mathlib.Data.Real.Basic
import Mathlib.Tactic.Ring
import Mathlib.Tactic.Linarith
import Mathlib.Tactic.IntervalCases
import Mathlib.Tactic.Positivity
import Mathlib.Tactic.FieldSimp
import Mathlib.Tactic.NormNum

/-!
# C18 — every written curve reads back as the curve that was in memory

Model: hand-written `Writer` (mirror of `_write_out_to_file`, byte-exact against the real writers in the correspondence
run).  Theorems are about the exact value of the *text*; `np.loadtxt`'s final text → nearest-double step is outside
the model (see DESIGN §8 C18 and the recorded finding for 4096 ≤ |v| < 8192).
-/
namespace C18
open Writer

theorem charDigit_digitChar (d : Nat) (h : d < 10) : charDigit (digitChar d) = d := by
  interval_cases d <;> rfl

theorem digitChar_ne (d : Nat) (h : d < 10) :
    digitChar d ≠ '.' ∧ digitChar d ≠ ' ' ∧ digitChar d ≠ '-' ∧ digitChar d ≠ '#' := by
  interval_cases d <;> decide

theorem parse_append (a : List Char) (c : Char) : parseDigits (a ++ [c]) = parseDigits a * 10 + charDigit c := by
  simp [parseDigits, List.foldl_append]

/-- P: fixed-width digits round trip -/
theorem P_parse_fixed : ∀ (k n : Nat), n < 10 ^ k → parseDigits (fixedDigits k n) = n
  | 0, n, h => by simp at h; subst h; rfl
  | k + 1, n, h => by
      have hd : n / 10 < 10 ^ k := by
        rw [Nat.div_lt_iff_lt_mul (by norm_num)]; rw [pow_succ] at h; exact h
      rw [fixedDigits, parse_append, P_parse_fixed k (n / 10) hd, charDigit_digitChar _ (Nat.mod_lt _ (by norm_num))]
      omega

theorem fixed_length : ∀ (k n : Nat), (fixedDigits k n).length = k
  | 0, _ => rfl
  | k + 1, n => by simp [fixedDigits, fixed_length k]

theorem fixed_digits_clean : ∀ (k n : Nat) (c : Char), c ∈ fixedDigits k n → c ≠ '.' ∧ c ≠ ' ' ∧ c ≠ '-' ∧ c ≠ '#'
  | 0, _, c, h => by simp [fixedDigits] at h
  | k + 1, n, c, h => by
      simp only [fixedDigits, List.mem_append, List.mem_singleton] at h
      rcases h with h | rfl
      · exact fixed_digits_clean k _ c h
      · exact digitChar_ne _ (Nat.mod_lt _ (by norm_num))

/-- P: free-width digits round trip (integer part, row count) -/
theorem P_parse_natDigits (n : Nat) : parseDigits (natDigits n) = n := by
  induction n using Nat.strong_induction_on with
  | _ n ih =>
    rw [natDigits]
    split
    · rename_i h; simp [parseDigits, charDigit_digitChar n h]
    · rename_i h
      rw [parse_append, ih (n / 10) (by omega), charDigit_digitChar _ (Nat.mod_lt _ (by norm_num))]
      omega

theorem natDigits_clean (n : Nat) : ∀ c ∈ natDigits n, c ≠ '.' ∧ c ≠ ' ' ∧ c ≠ '-' ∧ c ≠ '#' := by
  induction n using Nat.strong_induction_on with
  | _ n ih =>
    intro c hc
    rw [natDigits] at hc
    split at hc
    · rename_i h; simp only [List.mem_singleton] at hc; subst hc; exact digitChar_ne n h
    · rename_i h
      simp only [List.mem_append, List.mem_singleton] at hc
      rcases hc with hc | rfl
      · exact ih (n / 10) (by omega) c hc
      · exact digitChar_ne _ (Nat.mod_lt _ (by norm_num))

theorem natDigits_ne_nil (n : Nat) : natDigits n ≠ [] := by
  rw [natDigits]; split <;> simp

theorem takeWhile_append_of_all {p : Char → Bool} (a : List Char) (c : Char) (t : List Char) (ha : ∀ x ∈ a, p x = true) (hc : p c = false) :
    (a ++ c :: t).takeWhile p = a ∧ (a ++ c :: t).dropWhile p = c :: t := by
  induction a with
  | nil => simp [List.takeWhile_cons, List.dropWhile_cons, hc]
  | cons x a ih =>
    have hx := ha x (by simp)
    have := ih (fun y hy => ha y (by simp [hy]))
    simp [List.takeWhile_cons, List.dropWhile_cons, hx, this.1, this.2]

/-- P: the text of a number parses back to exactly (sign, round-half-even(|v|·10¹²)) -/
theorem P_fmt_parse (d : Dec) : parseDec (fmtDec d) = some (d.neg, round12 d) := by
  have hip : ∀ x ∈ natDigits (round12 d / 10 ^ 12), (x != '.') = true := by
    intro x hx; simpa using (natDigits_clean _ x hx).1
  have hsplit := takeWhile_append_of_all (p := (· != '.')) (natDigits (round12 d / 10 ^ 12)) '.'
    (fixedDigits 12 (round12 d % 10 ^ 12)) hip (by decide)
  have hne := natDigits_ne_nil (round12 d / 10 ^ 12)
  have hne' : (natDigits (round12 d / 10 ^ 12)).isEmpty = false := by
    cases h : natDigits (round12 d / 10 ^ 12) with
    | nil => exact absurd h hne
    | cons _ _ => rfl
  have hhead : ∀ t, ¬ ∃ u, natDigits (round12 d / 10 ^ 12) ++ t = '-' :: u := by
    intro t ⟨u, hu⟩
    cases hnd : natDigits (round12 d / 10 ^ 12) with
    | nil => exact hne hnd
    | cons c cs =>
      rw [hnd] at hu
      have : c = '-' := by simpa using (List.cons.inj hu).1
      exact (natDigits_clean _ c (by rw [hnd]; simp)).2.2.1 this
  have hval : parseDigits (natDigits (round12 d / 10 ^ 12)) * 10 ^ 12 + parseDigits (fixedDigits 12 (round12 d % 10 ^ 12)) = round12 d := by
    rw [P_parse_natDigits, P_parse_fixed 12 _ (Nat.mod_lt _ (by norm_num))]
    exact Nat.div_add_mod' _ _
  have hbody : parseBody (natDigits (round12 d / 10 ^ 12) ++ '.' :: fixedDigits 12 (round12 d % 10 ^ 12)) = some (round12 d) := by
    unfold parseBody
    rw [hsplit.2, hsplit.1]
    simp only [fixed_length, hval, hne', beq_self_eq_true, Bool.not_false, Bool.and_self, if_true]
  have hstrip : stripSign (natDigits (round12 d / 10 ^ 12) ++ '.' :: fixedDigits 12 (round12 d % 10 ^ 12))
      = (false, natDigits (round12 d / 10 ^ 12) ++ '.' :: fixedDigits 12 (round12 d % 10 ^ 12)) := by
    unfold stripSign
    split
    · rename_i t heq; exact absurd ⟨t, heq⟩ (hhead _)
    · rfl
  unfold fmtDec parseDec
  cases hneg : d.neg
  · simp only [Bool.false_eq_true, if_false, List.nil_append, List.append_assoc, List.singleton_append, hstrip, hbody, Option.map_some]
  · simp only [if_true, List.cons_append, List.nil_append, List.append_assoc, List.singleton_append, stripSign, hbody, Option.map_some]

/-- exact rational value of a finite double -/
def _root_.Writer.Dec.abs (d : Dec) : ℚ := (d.M : ℚ) * (2 : ℚ) ^ d.E

/-- P: the written text is within 5·10⁻¹³ of the stored value (for every finite double of either sign) -/
theorem P_fmt_error_bound (d : Dec) : |((round12 d : ℚ) / 10 ^ 12) - d.abs| ≤ 5 / 10 ^ 13 := by
  have hP : ((10 ^ 12 : ℕ) : ℚ) = 10 ^ 12 := by norm_num
  have hPpos : (0 : ℚ) < 10 ^ 12 := by positivity
  have hbound : (1 : ℚ) / 2 / 10 ^ 12 = 5 / 10 ^ 13 := by norm_num
  unfold round12 Dec.abs
  by_cases hE : d.E ≥ 0
  · simp only [hE, if_true]
    have h2 : ((2 : ℚ) ^ d.E) = ((2 ^ d.E.toNat : ℕ) : ℚ) := by
      rw [← Int.toNat_of_nonneg hE, zpow_natCast]; push_cast; rfl
    rw [h2, Nat.cast_mul, Nat.cast_mul, hP]
    have : (d.M : ℚ) * 10 ^ 12 * ((2 ^ d.E.toNat : ℕ) : ℚ) / 10 ^ 12 - d.M * ((2 ^ d.E.toNat : ℕ) : ℚ) = 0 := by
      field_simp; ring
    rw [this, abs_zero]; positivity
  · simp only [hE, if_false]
    have hEn : d.E < 0 := by omega
    set k := (-d.E).toNat with hk
    have hk' : d.E = -(k : ℤ) := by rw [hk, Int.toNat_of_nonneg (by omega)]; ring
    have h2 : (2 : ℚ) ^ d.E = 1 / ((2 ^ k : ℕ) : ℚ) := by rw [hk', zpow_neg, zpow_natCast]; push_cast; ring
    set N := d.M * 10 ^ 12 with hN
    set den := 2 ^ k with hdend
    have hdpos : 0 < den := by positivity
    have hdiv := Nat.div_add_mod N den
    have hr := Nat.mod_lt N hdpos
    have hdq : (0 : ℚ) < den := by exact_mod_cast hdpos
    have hNc : (N : ℚ) = (d.M : ℚ) * 10 ^ 12 := by rw [hN, Nat.cast_mul, hP]
    have hval : (d.M : ℚ) * (2 : ℚ) ^ d.E = (N : ℚ) / den / 10 ^ 12 := by rw [h2, hNc]; field_simp
    rw [hval]
    have hNq : (N : ℚ) = den * (N / den : ℕ) + (N % den : ℕ) := by exact_mod_cast hdiv.symm
    rw [← hbound]
    split_ifs with hc
    · -- rounded up: 2r ≥ den
      have hge : den ≤ 2 * (N % den) := by
        simp only [Bool.or_eq_true, decide_eq_true_eq, Bool.and_eq_true, beq_iff_eq] at hc
        rcases hc with h | ⟨h, _⟩ <;> omega
      have hgeq : (den : ℚ) ≤ 2 * ((N % den : ℕ) : ℚ) := by exact_mod_cast hge
      have hrq : ((N % den : ℕ) : ℚ) < den := by exact_mod_cast hr
      rw [Nat.cast_add, Nat.cast_one, abs_le]
      have e : ((N / den : ℕ) : ℚ) + 1 - (N : ℚ) / den = ((den : ℚ) - (N % den : ℕ)) / den := by
        rw [hNq]; field_simp; ring
      constructor
      · have : (0 : ℚ) ≤ (((N / den : ℕ) : ℚ) + 1) / 10 ^ 12 - (N : ℚ) / den / 10 ^ 12 := by
          rw [← sub_div, e]
          apply div_nonneg _ hPpos.le
          apply div_nonneg _ hdq.le
          linarith
        have : (0 : ℚ) ≤ 1 / 2 / 10 ^ 12 := by positivity
        linarith
      · rw [← sub_div, e]
        apply div_le_div_of_nonneg_right _ hPpos.le
        rw [div_le_iff₀ hdq]; linarith
    · -- rounded down: 2r ≤ den
      have hle : 2 * (N % den) ≤ den := by
        simp only [Bool.or_eq_true, decide_eq_true_eq, Bool.and_eq_true, beq_iff_eq, not_or, not_and] at hc
        omega
      have hleq : 2 * ((N % den : ℕ) : ℚ) ≤ den := by exact_mod_cast hle
      have hr0 : (0 : ℚ) ≤ ((N % den : ℕ) : ℚ) := by positivity
      rw [abs_le]
      have e : ((N / den : ℕ) : ℚ) - (N : ℚ) / den = -(((N % den : ℕ) : ℚ) / den) := by
        rw [hNq]; field_simp; ring
      constructor
      · rw [← sub_div, e, neg_div, neg_le_neg_iff]
        apply div_le_div_of_nonneg_right _ hPpos.le
        rw [div_le_iff₀ hdq]; linarith
      · have : ((N / den : ℕ) : ℚ) / 10 ^ 12 - (N : ℚ) / den / 10 ^ 12 ≤ 0 := by
          rw [← sub_div, e]
          apply div_nonpos_of_nonpos_of_nonneg _ hPpos.le
          rw [neg_nonpos]; exact div_nonneg hr0 hdq.le
        have : (0 : ℚ) ≤ 1 / 2 / 10 ^ 12 := by positivity
        linarith

/-- P: the file starts with the number of rows, then one comment line, then exactly that many rows -/
theorem P_header_and_rows (xs ys : List UInt64) (h : xs.length = ys.length) :
    (fileLines xs ys).length = 2 + xs.length ∧
    parseDigits (((fileLines xs ys).headD []).takeWhile (· != ' ')) = xs.length ∧
    ((fileLines xs ys).drop 1).head? = some "# Comment line".toList := by
  refine ⟨by simp [fileLines, h]; omega, ?_, by simp [fileLines]⟩
  simp only [fileLines, List.headD_cons]
  have := takeWhile_append_of_all (p := (· != ' ')) (natDigits xs.length) ' ' []
    (fun x hx => by simpa using (natDigits_clean _ x hx).2.1) (by decide)
  rw [this.1, P_parse_natDigits]

/-- the text of a number contains no blank and does not start a comment -/
theorem fmt12_clean (b : UInt64) : ∀ c ∈ fmt12 b, c ≠ ' ' ∧ c ≠ '#' := by
  intro c hc
  unfold fmt12 at hc
  split at hc
  · rename_i d _
    simp only [fmtDec, List.mem_append, List.mem_singleton] at hc
    rcases hc with ((hc | hc) | hc) | hc
    · split at hc
      · simp only [List.mem_singleton] at hc; subst hc; decide
      · simp at hc
    · exact ⟨(natDigits_clean _ c hc).2.1, (natDigits_clean _ c hc).2.2.2⟩
    · subst hc; decide
    · exact ⟨(fixed_digits_clean _ _ c hc).2.1, (fixed_digits_clean _ _ c hc).2.2.2⟩
  · rename_i neg _
    simp only [List.mem_append] at hc
    rcases hc with hc | hc
    · split at hc
      · simp only [List.mem_singleton] at hc; subst hc; decide
      · simp at hc
    · have : c = 'i' ∨ c = 'n' ∨ c = 'f' := by simpa using hc
      rcases this with rfl | rfl | rfl <;> decide
  · have : c = 'n' ∨ c = 'a' := by
      have : c ∈ ['n', 'a', 'n'] := hc
      simp only [List.mem_cons, List.not_mem_nil, or_false] at this
      tauto
    rcases this with rfl | rfl <;> decide

theorem fmt12_ne_nil (b : UInt64) : fmt12 b ≠ [] := by
  unfold fmt12
  split
  · rename_i d _
    simp [fmtDec]
  · simp
  · simp

/-- P: reading the written file back (skip 2 lines, drop comments, split each row at the blank) yields, row by row,
    the parsed texts of the two numbers of that row: exactly as many rows as were written, in order -/
theorem P_read_write (xs ys : List UInt64) :
    readRows (fileLines xs ys) = List.zipWith (fun a b => (parseDec (fmt12 a), parseDec (fmt12 b))) xs ys := by
  unfold readRows fileLines
  simp only [List.drop_succ_cons, List.drop_zero]
  have hrow : ∀ (a b : UInt64), (fun l : List Char => (parseDec (l.takeWhile (· != ' ')), parseDec ((l.dropWhile (· != ' ')).drop 1)))
      (fmt12 a ++ [' '] ++ fmt12 b) = (parseDec (fmt12 a), parseDec (fmt12 b)) := by
    intro a b
    have := takeWhile_append_of_all (p := (· != ' ')) (fmt12 a) ' ' (fmt12 b)
      (fun x hx => by simpa using (fmt12_clean a x hx).1) (by decide)
    simp only [List.append_assoc, List.singleton_append, this.1, this.2, List.drop_succ_cons, List.drop_zero]
  have hkeep : ∀ (a b : UInt64), ((fmt12 a ++ [' '] ++ fmt12 b).head? != some '#') = true := by
    intro a b
    cases h : fmt12 a with
    | nil => exact absurd h (fmt12_ne_nil a)
    | cons c t =>
      have := (fmt12_clean a c (by rw [h]; simp)).2
      simp [this]
  induction xs generalizing ys with
  | nil => simp
  | cons a xs ih =>
    cases ys with
    | nil => simp
    | cons b ys =>
      simp only [List.zipWith_cons_cons, List.filter_cons, hkeep a b, if_true, List.map_cons]
      have h := hrow a b
      simp only [] at h
      rw [h, ih ys]

/-- P: corollary for finite values: every row reads back as (sign, round-half-even(|v|·10¹²)) of the stored numbers -/
theorem P_read_back_finite (a : UInt64) (d : Dec) (h : classify a = Cls.finite d) :
    parseDec (fmt12 a) = some (d.neg, round12 d) := by
  unfold fmt12; rw [h]; exact P_fmt_parse d

example : round12 ⟨true, 3, -1⟩ = 1500000000000 := by decide

end C18
