import PystogVerif.Props.C08
import PystogVerif.Props.C03

/-!
# C08 — the split is exact for all 12 variants, each in its function's own additive sense

`Props/C08` proves `removed + corrected = input` and the quadrature rule for the core `g_using_F`; `Props/C09` proves (by unfolding the
regenerated definitions) that every variant is that core wrapped in conversions.  Here the two are combined with the conversion refinements
of C03: for every real-space function X, every reciprocal-space function Y, on every grid with Q > 0,

  corrected + removed − base(Y) = input,   base(Q[S−1]) = base(F_K) = 0, base(S) = 1, base(DCS) = ⟨b_tot²⟩,

and the three uncertainties are the core's, scaled alike by ∂Y/∂F, so they still combine in quadrature.
-/
namespace C08
open Spec
variable (kw : Kw ℝ) (junk : Junk ℝ)

/-- the constant a reciprocal-space function carries (subtracted once when two of them are added) -/
noncomputable def base (kw : Kw ℝ) : RFn → ℝ
  | .F => 0
  | .FK => 0
  | .S => 1
  | .DCS => kw.btot

theorem qFt_eq (r gr q fq : Vec ℝ) (cutoff : ℝ) (dgr dfq : Option (Vec ℝ)) :
    qFt (FourierFilter.g_using_F kw junk r gr q fq cutoff dgr dfq) = q := by
  have hl := backT_lengths kw junk r gr q cutoff dgr
  have hs := apply_cropping_spec (Kw.none : Kw ℝ) junk q (backT kw junk r gr q cutoff dgr).2.1 (Vec.min q) (Vec.max q)
    (some (backT kw junk r gr q cutoff dgr).2.2) hl.1.symm (fun d h => by cases h; exact hl.2.symm)
  show (Transformer.apply_cropping Kw.none junk (backT kw junk r gr q cutoff dgr).1 (backT kw junk r gr q cutoff dgr).2.1
        (Vec.min q) (Vec.max q) (some (backT kw junk r gr q cutoff dgr).2.2)).1 = _
  rw [backT_grid, hs]
  exact crop_q_range q q rfl

theorem qOut_eq (r gr q fq : Vec ℝ) (cutoff : ℝ) (dgr dfq : Option (Vec ℝ))
    (hq : q.length = fq.length) (hd : ∀ d, dfq = some d → q.length = d.length) :
    qOut (FourierFilter.g_using_F kw junk r gr q fq cutoff dgr dfq) = q := by
  have hs := apply_cropping_spec (Kw.none : Kw ℝ) junk q fq (Vec.min q) (Vec.max q) dfq hq hd
  show (Transformer.apply_cropping Kw.none junk q fq (Vec.min q) (Vec.max q) dfq).1 = _
  rw [hs]
  exact crop_q_range q q rfl

theorem removed_length (r gr q fq : Vec ℝ) (cutoff : ℝ) (dgr dfq : Option (Vec ℝ)) :
    (removed (FourierFilter.g_using_F kw junk r gr q fq cutoff dgr dfq)).length = q.length := by
  rw [(removed_eq kw junk r gr q fq cutoff dgr dfq).1]; exact (backT_lengths kw junk r gr q cutoff dgr).1

/-- pointwise: for Q > 0, Y(u) + Y(w) − base(Y) = Y(u + w) for the conversions Q[S−1] → Y (they are affine in the value) -/
theorem rconv_F_affine (Y : RFn) (q u w : ℝ) (hq : 0 < q) :
    Spec.rconv kw .F Y q u + Spec.rconv kw .F Y q w - base kw Y = Spec.rconv kw .F Y q (u + w) := by
  cases Y <;> simp only [Spec.rconv, base, if_pos hq] <;> ring

theorem zip_affine (Y : RFn) : ∀ (q u w : List ℝ), (∀ a ∈ q, 0 < a) →
    List.zipWith (fun c m => c + m - base kw Y) (List.zipWith (Spec.rconv kw .F Y) q u) (List.zipWith (Spec.rconv kw .F Y) q w)
      = List.zipWith (Spec.rconv kw .F Y) q (Vec.add u w)
  | [], _, _, _ => by simp [Vec.add]
  | _ :: _, [], _, _ => by simp [Vec.add]
  | _ :: _, _ :: _, [], _ => by simp [Vec.add]
  | a :: q, x :: u, y :: w, h => by
      have ha : 0 < a := h a (by simp)
      have := zip_affine Y q u w (fun b hb => h b (by simp [hb]))
      simp only [Vec.add] at this ⊢
      simp only [List.zipWith_cons_cons, this, rconv_F_affine kw Y a x y ha]

theorem zipWith_snd : ∀ (q v : List ℝ), q.length = v.length → List.zipWith (fun (_ : ℝ) (f : ℝ) => f) q v = v
  | [], [], _ => rfl
  | [], _ :: _, h => by simp at h
  | _ :: _, [], h => by simp at h
  | _ :: q, x :: v, h => by simp [zipWith_snd q v (by simpa using h)]

theorem rconv_FF : Spec.rconv kw .F .F = fun (_ : ℝ) (f : ℝ) => f := by funext a b; rfl

/-- the values a variant returns for Y ≠ Q[S−1] are the pointwise conversions of the core's (Y = Q[S−1]: the core's own) -/
theorem fOut_F_val (Y : RFn) (hb : kw.bcoh ≠ 0) (q v dv : Vec ℝ) (h : q.length = v.length) :
    (GenTable.fOut_F Y kw junk q v dv).1 = List.zipWith (Spec.rconv kw .F Y) q v := by
  cases Y
  case F => rw [rconv_FF, zipWith_snd q v h]; rfl
  all_goals exact rconv_val kw junk .F _ hb q v (some dv) h

theorem fIn_F_val (Y : RFn) (hb : kw.bcoh ≠ 0) (q y : Vec ℝ) (dy : Option (Vec ℝ)) (h : q.length = y.length) :
    (GenTable.fIn_F Y kw junk q y dy).1 = List.zipWith (Spec.rconv kw Y .F) q y := by
  cases Y
  case F => rw [rconv_FF, zipWith_snd q y h]; rfl
  all_goals exact rconv_val kw junk _ .F hb q y dy h

theorem fIn_F_unc_len (Y : RFn) (hb : kw.bcoh ≠ 0) (q y : Vec ℝ) (dy : Option (Vec ℝ)) (h : q.length = y.length)
    (hd : ∀ d, dy = some d → q.length = d.length) : ∀ d, (GenTable.fIn_F Y kw junk q y dy).2 = some d → q.length = d.length := by
  intro d hdd
  cases Y
  case F => simp only [GenTable.fIn_F] at hdd; exact hd d hdd
  all_goals
    simp only [GenTable.fIn_F, Option.some.injEq] at hdd
    subst hdd
    rw [rconv_unc kw junk _ .F hb q y dy h hd]
    rcases dy with _ | d0
    · simp [Vec.zerosLike, h]
    · simp [hd d0 rfl]

theorem roundtrip_list (Y : RFn) (hb : kw.bcoh ≠ 0) : ∀ (q y : List ℝ), q.length = y.length → (∀ a ∈ q, 0 < a) →
    List.zipWith (Spec.rconv kw .F Y) q (List.zipWith (Spec.rconv kw Y .F) q y) = y
  | [], [], _, _ => rfl
  | [], _ :: _, h, _ => by simp at h
  | _ :: _, [], h, _ => by simp at h
  | a :: q, x :: y, h, hp => by
      simp only [List.zipWith_cons_cons, C03.P_roundtrip_pt kw Y .F hb a x (hp a (by simp)),
        roundtrip_list Y hb q y (by simpa using h) (fun b hb' => hp b (by simp [hb']))]

/-- **P (all 12 variants)**: corrected + removed − base(Y) = the input function, entry by entry, on every grid with Q > 0 -/
theorem P_filter_additive_all (X : GFn) (Y : RFn) (hb : kw.bcoh ≠ 0) (r gr q fq : Vec ℝ) (cutoff : ℝ) (dgr dfq : Option (Vec ℝ))
    (hq : q.length = fq.length) (hd : ∀ d, dfq = some d → q.length = d.length) (hpos : ∀ a ∈ q, 0 < a) :
    List.zipWith (fun c m => c + m - base kw Y)
        (corrected (GenTable.filt X Y kw junk r gr q fq cutoff dgr dfq)) (removed (GenTable.filt X Y kw junk r gr q fq cutoff dgr dfq)) = fq := by
  rw [C09.P_variant_factor kw junk X Y r gr q fq cutoff dgr dfq]
  set a := GenTable.fIn_g X kw junk r gr dgr
  set b := GenTable.fIn_F Y kw junk q fq dfq
  have hbl : q.length = b.1.length := by rw [fIn_F_val kw junk Y hb q fq dfq hq]; simp [hq]
  have hbd := fIn_F_unc_len kw junk Y hb q fq dfq hq hd
  set core := FourierFilter.g_using_F kw junk r a.1 q b.1 cutoff a.2 b.2 with hcore
  have h1 : qFt core = q := qFt_eq kw junk r a.1 q b.1 cutoff a.2 b.2
  have h2 : qOut core = q := qOut_eq kw junk r a.1 q b.1 cutoff a.2 b.2 hbl hbd
  have hadd : Vec.add (corrected core) (removed core) = b.1 := P_filter_additive kw junk r a.1 q b.1 cutoff a.2 b.2 hbl hbd
  have hrl : (removed core).length = q.length := removed_length kw junk r a.1 q b.1 cutoff a.2 b.2
  have hcl : (corrected core).length = q.length := by
    rw [(corrected_eq kw junk r a.1 q b.1 cutoff a.2 b.2 hbl hbd).1]
    simp only [Vec.sub, List.length_zipWith]
    rw [hrl, ← hbl, min_self]
  show List.zipWith (fun c m => c + m - base kw Y) (GenTable.fOut_F Y kw junk (qOut core) (corrected core) (dCorrected core)).1
      (GenTable.fOut_F Y kw junk (qFt core) (removed core) (dRemoved core)).1 = fq
  rw [h1, h2, fOut_F_val kw junk Y hb q _ _ hcl.symm, fOut_F_val kw junk Y hb q _ _ hrl.symm, zip_affine kw Y q _ _ hpos, hadd,
    fIn_F_val kw junk Y hb q fq dfq hq]
  exact roundtrip_list kw Y hb q fq hq hpos


/-! ## the uncertainties of all 12 variants combine in quadrature -/

theorem zipWith_one_mul (q v : List ℝ) (h : q.length = v.length) : List.zipWith (fun (_ : ℝ) (e : ℝ) => (1 : ℝ) * e) q v = v := by
  have : (fun (_ : ℝ) (e : ℝ) => (1 : ℝ) * e) = fun (_ : ℝ) (e : ℝ) => e := by funext a b; ring
  rw [this]; exact zipWith_snd q v h

theorem rslope_FF : (fun (q e : ℝ) => Spec.rslope kw .F .F q * e) = fun (_ : ℝ) (e : ℝ) => (1 : ℝ) * e := by funext a b; rfl

theorem fOut_F_unc (Y : RFn) (hb : kw.bcoh ≠ 0) (q v dv : Vec ℝ) (h : q.length = v.length) (hd : q.length = dv.length) :
    (GenTable.fOut_F Y kw junk q v dv).2 = List.zipWith (fun q e => Spec.rslope kw .F Y q * e) q dv := by
  cases Y
  case F => rw [rslope_FF, zipWith_one_mul q dv hd]; rfl
  all_goals exact rconv_unc kw junk .F _ hb q v (some dv) h (fun d hdd => by cases hdd; exact hd)

theorem fIn_F_unc (Y : RFn) (hb : kw.bcoh ≠ 0) (q y : Vec ℝ) (dy : Option (Vec ℝ)) (h : q.length = y.length)
    (hd : ∀ d, dy = some d → q.length = d.length) :
    (GenTable.fIn_F Y kw junk q y dy).2.getD (Vec.zerosLike (GenTable.fIn_F Y kw junk q y dy).1)
      = List.zipWith (fun q e => Spec.rslope kw Y .F q * e) q (dy.getD (Vec.zerosLike y)) := by
  have hz : q.length = (dy.getD (Vec.zerosLike y)).length := by
    rcases dy with _ | d
    · simp [Vec.zerosLike, h]
    · exact hd d rfl
  cases Y
  case F =>
    rw [rslope_FF, zipWith_one_mul q _ hz]
    simp only [GenTable.fIn_F]
  all_goals
    simp only [GenTable.fIn_F, Option.getD_some]
    exact rconv_unc kw junk _ .F hb q y dy h hd

theorem quad_scale_pt (Y : RFn) (hbpos : 0 < kw.bcoh) (q d b : ℝ) (hq : 0 < q) :
    Spec.rslope kw .F Y q * Real.sqrt ((Spec.rslope kw Y .F q * d) * (Spec.rslope kw Y .F q * d) + b * b)
      = Real.sqrt (d * d + (Spec.rslope kw .F Y q * b) * (Spec.rslope kw .F Y q * b)) := by
  have hq' : q ≠ 0 := hq.ne'
  have hb' : kw.bcoh ≠ 0 := hbpos.ne'
  have key : ∀ s t : ℝ, 0 < s → s * t = 1 → s * Real.sqrt ((t * d) * (t * d) + b * b) = Real.sqrt (d * d + (s * b) * (s * b)) := by
    intro s t hs hst
    rw [← Real.sqrt_sq hs.le, ← Real.sqrt_mul (sq_nonneg s), Real.sqrt_sq hs.le]
    congr 1
    have : s ^ 2 * (t * d * (t * d)) = (s * t) ^ 2 * (d * d) := by ring
    rw [mul_add, this, hst]; ring
  cases Y <;> simp only [Spec.rslope, if_pos hq]
  · exact key _ _ (by positivity) (by field_simp)
  · exact key 1 1 one_pos (by ring)
  · exact key _ _ (by positivity) (by field_simp)
  · exact key _ _ (by positivity) (by field_simp)

theorem quad_scale_list (Y : RFn) (hbpos : 0 < kw.bcoh) : ∀ (q d b : List ℝ), (∀ a ∈ q, 0 < a) →
    List.zipWith (fun q e => Spec.rslope kw .F Y q * e) q
        (List.zipWith (fun a b => Real.sqrt (a * a + b * b)) (List.zipWith (fun q e => Spec.rslope kw Y .F q * e) q d) b)
      = List.zipWith (fun a b => Real.sqrt (a * a + b * b)) d (List.zipWith (fun q e => Spec.rslope kw .F Y q * e) q b)
  | [], _, _, _ => by simp
  | _ :: _, [], _, _ => by simp
  | _ :: _, _ :: _, [], _ => by simp
  | a :: q, x :: d, y :: b, h => by
      simp only [List.zipWith_cons_cons, quad_scale_pt kw Y hbpos a x y (h a (by simp)),
        quad_scale_list Y hbpos q d b (fun c hc => h c (by simp [hc]))]

/-- **P (all 12 variants)**: the uncertainty of the corrected function is √(d_in² + d_removed²) entry by entry, in the units of the variant's
own reciprocal-space function (Q > 0, ⟨b_coh⟩² > 0) -/
theorem P_filter_quadrature_all (X : GFn) (Y : RFn) (hbpos : 0 < kw.bcoh) (r gr q fq : Vec ℝ) (cutoff : ℝ) (dgr dfq : Option (Vec ℝ))
    (hq : q.length = fq.length) (hd : ∀ d, dfq = some d → q.length = d.length) (hpos : ∀ a ∈ q, 0 < a) :
    dCorrected (GenTable.filt X Y kw junk r gr q fq cutoff dgr dfq)
      = List.zipWith (fun a b => Real.sqrt (a * a + b * b)) (dfq.getD (Vec.zerosLike fq))
          (dRemoved (GenTable.filt X Y kw junk r gr q fq cutoff dgr dfq)) := by
  have hb : kw.bcoh ≠ 0 := hbpos.ne'
  rw [C09.P_variant_factor kw junk X Y r gr q fq cutoff dgr dfq]
  set a := GenTable.fIn_g X kw junk r gr dgr
  set b := GenTable.fIn_F Y kw junk q fq dfq with hbdef
  have hbl : q.length = b.1.length := by rw [fIn_F_val kw junk Y hb q fq dfq hq]; simp [hq]
  have hbd := fIn_F_unc_len kw junk Y hb q fq dfq hq hd
  set core := FourierFilter.g_using_F kw junk r a.1 q b.1 cutoff a.2 b.2
  have h1 : qFt core = q := qFt_eq kw junk r a.1 q b.1 cutoff a.2 b.2
  have h2 : qOut core = q := qOut_eq kw junk r a.1 q b.1 cutoff a.2 b.2 hbl hbd
  have hrl : (removed core).length = q.length := removed_length kw junk r a.1 q b.1 cutoff a.2 b.2
  have hdrl : (dRemoved core).length = q.length := by
    rw [(removed_eq kw junk r a.1 q b.1 cutoff a.2 b.2).2]; exact (backT_lengths kw junk r a.1 q cutoff a.2).2
  have hcl : (corrected core).length = q.length := by
    rw [(corrected_eq kw junk r a.1 q b.1 cutoff a.2 b.2 hbl hbd).1]
    simp only [Vec.sub, List.length_zipWith]
    rw [hrl, ← hbl, min_self]
  have hquad := P_filter_quadrature kw junk r a.1 q b.1 cutoff a.2 b.2 hbl hbd
  have hin := fIn_F_unc kw junk Y hb q fq dfq hq hd
  have hinl : (b.2.getD (Vec.zerosLike b.1)).length = q.length := by
    rw [hbdef, hin]
    rcases dfq with _ | d0
    · simp [Vec.zerosLike, hq]
    · simp [hd d0 rfl]
  have hdcl : (dCorrected core).length = q.length := by
    rw [hquad]; simp only [List.length_zipWith]; rw [hinl, hdrl, min_self]
  show (GenTable.fOut_F Y kw junk (qOut core) (corrected core) (dCorrected core)).2
      = List.zipWith (fun a b => Real.sqrt (a * a + b * b)) (dfq.getD (Vec.zerosLike fq))
          (GenTable.fOut_F Y kw junk (qFt core) (removed core) (dRemoved core)).2
  rw [h1, h2, fOut_F_unc kw junk Y hb q _ _ hcl.symm hdcl.symm, fOut_F_unc kw junk Y hb q _ _ hrl.symm hdrl.symm, hquad, hbdef, hin]
  exact quad_scale_list kw Y hbpos q _ _ hpos

end C08
