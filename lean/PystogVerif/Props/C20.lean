import PystogVerif.RealRint
import PystogVerif.Model.Rebin
import Mathlib.Algebra.Order.Floor.Ring
import Mathlib.Tactic.Positivity

/-!
# C20 — rebinning is a linear, constant-preserving local weighted average

Model: hand-written `Rebin.rebin` (mirror of `Pre_Proc.rebin`, bit-exact against the real code in the correspondence run).
`Pre_Proc.rebin` divides by the accumulated weight of every bin; a bin that no input point reaches raises
`ZeroDivisionError` in the Python — the theorems assume the accumulated weight of the bin in question is non-zero.
-/
noncomputable section
namespace C20
open Rebin

theorem toNat_real (v : ℝ) : Rint.toNat v = ⌊v⌋.toNat := rfl

variable (xmin xdiv xmax : ℝ)

/-- hat function of one bin width centred on grid point k -/
def hat (k : ℕ) (x : ℝ) : ℝ := max 0 (1 - |x - gridPt xmin xdiv k| / xdiv)

/-- P: the grid starts at xmin, has the requested step and does not go beyond xmax -/
theorem P_grid (hd : 0 < xdiv) (hx : xmin ≤ xmax) :
    grid xmin xdiv xmax = (List.range (⌊(xmax - xmin) / xdiv⌋.toNat + 1)).map (fun k : ℕ => xmin + (k : ℝ) * xdiv) ∧
    (∀ g ∈ grid xmin xdiv xmax, xmin ≤ g ∧ g ≤ xmax) := by
  refine ⟨rfl, ?_⟩
  intro g hg
  simp only [grid, numpts, gridPt, List.mem_map, List.mem_range] at hg
  obtain ⟨k, hk, rfl⟩ := hg
  have hq : 0 ≤ (xmax - xmin) / xdiv := div_nonneg (by linarith) hd.le
  have hk' : (k : ℝ) ≤ (xmax - xmin) / xdiv := by
    have h1 : k ≤ ⌊(xmax - xmin) / xdiv⌋.toNat := Nat.lt_succ_iff.mp hk
    have h2 : ((⌊(xmax - xmin) / xdiv⌋.toNat : ℤ) : ℝ) ≤ (xmax - xmin) / xdiv := by
      rw [Int.toNat_of_nonneg (Int.floor_nonneg.mpr hq)]; exact Int.floor_le _
    calc (k : ℝ) ≤ ((⌊(xmax - xmin) / xdiv⌋.toNat : ℕ) : ℝ) := by exact_mod_cast h1
      _ = ((⌊(xmax - xmin) / xdiv⌋.toNat : ℤ) : ℝ) := by push_cast; rfl
      _ ≤ _ := h2
  have := (le_div_iff₀ hd).mp hk'
  constructor
  · have : 0 ≤ (k : ℝ) * xdiv := by positivity
    linarith
  · linarith

/-- P: the weight with which an in-range point enters bin k is the hat function of one bin width: exactly the points
    within one bin width of the grid point count -/
theorem P_weight_is_hat (hd : 0 < xdiv) (k : ℕ) (x : ℝ) (hlo : xmin ≤ x) (hhi : x ≤ xmax) :
    (weightTo xmin xdiv xmax k x).getD 0 = hat xmin xdiv k x := by
  have ht : 0 ≤ (x - xmin) / xdiv := div_nonneg (by linarith) hd.le
  set t := (x - xmin) / xdiv with htdef
  have hb : ((⌊t⌋.toNat : ℕ) : ℝ) = (⌊t⌋ : ℝ) := by
    have : ((⌊t⌋.toNat : ℤ)) = ⌊t⌋ := Int.toNat_of_nonneg (Int.floor_nonneg.mpr ht)
    exact_mod_cast congrArg (fun z : ℤ => (z : ℝ)) this
  have hx : x = xmin + t * xdiv := by rw [htdef]; field_simp; ring
  have hfl := Int.floor_le t
  have hfl2 := Int.lt_floor_add_one t
  simp only [weightTo, inRange, hlo, hhi, decide_true, Bool.and_self, if_true, binIndex, scale1, scale2, gridPt, hat, toNat_real, ← htdef]
  by_cases h1 : ⌊t⌋.toNat = k
  · simp only [h1, if_true, Option.getD_some, Nat.cast_one]
    have hk : (k : ℝ) = ⌊t⌋ := by rw [← h1]; exact hb
    have e : x - (xmin + (k : ℝ) * xdiv) = (t - ⌊t⌋) * xdiv := by rw [hx, hk]; ring
    rw [e, abs_of_nonneg (by nlinarith), mul_div_assoc, div_self hd.ne', mul_one]
    rw [max_eq_right (by linarith)]
  · simp only [h1, if_false]
    by_cases h2 : ⌊t⌋.toNat + 1 = k
    · simp only [h2, if_true, Option.getD_some, Nat.cast_one]
      have hk : (k : ℝ) = ⌊t⌋ + 1 := by rw [← h2]; push_cast; rw [hb]
      have e : x - (xmin + (k : ℝ) * xdiv) = -((⌊t⌋ + 1 - t) * xdiv) := by rw [hx, hk]; ring
      have e2 : x - (xmin + ((⌊t⌋.toNat : ℕ) : ℝ) * xdiv) = (t - ⌊t⌋) * xdiv := by rw [hx, hb]; ring
      rw [e, abs_neg, abs_of_nonneg (by nlinarith), mul_div_assoc, div_self hd.ne', mul_one, e2, mul_div_assoc,
        div_self hd.ne', mul_one]
      rw [max_eq_right (by linarith)]
      ring
    · simp only [h2, if_false, Option.getD_none]
      -- |t - k| ≥ 1
      have hne : (k : ℤ) ≠ ⌊t⌋ ∧ (k : ℤ) ≠ ⌊t⌋ + 1 := by
        have hnn := Int.toNat_of_nonneg (Int.floor_nonneg.mpr ht)
        constructor
        · intro h; apply h1; omega
        · intro h; apply h2; omega
      have hcase : (k : ℤ) ≤ ⌊t⌋ - 1 ∨ ⌊t⌋ + 2 ≤ (k : ℤ) := by omega
      have e : x - (xmin + (k : ℝ) * xdiv) = (t - k) * xdiv := by rw [hx]; ring
      rw [e, abs_mul, abs_of_pos hd, mul_div_assoc, div_self hd.ne', mul_one]
      apply (max_eq_left _).symm
      rcases hcase with hc | hc
      · have : (k : ℝ) ≤ ⌊t⌋ - 1 := by exact_mod_cast hc
        rw [abs_of_nonneg (by linarith)]; linarith
      · have : (⌊t⌋ : ℝ) + 2 ≤ k := by exact_mod_cast hc
        rw [abs_of_nonpos (by linarith)]; linarith

/-- the accumulation of one bin as two sums over the contributing points, in input order -/
theorem accum_eq_sums (k : ℕ) (pts : List (ℝ × ℝ)) :
    accum xmin xdiv xmax k pts =
      ((pts.filterMap (fun p => (weightTo xmin xdiv xmax k p.1).map (fun w => p.2 * w))).sum,
       (pts.filterMap (fun p => weightTo xmin xdiv xmax k p.1)).sum) := by
  unfold accum
  suffices h : ∀ (a : ℝ × ℝ), pts.foldl (accumStep xmin xdiv xmax k) a
      = (a.1 + (pts.filterMap (fun p => (weightTo xmin xdiv xmax k p.1).map (fun w => p.2 * w))).sum,
         a.2 + (pts.filterMap (fun p => weightTo xmin xdiv xmax k p.1)).sum) by
    simpa using h (0, 0)
  induction pts with
  | nil => intro a; simp
  | cons p t ih =>
    intro a
    simp only [List.foldl_cons, List.filterMap_cons, accumStep]
    cases hw : weightTo xmin xdiv xmax k p.1 with
    | none => simp [ih]
    | some w => simp [ih, add_assoc]

/-- P: input order is irrelevant -/
theorem P_rebin_perm (k : ℕ) {p₁ p₂ : List (ℝ × ℝ)} (h : p₁.Perm p₂) :
    accum xmin xdiv xmax k p₁ = accum xmin xdiv xmax k p₂ := by
  rw [accum_eq_sums, accum_eq_sums]
  rw [(h.filterMap _).sum_eq, (h.filterMap _).sum_eq]

/-- P: the accumulated weight does not depend on y, and the numerator is additive and homogeneous in y: the output
    (numerator / weight) is linear in y -/
theorem P_rebin_linear (k : ℕ) (x y z : List ℝ) (a b : ℝ) (hy : x.length = y.length) (hz : x.length = z.length) :
    (accum xmin xdiv xmax k (x.zip (List.zipWith (fun u v => a * u + b * v) y z))).2 = (accum xmin xdiv xmax k (x.zip y)).2 ∧
    (accum xmin xdiv xmax k (x.zip (List.zipWith (fun u v => a * u + b * v) y z))).1
      = a * (accum xmin xdiv xmax k (x.zip y)).1 + b * (accum xmin xdiv xmax k (x.zip z)).1 := by
  simp only [accum_eq_sums]
  induction x generalizing y z with
  | nil => simp
  | cons x0 xs ih =>
    cases y with
    | nil => simp at hy
    | cons y0 ys =>
      cases z with
      | nil => simp at hz
      | cons z0 zs =>
        have := ih ys zs (by simpa using hy) (by simpa using hz)
        simp only [List.zipWith_cons_cons, List.zip_cons_cons, List.filterMap_cons]
        cases hw : weightTo xmin xdiv xmax k x0 with
        | none => simpa using this
        | some w =>
          simp only [Option.map_some, List.sum_cons]
          refine ⟨by rw [this.1], ?_⟩
          rw [this.2]; ring

theorem const_key (k : ℕ) (c : ℝ) : ∀ (x : List ℝ),
    (accum xmin xdiv xmax k (x.zip (x.map (fun _ => c)))).1 = c * (accum xmin xdiv xmax k (x.zip (x.map (fun _ => c)))).2 := by
  intro x
  simp only [accum_eq_sums]
  induction x with
  | nil => simp
  | cons x0 xs ih =>
    simp only [List.map_cons, List.zip_cons_cons, List.filterMap_cons]
    cases hw' : weightTo xmin xdiv xmax k x0 with
    | none => simpa using ih
    | some w => simp only [Option.map_some, List.sum_cons]; rw [ih]; ring

/-- P: constants are preserved (wherever the bin has non-zero accumulated weight) -/
theorem P_rebin_const (k : ℕ) (x : List ℝ) (c : ℝ) (hw : (accum xmin xdiv xmax k (x.zip (x.map (fun _ => c)))).2 ≠ 0) :
    (accum xmin xdiv xmax k (x.zip (x.map (fun _ => c)))).1 / (accum xmin xdiv xmax k (x.zip (x.map (fun _ => c)))).2 = c := by
  rw [const_key]; field_simp

/-- weights are non-negative for positive step -/
theorem weight_nonneg (hd : 0 < xdiv) (k : ℕ) (x w : ℝ) (h : weightTo xmin xdiv xmax k x = some w) : 0 ≤ w := by
  have hr : inRange xmin xmax x = true := by
    by_contra hc
    simp [weightTo, hc] at h
  simp only [inRange, Bool.and_eq_true, decide_eq_true_eq] at hr
  have := P_weight_is_hat xmin xdiv xmax hd k x hr.1 hr.2
  rw [h, Option.getD_some] at this
  rw [this]; exact le_max_left _ _

theorem between_key (hd : 0 < xdiv) (k : ℕ) (m M : ℝ) : ∀ (pts : List (ℝ × ℝ)),
    (∀ p ∈ pts, (weightTo xmin xdiv xmax k p.1).isSome → m ≤ p.2) →
    (∀ p ∈ pts, (weightTo xmin xdiv xmax k p.1).isSome → p.2 ≤ M) →
    m * (accum xmin xdiv xmax k pts).2 ≤ (accum xmin xdiv xmax k pts).1 ∧
      (accum xmin xdiv xmax k pts).1 ≤ M * (accum xmin xdiv xmax k pts).2 := by
  intro pts
  simp only [accum_eq_sums]
  induction pts with
  | nil => simp
  | cons p t ih =>
    intro hm hM
    have iht := ih (fun q hq => hm q (by simp [hq])) (fun q hq => hM q (by simp [hq]))
    simp only [List.filterMap_cons]
    cases hw' : weightTo xmin xdiv xmax k p.1 with
    | none => simpa using iht
    | some w =>
      have hw0 := weight_nonneg xmin xdiv xmax hd k p.1 w hw'
      have h1 := hm p (by simp) (by simp [hw'])
      have h2 := hM p (by simp) (by simp [hw'])
      simp only [Option.map_some, List.sum_cons]
      constructor <;> nlinarith [iht.1, iht.2]

/-- P: the output lies between the smallest and the largest contributing y -/
theorem P_rebin_between (hd : 0 < xdiv) (k : ℕ) (pts : List (ℝ × ℝ)) (m M : ℝ)
    (hm : ∀ p ∈ pts, (weightTo xmin xdiv xmax k p.1).isSome → m ≤ p.2)
    (hM : ∀ p ∈ pts, (weightTo xmin xdiv xmax k p.1).isSome → p.2 ≤ M)
    (hw : 0 < (accum xmin xdiv xmax k pts).2) :
    m ≤ (accum xmin xdiv xmax k pts).1 / (accum xmin xdiv xmax k pts).2 ∧
    (accum xmin xdiv xmax k pts).1 / (accum xmin xdiv xmax k pts).2 ≤ M := by
  have key := between_key xmin xdiv xmax hd k m M pts hm hM
  exact ⟨(le_div_iff₀ hw).mpr key.1, (div_le_iff₀ hw).mpr key.2⟩

/-- P: data already on the grid (point i sits on node i) come back unchanged: node k receives weight 1 from point k
    and weight 0 from point k−1, nothing else -/
theorem P_weight_on_grid (hd : 0 < xdiv) (k i : ℕ) (hi : gridPt xmin xdiv i ≤ xmax) :
    weightTo xmin xdiv xmax k (gridPt xmin xdiv i) = if i = k then some 1 else if i + 1 = k then some 0 else none := by
  have hfl : ⌊((xmin + (i : ℝ) * xdiv) - xmin) / xdiv⌋.toNat = i := by
    have : ((xmin + (i : ℝ) * xdiv) - xmin) / xdiv = (i : ℝ) := by field_simp; ring
    rw [this]; simp
  have hlo : xmin ≤ gridPt xmin xdiv i := by simp only [gridPt]; nlinarith [(Nat.cast_nonneg i : (0:ℝ) ≤ i)]
  simp only [weightTo, inRange, hlo, hi, decide_true, Bool.and_self, if_true, binIndex, scale1, scale2]
  simp only [gridPt, toNat_real] at hfl ⊢
  simp only [hfl]
  simp

/-- one point per node, in node order: the first n nodes -/
def onGrid (y : ℕ → ℝ) (n : ℕ) : List (ℝ × ℝ) := (List.range n).map (fun i => (gridPt xmin xdiv i, y i))

theorem accum_onGrid (hd : 0 < xdiv) (y : ℕ → ℝ) : ∀ (n : ℕ), (∀ i < n, gridPt xmin xdiv i ≤ xmax) → ∀ k : ℕ,
    accum xmin xdiv xmax k (onGrid xmin xdiv y n) = if k < n then (y k, 1) else (0, 0)
  | 0, _, k => by simp [accum, onGrid]
  | n + 1, h, k => by
      have ih := accum_onGrid hd y n (fun i hi => h i (Nat.lt_succ_of_lt hi)) k
      have hstep : accum xmin xdiv xmax k (onGrid xmin xdiv y (n + 1))
          = accumStep xmin xdiv xmax k (accum xmin xdiv xmax k (onGrid xmin xdiv y n)) (gridPt xmin xdiv n, y n) := by
        simp only [accum, onGrid, List.range_succ, List.map_append, List.foldl_append, List.map_cons, List.map_nil, List.foldl_cons,
          List.foldl_nil]
      rw [hstep, ih]
      simp only [accumStep, P_weight_on_grid xmin xdiv xmax hd k n (h n (Nat.lt_succ_self n))]
      by_cases h1 : n = k
      · subst h1; simp
      · by_cases h2 : n + 1 = k
        · subst h2; simp
        · simp only [h1, h2, if_false]
          by_cases h3 : k < n
          · simp [h3, Nat.lt_succ_of_lt h3]
          · have : ¬ k < n + 1 := by omega
            simp [h3, this]

/-- P: data already on the grid — one point on every returned node, in node order — come back unchanged (every bin has accumulated
    weight exactly 1, so no empty-bin caveat applies) -/
theorem P_rebin_on_grid (hd : 0 < xdiv) (hx : xmin ≤ xmax) (y : ℕ → ℝ) :
    rebin (grid xmin xdiv xmax) ((List.range (numpts xmin xdiv xmax)).map y) xmin xdiv xmax
      = (grid xmin xdiv xmax, (List.range (numpts xmin xdiv xmax)).map y) := by
  have hzip : (grid xmin xdiv xmax).zip ((List.range (numpts xmin xdiv xmax)).map y) = onGrid xmin xdiv y (numpts xmin xdiv xmax) := by
    simp only [grid, onGrid]
    generalize List.range (numpts xmin xdiv xmax) = l
    induction l with
    | nil => rfl
    | cons a l ih => simp [ih]
  have hall : ∀ i < numpts xmin xdiv xmax, gridPt xmin xdiv i ≤ xmax := by
    intro i hi
    exact ((P_grid xmin xdiv xmax hd hx).2 (gridPt xmin xdiv i) (by simp only [grid, List.mem_map, List.mem_range]; exact ⟨i, hi, rfl⟩)).2
  simp only [rebin, hzip]
  congr 1
  apply List.map_congr_left
  intro k hk
  have hk' : k < numpts xmin xdiv xmax := List.mem_range.mp hk
  rw [accum_onGrid xmin xdiv xmax hd y _ hall k]
  simp [hk']

example : hat 0 0.5 2 1.25 = 0.5 := by
  simp [hat, gridPt]; norm_num [abs_of_nonneg]

end C20
end
