import PystogVerif.Proofs.Converter
import PystogVerif.Proofs.ListLemmas

/-!
# C04 — real-space conversions follow their definitions and invert each other

Model: generated `Converter.{g_to_G, g_to_GK, G_to_g, G_to_GK, GK_to_g, GK_to_G}` through `GenTable.gconv`.
-/

namespace C04
variable (kw : Kw ℝ) (junk : Junk ℝ)

/-- g(r) underlying any real-space function (conventional value 1 where r ≤ 0) -/
noncomputable def tog (kw : Kw ℝ) : GFn → ℝ → ℝ → ℝ
  | .g, _, v => v
  | .G, r, v => if 0 < r then v / (4 * Real.pi * kw.rho * r) + 1 else 1
  | .GK, r, v => if 0 < r then v / kw.bcoh + 1 else 1

/-- R: every generated real-space conversion is the pointwise specification (all 9 ordered pairs) -/
theorem R_conv_val (X Y : GFn) (hb : kw.bcoh ≠ 0) (hrho : 0 < kw.rho) (r y : Vec ℝ) (dy : Option (Vec ℝ))
    (hlen : r.length = y.length) :
    (GenTable.gconv X Y kw junk r y dy).1 = List.zipWith (Spec.gconv kw X Y) r y :=
  gconv_val kw junk X Y hb hrho r y dy hlen

/-- P: for r > 0 each conversion is the defining formula applied to the underlying g(r):
    G = 4πρ r (g−1), G_K = ⟨b_coh⟩² (g−1) -/
theorem P_defining_formula (X : GFn) (hb : kw.bcoh ≠ 0) (hrho : 0 < kw.rho) (r v : ℝ) (hr : 0 < r) :
    Spec.gconv kw X .g r v = tog kw X r v ∧
    Spec.gconv kw X .G r v = 4 * Real.pi * kw.rho * r * (tog kw X r v - 1) ∧
    Spec.gconv kw X .GK r v = kw.bcoh * (tog kw X r v - 1) := by
  have hr' : r ≠ 0 := ne_of_gt hr
  have hrho' : kw.rho ≠ 0 := ne_of_gt hrho
  have hpi : Real.pi ≠ 0 := Real.pi_ne_zero
  refine ⟨?_, ?_, ?_⟩ <;> cases X <;> simp only [Spec.gconv, tog, if_pos hr] <;> scalar_close

theorem P_roundtrip_pt (X Y : GFn) (hb : kw.bcoh ≠ 0) (hrho : 0 < kw.rho) (r v : ℝ) (hr : 0 < r) :
    Spec.gconv kw Y X r (Spec.gconv kw X Y r v) = v := by
  have hr' : r ≠ 0 := ne_of_gt hr
  have hrho' : kw.rho ≠ 0 := ne_of_gt hrho
  have hpi : Real.pi ≠ 0 := Real.pi_ne_zero
  cases X <;> cases Y <;> simp only [Spec.gconv, if_pos hr] <;> scalar_close

theorem P_path_pt (X Y Z : GFn) (hb : kw.bcoh ≠ 0) (hrho : 0 < kw.rho) (r v : ℝ) (hr : 0 < r) :
    Spec.gconv kw Y Z r (Spec.gconv kw X Y r v) = Spec.gconv kw X Z r v := by
  have hr' : r ≠ 0 := ne_of_gt hr
  have hrho' : kw.rho ≠ 0 := ne_of_gt hrho
  have hpi : Real.pi ≠ 0 := Real.pi_ne_zero
  cases X <;> cases Y <;> cases Z <;> simp only [Spec.gconv, if_pos hr] <;> scalar_close

/-- P: at r = 0 the results are the finite conventional values g = 1, G = 0, G_K = 0 -/
theorem P_at_zero (v : ℝ) :
    Spec.gconv kw .G .g 0 v = 1 ∧ Spec.gconv kw .GK .g 0 v = 1 ∧
    Spec.gconv kw .g .G 0 v = 0 ∧ Spec.gconv kw .GK .G 0 v = 0 ∧
    Spec.gconv kw .g .GK 0 v = 0 ∧ Spec.gconv kw .G .GK 0 v = 0 := by
  simp [Spec.gconv]

theorem P_roundtrip (X Y : GFn) (hb : kw.bcoh ≠ 0) (hrho : 0 < kw.rho) (r y : Vec ℝ) (dy dy' : Option (Vec ℝ))
    (hlen : r.length = y.length) (hr : ∀ a ∈ r, 0 < a) :
    (GenTable.gconv Y X kw junk r (GenTable.gconv X Y kw junk r y dy).1 dy').1 = y := by
  rw [gconv_val kw junk X Y hb hrho r y dy hlen, gconv_val kw junk Y X hb hrho r _ dy' (by simp [hlen]),
    zipWith_zipWith_self_right]
  exact zipWith_eq_right_of_forall _ (fun a => 0 < a) r y hlen hr
    (fun a b ha => P_roundtrip_pt kw X Y hb hrho a b ha)

theorem P_path (X Y Z : GFn) (hb : kw.bcoh ≠ 0) (hrho : 0 < kw.rho) (r y : Vec ℝ) (dy dy' dy'' : Option (Vec ℝ))
    (hlen : r.length = y.length) (hr : ∀ a ∈ r, 0 < a) :
    (GenTable.gconv Y Z kw junk r (GenTable.gconv X Y kw junk r y dy).1 dy').1
      = (GenTable.gconv X Z kw junk r y dy'').1 := by
  rw [gconv_val kw junk X Y hb hrho r y dy hlen, gconv_val kw junk Y Z hb hrho r _ dy' (by simp [hlen]),
    gconv_val kw junk X Z hb hrho r y dy'' hlen, zipWith_zipWith_self_right]
  exact zipWith_congr_of_forall _ _ (fun a => 0 < a) r y hr (fun a b ha => P_path_pt kw X Y Z hb hrho a b ha)

example : ∃ (kw : Kw ℝ) (r y : Vec ℝ), kw.bcoh ≠ 0 ∧ 0 < kw.rho ∧ r.length = y.length ∧ (∀ a ∈ r, 0 < a) ∧ y ≠ [] :=
  ⟨{ rho := 1, bcoh := 2, btot := 3 }, [1, 2], [5, 7], by norm_num, by norm_num, rfl, by simp, by simp⟩

end C04
