import PystogVerif.Gen.Facts
import PystogVerif.Gen.JunkFree

/-!
# C16 — library calls are pure: inputs untouched, results reproducible, dtype-blind

These are theorems about the *translator's analyses of the current source* (`Gen.Facts`, regenerated every run),
plus, in `Gen.JunkFree`, one generated theorem per function stating that its Lean model does not depend on the
`junk` argument (what uninitialised memory contains).  Because every translated function is a Lean function of its
arguments, "same arguments ⇒ same result irrespective of earlier calls" is definitional given these facts.
The three observables are additionally checked on the real code by the harness (argument snapshots, repeated calls
under heap poisoning, int- vs float-typed copies).
-/
namespace C16

/-- F: every function of Converter / Transformer / FourierFilter is inside the modelled subset; in particular no
    in-place update (`x *= …`, `x[i] = …`, `x[m] = …`) targets anything but a locally allocated array — the
    translator refuses a function otherwise -/
theorem F_all_translated_inplace_only_fresh : Gen.Facts.refused = [] := by decide

/-- F: no `np.divide(where=)` without `out=` is reachable from any function -/
theorem F_uninit_reads_zero : ∀ p ∈ Gen.Facts.uninitSites, p.2 = [] := by decide

/-- F: the three classes keep no state: no attribute assignment outside `__init__`, no module- or class-level
    variables, no mutable default arguments, no `global` -/
theorem F_stateless : Gen.Facts.selfAssignOutsideInit = [] ∧ Gen.Facts.moduleState = [] ∧
    Gen.Facts.mutableDefaults = [] ∧ Gen.Facts.globals = [] := by decide

/-- F: dtype abstract run over {int, float}: for every public method and every int/float assignment of its array
    parameters there is no store of a float value into an integer buffer, no in-place float update of an integer
    buffer, no `out=` integer buffer — anywhere in the call chain (private helpers included as callees) -/
theorem F_dtype_blind : Gen.Facts.dtypeFlagsPublic = [] := by decide

/-- the abstract run really enumerated assignments (non-vacuity) -/
theorem F_dtype_table_nonempty : 1000 ≤ Gen.Facts.dtypeAssignmentsEvaluated := by decide

end C16
