import PystogVerif.Proofs.Transform
import PystogVerif.Proofs.ListLemmas
import PystogVerif.Gen.Facts
import Mathlib.Analysis.SpecialFunctions.Trigonometric.Bounds

/-!
# C14 — Lorch damping multiplies by sin(πx/xmax)/(πx/xmax), equal to 1 at x = 0

Model: Lorch branch of the generated `Transformer.fourier_transform` (the `np.divide(where=, out=)` call).
`xmax` is the upper window limit when given, otherwise the largest abscissa (`winHi`).
-/
namespace C14
open Spec
variable (kw : Kw ℝ) (junk : Junk ℝ)

/-- P: the weight at x = 0 is exactly 1 -/
theorem P_weight_at_zero (a : ℝ) : lorchW a 0 = 1 := by simp [lorchW]

/-- P: elsewhere it is sin(a x)/(a x) -/
theorem P_weight_formula (a x : ℝ) (h : a * x ≠ 0) : lorchW a x = Real.sin (a * x) / (a * x) := by simp [lorchW, h]

/-- P: the weight is bounded by 1 in absolute value (damping, never amplification) — in particular finite -/
theorem P_weight_abs_le_one (a x : ℝ) : |lorchW a x| ≤ 1 := by
  unfold lorchW
  split_ifs with h
  · rw [abs_div, div_le_one (abs_pos.mpr h)]
    exact Real.abs_sin_le_abs
  · simp

/-- `{kw with lorch := b}` -/
def setLorch (kw : Kw ℝ) (b : Bool) : Kw ℝ := { kw with lorch := b }

/-- P: with the Lorch option the transform equals the plain transform of the data pre-multiplied by the weight
    sin(a x)/(a x), a = π/xmax (values; any window, any grid, no low-x correction) -/
theorem P_ft_lorch_eq_premultiplied_val (ho : kw.omitted = false) (x y xo : List ℝ) (xmin xmax : Option ℝ)
    (dy : Option (List ℝ)) (hy : x.length = y.length) (hd : ∀ d, dy = some d → x.length = d.length) :
    (Transformer.fourier_transform (setLorch kw true) junk x y xo xmin xmax dy).2.1
      = (Transformer.fourier_transform (setLorch kw false) junk x
          (List.zipWith (fun a b => lorchW (Real.pi / winHi x xmax) a * b) x y) xo xmin xmax dy).2.1 := by
  have hy' : x.length = (List.zipWith (fun a b => lorchW (Real.pi / winHi x xmax) a * b) x y).length := by simp [hy]
  rw [ft_val (setLorch kw true) junk ho x y xo xmin xmax dy hy hd,
    ft_val (setLorch kw false) junk ho x _ xo xmin xmax dy hy' hd]
  apply List.map_congr_left
  intro t _
  rw [cropL_zipWith _ _ _ x y hy, zipWith_zipWith_self_right]
  simp only [setLorch, Spec.weight, if_true, Bool.false_eq_true, if_false, one_mul]

/-- P: the same for the uncertainty channel: Lorch uncertainty = plain uncertainty of the pre-multiplied input
    uncertainties (so values, uncertainties and window all see the same weight) -/
theorem P_ft_lorch_eq_premultiplied_unc (x y xo : List ℝ) (xmin xmax : Option ℝ) (d : List ℝ)
    (hy : x.length = y.length) (hd : x.length = d.length) :
    (Transformer.fourier_transform (setLorch kw true) junk x y xo xmin xmax (some d)).2.2
      = (Transformer.fourier_transform (setLorch kw false) junk x y xo xmin xmax
          (some (List.zipWith (fun a e => lorchW (Real.pi / winHi x xmax) a * e) x d))).2.2 := by
  rw [ft_unc (setLorch kw true) junk x y xo xmin xmax (some d) hy (fun d' h => by cases h; exact hd),
    ft_unc (setLorch kw false) junk x y xo xmin xmax (some _) hy (fun d' h => by cases h; simp [hd])]
  apply List.map_congr_left
  intro t _
  simp only [Option.getD_some]
  rw [cropL_zipWith _ _ _ x d hd, zipWith_zipWith_self_right]
  simp only [setLorch, Spec.weight, if_true, Bool.false_eq_true, if_false, one_mul]

/-- F: no `np.divide(where=)` without `out=` is reachable from any function of the three modules:
    no result depends on uninitialised memory -/
theorem F_uninit_reads_zero : ∀ p ∈ Gen.Facts.uninitSites, p.2 = [] := by decide

/-- P: consequently the generated core transform does not depend on `junk` (what the allocator returned) -/
theorem P_ft_junk_irrelevant (junk' : Junk ℝ) (x y xo : List ℝ) (xmin xmax : Option ℝ) (dy : Option (List ℝ)) :
    Transformer.fourier_transform kw junk x y xo xmin xmax dy
      = Transformer.fourier_transform kw junk' x y xo xmin xmax dy := rfl

example : lorchW (Real.pi / 2) 1 = Real.sin (Real.pi / 2 * 1) / (Real.pi / 2 * 1) :=
  P_weight_formula _ _ (by have := Real.pi_pos; positivity)

end C14
