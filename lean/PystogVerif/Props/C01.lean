import PystogVerif.Proofs.Dst

/-!
# C01 — reciprocal- and real-space functions are exact sine-Fourier partners

Model: generated `Transformer.F_to_G`, `Transformer.G_to_F` (translator output).  Grids are the sine-transform-matched
uniform grids r_j = j·dr, Q_k = k·π/(N·dr), j,k = 0..N, for every N ≥ 1 and dr > 0 (no bound on N).
The closed-form continuous partners: Props/C01Gauss (the pair itself) and Props/C01Quad (explicit quadrature
error bound on uniform grids); non-uniform grids are checked numerically by the oracle (DESIGN §8 C01, §29).
-/
namespace C01
open Real Finset Spec

/-- options with nothing switched on -/
def plain (kw : Kw ℝ) : Prop := kw.lorch = false ∧ kw.omitted = false ∧ kw.xmin = none ∧ kw.xmax = none

theorem zipWith_map_range (n : ℕ) (a b : ℕ → ℝ) (g : ℝ → ℝ → ℝ) :
    List.zipWith g ((List.range n).map a) ((List.range n).map b) = (List.range n).map (fun i => g (a i) (b i)) := by
  rw [List.zipWith_map_left, List.zipWith_map_right, List.zipWith_self]

variable (kw : Kw ℝ) (junk : Junk ℝ)

/-- the core transform on an indexed uniform grid starting at 0, for data vanishing at both ends:
    the trapezoid rule becomes d·Σ φ_i sin(i d t) -/
theorem ft_uniform (hp : plain kw) (N : ℕ) (d : ℝ) (φ : ℕ → ℝ) (h0 : φ 0 = 0) (hN : φ N = 0) (xo : List ℝ) :
    (Transformer.fourier_transform kw junk ((List.range (N + 1)).map (fun i : ℕ => (i : ℝ) * d))
        ((List.range (N + 1)).map φ) xo kw.xmin kw.xmax none).2.1
      = xo.map (fun t => d * ∑ i ∈ range (N + 1), φ i * sin ((i : ℝ) * d * t)) := by
  obtain ⟨hl, ho, hmin, hmax⟩ := hp
  rw [hmin, hmax, C02.R_fourier_transform_val kw junk hl ho _ _ _ none (by simp) (by simp)]
  apply List.map_congr_left
  intro t _
  unfold T
  rw [zipWith_map_range]
  have := trapzRec_uniform 0 d (fun i => φ i * sin ((i : ℝ) * d * t)) N
  simp only [zero_add] at this
  rw [this, h0, hN]
  simp

/-- matched grids -/
noncomputable def rGrid (N : ℕ) (dr : ℝ) : List ℝ := (List.range (N + 1)).map (fun j : ℕ => (j : ℝ) * dr)
noncomputable def qGrid (N : ℕ) (dr : ℝ) : List ℝ := (List.range (N + 1)).map (fun k : ℕ => (k : ℝ) * (π / (N * dr)))

/-- R: Q→r direction on the matched grids: G_j = (2/π)·dQ·Σ_k f_k sin(π j k/N) -/
theorem R_F_to_G_grid (hp : plain kw) (N : ℕ) (hN : 0 < N) (dr : ℝ) (hdr : 0 < dr) (f : ℕ → ℝ) (h0 : f 0 = 0) (hfN : f N = 0) :
    (Transformer.F_to_G kw junk (qGrid N dr) ((List.range (N + 1)).map f) (rGrid N dr) none).2.1
      = (List.range (N + 1)).map
          (fun j : ℕ => (2 / π) * ((π / (N * dr)) * ∑ k ∈ range (N + 1), f k * sin (π * j * k / N))) := by
  have hNr : (N : ℝ) ≠ 0 := by exact_mod_cast hN.ne'
  have hd : dr ≠ 0 := hdr.ne'
  simp only [Transformer.F_to_G, qGrid]
  rw [ft_uniform kw junk hp N (π / (N * dr)) f h0 hfN]
  simp only [Vec.mulS, rGrid, List.map_map]
  apply List.map_congr_left
  intro j _
  simp only [Function.comp, Nat.cast_ofNat, Transc.pi_real]
  rw [mul_comm]
  congr 2
  apply Finset.sum_congr rfl
  intro k _
  congr 2
  field_simp

/-- R: r→Q direction on the matched grids is the bare kernel: F_k = dr·Σ_j G_j sin(π j k/N) -/
theorem R_G_to_F_grid (hp : plain kw) (N : ℕ) (hN : 0 < N) (dr : ℝ) (hdr : 0 < dr) (G : ℕ → ℝ) (h0 : G 0 = 0) (hGN : G N = 0) :
    (Transformer.G_to_F kw junk (rGrid N dr) ((List.range (N + 1)).map G) (qGrid N dr) none).2.1
      = (List.range (N + 1)).map (fun k : ℕ => dr * ∑ j ∈ range (N + 1), G j * sin (π * j * k / N)) := by
  have hNr : (N : ℝ) ≠ 0 := by exact_mod_cast hN.ne'
  have hd : dr ≠ 0 := hdr.ne'
  simp only [Transformer.G_to_F, rGrid]
  rw [ft_uniform kw junk hp N dr G h0 hGN]
  simp only [qGrid, List.map_map]
  apply List.map_congr_left
  intro k _
  simp only [Function.comp]
  congr 1
  apply Finset.sum_congr rfl
  intro j _
  congr 2
  field_simp

theorem sin_pi_N_mul (N k : ℕ) (hN : 0 < N) : sin (π * (N : ℝ) * k / N) = 0 := by
  have hNr : (N : ℝ) ≠ 0 := by exact_mod_cast hN.ne'
  have : π * (N : ℝ) * k / N = k * π := by field_simp
  rw [this]; exact sin_nat_mul_pi k

theorem sin_pi_mul_N (N j : ℕ) (hN : 0 < N) : sin (π * (j : ℝ) * N / N) = 0 := by
  have hNr : (N : ℝ) ≠ 0 := by exact_mod_cast hN.ne'
  have : π * (j : ℝ) * N / N = j * π := by field_simp
  rw [this]; exact sin_nat_mul_pi j

/-- P: transforming Q[S−1] to G(r) and back returns the original, for every N ≥ 1, dr > 0 and every data vector
    vanishing at the two end points (exact in ℝ, i.e. "to rounding error") -/
theorem P_G_to_F_F_to_G (hp : plain kw) (N : ℕ) (hN : 0 < N) (dr : ℝ) (hdr : 0 < dr)
    (f : ℕ → ℝ) (h0 : f 0 = 0) (hfN : f N = 0) :
    (Transformer.G_to_F kw junk (rGrid N dr)
        (Transformer.F_to_G kw junk (qGrid N dr) ((List.range (N + 1)).map f) (rGrid N dr) none).2.1
        (qGrid N dr) none).2.1 = (List.range (N + 1)).map f := by
  have hNr : (N : ℝ) ≠ 0 := by exact_mod_cast hN.ne'
  have hd : dr ≠ 0 := hdr.ne'
  rw [R_F_to_G_grid kw junk hp N hN dr hdr f h0 hfN]
  set G : ℕ → ℝ := fun j => (2 / π) * ((π / (N * dr)) * ∑ k ∈ range (N + 1), f k * sin (π * j * k / N)) with hGdef
  have hG0 : G 0 = 0 := by simp [hGdef]
  have hGN : G N = 0 := by simp [hGdef, sin_pi_N_mul N _ hN]
  rw [R_G_to_F_grid kw junk hp N hN dr hdr G hG0 hGN]
  apply List.map_congr_left
  intro l hl
  have hl' : l ≤ N := Nat.lt_succ_iff.mp (List.mem_range.mp hl)
  have key := dst_roundtrip N hN f h0 hfN l hl'
  have e : ∀ j ∈ range (N + 1), G j * sin (π * j * l / N)
      = (2 / π) * (π / (N * dr)) * ((∑ k ∈ range (N + 1), f k * sin (π * j * k / N)) * sin (π * j * l / N)) := by
    intro j _
    simp only [hGdef]; ring
  rw [Finset.sum_congr rfl e, ← Finset.mul_sum, key]
  have hpi : π ≠ 0 := Real.pi_ne_zero
  field_simp

/-- P: transforming G(r) to Q[S−1] and back returns the original -/
theorem P_F_to_G_G_to_F (hp : plain kw) (N : ℕ) (hN : 0 < N) (dr : ℝ) (hdr : 0 < dr)
    (G : ℕ → ℝ) (h0 : G 0 = 0) (hGN : G N = 0) :
    (Transformer.F_to_G kw junk (qGrid N dr)
        (Transformer.G_to_F kw junk (rGrid N dr) ((List.range (N + 1)).map G) (qGrid N dr) none).2.1
        (rGrid N dr) none).2.1 = (List.range (N + 1)).map G := by
  have hNr : (N : ℝ) ≠ 0 := by exact_mod_cast hN.ne'
  have hd : dr ≠ 0 := hdr.ne'
  rw [R_G_to_F_grid kw junk hp N hN dr hdr G h0 hGN]
  set f : ℕ → ℝ := fun k => dr * ∑ j ∈ range (N + 1), G j * sin (π * j * k / N) with hfdef
  have hf0 : f 0 = 0 := by simp [hfdef]
  have hfN : f N = 0 := by
    simp only [hfdef]
    have : ∀ j : ℕ, sin (π * (j : ℝ) * N / N) = 0 := by
      intro j
      have : π * (j : ℝ) * N / N = j * π := by field_simp
      rw [this]; exact sin_nat_mul_pi j
    simp [this]
  rw [R_F_to_G_grid kw junk hp N hN dr hdr f hf0 hfN]
  apply List.map_congr_left
  intro l hl
  have hl' : l ≤ N := Nat.lt_succ_iff.mp (List.mem_range.mp hl)
  have key := dst_roundtrip N hN G h0 hGN l hl'
  have e : ∀ k ∈ range (N + 1), f k * sin (π * l * k / N)
      = dr * ((∑ j ∈ range (N + 1), G j * sin (π * k * j / N)) * sin (π * k * l / N)) := by
    intro k _
    simp only [hfdef]
    have e1 : ∀ j : ℕ, sin (π * (j : ℝ) * k / N) = sin (π * k * j / N) := by intro j; congr 1; ring
    have e2 : sin (π * (l : ℝ) * k / N) = sin (π * k * l / N) := by congr 1; ring
    simp only [e1, e2]; ring
  rw [Finset.sum_congr rfl e, ← Finset.mul_sum, key]
  have hpi : π ≠ 0 := Real.pi_ne_zero
  field_simp

/-- P: each direction separately returns the closed-form discrete partner, which pins the 2/π to the Q→r direction:
    the sine mode sin(Q_k r_m) in Q-space transforms to the spike δ_jm/dr in r-space … -/
theorem P_F_to_G_basis (hp : plain kw) (N : ℕ) (hN : 0 < N) (dr : ℝ) (hdr : 0 < dr) (m : ℕ) (hm0 : 0 < m) (hmN : m < N) :
    (Transformer.F_to_G kw junk (qGrid N dr) ((List.range (N + 1)).map (fun k : ℕ => sin (π * m * k / N)))
        (rGrid N dr) none).2.1
      = (List.range (N + 1)).map (fun j : ℕ => if j = m then 1 / dr else 0) := by
  have hNr : (N : ℝ) ≠ 0 := by exact_mod_cast hN.ne'
  have hd : dr ≠ 0 := hdr.ne'
  rw [R_F_to_G_grid kw junk hp N hN dr hdr _ (by simp) (sin_pi_mul_N N m hN)]
  apply List.map_congr_left
  intro j hj
  have hj' : j ≤ N := Nat.lt_succ_iff.mp (List.mem_range.mp hj)
  have key := sinsin_sum N m j hN hmN.le hj'
  have e : ∀ k ∈ range (N + 1), sin (π * m * k / N) * sin (π * j * k / N) = sin (π * k * m / N) * sin (π * k * j / N) := by
    intro k _
    congr 1 <;> (congr 1; ring)
  rw [Finset.sum_congr rfl e, key]
  have hpi : π ≠ 0 := Real.pi_ne_zero
  by_cases h : j = m
  · subst h; simp [hm0, hmN]; field_simp
  · have : ¬ (m = j ∧ 0 < m ∧ m < N) := fun hh => h hh.1.symm
    simp [h, this]

/-- … and the spike δ_m/dr in r-space transforms back to sin(Q_k r_m) with the bare kernel (no 2/π) -/
theorem P_G_to_F_basis (hp : plain kw) (N : ℕ) (hN : 0 < N) (dr : ℝ) (hdr : 0 < dr) (m : ℕ) (hm0 : 0 < m) (hmN : m < N) :
    (Transformer.G_to_F kw junk (rGrid N dr) ((List.range (N + 1)).map (fun j : ℕ => if j = m then 1 / dr else 0))
        (qGrid N dr) none).2.1
      = (List.range (N + 1)).map (fun k : ℕ => sin (((k : ℝ) * (π / (N * dr))) * ((m : ℝ) * dr))) := by
  have hNr : (N : ℝ) ≠ 0 := by exact_mod_cast hN.ne'
  have hd : dr ≠ 0 := hdr.ne'
  rw [R_G_to_F_grid kw junk hp N hN dr hdr _ (by simp [hm0.ne]) (by simp [hmN.ne'])]
  apply List.map_congr_left
  intro k _
  rw [Finset.sum_eq_single m]
  · simp only [if_true]
    have : (k : ℝ) * (π / (N * dr)) * ((m : ℝ) * dr) = π * m * k / N := by field_simp
    rw [this]; field_simp
  · intro j _ hjm; simp [hjm]
  · intro h; exact absurd (mem_range.mpr (by omega)) h

/-- X: the hypotheses are satisfiable (N = 2, data (0, 1, 0)) -/
example : ∃ (N : ℕ) (f : ℕ → ℝ), 0 < N ∧ f 0 = 0 ∧ f N = 0 ∧ f 1 ≠ 0 :=
  ⟨2, fun k => if k = 1 then 1 else 0, by norm_num, by simp, by simp, by simp⟩

end C01
