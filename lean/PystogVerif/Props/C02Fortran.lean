import PystogVerif.Model.Fortran
import PystogVerif.Proofs.Trapz

/-!
# The Fortran reference routine `stog_bit` (hand model `Model/Fortran.lean`, bit-exact against the compiled routine in the
  correspondence run) versus the Python port — the transform loop (C02)
-/
noncomputable section
open Spec
namespace C02Fortran

/-- un-weighted trapezoid sum Σ (K_{i+1} + K_i)/2 -/
def halfSum : List ℝ → ℝ
  | k0 :: k1 :: ks => (k1 + k0) / 2 + halfSum (k1 :: ks)
  | _ => 0

/-- the Fortran inner loop accumulates the un-weighted trapezoid sum of K_i = sin(x_i R)·k_i -/
theorem fsLoop_eq (rp : ℝ) : ∀ (x k : List ℝ) (acc : ℝ), x.length = k.length →
    Fortran.fsLoop rp x k acc = acc + halfSum (List.zipWith (fun a b => b * Real.sin (a * rp)) x k)
  | [], [], acc, _ => by simp [Fortran.fsLoop, halfSum]
  | [_], [_], acc, _ => by simp [Fortran.fsLoop, halfSum]
  | x0 :: x1 :: xs, k0 :: k1 :: ks, acc, h => by
      have ih := fsLoop_eq rp (x1 :: xs) (k1 :: ks)
        (acc + (Real.sin (x1 * rp) * k1 + Real.sin (x0 * rp) * k0) / 2) (by simpa using h)
      simp only [Fortran.fsLoop, Transc.sin_real, Nat.cast_ofNat]
      rw [ih]
      simp only [List.zipWith_cons_cons, halfSum]
      ring
  | [], _ :: _, _, h => by simp at h
  | _ :: _, [], _, h => by simp at h
  | [_], _ :: _ :: _, _, h => by simp at h
  | _ :: _ :: _, [_], _, h => by simp at h

/-- consecutive abscissae differ by d -/
def Uniform (d : ℝ) : List ℝ → Prop
  | x0 :: x1 :: xs => x1 - x0 = d ∧ Uniform d (x1 :: xs)
  | _ => True

/-- on a uniform grid the trapezoid rule is d times the un-weighted sum -/
theorem trapzRec_uniform_halfSum (d : ℝ) : ∀ (x k : List ℝ), x.length = k.length → Uniform d x → trapzRec x k = d * halfSum k
  | x0 :: x1 :: xs, k0 :: k1 :: ks, hl, h => by
      have ih := trapzRec_uniform_halfSum d (x1 :: xs) (k1 :: ks) (by simpa using hl) h.2
      simp only [trapzRec, halfSum, h.1, ih]; ring
  | [], [], _, _ => by simp [trapzRec, halfSum]
  | [_], [_], _, _ => by simp [trapzRec, halfSum]
  | [], _ :: _, hl, _ => by simp at hl
  | [_], [], hl, _ => by simp at hl
  | [_], _ :: _ :: _, hl, _ => by simp at hl
  | _ :: _ :: _, [], hl, _ => by simp at hl
  | _ :: _ :: _, [_], hl, _ => by simp at hl

/-- P (C02): on a uniform grid the Fortran transform loop `FS·AFACT` (AFACT = Δq·2/π) equals (2/π)·T[x, ynew](R),
    the quadrature of the port (Q→r direction) -/
theorem P_fortran_FS_uniform (d rp : ℝ) (x k : List ℝ) (h : x.length = k.length) (hu : Uniform d x) :
    Fortran.fsLoop rp x k 0 * (d * 2 / Real.pi) = 2 / Real.pi * T x k rp := by
  rw [fsLoop_eq rp x k 0 h, zero_add]
  unfold T
  rw [trapzRec_uniform_halfSum d x _ (by simp [h]) hu]
  ring

/-- the Fortran's Δq = (x_last − x_1)/(n−1) is the grid spacing on a uniform grid with at least two points -/
theorem delq_uniform (d : ℝ) : ∀ (x : List ℝ), Uniform d x → 2 ≤ x.length →
    Fortran.last x - x.headD 0 = ((x.length - 1 : ℕ) : ℝ) * d
  | [x0, x1], h, _ => by simp [Fortran.last, ← h.1]
  | x0 :: x1 :: x2 :: xs, h, _ => by
      have ih := delq_uniform d (x1 :: x2 :: xs) h.2 (by simp)
      simp only [Fortran.last, List.getLastD_cons, List.headD_cons, List.length_cons] at ih ⊢
      have : x1 - x0 = d := h.1
      have e1 : ((xs.length + 1 + 1 - 1 : ℕ) : ℝ) = (xs.length : ℝ) + 1 := by
        have : xs.length + 1 + 1 - 1 = xs.length + 1 := by omega
        rw [this]; push_cast; ring
      have e2 : ((xs.length + 1 + 1 + 1 - 1 : ℕ) : ℝ) = (xs.length : ℝ) + 2 := by
        have : xs.length + 1 + 1 + 1 - 1 = xs.length + 2 := by omega
        rw [this]; push_cast; ring
      rw [e1] at ih
      rw [e2]
      linarith
  | [], _, h => by simp at h
  | [_], _, h => by simp at h

end C02Fortran
end
