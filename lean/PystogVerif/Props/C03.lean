import PystogVerif.Proofs.Converter
import PystogVerif.Proofs.ListLemmas

/-!
# C03 — reciprocal-space conversions follow their definitions and invert each other

Model: the *generated* `Converter` functions (`GenTable.rconv X Y` selects the one from kind `X` to
kind `Y`); `Spec.rconv` / `Spec.toS` are the pointwise definitions.  α := ℝ.
-/

namespace C03
variable (kw : Kw ℝ) (junk : Junk ℝ)

/-- R: every generated reciprocal-space conversion is the pointwise specification (all 16 ordered pairs) -/
theorem R_conv_val (X Y : RFn) (hb : kw.bcoh ≠ 0) (q y : Vec ℝ) (dy : Option (Vec ℝ)) (hlen : q.length = y.length) :
    (GenTable.rconv X Y kw junk q y dy).1 = List.zipWith (Spec.rconv kw X Y) q y :=
  rconv_val kw junk X Y hb q y dy hlen

/-- P: for Q > 0 each conversion is the defining formula applied to the underlying S(Q):
    S itself, Q(S−1), ⟨b_coh⟩²(S−1), ⟨b_coh⟩²(S−1)+⟨b_tot²⟩ -/
theorem P_defining_formula (X : RFn) (hb : kw.bcoh ≠ 0) (q v : ℝ) (hq : 0 < q) :
    Spec.rconv kw X .S q v = Spec.toS kw X q v ∧
    Spec.rconv kw X .F q v = q * (Spec.toS kw X q v - 1) ∧
    Spec.rconv kw X .FK q v = kw.bcoh * (Spec.toS kw X q v - 1) ∧
    Spec.rconv kw X .DCS q v = kw.bcoh * (Spec.toS kw X q v - 1) + kw.btot := by
  have hq' : q ≠ 0 := ne_of_gt hq
  refine ⟨?_, ?_, ?_, ?_⟩ <;> cases X <;> simp only [Spec.rconv, Spec.toS, if_pos hq] <;> scalar_close

/-- P: there and back is the identity for Q > 0 (12 ordered pairs + 4 trivial) -/
theorem P_roundtrip_pt (X Y : RFn) (hb : kw.bcoh ≠ 0) (q v : ℝ) (hq : 0 < q) :
    Spec.rconv kw Y X q (Spec.rconv kw X Y q v) = v := by
  have hq' : q ≠ 0 := ne_of_gt hq
  cases X <;> cases Y <;> simp only [Spec.rconv, if_pos hq] <;> scalar_close

/-- P: going through an intermediate function equals the direct conversion for Q > 0 (all 64 triples) -/
theorem P_path_pt (X Y Z : RFn) (hb : kw.bcoh ≠ 0) (q v : ℝ) (hq : 0 < q) :
    Spec.rconv kw Y Z q (Spec.rconv kw X Y q v) = Spec.rconv kw X Z q v := by
  have hq' : q ≠ 0 := ne_of_gt hq
  cases X <;> cases Y <;> cases Z <;> simp only [Spec.rconv, if_pos hq] <;> scalar_close

/-- P: where Q ≤ 0 the results are the finite conventional values: S = 1 and F_K = 0 (from S or Q[S−1]) -/
theorem P_at_zero (q v : ℝ) (hq : q ≤ 0) :
    Spec.rconv kw .F .S q v = 1 ∧ Spec.rconv kw .FK .S q v = 1 ∧ Spec.rconv kw .DCS .S q v = 1 ∧
    Spec.rconv kw .S .FK q v = 0 ∧ Spec.rconv kw .F .FK q v = 0 ∧
    Spec.rconv kw .S .DCS q v = kw.btot ∧ Spec.rconv kw .F .DCS q v = kw.btot := by
  have : ¬ 0 < q := not_lt.mpr hq
  simp [Spec.rconv, this]

/-- the guarded division of the code: the quotient where the denominator is positive, 0 elsewhere;
    in particular no division by a non-positive denominator contributes to any result -/
theorem R_safe_divide (n d : Vec ℝ) (hlen : n.length = d.length) :
    Converter._safe_divide kw junk n d = List.zipWith (fun n d => if 0 < d then n / d else 0) n d := by
  pointwise2 n d hlen []

/-- P (list level): converting there and back with the generated code returns the input, for every grid with
    Q > 0 everywhere, every data vector and every uncertainty argument -/
theorem P_roundtrip (X Y : RFn) (hb : kw.bcoh ≠ 0) (q y : Vec ℝ) (dy dy' : Option (Vec ℝ))
    (hlen : q.length = y.length) (hq : ∀ a ∈ q, 0 < a) :
    (GenTable.rconv Y X kw junk q (GenTable.rconv X Y kw junk q y dy).1 dy').1 = y := by
  rw [rconv_val kw junk X Y hb q y dy hlen, rconv_val kw junk Y X hb q _ dy' (by simp [hlen]),
    zipWith_zipWith_self_right]
  exact zipWith_eq_right_of_forall _ (fun a => 0 < a) q y hlen hq
    (fun a b ha => P_roundtrip_pt kw X Y hb a b ha)

/-- P (list level): any two-step path equals the direct conversion -/
theorem P_path (X Y Z : RFn) (hb : kw.bcoh ≠ 0) (q y : Vec ℝ) (dy dy' dy'' : Option (Vec ℝ))
    (hlen : q.length = y.length) (hq : ∀ a ∈ q, 0 < a) :
    (GenTable.rconv Y Z kw junk q (GenTable.rconv X Y kw junk q y dy).1 dy').1
      = (GenTable.rconv X Z kw junk q y dy'').1 := by
  rw [rconv_val kw junk X Y hb q y dy hlen, rconv_val kw junk Y Z hb q _ dy' (by simp [hlen]),
    rconv_val kw junk X Z hb q y dy'' hlen, zipWith_zipWith_self_right]
  exact zipWith_congr_of_forall _ _ (fun a => 0 < a) q y hq (fun a b ha => P_path_pt kw X Y Z hb a b ha)

/-- X: the hypotheses are satisfiable by a concrete non-trivial instance -/
example : ∃ (kw : Kw ℝ) (q y : Vec ℝ), kw.bcoh ≠ 0 ∧ q.length = y.length ∧ (∀ a ∈ q, 0 < a) ∧ y ≠ [] :=
  ⟨{ rho := 1, bcoh := 2, btot := 3 }, [1, 2], [5, 7], by norm_num, rfl, by simp, by simp⟩

end C03
