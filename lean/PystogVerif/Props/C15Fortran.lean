import PystogVerif.Model.Fortran
import PystogVerif.Props.C15

/-!
# The Fortran reference routine `stog_bit` (hand model `Model/Fortran.lean`, bit-exact against the compiled routine in the
  correspondence run) versus the Python port — the analytic low-Q term (C15)
-/
noncomputable section
open Spec
namespace C15Fortran

/-- P (C15): the Fortran analytic low-Q term `yDS` is (2/π) times the term the port adds, for Qmin ≠ 0 and r ≠ 0 and — with
    the Lorch window — r ≠ ±π/Qmax, where the Fortran quotients are 0/0 (the port uses the sinc forms there, C15) -/
theorem P_term_eq_fortran_yDS (lmod : Bool) (qmin smin qmax r : ℝ) (hq : qmin ≠ 0) (hr : r ≠ 0)
    (hm : lmod = true → r - Real.pi / qmax ≠ 0) (hp : lmod = true → r + Real.pi / qmax ≠ 0) :
    Fortran.yDS lmod qmin smin (Real.pi / qmax) r = 2 / Real.pi * C15.codeTerm lmod qmin smin qmax r := by
  cases lmod
  · simp only [Fortran.yDS, C15.codeTerm, Bool.false_eq_true, if_false, hq, hr, ne_eq, not_false_eq_true, if_true,
      Transc.sin_real, Transc.cos_real, Transc.pi_real, Nat.cast_ofNat]
    field_simp
  · rw [C15.P_term_lorch_quotient_form qmin smin qmax r (hm rfl) (hp rfl)]
    simp only [Fortran.yDS, if_true, hq, ne_eq, not_false_eq_true, Transc.sin_real, Transc.cos_real,
      Transc.pi_real, Nat.cast_ofNat, Nat.cast_one]
    ring

end C15Fortran
end
