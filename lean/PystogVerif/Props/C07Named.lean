import PystogVerif.Props.C07
import PystogVerif.Props.C05
import PystogVerif.Props.C08All

/-!
# C07 — the uncertainties returned by the 24 named transforms

C07's theorems are about the core transform; C05 shows every named transform is conversion ∘ core ∘ conversion *by unfolding*.  Here the two are
joined with the conversion refinements (C03/C04/C06): the uncertainty a named transform returns is

  (∂Y/∂core at the output abscissa) · [core uncertainty of (∂core/∂X at the input abscissa) · dX]

entry by entry — the supplied uncertainty, converted once, reaches the core; the core's result is converted once.  A wrapper that hands the
*unconverted* uncertainty to the core, drops it, or converts it twice falsifies these equations.
-/
namespace C07
open Spec
variable (kw : Kw ℝ) (junk : Junk ℝ)

theorem gslope_GG : (fun (r e : ℝ) => Spec.gslope kw .G .G r * e) = fun (_ : ℝ) (e : ℝ) => (1 : ℝ) * e := by funext a b; rfl

theorem inG_unc (X : GFn) (hb : kw.bcoh ≠ 0) (hrho : 0 < kw.rho) (r y d : Vec ℝ) (h : r.length = y.length) (hd : r.length = d.length) :
    (GenTable.inG X kw junk r y (some d)).2 = some (List.zipWith (fun r e => Spec.gslope kw X .G r * e) r d) := by
  cases X
  case G => rw [gslope_GG, C08.zipWith_one_mul r d hd]; rfl
  all_goals
    simp only [GenTable.inG]
    rw [gconv_unc kw junk _ .G hb hrho r y (some d) h (fun d' hd' => by cases hd'; exact hd)]
    rfl

theorem inR_unc (X : RFn) (hb : kw.bcoh ≠ 0) (q y d : Vec ℝ) (h : q.length = y.length) (hd : q.length = d.length) :
    (GenTable.inR X kw junk q y (some d)).2 = some (List.zipWith (fun q e => Spec.rslope kw X .F q * e) q d) := by
  cases X
  case F => rw [C08.rslope_FF, C08.zipWith_one_mul q d hd]; rfl
  all_goals
    simp only [GenTable.inR]
    rw [rconv_unc kw junk _ .F hb q y (some d) h (fun d' hd' => by cases hd'; exact hd)]
    rfl

theorem outR_unc (Y : RFn) (hb : kw.bcoh ≠ 0) (q v dv : Vec ℝ) (h : q.length = v.length) (hd : q.length = dv.length) :
    (GenTable.outR Y kw junk q v dv).2 = List.zipWith (fun q e => Spec.rslope kw .F Y q * e) q dv := by
  cases Y
  case F => rw [C08.rslope_FF, C08.zipWith_one_mul q dv hd]; rfl
  all_goals exact rconv_unc kw junk .F _ hb q v (some dv) h (fun d hdd => by cases hdd; exact hd)

theorem outG_unc (Y : GFn) (hb : kw.bcoh ≠ 0) (hrho : 0 < kw.rho) (r v dv : Vec ℝ) (h : r.length = v.length) (hd : r.length = dv.length) :
    (GenTable.outG Y kw junk r v dv).2 = List.zipWith (fun r e => Spec.gslope kw .G Y r * e) r dv := by
  cases Y
  case G => rw [gslope_GG, C08.zipWith_one_mul r dv hd]; rfl
  all_goals exact gconv_unc kw junk .G _ hb hrho r v (some dv) h (fun d hdd => by cases hdd; exact hd)

theorem F_to_G_lengths (q f r : Vec ℝ) (d : Option (Vec ℝ)) :
    (Transformer.F_to_G kw junk q f r d).2.1.length = r.length ∧ (Transformer.F_to_G kw junk q f r d).2.2.length = r.length := by
  simp only [Transformer.F_to_G, Vec.mulS, List.length_map]
  exact C08.ft_lengths kw junk q f r kw.xmin kw.xmax d

/-- **P (12 real → reciprocal transforms)**: returned uncertainty = ∂Y/∂(Q[S−1]) · core uncertainty of ∂G/∂X · dX -/
theorem P_r2q_unc (X : GFn) (Y : RFn) (hb : kw.bcoh ≠ 0) (hrho : 0 < kw.rho) (r y q d : Vec ℝ)
    (hy : r.length = y.length) (hd : r.length = d.length) :
    (GenTable.r2q X Y kw junk r y q (some d)).2.2
      = List.zipWith (fun q e => Spec.rslope kw .F Y q * e) q
          (Transformer.G_to_F kw junk r (GenTable.inG X kw junk r y (some d)).1 q
            (some (List.zipWith (fun r e => Spec.gslope kw X .G r * e) r d))).2.2 := by
  rw [C05.P_r2q_factor]
  simp only []
  rw [inG_unc kw junk X hb hrho r y d hy hd]
  set t := Transformer.G_to_F kw junk r (GenTable.inG X kw junk r y (some d)).1 q
    (some (List.zipWith (fun r e => Spec.gslope kw X .G r * e) r d))
  have h1 : t.1 = q := rfl
  have hl := C08.ft_lengths kw junk r (GenTable.inG X kw junk r y (some d)).1 q kw.xmin kw.xmax
    (some (List.zipWith (fun r e => Spec.gslope kw X .G r * e) r d))
  rw [h1]
  exact outR_unc kw junk Y hb q t.2.1 t.2.2 hl.1.symm hl.2.symm

/-- **P (12 reciprocal → real transforms)**: returned uncertainty = ∂Y/∂G · core (2/π-scaled) uncertainty of ∂(Q[S−1])/∂X · dX -/
theorem P_q2r_unc (X : RFn) (Y : GFn) (hb : kw.bcoh ≠ 0) (hrho : 0 < kw.rho) (q y r d : Vec ℝ)
    (hy : q.length = y.length) (hd : q.length = d.length) :
    (GenTable.q2r X Y kw junk q y r (some d)).2.2
      = List.zipWith (fun r e => Spec.gslope kw .G Y r * e) r
          (Transformer.F_to_G kw junk q (GenTable.inR X kw junk q y (some d)).1 r
            (some (List.zipWith (fun q e => Spec.rslope kw X .F q * e) q d))).2.2 := by
  rw [C05.P_q2r_factor]
  simp only []
  rw [inR_unc kw junk X hb q y d hy hd]
  set t := Transformer.F_to_G kw junk q (GenTable.inR X kw junk q y (some d)).1 r
    (some (List.zipWith (fun q e => Spec.rslope kw X .F q * e) q d))
  have h1 : t.1 = r := rfl
  have hl := F_to_G_lengths kw junk q (GenTable.inR X kw junk q y (some d)).1 r
    (some (List.zipWith (fun q e => Spec.rslope kw X .F q * e) q d))
  have hl1 : t.2.1.length = r.length := hl.1
  have hl2 : t.2.2.length = r.length := hl.2
  rw [h1]
  exact outG_unc kw junk Y hb hrho r t.2.1 t.2.2 hl1.symm hl2.symm

example : GenTable.r2q .GK .DCS = Transformer.GK_to_DCS := rfl

end C07
