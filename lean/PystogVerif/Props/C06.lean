import PystogVerif.Proofs.Converter
import PystogVerif.Proofs.ListLemmas
import Mathlib.Analysis.Calculus.Deriv.Add
import Mathlib.Analysis.Calculus.Deriv.Mul

/-!
# C06 — conversions propagate uncertainties to first order, independently of values

Model: second component of every generated `Converter` function (both spaces).
`Spec.rslope X Y q` / `Spec.gslope X Y r` is proved to be the derivative of the value map, and the
generated uncertainty is `slope · e`, hence `|∂Y/∂X| · e` wherever the slope is non-negative.
-/

namespace C06
variable (kw : Kw ℝ) (junk : Junk ℝ)

/-- R: uncertainty output of every reciprocal-space conversion = slope · input uncertainty (zeros if none given) -/
theorem R_rconv_unc (X Y : RFn) (hb : kw.bcoh ≠ 0) (q y : Vec ℝ) (dy : Option (Vec ℝ)) (hlen : q.length = y.length)
    (hd : ∀ d, dy = some d → q.length = d.length) :
    (GenTable.rconv X Y kw junk q y dy).2
      = List.zipWith (fun q e => Spec.rslope kw X Y q * e) q (dy.getD (Vec.zerosLike y)) :=
  rconv_unc kw junk X Y hb q y dy hlen hd

theorem R_gconv_unc (X Y : GFn) (hb : kw.bcoh ≠ 0) (hrho : 0 < kw.rho) (r y : Vec ℝ) (dy : Option (Vec ℝ))
    (hlen : r.length = y.length) (hd : ∀ d, dy = some d → r.length = d.length) :
    (GenTable.gconv X Y kw junk r y dy).2
      = List.zipWith (fun r e => Spec.gslope kw X Y r * e) r (dy.getD (Vec.zerosLike y)) :=
  gconv_unc kw junk X Y hb hrho r y dy hlen hd

/-- every conversion is affine in the value, with slope `rslope` -/
theorem rconv_affine (X Y : RFn) (q v : ℝ) :
    Spec.rconv kw X Y q v = Spec.rslope kw X Y q * v + Spec.rconv kw X Y q 0 := by
  by_cases hq : 0 < q <;> cases X <;> cases Y <;> simp only [Spec.rconv, Spec.rslope, hq, if_true, if_false] <;> ring

theorem gconv_affine (X Y : GFn) (r v : ℝ) :
    Spec.gconv kw X Y r v = Spec.gslope kw X Y r * v + Spec.gconv kw X Y r 0 := by
  by_cases hr : 0 < r <;> cases X <;> cases Y <;> simp only [Spec.gconv, Spec.gslope, hr, if_true, if_false] <;> ring

/-- P: the slope *is* the derivative of the value conversion (additive constants contribute nothing) -/
theorem P_rslope_is_derivative (X Y : RFn) (q v : ℝ) :
    HasDerivAt (fun v => Spec.rconv kw X Y q v) (Spec.rslope kw X Y q) v := by
  have h : (fun v => Spec.rconv kw X Y q v) = fun v => Spec.rslope kw X Y q * v + Spec.rconv kw X Y q 0 :=
    funext (rconv_affine kw X Y q)
  rw [h]
  simpa using ((hasDerivAt_id v).const_mul (Spec.rslope kw X Y q)).add_const (Spec.rconv kw X Y q 0)

theorem P_gslope_is_derivative (X Y : GFn) (r v : ℝ) :
    HasDerivAt (fun v => Spec.gconv kw X Y r v) (Spec.gslope kw X Y r) v := by
  have h : (fun v => Spec.gconv kw X Y r v) = fun v => Spec.gslope kw X Y r * v + Spec.gconv kw X Y r 0 :=
    funext (gconv_affine kw X Y r)
  rw [h]
  simpa using ((hasDerivAt_id v).const_mul (Spec.gslope kw X Y r)).add_const (Spec.gconv kw X Y r 0)

/-- P: slopes are non-negative for positive abscissa, density and ⟨b_coh⟩², so `slope·e = |∂Y/∂X|·e` -/
theorem P_rslope_nonneg (X Y : RFn) (hb : 0 < kw.bcoh) (q : ℝ) (hq : 0 ≤ q) : 0 ≤ Spec.rslope kw X Y q := by
  cases X <;> cases Y <;> simp only [Spec.rslope] <;> (try split_ifs) <;> positivity

theorem P_gslope_nonneg (X Y : GFn) (hb : 0 < kw.bcoh) (hrho : 0 < kw.rho) (r : ℝ) (hr : 0 ≤ r) :
    0 ≤ Spec.gslope kw X Y r := by
  have := Real.pi_pos
  cases X <;> cases Y <;> simp only [Spec.gslope] <;> (try split_ifs) <;> positivity

/-- P: the returned uncertainty is |∂Y/∂X| · e -/
theorem P_unc_is_abs_derivative (X Y : RFn) (hb : 0 < kw.bcoh) (q e v : ℝ) (hq : 0 ≤ q) :
    Spec.rslope kw X Y q * e = |deriv (fun v => Spec.rconv kw X Y q v) v| * e := by
  rw [(P_rslope_is_derivative kw X Y q v).deriv, abs_of_nonneg (P_rslope_nonneg kw X Y hb q hq)]

theorem P_unc_is_abs_derivative_real (X Y : GFn) (hb : 0 < kw.bcoh) (hrho : 0 < kw.rho) (r e v : ℝ) (hr : 0 ≤ r) :
    Spec.gslope kw X Y r * e = |deriv (fun v => Spec.gconv kw X Y r v) v| * e := by
  rw [(P_gslope_is_derivative kw X Y r v).deriv, abs_of_nonneg (P_gslope_nonneg kw X Y hb hrho r hr)]

/-- P: the uncertainty output does not depend on the function values -/
theorem P_unc_value_independent (X Y : RFn) (hb : kw.bcoh ≠ 0) (q y y' : Vec ℝ) (dy : Option (Vec ℝ))
    (hlen : q.length = y.length) (hlen' : q.length = y'.length) (hd : ∀ d, dy = some d → q.length = d.length) :
    (GenTable.rconv X Y kw junk q y dy).2 = (GenTable.rconv X Y kw junk q y' dy).2 := by
  rw [rconv_unc kw junk X Y hb q y dy hlen hd, rconv_unc kw junk X Y hb q y' dy hlen' hd]
  cases dy <;> simp [Vec.zerosLike, ← hlen, ← hlen']

theorem P_unc_value_independent_real (X Y : GFn) (hb : kw.bcoh ≠ 0) (hrho : 0 < kw.rho) (r y y' : Vec ℝ)
    (dy : Option (Vec ℝ)) (hlen : r.length = y.length) (hlen' : r.length = y'.length)
    (hd : ∀ d, dy = some d → r.length = d.length) :
    (GenTable.gconv X Y kw junk r y dy).2 = (GenTable.gconv X Y kw junk r y' dy).2 := by
  rw [gconv_unc kw junk X Y hb hrho r y dy hlen hd, gconv_unc kw junk X Y hb hrho r y' dy hlen' hd]
  cases dy <;> simp [Vec.zerosLike, ← hlen, ← hlen']

/-- P: no uncertainty supplied ⇒ the returned uncertainty is all zeros (and has the data's length) -/
theorem P_unc_none_zero (X Y : RFn) (hb : kw.bcoh ≠ 0) (q y : Vec ℝ) (hlen : q.length = y.length) :
    (GenTable.rconv X Y kw junk q y none).2 = List.replicate y.length 0 := by
  rw [rconv_unc kw junk X Y hb q y none hlen (by simp)]
  apply List.ext_getElem?
  intro i
  simp only [Option.getD, Vec.zerosLike, List.getElem?_zipWith, List.getElem?_map, List.getElem?_replicate]
  have hiff := getElem?_isSome_eq q y hlen i
  cases hq : q[i]? <;> cases hy : y[i]? <;> simp [hq, hy] at hiff <;> simp
  · have := (List.getElem?_eq_none_iff.mp hy); omega
  · have := (List.getElem?_eq_some_iff.mp hy).1; omega

theorem P_unc_none_zero_real (X Y : GFn) (hb : kw.bcoh ≠ 0) (hrho : 0 < kw.rho) (r y : Vec ℝ)
    (hlen : r.length = y.length) :
    (GenTable.gconv X Y kw junk r y none).2 = List.replicate y.length 0 := by
  rw [gconv_unc kw junk X Y hb hrho r y none hlen (by simp)]
  apply List.ext_getElem?
  intro i
  simp only [Option.getD, Vec.zerosLike, List.getElem?_zipWith, List.getElem?_map, List.getElem?_replicate]
  have hiff := getElem?_isSome_eq r y hlen i
  cases hq : r[i]? <;> cases hy : y[i]? <;> simp [hq, hy] at hiff <;> simp
  · have := (List.getElem?_eq_none_iff.mp hy); omega
  · have := (List.getElem?_eq_some_iff.mp hy).1; omega

/-- P: non-negative input uncertainty gives non-negative output uncertainty -/
theorem P_unc_nonneg (X Y : RFn) (hb : 0 < kw.bcoh) (q y d : Vec ℝ) (hlen : q.length = y.length)
    (hd : q.length = d.length) (hq : ∀ a ∈ q, 0 ≤ a) (he : ∀ e ∈ d, 0 ≤ e) :
    ∀ u ∈ (GenTable.rconv X Y kw junk q y (some d)).2, 0 ≤ u := by
  rw [rconv_unc kw junk X Y (ne_of_gt hb) q y (some d) hlen (fun d' h => by cases h; exact hd)]
  intro u hu
  simp only [Option.getD, List.mem_iff_getElem?, List.getElem?_zipWith] at hu
  obtain ⟨i, hi⟩ := hu
  cases hq' : q[i]? with
  | none => simp [hq'] at hi
  | some a =>
    cases hd' : d[i]? with
    | none => simp [hq', hd'] at hi
    | some e =>
      simp [hq', hd'] at hi
      rw [← hi]
      exact mul_nonneg (P_rslope_nonneg kw X Y hb a (hq a (List.mem_of_getElem? hq'))) (he e (List.mem_of_getElem? hd'))

/-- P: a round trip returns the original uncertainty (slopes are reciprocal for Q > 0) -/
theorem P_unc_roundtrip_pt (X Y : RFn) (hb : kw.bcoh ≠ 0) (q e : ℝ) (hq : 0 < q) :
    Spec.rslope kw Y X q * (Spec.rslope kw X Y q * e) = e := by
  have hq' : q ≠ 0 := ne_of_gt hq
  cases X <;> cases Y <;> simp only [Spec.rslope, if_pos hq] <;> scalar_close

theorem P_unc_roundtrip_pt_real (X Y : GFn) (hb : kw.bcoh ≠ 0) (hrho : 0 < kw.rho) (r e : ℝ) (hr : 0 < r) :
    Spec.gslope kw Y X r * (Spec.gslope kw X Y r * e) = e := by
  have hr' : r ≠ 0 := ne_of_gt hr
  have hrho' : kw.rho ≠ 0 := ne_of_gt hrho
  have hpi : Real.pi ≠ 0 := Real.pi_ne_zero
  cases X <;> cases Y <;> simp only [Spec.gslope, if_pos hr] <;> scalar_close

theorem P_unc_roundtrip (X Y : RFn) (hb : kw.bcoh ≠ 0) (q y d : Vec ℝ) (hlen : q.length = y.length)
    (hd : q.length = d.length) (hq : ∀ a ∈ q, 0 < a) :
    (GenTable.rconv Y X kw junk q (GenTable.rconv X Y kw junk q y (some d)).1
        (some (GenTable.rconv X Y kw junk q y (some d)).2)).2 = d := by
  have h1 := rconv_unc kw junk X Y hb q y (some d) hlen (fun d' h => by cases h; exact hd)
  have hl1 : q.length = (GenTable.rconv X Y kw junk q y (some d)).1.length := by
    rw [rconv_val kw junk X Y hb q y (some d) hlen]; simp [hlen]
  rw [rconv_unc kw junk Y X hb q _ _ hl1 (fun d' h => by cases h; rw [h1]; simp [Option.getD, hd])]
  simp only [Option.getD, h1, zipWith_zipWith_self_right]
  exact zipWith_eq_right_of_forall _ (fun a => 0 < a) q d hd hq (fun a b ha => P_unc_roundtrip_pt kw X Y hb a b ha)

example : ∃ (kw : Kw ℝ) (q y d : Vec ℝ), 0 < kw.bcoh ∧ q.length = y.length ∧ q.length = d.length ∧
    (∀ a ∈ q, 0 < a) ∧ (∀ e ∈ d, 0 ≤ e) ∧ d ≠ [] :=
  ⟨{ rho := 1, bcoh := 2, btot := 3 }, [1, 2], [5, 7], [1/10, 2/10], by norm_num, rfl, rfl, by simp,
    by simp; norm_num, by simp⟩

end C06
