import PystogVerif.Model.Fortran
import PystogVerif.Spec.Transform
import Mathlib.Tactic.FieldSimp

/-!
# The Fortran reference routine `stog_bit` (hand model `Model/Fortran.lean`, bit-exact against the compiled routine in the
  correspondence run) versus the Python port — the window function (C14)
-/
noncomputable section
open Spec
namespace C14Fortran

/-- P (C14): the Fortran window equals the Lorch weight of the port, sin(a x)/(a x) with a = π/Q_last, wherever x ≠ 0 -/
theorem P_fortran_window_eq (xin : List ℝ) (hl : Fortran.last xin ≠ 0) (hx : ∀ x ∈ xin, x ≠ 0) :
    Fortran.yw true xin = xin.map (lorchW (Real.pi / Fortran.last xin)) := by
  simp only [Fortran.yw, if_true, Transc.sin_real, Transc.pi_real]
  apply List.map_congr_left
  intro x hxm
  have hx0 := hx x hxm
  have ha : Real.pi / Fortran.last xin ≠ 0 := div_ne_zero Real.pi_ne_zero hl
  have : Real.pi / Fortran.last xin * x ≠ 0 := mul_ne_zero ha hx0
  simp only [lorchW, this, ne_eq, not_false_eq_true, if_true]
  rw [mul_comm x]; field_simp

end C14Fortran
end
