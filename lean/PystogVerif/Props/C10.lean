import PystogVerif.Proofs.Merge

/-!
# C10 — merging averages coincident Q points onto a sorted unique grid, in any order

Model (hand-written, validated against the real `StoG` bit for bit by the correspondence run):
`Stog.mergePts` = stable sort by Q then run-length average on equality, exactly as `merge_data` does;
`Stog.ingestAll` / `Stog.datasetRows` = `add_dataset`.  Q values are compared for equality after ingestion has put
them on the 0.01 lattice (`np.around(·, 2)` is applied last to every stored Q), so "same 0.01-resolution value" is
"same stored value".  The S(Q) finally stored is rebuilt from Q[S(Q)−1] (C17): "value = mean" is about Q > 0.
-/
noncomputable section
open Classical MergeSpec

namespace C10

/-- R: the code's merge (stable sort + five-variable fold) is the group-by-Q specification, for every list of points -/
theorem R_merge_eq_spec (pts : List Pt) : Stog.mergePts pts = mergeSpec pts := mergePts_eq_spec pts

/-- P: the merged grid is strictly increasing and contains each stored Q value exactly once -/
theorem P_grid_strictly_increasing_keys_once (pts : List Pt) :
    ((Stog.mergePts pts).map (·.1)).Pairwise (· < ·) ∧ ∀ k, k ∈ (Stog.mergePts pts).map (·.1) ↔ k ∈ pts.map (·.1) := by
  rw [mergePts_eq_spec]
  have hm : (mergeSpec pts).map (·.1) = (pts.map (·.1)).toFinset.sort (· ≤ ·) := by
    simp [mergeSpec, List.map_map, Function.comp_def]
  rw [hm]
  refine ⟨(Finset.sortedLT_sort _).pairwise, fun k => ?_⟩
  simp

/-- P: the value at each merged Q is the arithmetic mean of all contributed points with that Q
    (and the uncertainty is sqrt(Σ dy²)/n) -/
theorem P_value_is_mean (pts : List Pt) (p : Pt) (hp : p ∈ Stog.mergePts pts) :
    p.2.1 = meanAt pts p.1 ∧ p.2.2 = errAt pts p.1 := by
  rw [mergePts_eq_spec] at hp
  simp only [mergeSpec, List.mem_map] at hp
  obtain ⟨k, _, rfl⟩ := hp
  exact ⟨rfl, rfl⟩

theorem sum_le_card_mul (l : List ℝ) (M : ℝ) (h : ∀ a ∈ l, a ≤ M) : l.sum ≤ l.length * M := by
  induction l with
  | nil => simp
  | cons a t ih =>
    have := ih (fun b hb => h b (by simp [hb]))
    have ha := h a (by simp)
    simp only [List.sum_cons, List.length_cons]; push_cast; linarith

theorem card_mul_le_sum (l : List ℝ) (m : ℝ) (h : ∀ a ∈ l, m ≤ a) : l.length * m ≤ l.sum := by
  induction l with
  | nil => simp
  | cons a t ih =>
    have := ih (fun b hb => h b (by simp [hb]))
    have ha := h a (by simp)
    simp only [List.sum_cons, List.length_cons]; push_cast; linarith

/-- P: hence it lies between the smallest and the largest contribution -/
theorem P_value_between (pts : List Pt) (p : Pt) (hp : p ∈ Stog.mergePts pts) (m M : ℝ)
    (hm : ∀ t ∈ pts, t.1 = p.1 → m ≤ t.2.1) (hM : ∀ t ∈ pts, t.1 = p.1 → t.2.1 ≤ M) :
    m ≤ p.2.1 ∧ p.2.1 ≤ M := by
  have hk : p.1 ∈ pts.map (·.1) :=
    ((P_grid_strictly_increasing_keys_once pts).2 p.1).mp (List.mem_map_of_mem hp)
  rw [(P_value_is_mean pts p hp).1]
  unfold meanAt
  set l := (pts.filter (fun t => decide (t.1 = p.1))).map (·.2.1) with hl
  have hlen : (pts.filter (fun t => decide (t.1 = p.1))).length = l.length := by simp [hl]
  have hpos : 0 < (l.length : ℝ) := by
    simp only [List.mem_map] at hk
    obtain ⟨t, ht, hteq⟩ := hk
    have : t.2.1 ∈ l := by
      simp only [hl, List.mem_map, List.mem_filter, decide_eq_true_eq]
      exact ⟨t, ⟨ht, hteq⟩, rfl⟩
    exact_mod_cast List.length_pos_of_mem this
  have hml : ∀ a ∈ l, m ≤ a := by
    intro a ha
    simp only [hl, List.mem_map, List.mem_filter, decide_eq_true_eq] at ha
    obtain ⟨t, ⟨ht, hte⟩, rfl⟩ := ha
    exact hm t ht hte
  have hMl : ∀ a ∈ l, a ≤ M := by
    intro a ha
    simp only [hl, List.mem_map, List.mem_filter, decide_eq_true_eq] at ha
    obtain ⟨t, ⟨ht, hte⟩, rfl⟩ := ha
    exact hM t ht hte
  rw [hlen]
  constructor
  · rw [le_div_iff₀ hpos]; linarith [card_mul_le_sum l m hml]
  · rw [div_le_iff₀ hpos]; linarith [sum_le_card_mul l M hMl]

/-- P: the result does not depend on the order of the stored points -/
theorem P_merge_perm_invariant {l₁ l₂ : List Pt} (h : l₁.Perm l₂) : Stog.mergePts l₁ = Stog.mergePts l₂ := by
  rw [mergePts_eq_spec, mergePts_eq_spec, mergeSpec_perm h]

/-- P: merging again without new data changes nothing: `merge_data` leaves the storage sorted, and merging the sorted
    storage gives the same curve and the same storage -/
theorem P_merge_idempotent (pts : List Pt) :
    Stog.mergePts (Stog.sortPts pts) = Stog.mergePts pts ∧ Stog.sortPts (Stog.sortPts pts) = Stog.sortPts pts := by
  refine ⟨P_merge_perm_invariant (List.mergeSort_perm pts _), ?_⟩
  unfold Stog.sortPts
  apply List.mergeSort_of_pairwise
  have := sortPts_sorted pts
  exact this.imp (fun h => by simpa using h)

/-- storage rows with their three columns of equal length -/
def Aligned (r : Stog.Rows ℝ) : Prop := r.x.length = r.y.length ∧ r.x.length = r.dy.length

theorem zip3_append (a b : Stog.Rows ℝ) (ha : Aligned a) : Stog.zip3 (a.append b) = Stog.zip3 a ++ Stog.zip3 b := by
  obtain ⟨h1, h2⟩ := ha
  simp only [Stog.zip3, Stog.Rows.append]
  rw [List.zip_append (by omega), List.zipWith_append (by simp; omega)]

/-- the stored S(Q) points after adding the datasets `ds` in order -/
def storedPts (cfg : Stog.Cfg ℝ) (ds : List (Stog.Info ℝ)) : List Pt := Stog.zip3 (Stog.ingestAll cfg ds).2

theorem ingest_foldl (cfg : Stog.Cfg ℝ) (ds : List (Stog.Info ℝ)) (st : Stog.Rows ℝ × Stog.Rows ℝ)
    (hst : Aligned st.2) (hal : ∀ d ∈ ds, Aligned (Stog.datasetRows cfg d).2) :
    Aligned (ds.foldl (Stog.addDataset cfg) st).2 ∧
    Stog.zip3 (ds.foldl (Stog.addDataset cfg) st).2
      = Stog.zip3 st.2 ++ ds.flatMap (fun d => Stog.zip3 (Stog.datasetRows cfg d).2) := by
  induction ds generalizing st with
  | nil => simp [hst]
  | cons d t ih =>
    have hd := hal d (by simp)
    have hnew : Aligned (Stog.addDataset cfg st d).2 := by
      obtain ⟨a1, a2⟩ := hst
      obtain ⟨b1, b2⟩ := hd
      simp only [Aligned, Stog.addDataset, Stog.Rows.append, List.length_append]
      omega
    have := ih (Stog.addDataset cfg st d) hnew (fun e he => hal e (by simp [he]))
    simp only [List.foldl_cons, List.flatMap_cons]
    refine ⟨this.1, ?_⟩
    rw [this.2]
    simp only [Stog.addDataset]
    rw [zip3_append _ _ hst, List.append_assoc]

/-- P: the merged result does not depend on the order in which the datasets were added -/
theorem P_merge_order_independent (cfg : Stog.Cfg ℝ) (ds₁ ds₂ : List (Stog.Info ℝ)) (h : ds₁.Perm ds₂)
    (hal : ∀ d ∈ ds₁, Aligned (Stog.datasetRows cfg d).2) :
    Stog.mergePts (storedPts cfg ds₁) = Stog.mergePts (storedPts cfg ds₂) := by
  apply P_merge_perm_invariant
  have hal₂ : ∀ d ∈ ds₂, Aligned (Stog.datasetRows cfg d).2 := fun d hd => hal d (h.mem_iff.mpr hd)
  have hempty : Aligned (Stog.Rows.empty : Stog.Rows ℝ) := by simp [Aligned, Stog.Rows.empty]
  unfold storedPts Stog.ingestAll
  rw [(ingest_foldl cfg ds₁ _ hempty hal).2, (ingest_foldl cfg ds₂ _ hempty hal₂).2]
  simp only [Stog.zip3, Stog.Rows.empty, List.zip_nil_left, List.zipWith_nil_left, List.nil_append]
  exact h.flatMap_right _

/-- a single point "merged": value unchanged, uncertainty sqrt(dy²)/1 = |dy| -/
def single (t : Pt) : Pt := (t.1, t.2.1, |t.2.2|)

theorem mergeRuns_strict : ∀ (l : List Pt), l.Pairwise (fun a b => a.1 < b.1) → mergeRuns l = l.map single
  | [], _ => by simp [mergeRuns]
  | p :: ps, h => by
    have hp : ∀ t ∈ ps, p.1 < t.1 := (List.pairwise_cons.mp h).1
    have htw : ps.takeWhile (fun t => decide (t.1 = p.1)) = [] := by
      cases ps with
      | nil => rfl
      | cons q qs =>
        have : q.1 ≠ p.1 := (hp q (by simp)).ne'
        simp [List.takeWhile_cons, this]
    have hdw : ps.dropWhile (fun t => decide (t.1 = p.1)) = ps := by
      cases ps with
      | nil => rfl
      | cons q qs =>
        have : q.1 ≠ p.1 := (hp q (by simp)).ne'
        simp [List.dropWhile_cons, this]
    have ih := mergeRuns_strict ps (List.pairwise_cons.mp h).2
    rw [mergeRuns]
    simp only [htw, hdw, List.map_nil, List.sum_nil, List.length_nil, Nat.cast_zero, add_zero, div_one, List.map_cons, ih]
    congr 1
    simp only [single, Prod.mk.injEq, true_and]
    rw [← sq, Real.sqrt_sq_eq_abs]

/-- P: points with pairwise distinct Q are returned as they are, sorted by Q (value unchanged; uncertainty |dy|):
    merging a single dataset, or re-ingesting an already merged curve, is the identity up to order -/
theorem P_merge_distinct (pts : List Pt) (hd : (pts.map (·.1)).Nodup) :
    Stog.mergePts pts = (Stog.sortPts pts).map single := by
  unfold Stog.mergePts
  rw [mergeSorted_eq_runs]
  apply mergeRuns_strict
  have hs := sortPts_sorted pts
  have hperm : (Stog.sortPts pts).Perm pts := List.mergeSort_perm pts _
  have hnd : ((Stog.sortPts pts).map (·.1)).Nodup := (hperm.map _).nodup_iff.mpr hd
  unfold List.Nodup at hnd
  rw [List.pairwise_map] at hnd
  exact (hs.and hnd).imp (fun ⟨h1, h2⟩ => lt_of_le_of_ne h1 h2)

/-- P: a merge between the adds does not change the final merge: `merge_data` leaves the storage sorted, later datasets are
    appended, and the final merge is that of all contributed points -/
theorem P_merge_between_adds (a b : List Pt) :
    Stog.mergePts (Stog.sortPts a ++ b) = Stog.mergePts (a ++ b) :=
  P_merge_perm_invariant ((List.mergeSort_perm a _).append_right b)

/-- X: a concrete instance: two points share Q = 1 and are averaged -/
example : meanAt [((2:ℝ), (5:ℝ), (0:ℝ)), (1, 3, 0), (1, 4, 0)] 1 = 7 / 2 := by
  simp [meanAt, List.filter_cons]; norm_num

end C10
end
