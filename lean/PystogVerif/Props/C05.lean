import PystogVerif.Proofs.Converter
import PystogVerif.Gen.Transformer
import PystogVerif.Gen.Facts

/-!
# C05 — every named transform is conversion ∘ core transform ∘ conversion, nothing else

Model: the 24 generated wrappers of `Transformer` (selected by `GenTable.q2r` / `GenTable.r2q`), the generated
conversions (`GenTable.rconv` / `GenTable.gconv`) and the generated cores `F_to_G` (Q→r) and `G_to_F` (r→Q).
The statements hold for all data, uncertainties, grids and options `kw` (Lorch, correction, window, density,
scattering lengths) and all `junk`; the *same* `kw` reaches the core.
-/

namespace GenTable

noncomputable def q2r : RFn → GFn → Kw ℝ → Junk ℝ → Vec ℝ → Vec ℝ → Vec ℝ → Option (Vec ℝ) → Vec ℝ × Vec ℝ × Vec ℝ
  | .F, .G => Transformer.F_to_G
  | .F, .GK => Transformer.F_to_GK
  | .F, .g => Transformer.F_to_g
  | .S, .G => Transformer.S_to_G
  | .S, .GK => Transformer.S_to_GK
  | .S, .g => Transformer.S_to_g
  | .FK, .G => Transformer.FK_to_G
  | .FK, .GK => Transformer.FK_to_GK
  | .FK, .g => Transformer.FK_to_g
  | .DCS, .G => Transformer.DCS_to_G
  | .DCS, .GK => Transformer.DCS_to_GK
  | .DCS, .g => Transformer.DCS_to_g

noncomputable def r2q : GFn → RFn → Kw ℝ → Junk ℝ → Vec ℝ → Vec ℝ → Vec ℝ → Option (Vec ℝ) → Vec ℝ × Vec ℝ × Vec ℝ
  | .G, .F => Transformer.G_to_F
  | .G, .S => Transformer.G_to_S
  | .G, .FK => Transformer.G_to_FK
  | .G, .DCS => Transformer.G_to_DCS
  | .GK, .F => Transformer.GK_to_F
  | .GK, .S => Transformer.GK_to_S
  | .GK, .FK => Transformer.GK_to_FK
  | .GK, .DCS => Transformer.GK_to_DCS
  | .g, .F => Transformer.g_to_F
  | .g, .S => Transformer.g_to_S
  | .g, .FK => Transformer.g_to_FK
  | .g, .DCS => Transformer.g_to_DCS

/-- conversion of the input to the function the core consumes (the identity keeps the optional uncertainty as given) -/
noncomputable def inR (X : RFn) (kw : Kw ℝ) (junk : Junk ℝ) (q y : Vec ℝ) (dy : Option (Vec ℝ)) : Vec ℝ × Option (Vec ℝ) :=
  match X with
  | .F => (y, dy)
  | X => ((rconv X .F kw junk q y dy).1, some (rconv X .F kw junk q y dy).2)

noncomputable def inG (X : GFn) (kw : Kw ℝ) (junk : Junk ℝ) (r y : Vec ℝ) (dy : Option (Vec ℝ)) : Vec ℝ × Option (Vec ℝ) :=
  match X with
  | .G => (y, dy)
  | X => ((gconv X .G kw junk r y dy).1, some (gconv X .G kw junk r y dy).2)

/-- conversion of the core's output to the requested function -/
noncomputable def outG (Y : GFn) (kw : Kw ℝ) (junk : Junk ℝ) (r v dv : Vec ℝ) : Vec ℝ × Vec ℝ :=
  match Y with
  | .G => (v, dv)
  | Y => gconv .G Y kw junk r v (some dv)

noncomputable def outR (Y : RFn) (kw : Kw ℝ) (junk : Junk ℝ) (q v dv : Vec ℝ) : Vec ℝ × Vec ℝ :=
  match Y with
  | .F => (v, dv)
  | Y => rconv .F Y kw junk q v (some dv)

end GenTable

namespace C05
variable (kw : Kw ℝ) (junk : Junk ℝ)

/-- P: each of the 12 reciprocal→real transforms is  conversion-to-Q[S−1] ; F_to_G ; conversion-from-G(r),
    for values and uncertainties, with the caller's options reaching the core unchanged -/
theorem P_q2r_factor (X : RFn) (Y : GFn) (q y r : Vec ℝ) (dy : Option (Vec ℝ)) :
    GenTable.q2r X Y kw junk q y r dy =
      (let c := GenTable.inR X kw junk q y dy
       let t := Transformer.F_to_G kw junk q c.1 r c.2
       let o := GenTable.outG Y kw junk t.1 t.2.1 t.2.2
       (t.1, o.1, o.2)) := by
  cases X <;> cases Y <;> rfl

/-- P: each of the 12 real→reciprocal transforms is  conversion-to-G(r) ; G_to_F ; conversion-from-Q[S−1] -/
theorem P_r2q_factor (X : GFn) (Y : RFn) (r y q : Vec ℝ) (dy : Option (Vec ℝ)) :
    GenTable.r2q X Y kw junk r y q dy =
      (let c := GenTable.inG X kw junk r y dy
       let t := Transformer.G_to_F kw junk r c.1 q c.2
       let o := GenTable.outR Y kw junk t.1 t.2.1 t.2.2
       (t.1, o.1, o.2)) := by
  cases X <;> cases Y <;> rfl

/-- P: the cores are the core transform itself with the caller's options (window from the same options);
    the 2/π normalisation sits in the Q→r direction only -/
theorem P_cores (x y xo : Vec ℝ) (dy : Option (Vec ℝ)) :
    Transformer.G_to_F kw junk x y xo dy = Transformer.fourier_transform kw junk x y xo kw.xmin kw.xmax dy ∧
    Transformer.F_to_G kw junk x y xo dy =
      (let t := Transformer.fourier_transform kw junk x y xo kw.xmin kw.xmax dy
       (t.1, Vec.mulS t.2.1 (2 / Real.pi), Vec.mulS t.2.2 (2 / Real.pi))) := by
  constructor
  · rfl
  · simp [Transformer.F_to_G]

/-- F: no call site of the transformer or the filter passes a keyword that the callee silently swallows -/
theorem F_swallowed_none : Gen.Facts.swallowedTransformer = [] ∧ Gen.Facts.swallowedConverter = [] := by decide

/-- F: every function of the three modules was translated (nothing outside the modelled subset) -/
theorem F_all_translated : Gen.Facts.refused = [] := by decide

/-- P: hence any two transforms of the same physical data agree after conversion: transforms from two
    reciprocal-space kinds whose inputs are conversions of each other coincide (values and uncertainties) -/
theorem P_transforms_agree (X X' : RFn) (Y : GFn) (q y y' r : Vec ℝ) (dy dy' : Option (Vec ℝ))
    (h : GenTable.inR X kw junk q y dy = GenTable.inR X' kw junk q y' dy') :
    GenTable.q2r X Y kw junk q y r dy = GenTable.q2r X' Y kw junk q y' r dy' := by
  rw [P_q2r_factor, P_q2r_factor, h]

example : GenTable.q2r .S .g = Transformer.S_to_g := rfl

end C05
