import PystogVerif.Props.C02
import PystogVerif.Props.C09

/-!
# C08 — the Fourier filter splits the data exactly and removes only the low-r signal

Model: generated `FourierFilter.g_using_F` (the core of all 12 variants; C09 proves the other 11 are conversions of it).
Outputs, in order: (q_ft, removed, q', corrected, r', g', d_removed, d_corrected, dg').
-/
namespace C08
open Spec
variable (kw : Kw ℝ) (junk : Junk ℝ)

/-- the nine outputs by name -/
def qFt (o : Nine) : Vec ℝ := o.1
def removed (o : Nine) : Vec ℝ := o.2.1
def qOut (o : Nine) : Vec ℝ := o.2.2.1
def corrected (o : Nine) : Vec ℝ := o.2.2.2.1
def rOut (o : Nine) : Vec ℝ := o.2.2.2.2.1
def gOut (o : Nine) : Vec ℝ := o.2.2.2.2.2.1
def dRemoved (o : Nine) : Vec ℝ := o.2.2.2.2.2.2.1
def dCorrected (o : Nine) : Vec ℝ := o.2.2.2.2.2.2.2.1
def dgOut (o : Nine) : Vec ℝ := o.2.2.2.2.2.2.2.2

theorem sub_add_cancel_list : ∀ (a b : List ℝ), a.length = b.length → Vec.add (Vec.sub a b) b = a
  | [], [], _ => rfl
  | [], _ :: _, h => by simp at h
  | _ :: _, [], h => by simp at h
  | x :: a, y :: b, h => by
      have := sub_add_cancel_list a b (by simpa using h)
      simp only [Vec.add, Vec.sub, List.zipWith_cons_cons] at this ⊢
      rw [this]; simp

/-- length of the core transform's value / uncertainty outputs = number of output abscissae -/
theorem ft_lengths (x y xo : List ℝ) (xmin xmax : Option ℝ) (dy : Option (List ℝ)) :
    (Transformer.fourier_transform kw junk x y xo xmin xmax dy).2.1.length = xo.length ∧
    (Transformer.fourier_transform kw junk x y xo xmin xmax dy).2.2.length = xo.length := by
  simp only [Transformer.fourier_transform]
  constructor
  · split_ifs <;> (try simp only [Transformer._low_x_correction, Vec.add, Vec.zerosLike]) <;> (try split_ifs) <;> simp
  · simp

/-- the low-r piece the filter transforms back: (r, g+1, dg) restricted to [0, cutoff] -/
noncomputable def lowR (r gr : Vec ℝ) (cutoff : ℝ) (dgr : Option (Vec ℝ)) : Vec ℝ × Vec ℝ × Vec ℝ :=
  let c := Transformer.apply_cropping Kw.none junk r gr ((0:Nat):ℝ) cutoff dgr
  (c.1, Vec.addS c.2.1 ((1:Nat):ℝ), c.2.2)

/-- its transform to Q[S−1] on the caller's Q grid (before the final crop to the Q range) -/
noncomputable def backT (r gr q : Vec ℝ) (cutoff : ℝ) (dgr : Option (Vec ℝ)) : Vec ℝ × Vec ℝ × Vec ℝ :=
  Transformer.g_to_F kw junk (lowR junk r gr cutoff dgr).1 (lowR junk r gr cutoff dgr).2.1 q (some (lowR junk r gr cutoff dgr).2.2)

theorem backT_grid (r gr q : Vec ℝ) (cutoff : ℝ) (dgr : Option (Vec ℝ)) : (backT kw junk r gr q cutoff dgr).1 = q := rfl

theorem backT_lengths (r gr q : Vec ℝ) (cutoff : ℝ) (dgr : Option (Vec ℝ)) :
    (backT kw junk r gr q cutoff dgr).2.1.length = q.length ∧ (backT kw junk r gr q cutoff dgr).2.2.length = q.length := by
  simp only [backT, Transformer.g_to_F, Transformer.G_to_F]
  exact ft_lengths kw junk _ _ q _ _ _

/-- the Q range crop inside the filter keeps everything (window = data range) -/
theorem crop_q_range (q v : Vec ℝ) (h : q.length = v.length) : cropL (Vec.min q) (Vec.max q) q v = v :=
  cropL_all _ _ q v h (fun a ha => ⟨vec_min_le q a ha, vec_le_max q a ha⟩)

/-- normal form of the removed component and of the corrected function -/
theorem removed_eq (r gr q fq : Vec ℝ) (cutoff : ℝ) (dgr dfq : Option (Vec ℝ)) :
    removed (FourierFilter.g_using_F kw junk r gr q fq cutoff dgr dfq) = (backT kw junk r gr q cutoff dgr).2.1 ∧
    dRemoved (FourierFilter.g_using_F kw junk r gr q fq cutoff dgr dfq) = (backT kw junk r gr q cutoff dgr).2.2 := by
  have hl := backT_lengths kw junk r gr q cutoff dgr
  have hs := apply_cropping_spec (Kw.none : Kw ℝ) junk q (backT kw junk r gr q cutoff dgr).2.1 (Vec.min q) (Vec.max q)
    (some (backT kw junk r gr q cutoff dgr).2.2) hl.1.symm (fun d h => by cases h; exact hl.2.symm)
  constructor
  · show (Transformer.apply_cropping Kw.none junk (backT kw junk r gr q cutoff dgr).1 (backT kw junk r gr q cutoff dgr).2.1
        (Vec.min q) (Vec.max q) (some (backT kw junk r gr q cutoff dgr).2.2)).2.1 = _
    rw [backT_grid, hs]
    exact crop_q_range q _ hl.1.symm
  · show (Transformer.apply_cropping Kw.none junk (backT kw junk r gr q cutoff dgr).1 (backT kw junk r gr q cutoff dgr).2.1
        (Vec.min q) (Vec.max q) (some (backT kw junk r gr q cutoff dgr).2.2)).2.2 = _
    rw [backT_grid, hs]
    exact crop_q_range q _ hl.2.symm

theorem corrected_eq (r gr q fq : Vec ℝ) (cutoff : ℝ) (dgr dfq : Option (Vec ℝ))
    (hq : q.length = fq.length) (hd : ∀ d, dfq = some d → q.length = d.length) :
    corrected (FourierFilter.g_using_F kw junk r gr q fq cutoff dgr dfq)
      = Vec.sub fq (removed (FourierFilter.g_using_F kw junk r gr q fq cutoff dgr dfq)) ∧
    dCorrected (FourierFilter.g_using_F kw junk r gr q fq cutoff dgr dfq)
      = Vec.sqrt (Vec.add (Vec.mul (dfq.getD (Vec.zerosLike fq)) (dfq.getD (Vec.zerosLike fq)))
          (Vec.mul (dRemoved (FourierFilter.g_using_F kw junk r gr q fq cutoff dgr dfq))
                   (dRemoved (FourierFilter.g_using_F kw junk r gr q fq cutoff dgr dfq)))) := by
  have hz : q.length = (dfq.getD (Vec.zerosLike fq)).length := by
    rcases dfq with _ | d
    · simp [Vec.zerosLike, hq]
    · exact hd d rfl
  have hs := apply_cropping_spec (Kw.none : Kw ℝ) junk q fq (Vec.min q) (Vec.max q) dfq hq hd
  constructor
  · show Vec.sub (Transformer.apply_cropping Kw.none junk q fq (Vec.min q) (Vec.max q) dfq).2.1 _ = _
    rw [hs, crop_q_range q fq hq]; rfl
  · show Vec.sqrt (Vec.add (Vec.mul (Transformer.apply_cropping Kw.none junk q fq (Vec.min q) (Vec.max q) dfq).2.2
        (Transformer.apply_cropping Kw.none junk q fq (Vec.min q) (Vec.max q) dfq).2.2) _) = _
    rw [hs, crop_q_range q _ hz]; rfl

/-- P: removed + corrected = the input Q[S(Q)−1], for all inputs, cutoffs and options -/
theorem P_filter_additive (r gr q fq : Vec ℝ) (cutoff : ℝ) (dgr dfq : Option (Vec ℝ))
    (hq : q.length = fq.length) (hd : ∀ d, dfq = some d → q.length = d.length) :
    Vec.add (corrected (FourierFilter.g_using_F kw junk r gr q fq cutoff dgr dfq))
        (removed (FourierFilter.g_using_F kw junk r gr q fq cutoff dgr dfq)) = fq := by
  rw [(corrected_eq kw junk r gr q fq cutoff dgr dfq hq hd).1]
  apply sub_add_cancel_list
  rw [(removed_eq kw junk r gr q fq cutoff dgr dfq).1, (backT_lengths kw junk r gr q cutoff dgr).1, hq]

/-- P: the uncertainties combine in quadrature: d_corrected = sqrt(d_in² + d_removed²) entry by entry -/
theorem P_filter_quadrature (r gr q fq : Vec ℝ) (cutoff : ℝ) (dgr dfq : Option (Vec ℝ))
    (hq : q.length = fq.length) (hd : ∀ d, dfq = some d → q.length = d.length) :
    dCorrected (FourierFilter.g_using_F kw junk r gr q fq cutoff dgr dfq)
      = List.zipWith (fun a b => Real.sqrt (a * a + b * b)) (dfq.getD (Vec.zerosLike fq))
          (dRemoved (FourierFilter.g_using_F kw junk r gr q fq cutoff dgr dfq)) := by
  rw [(corrected_eq kw junk r gr q fq cutoff dgr dfq hq hd).2]
  generalize dRemoved _ = b
  generalize dfq.getD _ = a
  simp only [Vec.sqrt, Vec.add, Vec.mul]
  induction a generalizing b with
  | nil => simp
  | cons x a ih =>
    cases b with
    | nil => simp
    | cons y b => simp [ih b]

/-- P: the removed component (and its uncertainty) is a function of the real-space data on [0, cutoff] alone:
    changing data beyond the cutoff changes nothing -/
theorem P_removed_depends_on_low_r (r₁ g₁ r₂ g₂ q fq₁ fq₂ : Vec ℝ) (cutoff : ℝ) (d₁ d₂ e₁ e₂ : Option (Vec ℝ))
    (h : Transformer.apply_cropping (Kw.none : Kw ℝ) junk r₁ g₁ ((0:Nat):ℝ) cutoff d₁
       = Transformer.apply_cropping (Kw.none : Kw ℝ) junk r₂ g₂ ((0:Nat):ℝ) cutoff d₂) :
    removed (FourierFilter.g_using_F kw junk r₁ g₁ q fq₁ cutoff d₁ e₁)
      = removed (FourierFilter.g_using_F kw junk r₂ g₂ q fq₂ cutoff d₂ e₂) ∧
    dRemoved (FourierFilter.g_using_F kw junk r₁ g₁ q fq₁ cutoff d₁ e₁)
      = dRemoved (FourierFilter.g_using_F kw junk r₂ g₂ q fq₂ cutoff d₂ e₂) := by
  rw [(removed_eq kw junk r₁ g₁ q fq₁ cutoff d₁ e₁).1, (removed_eq kw junk r₁ g₁ q fq₁ cutoff d₁ e₁).2,
    (removed_eq kw junk r₂ g₂ q fq₂ cutoff d₂ e₂).1, (removed_eq kw junk r₂ g₂ q fq₂ cutoff d₂ e₂).2]
  simp only [backT, lowR, h, and_self]

/-- P: the returned real-space function is the Q→r transform of the returned corrected function (with the returned
    uncertainties), under the caller's options -/
theorem P_filtered_is_transform_of_corrected (r gr q fq : Vec ℝ) (cutoff : ℝ) (dgr dfq : Option (Vec ℝ)) :
    let o := FourierFilter.g_using_F kw junk r gr q fq cutoff dgr dfq
    (rOut o, gOut o, dgOut o) = Transformer.F_to_g kw junk (qOut o) (corrected o) r (some (dCorrected o)) := rfl

/-- options with nothing switched on: no Lorch, no low-x correction, no window -/
def plain (kw : Kw ℝ) : Prop := kw.lorch = false ∧ kw.omitted = false ∧ kw.xmin = none ∧ kw.xmax = none

/-- P: the removed component is the sine transform of the real-space signal on [0, cutoff] alone:
    removed(Q) = T[r|_{[0,c]}, 4πρ r g|_{[0,c]}](Q) -/
theorem P_removed_formula (hp : plain kw) (r gr q fq : Vec ℝ) (cutoff : ℝ) (dgr dfq : Option (Vec ℝ))
    (hr : r.length = gr.length) (hd : ∀ d, dgr = some d → r.length = d.length) :
    removed (FourierFilter.g_using_F kw junk r gr q fq cutoff dgr dfq)
      = q.map (T (cropL 0 cutoff r r)
          (List.zipWith (fun r g => 4 * Real.pi * kw.rho * r * g) (cropL 0 cutoff r r) (cropL 0 cutoff r gr))) := by
  obtain ⟨hl, ho, hmin, hmax⟩ := hp
  rw [(removed_eq kw junk r gr q fq cutoff dgr dfq).1]
  have hz : r.length = (dgr.getD (Vec.zerosLike gr)).length := by
    rcases dgr with _ | d
    · simp [Vec.zerosLike, hr]
    · exact hd d rfl
  have hc := apply_cropping_spec (Kw.none : Kw ℝ) junk r gr (0:ℝ) cutoff dgr hr hd
  have hlen := cropL_length 0 cutoff r r gr rfl hr
  have hlen2 := cropL_length 0 cutoff r r (dgr.getD (Vec.zerosLike gr)) rfl hz
  simp only [backT, lowR, Nat.cast_zero, Transformer.g_to_F, Transformer.G_to_F, hmin, hmax]
  rw [hc]
  generalize cropL 0 cutoff r r = rt at hlen hlen2 ⊢
  generalize cropL 0 cutoff r gr = gt at hlen ⊢
  generalize cropL 0 cutoff r (dgr.getD (Vec.zerosLike gr)) = et at hlen2 ⊢
  have hG : (Converter.g_to_G kw junk rt (Vec.addS gt ((1:Nat):ℝ)) (some et)).1
      = List.zipWith (fun r g => 4 * Real.pi * kw.rho * r * g) rt gt := by
    pointwise2 rt gt hlen []
    left; ring
  rw [C02.R_fourier_transform_val kw junk hl ho _ _ q _ (by rw [hG]; simp [hlen])
    (fun d h => by cases h; simp [Converter.g_to_G, Vec.mul, Vec.smul, Vec.mulS, hlen2]), hG]

/-- P: data that vanish in g(r) on [0, cutoff] are left untouched: nothing is removed and corrected = input -/
theorem P_removed_zero_of_g_zero (hp : plain kw) (r gr q fq : Vec ℝ) (cutoff : ℝ) (dgr dfq : Option (Vec ℝ))
    (hr : r.length = gr.length) (hd : ∀ d, dgr = some d → r.length = d.length)
    (hg : ∀ v ∈ cropL 0 cutoff r gr, v = 0) :
    ∀ v ∈ removed (FourierFilter.g_using_F kw junk r gr q fq cutoff dgr dfq), v = 0 := by
  rw [P_removed_formula kw junk hp r gr q fq cutoff dgr dfq hr hd]
  intro v hv
  simp only [List.mem_map] at hv
  obtain ⟨t, _, rfl⟩ := hv
  unfold T
  apply trapzRec_zeros
  intro a ha
  simp only [List.mem_iff_getElem?, List.getElem?_zipWith] at ha
  obtain ⟨i, hi⟩ := ha
  cases hx : (cropL 0 cutoff r r)[i]? <;> cases hy : (cropL 0 cutoff r gr)[i]? <;> simp [hx, hy] at hi
  rename_i xv gv
  have : gv = 0 := hg gv (List.mem_of_getElem? hy)
  rw [← hi, this]; ring

example : plain ({ rho := 1, bcoh := 1, btot := 1 } : Kw ℝ) := ⟨rfl, rfl, rfl, rfl⟩

end C08
