import PystogVerif.RealRint
import PystogVerif.Model.Config
import Mathlib.Algebra.Order.Floor.Ring
import Mathlib.Tactic.Positivity

/-!
# C19 — configuration reaches the workflow intact; optional keys mean their defaults; CLI = library

Model: hand-written `Config` (parse_cli_args, __kwargs2attr with the setters' type checks, create_domain, the step
sequence and optional-step guards of pystog_cli), tied to /repo by the correspondence run (attributes after
construction, r grid bit for bit, files written).
-/
noncomputable section
namespace C19
open Config

/-- inversion: a successful construction means the three checked options were valid -/
theorem settings_ok (k : Kwargs ℝ) (s : Settings ℝ) (h : settings k = .ok s) :
    ∃ r a b, rsfOf k.rsf = .ok r ∧ flagOf k.lowq = .ok a ∧ flagOf k.lorch = .ok b ∧ s = core k r a b := by
  unfold settings at h
  rcases hr : rsfOf k.rsf with e | r <;> rcases ha : flagOf k.lowq with e' | a <;> rcases hb : flagOf k.lorch with e'' | b <;>
    simp only [hr, ha, hb] at h <;> try contradiction
  exact ⟨r, a, b, rfl, rfl, rfl, (Except.ok.inj h).symm⟩

theorem rsfOf_some (c r : ℕ) (h : rsfOf (some c) = .ok r) : r = c ∧ c < 3 := by
  simp only [rsfOf] at h
  split_ifs at h with hc
  exact ⟨(Except.ok.inj h).symm, hc⟩

theorem flagOf_bool (b a : Bool) (h : flagOf (some (PyVal.bool b : PyVal ℝ)) = .ok a) : a = b := by
  simpa [flagOf, boolSetter, pure, Except.pure] using h.symm

/-- P: every given option lands in the corresponding setting with the given value -/
theorem P_key_reaches_setting (k : Kwargs ℝ) (s : Settings ℝ) (h : settings k = .ok s) :
    (∀ v, k.rmin = some v → s.rmin = v) ∧ (∀ v, k.rmax = some v → s.rmax = v) ∧
    (∀ v, k.rdelta = some v → s.rdelta = v) ∧ (∀ v, k.density = some v → s.density = v) ∧
    (∀ v, k.bcoh = some v → s.bcoh = v) ∧ (∀ v, k.btot = some v → s.btot = v) ∧
    (∀ c, k.rsf = some c → s.rsf = c) ∧ (∀ b, k.lowq = some (PyVal.bool b) → s.lowq = b) ∧
    (∀ b, k.lorch = some (PyVal.bool b) → s.lorch = b) ∧
    (∀ v, k.hasFF = true → k.cutoff = some v → s.cutoff = v) ∧
    s.qmin = k.qmin ∧ s.qmax = k.qmax ∧ s.stem = k.stem := by
  obtain ⟨r, a, b, hr, ha, hb, rfl⟩ := settings_ok k s h
  refine ⟨?_, ?_, ?_, ?_, ?_, ?_, ?_, ?_, ?_, ?_, rfl, rfl, rfl⟩
  · intro v hv; simp [core, hv]
  · intro v hv; simp [core, hv]
  · intro v hv; simp [core, hv]
  · intro v hv; simp [core, hv]
  · intro v hv; simp [core, hv]
  · intro v hv; simp [core, hv]
  · intro c hc; rw [hc] at hr; exact (rsfOf_some c r hr).1
  · intro v hv; rw [hv] at ha; exact flagOf_bool v a ha
  · intro v hv; rw [hv] at hb; exact flagOf_bool v b hb
  · intro v hf hv; simp [core, hf, hv]

/-- P: Rdelta wins over Rpoints; with Rpoints only the step is Rmax/Rpoints; with neither it is 0.01 -/
theorem P_rdelta_rule (k : Kwargs ℝ) (s : Settings ℝ) (h : settings k = .ok s) :
    (∀ d, k.rdelta = some d → s.rdelta = d) ∧
    (∀ n, k.rdelta = none → k.rpoints = some n → s.rdelta = s.rmax / n) ∧
    (k.rdelta = none → k.rpoints = none → s.rdelta = 1 / 100) := by
  obtain ⟨r, a, b, hr, ha, hb, rfl⟩ := settings_ok k s h
  refine ⟨?_, ?_, ?_⟩
  · intro d hd; simp [core, hd]
  · intro n hd hn; simp [core, hd, hn]
  · intro hd hn; simp [core, hd, hn]

/-- P: an omitted optional key behaves exactly like supplying its default (settings, hence steps and files) -/
theorem P_absent_is_default (k : Kwargs ℝ) :
    settings { k with rsf := none } = settings { k with rsf := some 0 } ∧
    settings { k with rmin := none } = settings { k with rmin := some 0 } ∧
    settings { k with density := none } = settings { k with density := some (PyVal.num 1) } ∧
    settings { k with lowq := none } = settings { k with lowq := some (PyVal.bool false) } ∧
    settings { k with lorch := none } = settings { k with lorch := some (PyVal.bool false) } ∧
    settings { k with bcoh := none } = settings { k with bcoh := some 1 } ∧
    settings { k with btot := none } = settings { k with btot := some 1 } ∧
    settings { k with hasFF := false } = settings { k with hasFF := true, cutoff := none } ∧
    settings { k with rdelta := none, rpoints := none } = settings { k with rdelta := some (1 / 100), rpoints := none } := by
  refine ⟨?_, ?_, ?_, ?_, ?_, ?_, ?_, ?_, ?_⟩ <;>
    simp [settings, core, rsfOf, flagOf, boolSetter, pure, Except.pure]

/-- P: invalid choices are rejected with an error, never ignored -/
theorem P_invalid_rejected (k : Kwargs ℝ) :
    (∀ c, k.rsf = some c → 3 ≤ c → settings k = .error Err.valueError) ∧
    (∀ v r, rsfOf k.rsf = .ok r → k.lowq = some v → (∀ b, v ≠ PyVal.bool b) → settings k = .error Err.typeError) ∧
    (∀ v r a, rsfOf k.rsf = .ok r → flagOf k.lowq = .ok a → k.lorch = some v → (∀ b, v ≠ PyVal.bool b) →
      settings k = .error Err.typeError) := by
  refine ⟨?_, ?_, ?_⟩
  · intro c hc h3
    have : ¬ c < 3 := by omega
    simp [settings, rsfOf, hc, this, throw, throwThe, MonadExceptOf.throw]
  · intro v r hr hl hv
    have : flagOf (some v) = .error Err.typeError := by
      cases v <;> simp_all [flagOf, boolSetter, throw, throwThe, MonadExceptOf.throw]
    simp only [settings, hr, hl, this]
  · intro v r a hr ha hl hv
    have : flagOf (some v) = .error Err.typeError := by
      cases v <;> simp_all [flagOf, boolSetter, throw, throwThe, MonadExceptOf.throw]
    simp only [settings, hr, ha, hl, this]

/-- P: the command-line entry point runs exactly the steps, in the order, of driving the library with the same settings
    (optional steps guarded by the instance's settings), hence writes the same files -/
theorem P_cli_eq_lib (k : Kwargs ℝ) (s : Settings ℝ) (hf : k.nFiles ≠ 0) (h : settings k = .ok s) :
    cliSteps k = .ok (libSteps s) := by
  have : (k.nFiles == 0) = false := by simpa using hf
  simp [cliSteps, libSteps, this, h, bind, Except.bind, pure, Except.pure]

theorem toNat_real (v : ℝ) : Rint.toNat v = ⌊v⌋.toNat := rfl

/-- numpy.arange's length is the ceiling of (stop − start)/step -/
theorem arangeLen_ceil (a b d : ℝ) (h : 0 ≤ (b - a) / d) : (arangeLen a b d : ℝ) = ⌈(b - a) / d⌉ := by
  unfold arangeLen
  simp only [toNat_real]
  set t := (b - a) / d
  have hfn : ((⌊t⌋.toNat : ℕ) : ℝ) = (⌊t⌋ : ℝ) := by
    have : ((⌊t⌋.toNat : ℤ)) = ⌊t⌋ := Int.toNat_of_nonneg (Int.floor_nonneg.mpr h)
    exact_mod_cast congrArg (fun z : ℤ => (z : ℝ)) this
  by_cases hlt : ((⌊t⌋.toNat : ℕ) : ℝ) < t
  · simp only [hlt, if_true]
    rw [hfn] at hlt
    have hc : ⌈t⌉ = ⌊t⌋ + 1 := by
      rw [Int.ceil_eq_iff]; push_cast
      exact ⟨by linarith, by linarith [Int.lt_floor_add_one t]⟩
    rw [hc]; push_cast; rw [hfn]
  · simp only [hlt, if_false]
    rw [hfn] at hlt ⊢
    have : (⌊t⌋ : ℝ) = t := le_antisymm (Int.floor_le t) (not_lt.mp hlt)
    have hc : ⌈t⌉ = ⌊t⌋ := by
      rw [Int.ceil_eq_iff]
      exact ⟨by linarith, by linarith⟩
    rw [hc]

/-- P: the r grid starts at Rmin, has constant step Rdelta and covers Rmax -/
theorem P_rgrid_shape (rmin rmax d : ℝ) (hd : 0 < d) (hr : rmin ≤ rmax) :
    createDomain rmin rmax d = (List.range (arangeLen rmin (rmax + d) d)).map (fun i : ℕ => rmin + (i : ℝ) * d) ∧
    0 < arangeLen rmin (rmax + d) d ∧
    rmax ≤ rmin + ((arangeLen rmin (rmax + d) d - 1 : ℕ) : ℝ) * d := by
  have ht : 0 ≤ (rmax + d - rmin) / d := div_nonneg (by linarith) hd.le
  have hlen := arangeLen_ceil rmin (rmax + d) d ht
  have h1 : (1 : ℝ) ≤ (rmax + d - rmin) / d := by rw [le_div_iff₀ hd]; linarith
  have hceil : (1 : ℝ) ≤ (⌈(rmax + d - rmin) / d⌉ : ℝ) := le_trans h1 (Int.le_ceil _)
  have hpos : 0 < arangeLen rmin (rmax + d) d := by
    have : (0 : ℝ) < (arangeLen rmin (rmax + d) d : ℝ) := by rw [hlen]; linarith
    exact_mod_cast this
  refine ⟨?_, hpos, ?_⟩
  · unfold createDomain
    apply List.map_congr_left
    intro i _
    ring
  · have hcast : ((arangeLen rmin (rmax + d) d - 1 : ℕ) : ℝ) = (arangeLen rmin (rmax + d) d : ℝ) - 1 := by
      rw [Nat.cast_sub hpos]; simp
    rw [hcast, hlen]
    have := Int.le_ceil ((rmax + d - rmin) / d)
    have h2 : (rmax + d - rmin) / d * d = rmax + d - rmin := by field_simp
    nlinarith

/-- P: the flag form with nothing but files given means the parser's documented defaults -/
theorem P_flags_defaults (n : ℕ) :
    settings (parseFlags ({ nFiles := n } : Flags ℝ)) = .ok
      { rsf := 0, rmin := 0, rmax := 50, rdelta := 50 / 5000, density := PyVal.num 1, lowq := false, lorch := false,
        cutoff := PyVal.none, bcoh := 1, btot := 1, qmin := none, qmax := none, stem := some 1 } := by
  simp [settings, core, rsfOf, flagOf, parseFlags, boolSetter, pure, Except.pure]

/-- X: a concrete configuration: filter and Lorch on -/
example : cliSteps ({ hasFF := true, cutoff := some (PyVal.num 1.5), lorch := some (PyVal.bool true) } : Kwargs ℝ)
    = .ok [.readAll, .merge, .writeSq, .transform, .writeGr, .filter, .lorch, .keenFq, .keenGr] := by
  simp [cliSteps, settings, core, rsfOf, flagOf, boolSetter, isSet, bind, Except.bind, pure, Except.pure]

end C19
end
