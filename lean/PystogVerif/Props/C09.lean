import PystogVerif.Proofs.Converter
import PystogVerif.Gen.FourierFilter
import PystogVerif.Gen.Facts

/-!
# C09 — all filter variants give the same physics in every representation

Model: the 12 generated `FourierFilter` functions.  Each of the 11 wrappers is proved to be
`conversion-out ∘ g_using_F ∘ conversion-in` on all nine outputs (three of them uncertainties), for all inputs,
cutoffs and options, by unfolding the regenerated definitions.
-/

abbrev Nine := Vec ℝ × Vec ℝ × Vec ℝ × Vec ℝ × Vec ℝ × Vec ℝ × Vec ℝ × Vec ℝ × Vec ℝ

namespace GenTable

noncomputable def filt : GFn → RFn → Kw ℝ → Junk ℝ → Vec ℝ → Vec ℝ → Vec ℝ → Vec ℝ → ℝ → Option (Vec ℝ) → Option (Vec ℝ) → Nine
  | .g, .F => FourierFilter.g_using_F
  | .g, .S => FourierFilter.g_using_S
  | .g, .FK => FourierFilter.g_using_FK
  | .g, .DCS => FourierFilter.g_using_DCS
  | .G, .F => FourierFilter.G_using_F
  | .G, .S => FourierFilter.G_using_S
  | .G, .FK => FourierFilter.G_using_FK
  | .G, .DCS => FourierFilter.G_using_DCS
  | .GK, .F => FourierFilter.GK_using_F
  | .GK, .S => FourierFilter.GK_using_S
  | .GK, .FK => FourierFilter.GK_using_FK
  | .GK, .DCS => FourierFilter.GK_using_DCS

/-- conversion of the real-space input to g(r) (identity keeps the optional uncertainty) -/
noncomputable def fIn_g (X : GFn) (kw : Kw ℝ) (junk : Junk ℝ) (r y : Vec ℝ) (dy : Option (Vec ℝ)) : Vec ℝ × Option (Vec ℝ) :=
  match X with
  | .g => (y, dy)
  | X => ((gconv X .g kw junk r y dy).1, some (gconv X .g kw junk r y dy).2)

noncomputable def fIn_F (Y : RFn) (kw : Kw ℝ) (junk : Junk ℝ) (q y : Vec ℝ) (dy : Option (Vec ℝ)) : Vec ℝ × Option (Vec ℝ) :=
  match Y with
  | .F => (y, dy)
  | Y => ((rconv Y .F kw junk q y dy).1, some (rconv Y .F kw junk q y dy).2)

noncomputable def fOut_g (X : GFn) (kw : Kw ℝ) (junk : Junk ℝ) (r v dv : Vec ℝ) : Vec ℝ × Vec ℝ :=
  match X with
  | .g => (v, dv)
  | X => gconv .g X kw junk r v (some dv)

noncomputable def fOut_F (Y : RFn) (kw : Kw ℝ) (junk : Junk ℝ) (q v dv : Vec ℝ) : Vec ℝ × Vec ℝ :=
  match Y with
  | .F => (v, dv)
  | Y => rconv .F Y kw junk q v (some dv)

end GenTable

namespace C09
variable (kw : Kw ℝ) (junk : Junk ℝ)

/-- P: every variant is the g(r)/Q[S−1] core wrapped in conversions, on all nine outputs; the uncertainties the caller
    supplies are the ones that reach the core (none is dropped or replaced) -/
theorem P_variant_factor (X : GFn) (Y : RFn) (r gr q fq : Vec ℝ) (cutoff : ℝ) (dgr dfq : Option (Vec ℝ)) :
    GenTable.filt X Y kw junk r gr q fq cutoff dgr dfq =
      (let a := GenTable.fIn_g X kw junk r gr dgr
       let b := GenTable.fIn_F Y kw junk q fq dfq
       let (q_ft, f_ft, q', f', r', g', df_ft, df', dg') := FourierFilter.g_using_F kw junk r a.1 q b.1 cutoff a.2 b.2
       let o_ft := GenTable.fOut_F Y kw junk q_ft f_ft df_ft
       let o := GenTable.fOut_F Y kw junk q' f' df'
       let og := GenTable.fOut_g X kw junk r' g' dg'
       (q_ft, o_ft.1, q', o.1, r', og.1, o_ft.2, o.2, og.2)) := by
  cases X <;> cases Y <;> rfl

/-- F: no call site inside FourierFilter passes a keyword that its callee silently swallows
    (the uncertainty argument of FK_to_F is `dfq_keen`, not `dfq`) -/
theorem F_swallowed_filter_none : Gen.Facts.swallowedFourierFilter = [] := by decide

/-- P: hence two variants whose inputs are conversions of one another give outputs that are conversions of one
    another: same core call ⇒ same nine core outputs -/
theorem P_variants_agree (X X' : GFn) (Y Y' : RFn) (r gr gr' q fq fq' : Vec ℝ) (cutoff : ℝ) (dgr dgr' dfq dfq' : Option (Vec ℝ))
    (hg : GenTable.fIn_g X kw junk r gr dgr = GenTable.fIn_g X' kw junk r gr' dgr')
    (hf : GenTable.fIn_F Y kw junk q fq dfq = GenTable.fIn_F Y' kw junk q fq' dfq') :
    FourierFilter.g_using_F kw junk r (GenTable.fIn_g X kw junk r gr dgr).1 q (GenTable.fIn_F Y kw junk q fq dfq).1 cutoff
        (GenTable.fIn_g X kw junk r gr dgr).2 (GenTable.fIn_F Y kw junk q fq dfq).2
      = FourierFilter.g_using_F kw junk r (GenTable.fIn_g X' kw junk r gr' dgr').1 q (GenTable.fIn_F Y' kw junk q fq' dfq').1 cutoff
        (GenTable.fIn_g X' kw junk r gr' dgr').2 (GenTable.fIn_F Y' kw junk q fq' dfq').2 := by
  rw [hg, hf]

example : GenTable.filt .GK .DCS = FourierFilter.GK_using_DCS := rfl

end C09
