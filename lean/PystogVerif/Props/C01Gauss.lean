import PystogVerif.Proofs.Gaussian

/-!
# C01 — the closed-form family of the statement is a sine-Fourier pair under the documented conventions

`G(r) = A r exp(-a r²)`  and  `F(Q) = A √π Q / (4 a^{3/2}) exp(-Q²/4a)`  satisfy, for every A, every a > 0 and every Q (resp. r),
`F(Q) = ∫₀^∞ G(r) sin(Qr) dr`  and  `G(r) = (2/π) ∫₀^∞ F(Q) sin(Qr) dQ`;  finite sums of members inherit both.
These are statements about the integrals that `Transformer.G_to_F` / `F_to_G` approximate by trapezoid quadrature; the quadrature
error itself is measured by the oracle on the real code, the *target* of that comparison is what is proved here.
-/
namespace C01
open Real MeasureTheory Set PystogVerif.Gauss

/-- the real-space member of the family -/
noncomputable def gaussG (A a r : ℝ) : ℝ := A * r * Real.exp (-a * r ^ 2)
/-- its reciprocal-space partner, exactly as written in the property -/
noncomputable def gaussF (A a Q : ℝ) : ℝ := A * Real.sqrt π * Q / (4 * a ^ (3 / 2 : ℝ)) * Real.exp (-Q ^ 2 / (4 * a))

theorem rpow_three_halves (a : ℝ) (ha : 0 < a) : a ^ (3 / 2 : ℝ) = a * Real.sqrt a := by
  rw [show (3 / 2 : ℝ) = 1 + 1 / 2 by norm_num, Real.rpow_add ha, Real.rpow_one, Real.sqrt_eq_rpow]

/-- r → Q direction: Q[S(Q)-1] = ∫ G(r) sin(Qr) dr, the bare kernel. -/
theorem P_gauss_G_to_F (A a Q : ℝ) (ha : 0 < a) :
    ∫ r in Ioi (0 : ℝ), gaussG A a r * Real.sin (Q * r) = gaussF A a Q := by
  have h := integral_Ioi_mul_gauss_sin a Q ha
  have e : ∀ r : ℝ, gaussG A a r * Real.sin (Q * r) = A * (r * Real.exp (-a * r ^ 2) * Real.sin (Q * r)) := by
    intro r; unfold gaussG; ring
  simp_rw [e]
  rw [integral_const_mul, h]
  unfold gaussF
  rw [rpow_three_halves a ha, Real.sqrt_div' _ ha.le]
  have hs : Real.sqrt a ≠ 0 := (Real.sqrt_pos.mpr ha).ne'
  field_simp

/-- Q → r direction: G(r) = (2/π) ∫ Q[S(Q)-1] sin(Qr) dQ. -/
theorem P_gauss_F_to_G (A a r : ℝ) (ha : 0 < a) :
    2 / π * ∫ Q in Ioi (0 : ℝ), gaussF A a Q * Real.sin (Q * r) = gaussG A a r := by
  have ha' : 0 < 1 / (4 * a) := by positivity
  have h := integral_Ioi_mul_gauss_sin (1 / (4 * a)) r ha'
  have e : ∀ Q : ℝ, gaussF A a Q * Real.sin (Q * r)
      = A * Real.sqrt π / (4 * a ^ (3 / 2 : ℝ)) * (Q * Real.exp (-(1 / (4 * a)) * Q ^ 2) * Real.sin (r * Q)) := by
    intro Q; unfold gaussF
    rw [show -Q ^ 2 / (4 * a) = -(1 / (4 * a)) * Q ^ 2 by ring, mul_comm Q r]; ring
  simp_rw [e]
  rw [integral_const_mul, h]
  unfold gaussG
  rw [rpow_three_halves a ha]
  have h1 : π / (1 / (4 * a)) = 4 * a * π := by field_simp
  have h2 : -r ^ 2 / (4 * (1 / (4 * a))) = -a * r ^ 2 := by field_simp
  rw [h1, h2]
  have h3 : Real.sqrt (4 * a * π) = 2 * Real.sqrt a * Real.sqrt π := by
    rw [Real.sqrt_mul (by positivity), Real.sqrt_mul (by norm_num)]
    rw [show (4 : ℝ) = 2 ^ 2 by norm_num, Real.sqrt_sq (by norm_num)]
  rw [h3]
  have hs : Real.sqrt a ≠ 0 := (Real.sqrt_pos.mpr ha).ne'
  have hp : Real.sqrt π * Real.sqrt π = π := Real.mul_self_sqrt Real.pi_pos.le
  have hq : Real.sqrt a * Real.sqrt a = a := Real.mul_self_sqrt ha.le
  field_simp
  rw [Real.sq_sqrt Real.pi_pos.le]; ring

theorem integrableOn_gaussG_sin (A a Q : ℝ) (ha : 0 < a) :
    IntegrableOn (fun r : ℝ => gaussG A a r * Real.sin (Q * r)) (Ioi 0) := by
  have hxg : Integrable (fun x : ℝ => x * Real.exp (-a * x ^ 2)) := integrable_mul_exp_neg_mul_sq ha
  have hsin : AEStronglyMeasurable (fun x : ℝ => Real.sin (Q * x)) volume :=
    (Real.continuous_sin.comp (continuous_const.mul continuous_id)).aestronglyMeasurable
  have : Integrable (fun r : ℝ => gaussG A a r * Real.sin (Q * r)) := by
    have h := (hxg.const_mul A).mul_bdd (c := 1) hsin (Filter.Eventually.of_forall fun x => by simpa using Real.abs_sin_le_one _)
    refine h.congr (Filter.Eventually.of_forall fun x => ?_)
    simp only [gaussG]; ring
  exact this.integrableOn

/-- sums of members: the partner of a finite sum is the sum of the partners. -/
theorem P_gauss_sum_G_to_F (ps : List (ℝ × ℝ)) (hpos : ∀ p ∈ ps, 0 < p.2) (Q : ℝ) :
    ∫ r in Ioi (0 : ℝ), (ps.map fun p => gaussG p.1 p.2 r).sum * Real.sin (Q * r) = (ps.map fun p => gaussF p.1 p.2 Q).sum := by
  induction ps with
  | nil => simp
  | cons p ps ih =>
    have hp : 0 < p.2 := hpos p (by simp)
    have hps : ∀ q ∈ ps, 0 < q.2 := fun q hq => hpos q (by simp [hq])
    have hint : ∀ qs : List (ℝ × ℝ), (∀ q ∈ qs, 0 < q.2) →
        IntegrableOn (fun r : ℝ => (qs.map fun p => gaussG p.1 p.2 r).sum * Real.sin (Q * r)) (Ioi 0) := by
      intro qs
      induction qs with
      | nil => intro _; simp
      | cons q qs ihq =>
        intro hq
        have := (integrableOn_gaussG_sin q.1 q.2 Q (hq q (by simp))).add (ihq fun x hx => hq x (by simp [hx]))
        refine this.congr (Filter.Eventually.of_forall fun x => ?_)
        simp only [List.map_cons, List.sum_cons, Pi.add_apply]; ring
    simp only [List.map_cons, List.sum_cons, add_mul]
    rw [integral_add (integrableOn_gaussG_sin p.1 p.2 Q hp) (hint ps hps), P_gauss_G_to_F _ _ _ hp, ih hps]

theorem integrableOn_gaussF_sin (A a r : ℝ) (ha : 0 < a) :
    IntegrableOn (fun Q : ℝ => gaussF A a Q * Real.sin (Q * r)) (Ioi 0) := by
  have ha' : 0 < 1 / (4 * a) := by positivity
  have hxg : Integrable (fun x : ℝ => x * Real.exp (-(1 / (4 * a)) * x ^ 2)) := integrable_mul_exp_neg_mul_sq ha'
  have hsin : AEStronglyMeasurable (fun x : ℝ => Real.sin (x * r)) volume :=
    (Real.continuous_sin.comp (continuous_id.mul continuous_const)).aestronglyMeasurable
  have : Integrable (fun Q : ℝ => gaussF A a Q * Real.sin (Q * r)) := by
    have h := (hxg.const_mul (A * Real.sqrt π / (4 * a ^ (3 / 2 : ℝ)))).mul_bdd (c := 1) hsin
      (Filter.Eventually.of_forall fun x => by simpa using Real.abs_sin_le_one _)
    refine h.congr (Filter.Eventually.of_forall fun x => ?_)
    simp only [gaussF]
    rw [show -x ^ 2 / (4 * a) = -(1 / (4 * a)) * x ^ 2 by ring]; ring
  exact this.integrableOn

theorem P_gauss_sum_F_to_G (ps : List (ℝ × ℝ)) (hpos : ∀ p ∈ ps, 0 < p.2) (r : ℝ) :
    2 / π * ∫ Q in Ioi (0 : ℝ), (ps.map fun p => gaussF p.1 p.2 Q).sum * Real.sin (Q * r) = (ps.map fun p => gaussG p.1 p.2 r).sum := by
  induction ps with
  | nil => simp
  | cons p ps ih =>
    have hp : 0 < p.2 := hpos p (by simp)
    have hps : ∀ q ∈ ps, 0 < q.2 := fun q hq => hpos q (by simp [hq])
    have hint : ∀ qs : List (ℝ × ℝ), (∀ q ∈ qs, 0 < q.2) →
        IntegrableOn (fun Q : ℝ => (qs.map fun p => gaussF p.1 p.2 Q).sum * Real.sin (Q * r)) (Ioi 0) := by
      intro qs
      induction qs with
      | nil => intro _; simp
      | cons q qs ihq =>
        intro hq
        have := (integrableOn_gaussF_sin q.1 q.2 r (hq q (by simp))).add (ihq fun x hx => hq x (by simp [hx]))
        refine this.congr (Filter.Eventually.of_forall fun x => ?_)
        simp only [List.map_cons, List.sum_cons, Pi.add_apply]; ring
    simp only [List.map_cons, List.sum_cons, add_mul]
    rw [integral_add (integrableOn_gaussF_sin p.1 p.2 r hp) (hint ps hps), mul_add, P_gauss_F_to_G _ _ _ hp, ih hps]

/-- the round trip at the level of the integrals: G → F → G returns G for every member (both conventions composed). -/
theorem P_gauss_round_trip (A a r : ℝ) (ha : 0 < a) :
    2 / π * ∫ Q in Ioi (0 : ℝ), (∫ r' in Ioi (0 : ℝ), gaussG A a r' * Real.sin (Q * r')) * Real.sin (Q * r) = gaussG A a r := by
  simp_rw [P_gauss_G_to_F A a _ ha]
  exact P_gauss_F_to_G A a r ha

/-- the hypotheses are satisfiable and the closed form is not the trivial one: at A = 1, a = 1, Q = 2 the partner is √π/(2e) ≠ 0. -/
example : gaussF 1 1 2 = Real.sqrt π / 2 * Real.exp (-1) := by
  unfold gaussF; simp only [Real.one_rpow]; norm_num; ring

end C01
