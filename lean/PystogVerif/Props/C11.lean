import PystogVerif.Props.C10
import PystogVerif.Proofs.Transform
import PystogVerif.Proofs.Converter

/-!
# C11 — dataset ingestion crops, rescales, offsets, windows and converts each input faithfully

Model: hand-written `Stog.datasetRows` / `Stog.addDataset` / `Stog.ingestAll` (mirror of `StoG.add_dataset`, validated
bit for bit against the real class by the correspondence run); the crop and the conversions inside are the *generated*
`Transformer.apply_cropping` and `Converter.*_to_S`.
-/
noncomputable section
namespace C11
open Stog

variable (cfg : Cfg ℝ)

/-- P: ingestion is history-free: what a dataset contributes is a function of the dataset and the instance settings
    only; `add_dataset` appends it to both storage arrays -/
theorem P_step_history_free (st : Rows ℝ × Rows ℝ) (info : Info ℝ) :
    addDataset cfg st info = (st.1.append (datasetRows cfg info).1, st.2.append (datasetRows cfg info).2) := rfl

/-- P: both storage arrays stay aligned: the S(Q) row carries exactly the Q values of the as-given row -/
theorem P_stores_same_Q (info : Info ℝ) : (datasetRows cfg info).1.x = (datasetRows cfg info).2.x := rfl

/-- invariant over any sequence of `add_dataset` calls -/
theorem P_stores_aligned_invariant (ds : List (Info ℝ)) : (ingestAll cfg ds).1.x = (ingestAll cfg ds).2.x := by
  unfold ingestAll
  suffices h : ∀ (st : Rows ℝ × Rows ℝ), st.1.x = st.2.x → (ds.foldl (addDataset cfg) st).1.x = (ds.foldl (addDataset cfg) st).2.x from
    h _ rfl
  induction ds with
  | nil => intro st h; simpa using h
  | cons d t ih =>
    intro st h
    simp only [List.foldl_cons]
    apply ih
    simp only [addDataset, Rows.append, h, P_stores_same_Q cfg d]

theorem mem_compress_ge (x : List ℝ) (a v : ℝ) (h : v ∈ Vec.compress (Vec.geS x a) x) : a ≤ v := by
  rw [show Vec.geS x a = x.map (fun t => decide (a ≤ t)) from rfl, compress_map _ x x rfl] at h
  simp only [List.mem_map, List.mem_filter, decide_eq_true_eq] at h
  obtain ⟨p, ⟨hp, hc⟩, rfl⟩ := h
  rw [← mem_zip_self x p hp]; exact hc

theorem mem_compress_le (x : List ℝ) (b v : ℝ) (h : v ∈ Vec.compress (Vec.leS x b) x) : v ≤ b := by
  rw [show Vec.leS x b = x.map (fun t => decide (t ≤ b)) from rfl, compress_map _ x x rfl] at h
  simp only [List.mem_map, List.mem_filter, decide_eq_true_eq] at h
  obtain ⟨p, ⟨hp, hc⟩, rfl⟩ := h
  rw [← mem_zip_self x p hp]; exact hc

theorem mem_compress_of_mem (m : List Bool) (x : List ℝ) (v : ℝ) (h : v ∈ Vec.compress m x) : v ∈ x := by
  simp only [Vec.compress, List.mem_map, List.mem_filter] at h
  obtain ⟨p, ⟨hp, _⟩, rfl⟩ := h
  exact (List.of_mem_zip hp).2

/-- P: no stored point lies outside the global Qmin/Qmax window -/
theorem P_no_point_outside_window (info : Info ℝ) (v : ℝ) (hv : v ∈ (datasetRows cfg info).1.x) :
    (∀ a, cfg.qmin = some a → a ≤ v) ∧ (∀ b, cfg.qmax = some b → v ≤ b) := by
  simp only [datasetRows, globalStage, compressRows] at hv
  constructor
  · intro a ha
    rw [ha] at hv
    rcases hb : cfg.qmax with _ | b
    · simp only [hb] at hv
      exact mem_compress_ge _ a v hv
    · simp only [hb] at hv
      exact mem_compress_ge _ a v (mem_compress_of_mem _ _ v hv)
  · intro b hb
    rw [hb] at hv
    exact mem_compress_le _ b v hv

/-- P: the stored S(Q) row is exactly the conversion of the stored as-given row with the instance's scattering lengths -/
theorem P_sq_row_is_conversion (info : Info ℝ) :
    let r := (datasetRows cfg info).1
    let kwb : Kw ℝ := { (Kw.none : Kw ℝ) with bcoh := cfg.bcoh, btot := cfg.btot }
    ((datasetRows cfg info).2.y, (datasetRows cfg info).2.dy) =
      (if info.kind == 1 then Converter.F_to_S (Kw.none : Kw ℝ) noJunk r.x r.y (some r.dy)
       else if info.kind == 2 then Converter.FK_to_S kwb noJunk r.x r.y (some r.dy)
       else if info.kind == 3 then Converter.DCS_to_S kwb noJunk r.x r.y (some r.dy)
       else (r.y, r.dy)) := by
  simp only [datasetRows, toSq]

/-- P: y is scaled then offset, the uncertainty is scaled only, Q is shifted by the Q offset -/
theorem P_scale_offset (x y dy : List ℝ) (ys yo xo : ℝ) :
    applyScalesAndOffset x y dy ys yo xo = (x.map (· + xo), y.map (fun v => v * ys + yo), dy.map (· * ys)) := by
  simp [applyScalesAndOffset, Vec.mulS, Vec.addS]

/-- P: with no per-dataset options and no global window a dataset on the 0.01 lattice is stored as it is
    (rounded to the storage precision), nothing is lost -/
theorem P_plain_dataset_stored_whole (info : Info ℝ) (hq : info.qmin = none) (hq' : info.qmax = none)
    (hy : info.hasY = false) (hx : info.hasX = false) (hc : cfg.qmin = none) (hc' : cfg.qmax = none)
    (hl : info.x.length = info.y.length) (hd : ∀ d, info.dy = some d → info.x.length = d.length) :
    (datasetRows cfg info).1.x = Numpy.aroundV 2 info.x ∧ (datasetRows cfg info).1.y = Numpy.aroundV 16 info.y := by
  have hlen : (Numpy.aroundV 2 info.x).length = (Numpy.aroundV 16 info.y).length := by simp [Numpy.aroundV, hl]
  have hall : ∀ a ∈ Numpy.aroundV 2 info.x, Vec.min (Numpy.aroundV 2 info.x) ≤ a ∧ a ≤ Vec.max (Numpy.aroundV 2 info.x) :=
    fun a ha => ⟨vec_min_le _ a ha, vec_le_max _ a ha⟩
  rcases hdy : info.dy with _ | e
  · simp only [datasetRows, globalStage, adjustStage, cropStage, roundedDy, orElse, hdy, hq, hq', hy, hx, hc, hc', Bool.or_false, Bool.false_eq_true, if_false]
    rw [apply_cropping_spec _ _ _ _ _ _ _ hlen (fun d h => by cases h; simp [Numpy.aroundV, Vec.zerosLike, hl])]
    constructor
    · exact cropL_all _ _ _ _ rfl hall
    · exact cropL_all _ _ _ _ hlen hall
  · simp only [datasetRows, globalStage, adjustStage, cropStage, roundedDy, orElse, hdy, hq, hq', hy, hx, hc, hc', Bool.or_false, Bool.false_eq_true, if_false]
    rw [apply_cropping_spec _ _ _ _ _ _ _ hlen (fun d h => by cases h; simp [Numpy.aroundV, hd e hdy])]
    constructor
    · exact cropL_all _ _ _ _ rfl hall
    · exact cropL_all _ _ _ _ hlen hall

/-- P: the stored multiset does not depend on what was added before or on the order: the storage after any sequence
    is the concatenation of the per-dataset rows -/
theorem P_stored_is_concatenation (ds : List (Info ℝ)) (hal : ∀ d ∈ ds, C10.Aligned (datasetRows cfg d).2) :
    zip3 (ingestAll cfg ds).2 = ds.flatMap (fun d => zip3 (datasetRows cfg d).2) := by
  have hempty : C10.Aligned (Rows.empty : Rows ℝ) := by simp [C10.Aligned, Rows.empty]
  have := (C10.ingest_foldl cfg ds (Rows.empty, Rows.empty) hempty hal).2
  simpa [ingestAll, zip3, Rows.empty] using this

/-! ### The stored rows, point by point (full statement of "crop, scale/offset, shift, global window; nothing else") -/

/-- three parallel columns filtered by a mask computed from the first one = the triples filtered by the predicate -/
theorem zip3_compress (p : ℝ → Bool) : ∀ (x y dy : List ℝ), x.length = y.length → x.length = dy.length →
    zip3 ⟨Vec.compress (x.map p) x, Vec.compress (x.map p) y, Vec.compress (x.map p) dy⟩
      = (zip3 ⟨x, y, dy⟩).filter (fun t => p t.1)
  | [], _, _, _, _ => by simp [zip3, Vec.compress]
  | a :: x, [], _, h, _ => by simp at h
  | a :: x, _ :: _, [], _, h => by simp at h
  | a :: x, b :: y, c :: dy, h1, h2 => by
      have ih := zip3_compress p x y dy (by simpa using h1) (by simpa using h2)
      simp only [zip3, Vec.compress, List.map_cons, List.zip_cons_cons, List.filter_cons, List.zipWith_cons_cons] at ih ⊢
      cases hp : p a <;> simp [ih]

theorem zip3_map (f g h : ℝ → ℝ) : ∀ (x y dy : List ℝ),
    zip3 ⟨x.map f, y.map g, dy.map h⟩ = (zip3 ⟨x, y, dy⟩).map (fun t => (f t.1, g t.2.1, h t.2.2))
  | [], _, _ => by simp [zip3]
  | _ :: _, [], _ => by simp [zip3]
  | _ :: _, _ :: _, [] => by simp [zip3]
  | a :: x, b :: y, c :: dy => by
      have ih := zip3_map f g h x y dy
      simp only [zip3, List.map_cons, List.zip_cons_cons, List.zipWith_cons_cons] at ih ⊢
      rw [ih]

theorem compress_length_eq (m : List Bool) : ∀ (x y : List ℝ), x.length = y.length →
    (Vec.compress m x).length = (Vec.compress m y).length := by
  induction m with
  | nil => intro x y _; simp [Vec.compress]
  | cons b m ih =>
    intro x y h
    cases x with
    | nil => cases y with
      | nil => rfl
      | cons _ _ => simp at h
    | cons a x => cases y with
      | nil => simp at h
      | cons c y =>
        have := ih x y (by simpa using h)
        simp only [Vec.compress, List.zip_cons_cons, List.filter_cons, List.length_map] at this ⊢
        cases b <;> simp [this]

theorem aligned_compressRows (m : List Bool) (r : Rows ℝ) (h : C10.Aligned r) : C10.Aligned (compressRows m r) :=
  ⟨compress_length_eq m _ _ h.1, compress_length_eq m _ _ h.2⟩

/-- the rows of a dataset at storage precision (Q to 2 decimals, values to 16), as triples -/
def rounded (info : Info ℝ) : List (Pt ℝ) :=
  zip3 ⟨Numpy.aroundV 2 info.x, Numpy.aroundV 16 info.y, roundedDy info⟩

/-- per-dataset window [Qmin, Qmax]; an absent limit means the smallest / largest (rounded) Q of the dataset -/
def perLo (info : Info ℝ) : ℝ := orElse info.qmin (Vec.min (Numpy.aroundV 2 info.x))
def perHi (info : Info ℝ) : ℝ := orElse info.qmax (Vec.max (Numpy.aroundV 2 info.x))
def inPer (info : Info ℝ) (t : Pt ℝ) : Bool := decide (perLo info ≤ t.1) && decide (t.1 ≤ perHi info)

/-- y scaled then offset, uncertainty scaled only, Q shifted by the Q offset and kept on the 0.01 lattice
    (only when the dataset carries an "X" or "Y" entry at all) -/
def adjust (info : Info ℝ) (t : Pt ℝ) : Pt ℝ :=
  if info.hasY || info.hasX then
    (Numpy.around 2 (t.1 + orElse info.xoffset ((0:Nat):ℝ)),
     t.2.1 * orElse info.yscale ((1:Nat):ℝ) + orElse info.yoffset ((0:Nat):ℝ),
     t.2.2 * orElse info.yscale ((1:Nat):ℝ))
  else t

/-- global window of the instance -/
def inGlobal (t : Pt ℝ) : Bool :=
  (match cfg.qmin with | some a => decide (a ≤ t.1) | none => true) &&
  (match cfg.qmax with | some b => decide (t.1 ≤ b) | none => true)

theorem rounded_aligned (info : Info ℝ) (hl : info.x.length = info.y.length)
    (hd : ∀ d, info.dy = some d → info.x.length = d.length) :
    (Numpy.aroundV 2 info.x).length = (Numpy.aroundV 16 info.y).length ∧
    (Numpy.aroundV 2 info.x).length = (roundedDy info).length := by
  constructor
  · simp [Numpy.aroundV, hl]
  · unfold roundedDy
    rcases h : info.dy with _ | d
    · simp [Numpy.aroundV, Vec.zerosLike, hl]
    · simp [Numpy.aroundV, hd d h]

theorem cropStage_eq (info : Info ℝ) :
    cropStage info = compressRows ((Numpy.aroundV 2 info.x).map (fun a => decide (perLo info ≤ a) && decide (a ≤ perHi info)))
      ⟨Numpy.aroundV 2 info.x, Numpy.aroundV 16 info.y, roundedDy info⟩ := by
  simp only [cropStage, Transformer.apply_cropping, window_mask, compressRows, perLo, perHi]
  rfl

theorem zip3_cropStage (info : Info ℝ) (hl : info.x.length = info.y.length)
    (hd : ∀ d, info.dy = some d → info.x.length = d.length) :
    zip3 (cropStage info) = (rounded info).filter (inPer info) := by
  obtain ⟨h1, h2⟩ := rounded_aligned info hl hd
  rw [cropStage_eq]
  exact zip3_compress _ _ _ _ h1 h2

theorem aligned_cropStage (info : Info ℝ) (hl : info.x.length = info.y.length)
    (hd : ∀ d, info.dy = some d → info.x.length = d.length) : C10.Aligned (cropStage info) := by
  rw [cropStage_eq]
  exact aligned_compressRows _ _ (rounded_aligned info hl hd)

theorem zip3_adjustStage (info : Info ℝ) (r : Rows ℝ) : zip3 (adjustStage info r) = (zip3 r).map (adjust info) := by
  unfold adjustStage adjust
  by_cases h : (info.hasY || info.hasX) = true
  · simp only [h, if_true, applyScalesAndOffset, Vec.mulS, Vec.addS, Numpy.aroundV, List.map_map]
    rw [zip3_map]
    apply List.map_congr_left
    intro t _
    simp only [Function.comp]
  · simp only [h, if_false]
    simp

theorem aligned_adjustStage (info : Info ℝ) (r : Rows ℝ) (h : C10.Aligned r) : C10.Aligned (adjustStage info r) := by
  unfold adjustStage
  split_ifs
  · simpa [C10.Aligned, applyScalesAndOffset, Vec.mulS, Vec.addS, Numpy.aroundV] using h
  · exact h

theorem zip3_globalStage (r : Rows ℝ) (h : C10.Aligned r) : zip3 (globalStage cfg r) = (zip3 r).filter (inGlobal cfg) := by
  unfold globalStage inGlobal
  rcases ha : cfg.qmin with _ | a <;> rcases hb : cfg.qmax with _ | b
  · simp
  · simp only [compressRows, Vec.leS]
    rw [zip3_compress _ _ _ _ h.1 h.2]
    simp
  · simp only [compressRows, Vec.geS]
    rw [zip3_compress _ _ _ _ h.1 h.2]
    simp
  · have h' := aligned_compressRows (Vec.geS r.x a) r h
    simp only [compressRows, Vec.leS, Vec.geS] at h' ⊢
    rw [zip3_compress _ _ _ _ h'.1 h'.2, zip3_compress _ _ _ _ h.1 h.2, List.filter_filter]
    apply List.filter_congr
    intro t _
    simp [Bool.and_comm]

/-- P (full statement): the stored as-given rows of a dataset are exactly its rounded rows inside the per-dataset window, each
    scaled / offset / shifted, then those inside the global window — in order, with multiplicity, nothing else -/
theorem P_stored_spec (info : Info ℝ) (hl : info.x.length = info.y.length)
    (hd : ∀ d, info.dy = some d → info.x.length = d.length) :
    zip3 (datasetRows cfg info).1 = (((rounded info).filter (inPer info)).map (adjust info)).filter (inGlobal cfg) := by
  simp only [datasetRows]
  rw [zip3_globalStage cfg _ (aligned_adjustStage info _ (aligned_cropStage info hl hd)), zip3_adjustStage,
    zip3_cropStage info hl hd]

/-- P: no point inside both windows is lost: every rounded row inside the per-dataset window whose adjusted Q lies inside the
    global window is stored (as its adjusted triple) -/
theorem P_no_point_inside_both_windows_lost (info : Info ℝ) (hl : info.x.length = info.y.length)
    (hd : ∀ d, info.dy = some d → info.x.length = d.length) (t : Pt ℝ) (ht : t ∈ rounded info)
    (h1 : inPer info t = true) (h2 : inGlobal cfg (adjust info t) = true) :
    adjust info t ∈ zip3 (datasetRows cfg info).1 := by
  rw [P_stored_spec cfg info hl hd]
  exact List.mem_filter.mpr ⟨List.mem_map.mpr ⟨t, List.mem_filter.mpr ⟨ht, h1⟩, rfl⟩, h2⟩

/-- P: and with its multiplicity -/
theorem P_stored_count (info : Info ℝ) (hl : info.x.length = info.y.length)
    (hd : ∀ d, info.dy = some d → info.x.length = d.length) :
    (zip3 (datasetRows cfg info).1).length
      = (((rounded info).filter (inPer info)).map (adjust info)).countP (inGlobal cfg) := by
  rw [P_stored_spec cfg info hl hd, List.countP_eq_length_filter]

/-- P: the stored rows stay aligned (premise of the merge theorems of C10, discharged here for every dataset) -/
theorem P_dataset_rows_aligned (info : Info ℝ) (hl : info.x.length = info.y.length)
    (hd : ∀ d, info.dy = some d → info.x.length = d.length) : C10.Aligned (datasetRows cfg info).1 := by
  simp only [datasetRows, globalStage]
  have h := aligned_adjustStage info _ (aligned_cropStage info hl hd)
  rcases cfg.qmin with _ | a <;> rcases cfg.qmax with _ | b
  · exact h
  · exact aligned_compressRows _ _ h
  · exact aligned_compressRows _ _ h
  · exact aligned_compressRows _ _ (aligned_compressRows _ _ h)

/-- the S(Q) row is aligned as well (the conversions keep lengths) -/
theorem P_sq_rows_aligned (info : Info ℝ) (hb : cfg.bcoh ≠ 0) (hl : info.x.length = info.y.length)
    (hd : ∀ d, info.dy = some d → info.x.length = d.length) : C10.Aligned (datasetRows cfg info).2 := by
  have hr := P_dataset_rows_aligned cfg info hl hd
  set r := (datasetRows cfg info).1 with hrdef
  have hxy : r.x.length = r.y.length := hr.1
  have hxd : r.x.length = r.dy.length := hr.2
  have hsome : ∀ d, some r.dy = some d → r.x.length = d.length := by intro d h; cases h; exact hxd
  show C10.Aligned (toSq cfg info.kind r)
  unfold toSq C10.Aligned
  set kwb : Kw ℝ := { (Kw.none : Kw ℝ) with bcoh := cfg.bcoh, btot := cfg.btot } with hk
  by_cases h1 : (info.kind == 1) = true
  · simp only [h1, if_true]
    have v := rconv_val_SF (Kw.none : Kw ℝ) noJunk .F .S (Or.inr rfl) (Or.inl rfl) r.x r.y (some r.dy) hxy
    have u := rconv_unc_SF (Kw.none : Kw ℝ) noJunk .F .S (Or.inr rfl) (Or.inl rfl) r.x r.y (some r.dy) hxy hsome
    simp only [GenTable.rconv] at v u
    rw [v, u]; simp only [Option.getD, List.length_zipWith]; omega
  · by_cases h2 : (info.kind == 2) = true
    · simp only [h1, h2, if_true, if_false, Bool.false_eq_true]
      have v := rconv_val kwb noJunk .FK .S hb r.x r.y (some r.dy) hxy
      have u := rconv_unc kwb noJunk .FK .S hb r.x r.y (some r.dy) hxy hsome
      simp only [GenTable.rconv] at v u
      rw [v, u]; simp only [Option.getD, List.length_zipWith]; omega
    · by_cases h3 : (info.kind == 3) = true
      · simp only [h1, h2, h3, if_true, if_false, Bool.false_eq_true]
        have v := rconv_val kwb noJunk .DCS .S hb r.x r.y (some r.dy) hxy
        have u := rconv_unc kwb noJunk .DCS .S hb r.x r.y (some r.dy) hxy hsome
        simp only [GenTable.rconv] at v u
        rw [v, u]; simp only [Option.getD, List.length_zipWith]; omega
      · simp only [h1, h2, h3, if_false, Bool.false_eq_true]
        exact ⟨hxy, hxd⟩

/-- P (C10, premise discharged): for well-formed datasets (three columns of equal length) and ⟨b_coh⟩² ≠ 0 the merged
    result does not depend on the order in which the datasets were added -/
theorem P_merge_order_independent_wf (ds₁ ds₂ : List (Info ℝ)) (h : ds₁.Perm ds₂) (hb : cfg.bcoh ≠ 0)
    (hwf : ∀ d ∈ ds₁, d.x.length = d.y.length ∧ ∀ e, d.dy = some e → d.x.length = e.length) :
    mergePts (C10.storedPts cfg ds₁) = mergePts (C10.storedPts cfg ds₂) :=
  C10.P_merge_order_independent cfg ds₁ ds₂ h (fun d hd => P_sq_rows_aligned cfg d hb (hwf d hd).1 (hwf d hd).2)

/-! ### Re-ingestion of a written curve (C18, model level) -/

theorem rintR_int (k : ℤ) : rintR (k : ℝ) = k := by
  unfold rintR
  simp

/-- a value with at most `d` decimals is a fixed point of `np.around(·, d)` -/
theorem around_lattice (d : ℕ) (k : ℤ) :
    Numpy.around d ((k : ℝ) / ((10 ^ d : ℕ) : ℝ)) = (k : ℝ) / ((10 ^ d : ℕ) : ℝ) := by
  have h10 : ((10 ^ d : ℕ) : ℝ) ≠ 0 := by positivity
  unfold Numpy.around
  rw [div_mul_cancel₀ _ h10]
  show rintR (k : ℝ) / _ = _
  rw [rintR_int]

/-- a column all of whose entries have at most `d` decimals -/
def OnLattice (d : ℕ) (v : List ℝ) : Prop := ∀ a ∈ v, ∃ k : ℤ, a = (k : ℝ) / ((10 ^ d : ℕ) : ℝ)

theorem aroundV_lattice (d : ℕ) (v : List ℝ) (h : OnLattice d v) : Numpy.aroundV d v = v := by
  unfold Numpy.aroundV
  conv_rhs => rw [← List.map_id v]
  apply List.map_congr_left
  intro a ha
  obtain ⟨k, rfl⟩ := h a ha
  simpa using around_lattice d k

theorem zip3_fst_mem : ∀ (x y dy : List ℝ) (t : Pt), t ∈ zip3 ⟨x, y, dy⟩ → t.1 ∈ x
  | [], _, _, t, h => by simp [zip3] at h
  | _ :: _, [], _, t, h => by simp [zip3] at h
  | _ :: _, _ :: _, [], t, h => by simp [zip3] at h
  | a :: x, b :: y, c :: dy, t, h => by
      simp only [zip3, List.zip_cons_cons, List.zipWith_cons_cons, List.mem_cons] at h
      rcases h with rfl | h
      · simp
      · exact List.mem_cons_of_mem _ (zip3_fst_mem x y dy t (by simpa [zip3] using h))

theorem zip3_keys : ∀ (x y dy : List ℝ), x.length = y.length → x.length = dy.length → (zip3 ⟨x, y, dy⟩).map (·.1) = x
  | [], _, _, _, _ => by simp [zip3]
  | _ :: _, [], _, h, _ => by simp at h
  | _ :: _, _ :: _, [], _, h => by simp at h
  | a :: x, b :: y, c :: dy, h1, h2 => by
      have ih := zip3_keys x y dy (by simpa using h1) (by simpa using h2)
      simp only [zip3, List.zip_cons_cons, List.zipWith_cons_cons, List.map_cons] at ih ⊢
      rw [ih]

theorem zip3_dy_zero : ∀ (x y : List ℝ) (t : Pt), t ∈ zip3 ⟨x, y, Vec.zerosLike y⟩ → t.2.2 = 0
  | [], _, t, h => by simp [zip3] at h
  | _ :: _, [], t, h => by simp [zip3, Vec.zerosLike] at h
  | a :: x, b :: y, t, h => by
      simp only [zip3, Vec.zerosLike, List.map_cons, List.zip_cons_cons, List.zipWith_cons_cons, List.mem_cons] at h
      rcases h with rfl | h
      · simp
      · exact zip3_dy_zero x y t (by simpa [zip3, Vec.zerosLike] using h)

/-- P (C18, re-ingestion, model level): a curve with strictly increasing Q on the 0.01 lattice and values with at most 16
    decimals (a written file has 12), fed back in as a plain S(Q) dataset into an instance without a global window and
    merged, reproduces the grid and the values -/
theorem P_reingest_merged_curve (x y : List ℝ) (hl : x.length = y.length) (hx : x.Pairwise (· < ·))
    (hx2 : OnLattice 2 x) (hy16 : OnLattice 16 y) (hc : cfg.qmin = none) (hc' : cfg.qmax = none) :
    mergePts (zip3 (datasetRows cfg { x := x, y := y }).2) = zip3 ⟨x, y, Vec.zerosLike y⟩ := by
  set info : Info ℝ := { x := x, y := y } with hinfo
  have hspec := P_stored_spec cfg info hl (by intro d h; simp [hinfo] at h)
  have hr : rounded info = zip3 ⟨x, y, Vec.zerosLike y⟩ := by
    simp only [rounded, roundedDy, hinfo, aroundV_lattice 2 x hx2, aroundV_lattice 16 y hy16]
  have hper : (rounded info).filter (inPer info) = rounded info := by
    apply List.filter_eq_self.mpr
    intro t ht
    rw [hr] at ht
    have hmem : t.1 ∈ x := zip3_fst_mem _ _ _ t ht
    simp only [inPer, perLo, perHi, orElse, hinfo, aroundV_lattice 2 x hx2, Bool.and_eq_true, decide_eq_true_eq]
    exact ⟨vec_min_le x _ hmem, vec_le_max x _ hmem⟩
  have hadj : ∀ t, adjust info t = t := by intro t; simp [adjust, hinfo]
  have hglob : ∀ t, inGlobal cfg t = true := by intro t; simp [inGlobal, hc, hc']
  have h1 : zip3 (datasetRows cfg info).1 = zip3 ⟨x, y, Vec.zerosLike y⟩ := by
    have hmap : List.map (adjust info) (rounded info) = rounded info := by
      conv_rhs => rw [← List.map_id (rounded info)]
      exact List.map_congr_left (fun t _ => hadj t)
    rw [hspec, hper, hmap, List.filter_eq_self.mpr (fun t _ => hglob t), hr]
  have h2 : (datasetRows cfg info).2 = (datasetRows cfg info).1 := by
    simp [datasetRows, toSq, hinfo]
  rw [h2, h1]
  have hlz : x.length = (Vec.zerosLike y).length := by simp [Vec.zerosLike, hl]
  have hkeys : (zip3 ⟨x, y, Vec.zerosLike y⟩).map (·.1) = x := zip3_keys x y _ hl hlz
  have hnd : ((zip3 ⟨x, y, Vec.zerosLike y⟩).map (·.1)).Nodup := by
    rw [hkeys]; exact hx.imp (fun h => h.ne)
  rw [C10.P_merge_distinct _ hnd]
  have hsorted : sortPts (zip3 ⟨x, y, Vec.zerosLike y⟩) = zip3 ⟨x, y, Vec.zerosLike y⟩ := by
    unfold sortPts
    apply List.mergeSort_of_pairwise
    have : ((zip3 ⟨x, y, Vec.zerosLike y⟩).map (·.1)).Pairwise (· ≤ ·) := by rw [hkeys]; exact hx.imp le_of_lt
    rw [List.pairwise_map] at this
    exact this.imp (fun h => by simpa using h)
  rw [hsorted]
  conv_rhs => rw [← List.map_id (zip3 ⟨x, y, Vec.zerosLike y⟩)]
  apply List.map_congr_left
  intro t ht
  have := zip3_dy_zero x y t ht
  simp only [C10.single, id, this, abs_zero]
  rw [← this]

/-- X: the hypotheses are satisfiable: Q = (0.5, 0.51), S = (1.25, 0.75) -/
example : OnLattice 2 [(1:ℝ) / 2, 51 / 100] ∧ OnLattice 16 [(5:ℝ) / 4, 3 / 4] := by
  constructor
  · intro a ha
    simp only [List.mem_cons, List.not_mem_nil, or_false] at ha
    rcases ha with rfl | rfl
    · exact ⟨50, by norm_num⟩
    · exact ⟨51, by norm_num⟩
  · intro a ha
    simp only [List.mem_cons, List.not_mem_nil, or_false] at ha
    rcases ha with rfl | rfl
    · exact ⟨12500000000000000, by norm_num⟩
    · exact ⟨7500000000000000, by norm_num⟩

example : applyScalesAndOffset [(1:ℝ)] [2] [0.5] 3 1 0.25 = ([1.25], [7], [1.5]) := by
  simp [applyScalesAndOffset, Vec.mulS, Vec.addS]; norm_num

end C11
end
