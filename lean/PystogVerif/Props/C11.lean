import PystogVerif.Props.C10
import PystogVerif.Proofs.Transform

/-!
# C11 — dataset ingestion crops, rescales, offsets, windows and converts each input faithfully

Model: hand-written `Stog.datasetRows` / `Stog.addDataset` / `Stog.ingestAll` (mirror of `StoG.add_dataset`, validated
bit for bit against the real class by the correspondence run); the crop and the conversions inside are the *generated*
`Transformer.apply_cropping` and `Converter.*_to_S`.
-/
noncomputable section
namespace C11
open Stog

variable (cfg : Cfg ℝ)

/-- P: ingestion is history-free: what a dataset contributes is a function of the dataset and the instance settings
    only; `add_dataset` appends it to both storage arrays -/
theorem P_step_history_free (st : Rows ℝ × Rows ℝ) (info : Info ℝ) :
    addDataset cfg st info = (st.1.append (datasetRows cfg info).1, st.2.append (datasetRows cfg info).2) := rfl

/-- P: both storage arrays stay aligned: the S(Q) row carries exactly the Q values of the as-given row -/
theorem P_stores_same_Q (info : Info ℝ) : (datasetRows cfg info).1.x = (datasetRows cfg info).2.x := by
  simp only [datasetRows] <;> (try split_ifs) <;> rfl

/-- invariant over any sequence of `add_dataset` calls -/
theorem P_stores_aligned_invariant (ds : List (Info ℝ)) : (ingestAll cfg ds).1.x = (ingestAll cfg ds).2.x := by
  unfold ingestAll
  suffices h : ∀ (st : Rows ℝ × Rows ℝ), st.1.x = st.2.x → (ds.foldl (addDataset cfg) st).1.x = (ds.foldl (addDataset cfg) st).2.x from
    h _ rfl
  induction ds with
  | nil => intro st h; simpa using h
  | cons d t ih =>
    intro st h
    simp only [List.foldl_cons]
    apply ih
    simp only [addDataset, Rows.append, h, P_stores_same_Q cfg d]

theorem mem_compress_ge (x : List ℝ) (a v : ℝ) (h : v ∈ Vec.compress (Vec.geS x a) x) : a ≤ v := by
  rw [show Vec.geS x a = x.map (fun t => decide (a ≤ t)) from rfl, compress_map _ x x rfl] at h
  simp only [List.mem_map, List.mem_filter, decide_eq_true_eq] at h
  obtain ⟨p, ⟨hp, hc⟩, rfl⟩ := h
  rw [← mem_zip_self x p hp]; exact hc

theorem mem_compress_le (x : List ℝ) (b v : ℝ) (h : v ∈ Vec.compress (Vec.leS x b) x) : v ≤ b := by
  rw [show Vec.leS x b = x.map (fun t => decide (t ≤ b)) from rfl, compress_map _ x x rfl] at h
  simp only [List.mem_map, List.mem_filter, decide_eq_true_eq] at h
  obtain ⟨p, ⟨hp, hc⟩, rfl⟩ := h
  rw [← mem_zip_self x p hp]; exact hc

theorem mem_compress_of_mem (m : List Bool) (x : List ℝ) (v : ℝ) (h : v ∈ Vec.compress m x) : v ∈ x := by
  simp only [Vec.compress, List.mem_map, List.mem_filter] at h
  obtain ⟨p, ⟨hp, _⟩, rfl⟩ := h
  exact (List.of_mem_zip hp).2

/-- P: no stored point lies outside the global Qmin/Qmax window -/
theorem P_no_point_outside_window (info : Info ℝ) (v : ℝ) (hv : v ∈ (datasetRows cfg info).1.x) :
    (∀ a, cfg.qmin = some a → a ≤ v) ∧ (∀ b, cfg.qmax = some b → v ≤ b) := by
  simp only [datasetRows] at hv
  constructor
  · intro a ha
    rw [ha] at hv
    rcases hb : cfg.qmax with _ | b
    · simp only [hb] at hv
      split_ifs at hv <;> exact mem_compress_ge _ a v hv
    · simp only [hb] at hv
      split_ifs at hv <;> exact mem_compress_ge _ a v (mem_compress_of_mem _ _ v hv)
  · intro b hb
    rw [hb] at hv
    split_ifs at hv <;> exact mem_compress_le _ b v hv

/-- P: the stored S(Q) row is exactly the conversion of the stored as-given row with the instance's scattering lengths -/
theorem P_sq_row_is_conversion (info : Info ℝ) :
    let r := (datasetRows cfg info).1
    let kwb : Kw ℝ := { (Kw.none : Kw ℝ) with bcoh := cfg.bcoh, btot := cfg.btot }
    ((datasetRows cfg info).2.y, (datasetRows cfg info).2.dy) =
      (if info.kind == 1 then Converter.F_to_S (Kw.none : Kw ℝ) noJunk r.x r.y (some r.dy)
       else if info.kind == 2 then Converter.FK_to_S kwb noJunk r.x r.y (some r.dy)
       else if info.kind == 3 then Converter.DCS_to_S kwb noJunk r.x r.y (some r.dy)
       else (r.y, r.dy)) := by
  simp only [datasetRows] <;> (try split_ifs) <;> rfl

/-- P: y is scaled then offset, the uncertainty is scaled only, Q is shifted by the Q offset -/
theorem P_scale_offset (x y dy : List ℝ) (ys yo xo : ℝ) :
    applyScalesAndOffset x y dy ys yo xo = (x.map (· + xo), y.map (fun v => v * ys + yo), dy.map (· * ys)) := by
  simp [applyScalesAndOffset, Vec.mulS, Vec.addS]

/-- P: with no per-dataset options and no global window a dataset on the 0.01 lattice is stored as it is
    (rounded to the storage precision), nothing is lost -/
theorem P_plain_dataset_stored_whole (info : Info ℝ) (hq : info.qmin = none) (hq' : info.qmax = none)
    (hy : info.hasY = false) (hx : info.hasX = false) (hc : cfg.qmin = none) (hc' : cfg.qmax = none)
    (hl : info.x.length = info.y.length) (hd : ∀ d, info.dy = some d → info.x.length = d.length) :
    (datasetRows cfg info).1.x = Numpy.aroundV 2 info.x ∧ (datasetRows cfg info).1.y = Numpy.aroundV 16 info.y := by
  have hlen : (Numpy.aroundV 2 info.x).length = (Numpy.aroundV 16 info.y).length := by simp [Numpy.aroundV, hl]
  have hall : ∀ a ∈ Numpy.aroundV 2 info.x, Vec.min (Numpy.aroundV 2 info.x) ≤ a ∧ a ≤ Vec.max (Numpy.aroundV 2 info.x) :=
    fun a ha => ⟨vec_min_le _ a ha, vec_le_max _ a ha⟩
  rcases hdy : info.dy with _ | e
  · simp only [datasetRows, hdy, hq, hq', hy, hx, hc, hc', Bool.or_false, Bool.false_eq_true, if_false]
    rw [apply_cropping_spec _ _ _ _ _ _ _ hlen (fun d h => by cases h; simp [Numpy.aroundV, Vec.zerosLike, hl])]
    constructor
    · exact cropL_all _ _ _ _ rfl hall
    · exact cropL_all _ _ _ _ hlen hall
  · simp only [datasetRows, hdy, hq, hq', hy, hx, hc, hc', Bool.or_false, Bool.false_eq_true, if_false]
    rw [apply_cropping_spec _ _ _ _ _ _ _ hlen (fun d h => by cases h; simp [Numpy.aroundV, hd e hdy])]
    constructor
    · exact cropL_all _ _ _ _ rfl hall
    · exact cropL_all _ _ _ _ hlen hall

/-- P: the stored multiset does not depend on what was added before or on the order: the storage after any sequence
    is the concatenation of the per-dataset rows -/
theorem P_stored_is_concatenation (ds : List (Info ℝ)) (hal : ∀ d ∈ ds, C10.Aligned (datasetRows cfg d).2) :
    zip3 (ingestAll cfg ds).2 = ds.flatMap (fun d => zip3 (datasetRows cfg d).2) := by
  have hempty : C10.Aligned (Rows.empty : Rows ℝ) := by simp [C10.Aligned, Rows.empty]
  have := (C10.ingest_foldl cfg ds (Rows.empty, Rows.empty) hempty hal).2
  simpa [ingestAll, zip3, Rows.empty] using this

example : applyScalesAndOffset [(1:ℝ)] [2] [0.5] 3 1 0.25 = ([1.25], [7], [1.5]) := by
  simp [applyScalesAndOffset, Vec.mulS, Vec.addS]; norm_num

end C11
end
