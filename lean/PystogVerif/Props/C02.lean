import PystogVerif.Proofs.Trapz

/-!
# C02 — the core transform is the trapezoid sine quadrature on any grid, zero at 0, odd, linear

Model: generated `Transformer.fourier_transform` (translator output, regenerated every run).
`Spec.T x y t = trapz(x; y_i sin(x_i t))`.
-/
namespace C02
open Spec
variable (kw : Kw ℝ) (junk : Junk ℝ)

/-- R: with no options and no window, for every input grid, output grid and data vector, the value returned at each
    output point is the trapezoid-rule integral of data·sin over the input grid -/
theorem R_fourier_transform_val (hl : kw.lorch = false) (ho : kw.omitted = false) (x y xo : List ℝ)
    (dy : Option (List ℝ)) (hy : x.length = y.length) (hd : ∀ d, dy = some d → x.length = d.length) :
    (Transformer.fourier_transform kw junk x y xo none none dy).2.1 = xo.map (T x y) := by
  rw [ft_val kw junk ho x y xo none none dy hy hd]
  have hx : cropL (winLo x none) (winHi x none) x x = x :=
    cropL_all _ _ x x rfl (fun a ha => ⟨vec_min_le x a ha, vec_le_max x a ha⟩)
  have hyy : cropL (winLo x none) (winHi x none) x y = y :=
    cropL_all _ _ x y hy (fun a ha => ⟨vec_min_le x a ha, vec_le_max x a ha⟩)
  simp only [hx, hyy, hl, Spec.weight, Bool.false_eq_true, if_false, one_mul]
  rfl

/-- R: the output abscissae are returned unchanged -/
theorem R_fourier_transform_grid (x y xo : List ℝ) (xmin xmax : Option ℝ) (dy : Option (List ℝ)) :
    (Transformer.fourier_transform kw junk x y xo xmin xmax dy).1 = xo := rfl

/-- P: exactly zero at x' = 0 -/
theorem P_T_zero (x y : List ℝ) : T x y 0 = 0 := by
  unfold T
  apply trapzRec_zeros
  intro a ha
  simp only [List.mem_iff_getElem?, List.getElem?_zipWith] at ha
  obtain ⟨i, hi⟩ := ha
  cases hx : x[i]? <;> cases hy' : y[i]? <;> simp [hx, hy'] at hi
  exact hi.symm

/-- P: odd in x' -/
theorem P_T_odd (x y : List ℝ) (t : ℝ) : T x y (-t) = - T x y t := by
  unfold T
  have : List.zipWith (fun a b => b * Real.sin (a * -t)) x y
      = (List.zipWith (fun a b => b * Real.sin (a * t)) x y).map ((-1) * ·) := by
    rw [List.map_zipWith]
    congr 1; funext a b
    rw [mul_neg, Real.sin_neg]; ring
  rw [this, trapzRec_map_mul]; ring

/-- P: homogeneous in the data -/
theorem P_T_smul (c : ℝ) (x y : List ℝ) (t : ℝ) : T x (y.map (c * ·)) t = c * T x y t := by
  unfold T
  have : List.zipWith (fun a b => b * Real.sin (a * t)) x (y.map (c * ·))
      = (List.zipWith (fun a b => b * Real.sin (a * t)) x y).map (c * ·) := by
    rw [List.map_zipWith, List.zipWith_map_right]
    congr 1; funext a b; ring
  rw [this, trapzRec_map_mul]

/-- P: additive in the data -/
theorem P_T_add (x y z : List ℝ) (t : ℝ) (h : y.length = z.length) :
    T x (List.zipWith (· + ·) y z) t = T x y t + T x z t := by
  unfold T
  have : List.zipWith (fun a b => b * Real.sin (a * t)) x (List.zipWith (· + ·) y z)
      = List.zipWith (· + ·) (List.zipWith (fun a b => b * Real.sin (a * t)) x y)
          (List.zipWith (fun a b => b * Real.sin (a * t)) x z) := by
    apply List.ext_getElem?
    intro i
    simp only [List.getElem?_zipWith]
    have hiff := getElem?_isSome_eq y z h i
    cases hx : x[i]? <;> cases hy' : y[i]? <;> cases hz : z[i]? <;> simp [hy', hz] at hiff <;> simp
    ring
  rw [this, trapzRec_zipWith_add]
  simp [h]

/-- P: T is the weighted sum Σ_j w_j y_j sin(x_j x') with w_0 = d_0/2, w_j = (d_{j−1}+d_j)/2, w_{n−1} = d_{n−2}/2 -/
theorem P_T_weights (x y : List ℝ) (t : ℝ) (h : x.length = y.length) :
    T x y t = wSum 0 x (List.zipWith (fun a b => b * Real.sin (a * t)) x y) := by
  unfold T
  exact trapzRec_weights _ _ (by simp [h])

/-- X: a concrete non-trivial instance (three-point non-uniform grid) -/
example : wSum 0 [0, 1, 3] [5, 7, 11] = (1:ℝ)/2 * 5 + (1 + 2) / 2 * 7 + 2 / 2 * 11 := by
  simp [wSum]; ring

end C02
