import PystogVerif.Props.C19
import PystogVerif.Props.C18Gen
import PystogVerif.Refine.Workflow
import PystogVerif.Refine.Merge
import PystogVerif.Refine.Config

/-!
# C19 on the code generated from `cli.py`

`GenStog.cli_workflow` is the translation of the workflow part of `pystog_cli` (after `StoG(**kwargs)` and `read_all_data()`):
merge, write S(Q), transform, write the real-space function, optional Fourier filter, optional Lorch step, the two Keen outputs.
The theorem below chains the refinement equations of the individual steps: from a freshly ingested object the entry point
succeeds and writes exactly the files of `Config.libSteps` — the documented library drive with the same settings — in that order.
-/
set_option linter.unusedSimpArgs false
noncomputable section
namespace C19Gen
open StogRt GenStog RefineWorkflow RefineMerge

/-- P (generated code): `utils.create_domain` (regenerated) is the hand model's r grid, so `C19.P_rgrid_shape` — first point Rmin, constant step,
    last point at or beyond Rmax — holds of it; `__update_dr` stores exactly that grid -/
theorem P_gen_create_domain (rmin rmax rdelta : ℝ) :
    GenStog.create_domain rmin rmax rdelta = Config.createDomain rmin rmax rdelta := rfl

theorem P_gen_update_dr (g : GState ℝ) :
    GenStog.update_dr g = .ok { g with dr := Config.createDomain g.rmin g.rmax g.rdelta } := rfl

/-- P (generated code): `StoG(**kwargs)` — the regenerated `__init__`, `__kwargs2attr` and validating setters — succeeds exactly when the
    hand model's `Config.settings` does (same error otherwise) and then holds the hand model's settings, an r grid that is `createDomain`
    of the final Rmin, Rmax, Rdelta, and the given (or default) stem name and post-merge options -/
theorem P_gen_construct (kw : KwargsJ ℝ) : RefineConfig.Refines kw := RefineConfig.construct_refines kw

/-- P (generated code): every given option lands in its attribute with the given value -/
theorem P_gen_key_reaches_attribute (kw : KwargsJ ℝ) (g : GState ℝ) (h : GenStog.construct kw = .ok g) :
    (∀ v, kw.Rmin = some v → g.rmin = v) ∧ (∀ v, kw.Rmax = some v → g.rmax = v) ∧ (∀ v, kw.Rdelta = some v → g.rdelta = v) ∧
    (∀ n, kw.Rdelta = none → kw.Rpoints = some n → g.rdelta = g.rmax / n) ∧
    (∀ v, kw.NumberDensity = some v → g.density = v) ∧ (∀ v, kw.bcoh = some v → g.bcoh_sqrd = v) ∧ (∀ v, kw.btot = some v → g.btot_sqrd = v) ∧
    (∀ b, kw.OmittedXrangeCorrection = some (JVal.bool b) → g.low_q_correction = b) ∧
    (∀ b, kw.LorchFlag = some (JVal.bool b) → g.lorch_flag = b) ∧
    (∀ s, kw.Outputs.bind (·.StemName) = some s → g.stem_name = s) ∧
    (∀ m, kw.Merging = some m → g.merged_opts = m.opts) ∧
    g.dr = Config.createDomain g.rmin g.rmax g.rdelta := by
  have hR := RefineConfig.construct_refines kw
  unfold RefineConfig.Refines at hR
  rw [h] at hR
  obtain ⟨hs, hdr, hstem, hmo⟩ := hR
  have hk := C19.P_key_reaches_setting _ _ hs
  have hd := C19.P_rdelta_rule _ _ hs
  obtain ⟨k1, k2, k3, k4, k5, k6, _, k8, k9, _, _, _, _⟩ := hk
  refine ⟨fun v hv => k1 v (by simp [RefineConfig.toK, hv]), fun v hv => k2 v (by simp [RefineConfig.toK, hv]),
    fun v hv => k3 v (by simp [RefineConfig.toK, hv]), fun n h1 h2 => hd.2.1 n (by simp [RefineConfig.toK, h1]) (by simp [RefineConfig.toK, h2]),
    ?_, fun v hv => k5 v (by simp [RefineConfig.toK, hv]), fun v hv => k6 v (by simp [RefineConfig.toK, hv]),
    fun b hb => k8 b (by simp [RefineConfig.toK, hb, RefineConfig.toPy]), fun b hb => k9 b (by simp [RefineConfig.toK, hb, RefineConfig.toPy]),
    fun s hs' => by rw [hstem, hs']; rfl, fun m hm => by rw [hmo, hm], hdr⟩
  intro v hv
  have := k4 (Config.PyVal.num v) (by simp [RefineConfig.toK, hv])
  simpa [RefineConfig.viewSettings] using this

/-- P (generated code): invalid choices are rejected with an error, never ignored -/
theorem P_gen_invalid_rejected (kw : KwargsJ ℝ) :
    (∀ s, kw.RealSpaceFunction = some s → s ≠ "g(r)" → s ≠ "G(r)" → s ≠ "GK(r)" → GenStog.construct kw = .error Err.valueError) := by
  intro s hs h1 h2 h3
  have hR := RefineConfig.construct_refines kw
  unfold RefineConfig.Refines at hR
  have hc : RefineConfig.rsfCode s = 3 := by simp [RefineConfig.rsfCode, h1, h2, h3]
  have hbad := (C19.P_invalid_rejected (RefineConfig.toK kw)).1 3 (by simp [RefineConfig.toK, hs, hc]) (le_refl 3)
  cases hcon : GenStog.construct kw with
  | ok g => rw [hcon] at hR; rw [hR.1] at hbad; cases hbad
  | error e =>
    rw [hcon] at hR
    rw [hR] at hbad
    cases e <;> simp_all [RefineConfig.errOf]

/-- P (generated code): the flag form.  `StoG(**parse_cli_args(namespace))`, both regenerated, behaves as the hand model's
    `settings (parseFlags flags)`: same success/error, same settings; the stem name given on the command line is the instance's stem name, and
    `--merging offset scale` becomes the merged-S(Q) offset and scale -/
theorem P_gen_flag_form (ns : ArgsNS ℝ) :
    (match GenStog.construct (GenStog.parse_cli_args ns) with
     | .ok g => Config.settings { Config.parseFlags (RefineConfig.toFlags ns) with stem := none, nFiles := 1 } = .ok (RefineConfig.viewSettings g) ∧
         g.dr = Config.createDomain g.rmin g.rmax g.rdelta ∧ g.stem_name = ns.stem_name ∧
         g.merged_opts = { Y := some { Offset := some ns.merging.1, Scale := some ns.merging.2 } }
     | .error e => Config.settings { Config.parseFlags (RefineConfig.toFlags ns) with stem := none, nFiles := 1 } = .error (RefineConfig.errOf e)) := by
  have hR := RefineConfig.construct_refines (GenStog.parse_cli_args ns)
  obtain ⟨h1, h2, h3⟩ := RefineConfig.parse_cli_args_refines ns
  unfold RefineConfig.Refines at hR
  rw [h1] at hR
  cases hc : GenStog.construct (GenStog.parse_cli_args ns) with
  | error e => rw [hc] at hR; exact hR
  | ok g =>
    rw [hc] at hR
    obtain ⟨a, b, c, d⟩ := hR
    refine ⟨a, b, ?_, ?_⟩
    · rw [c, h2]; rfl
    · rw [d]
      cases hm : (GenStog.parse_cli_args ns).Merging with
      | none => rw [hm] at h3; cases h3
      | some m => rw [hm] at h3; simpa using h3

/-- P (generated code): `--Rdelta 0` is not a step: the flag form drops a zero Rdelta (Python truthiness) and the step comes from Rpoints -/
theorem P_gen_flag_rdelta_zero (ns : ArgsNS ℝ) (h : ns.Rdelta = some 0) : (GenStog.parse_cli_args ns).Rdelta = none := by
  cases hd : ns.density <;> simp [GenStog.parse_cli_args, h, hd, Cmp.ne]

/-- the default file names, indexed as in `Config.filesOf` -/
def fileName (stem : String) : Nat → String
  | 0 => stem ++ ".sq" | 1 => stem ++ ".gr" | 2 => "ft.dat" | 3 => stem ++ "_ft.sq" | 4 => stem ++ "_ft.gr"
  | 5 => stem ++ "_ft_lorched.gr" | 6 => stem ++ "_rmc.fq" | _ => stem ++ "_rmc.gr"

/-- the files the documented workflow writes for given optional-step settings -/
def expectedFiles (stem : String) (filter lorch : Bool) : List String :=
  [fileName stem 0, fileName stem 1] ++ (if filter then [fileName stem 2, fileName stem 3, fileName stem 4] else []) ++
    (if lorch then [fileName stem 5] else []) ++ [fileName stem 6, fileName stem 7]

/-- the same list through the hand-written configuration model: the files of `Config.libSteps` -/
theorem expected_eq_libSteps (stem : String) (s : Config.Settings ℝ) :
    expectedFiles stem (Config.isSet s.cutoff) s.lorch = ((Config.libSteps s).flatMap Config.filesOf).map (fileName stem) := by
  cases h1 : Config.isSet s.cutoff <;> cases h2 : s.lorch <;>
    simp [expectedFiles, Config.libSteps, Config.filesOf, h1, h2]

/-- the settings that steer the workflow are the same in two states -/
structure Same (g g' : GState ℝ) : Prop where
  stem : g'.stem_name = g.stem_name
  cut : g'.fourier_filter_cutoff = g.fourier_filter_cutoff
  lor : g'.lorch_flag = g.lorch_flag
  rsf : g'.real_space_function = g.real_space_function
  dr : g'.dr = g.dr

theorem Same.refl (g : GState ℝ) : Same g g := ⟨rfl, rfl, rfl, rfl, rfl⟩
theorem Same.trans {a b c : GState ℝ} (h1 : Same a b) (h2 : Same b c) : Same a c :=
  ⟨h2.stem.trans h1.stem, h2.cut.trans h1.cut, h2.lor.trans h1.lor, h2.rsf.trans h1.rsf, h2.dr.trans h1.dr⟩
theorem Same.valid {a b : GState ℝ} (h : Same a b) (hr : ValidRsf a) : ValidRsf b := by
  unfold ValidRsf at *; rw [h.rsf]; exact hr

def names (g : GState ℝ) : List String := g.written.map (·.filename)

theorem L_merge (g : GState ℝ) (hne : StogRt.Rows.cols g.sq_individuals ≠ []) :
    ∃ g1 Q S, merge_data g = .ok g1 ∧ g1.q_master "sq_title" = some Q ∧ g1.sq_master "sq_title" = some S ∧
      g1.r_master = g.r_master ∧ g1.gr_master = g.gr_master ∧ Same g g1 ∧ names g1 = names g := by
  obtain ⟨c1, c2, _, _, _⟩ := afterMerge_curves g
  exact ⟨afterMerge g, _, _, merge_data_refines g hne, c1, c2, rfl, rfl, ⟨rfl, rfl, rfl, rfl, rfl⟩, rfl⟩

theorem L_write (g : GState ℝ) (x y : Vec ℝ) (n : String) :
    (writeOut g x y n).q_master = g.q_master ∧ (writeOut g x y n).sq_master = g.sq_master ∧ (writeOut g x y n).r_master = g.r_master ∧
    (writeOut g x y n).gr_master = g.gr_master ∧ Same g (writeOut g x y n) ∧ names (writeOut g x y n) = names g ++ [n] := by
  refine ⟨rfl, rfl, rfl, rfl, ⟨rfl, rfl, rfl, rfl, rfl⟩, ?_⟩
  simp [names, writeOut]

theorem L_transform (g : GState ℝ) (Q S : Vec ℝ) (hq : g.q_master "sq_title" = some Q) (hs : g.sq_master "sq_title" = some S)
    (hr : ValidRsf g) (hdr : g.dr ≠ []) :
    ∃ g' r gr, transform_merged g = .ok g' ∧ g'.r_master "gr_title" = some r ∧ g'.gr_master "gr_title" = some gr ∧
      g'.q_master = g.q_master ∧ g'.sq_master = g.sq_master ∧ Same g g' ∧ names g' = names g := by
  refine ⟨afterTransform g Q S, (Workflow.grCurve (settingsOf g) { sq := (Q, S) }).1, (Workflow.grCurve (settingsOf g) { sq := (Q, S) }).2,
    transform_merged_refines g Q S hq hs hr hdr, ?_, ?_, rfl, rfl, ⟨rfl, rfl, rfl, rfl, rfl⟩, rfl⟩ <;>
    simp [afterTransform, Dict.set]

theorem L_filter (g : GState ℝ) (r gr Q S : Vec ℝ) (c : ℝ) (hq : g.q_master "sq_title" = some Q) (hs : g.sq_master "sq_title" = some S)
    (hr' : g.r_master "gr_title" = some r) (hg : g.gr_master "gr_title" = some gr) (hc : g.fourier_filter_cutoff = some c)
    (hr : ValidRsf g) :
    ∃ g' ret, fourier_filter g = .ok (g', ret) ∧ Same g g' ∧
      names g' = names g ++ ["ft.dat", g.stem_name ++ "_ft.sq", g.stem_name ++ "_ft.gr"] := by
  refine ⟨afterFilter g r gr Q S c, _, fourier_filter_refines g r gr Q S c hq hs hr' hg hc hr, ⟨rfl, rfl, rfl, rfl, rfl⟩, ?_⟩
  simp [names, afterFilter]

theorem L_lorch (g : GState ℝ) (q s r : Vec ℝ) (hr : ValidRsf g) :
    ∃ g' ret, apply_lorch g q s r = .ok (g', ret) ∧ Same g g' ∧ names g' = names g ++ [g.stem_name ++ "_ft_lorched.gr"] := by
  refine ⟨afterLorch g q s r, _, apply_lorch_refines g q s r hr, ⟨rfl, rfl, rfl, rfl, rfl⟩, ?_⟩
  simp [names, afterLorch]

theorem L_keen_fq (g : GState ℝ) (q s : Vec ℝ) :
    ∃ g', _add_keen_fq g q s = .ok g' ∧ Same g g' ∧ names g' = names g ++ [g.stem_name ++ "_rmc.fq"] := by
  refine ⟨afterKeenFq g q s, add_keen_fq_refines g q s, ⟨rfl, rfl, rfl, rfl, rfl⟩, ?_⟩
  simp [names, afterKeenFq]

theorem L_keen_gr (g : GState ℝ) (r gr : Vec ℝ) (hr : ValidRsf g) :
    ∃ g', _add_keen_gr g r gr = .ok g' ∧ Same g g' ∧ names g' = names g ++ [g.stem_name ++ "_rmc.gr"] := by
  refine ⟨afterKeenGr g r gr, add_keen_gr_refines g r gr hr, ⟨rfl, rfl, rfl, rfl, rfl⟩, ?_⟩
  simp [names, afterKeenGr]

/-- a freshly constructed object that has ingested at least one point -/
structure Fresh (g : GState ℝ) : Prop where
  hne : StogRt.Rows.cols g.sq_individuals ≠ []
  hr : ValidRsf g
  hdr : g.dr ≠ []
  hw : g.written = []

/-- P (generated code): the command-line workflow succeeds on a freshly ingested object and writes exactly the files of the documented
    sequence, in order: S(Q), real-space function, [filter: FT term, filtered S(Q), filtered real-space function], [Lorch: damped
    real-space function], Keen F(Q), Keen G(r) — the optional steps governed by the instance's cutoff and Lorch flag -/
theorem P_gen_cli_files (g : GState ℝ) (h : Fresh g) :
    ∃ g', cli_workflow g = .ok g' ∧ names g' = expectedFiles g.stem_name g.fourier_filter_cutoff.isSome g.lorch_flag := by
  obtain ⟨hne, hr, hdr, hw⟩ := h
  have hn0 : names g = [] := by simp [names, hw]
  obtain ⟨g1, Q, S, e1, q1, s1, _, _, m1, n1⟩ := L_merge g hne
  have w1 := (C18Gen.P_gen_writer_table g1 Q S none).1 q1 s1
  obtain ⟨wq, ws, _, _, m2, n2⟩ := L_write g1 Q S (C18Gen.nameOf none (g1.stem_name ++ ".sq"))
  generalize writeOut g1 Q S (C18Gen.nameOf none (g1.stem_name ++ ".sq")) = g2 at w1 wq ws m2 n2
  have m02 := m1.trans m2
  obtain ⟨g3, r, gr, e3, r3, gr3, q3, s3, m3, n3⟩ :=
    L_transform g2 Q S (by rw [wq]; exact q1) (by rw [ws]; exact s1) (m02.valid hr) (by rw [m02.dr]; exact hdr)
  have m03 := m02.trans m3
  have w3 := (C18Gen.P_gen_writer_table g3 r gr none).2.1 r3 gr3
  obtain ⟨wq4, ws4, wr4, wg4, m4, n4⟩ := L_write g3 r gr (C18Gen.nameOf none (g3.stem_name ++ ".gr"))
  generalize writeOut g3 r gr (C18Gen.nameOf none (g3.stem_name ++ ".gr")) = g4 at w3 wq4 ws4 wr4 wg4 m4 n4
  have m04 := m03.trans m4
  have q4 : g4.q_master "sq_title" = some Q := by rw [wq4, q3, wq]; exact q1
  have s4 : g4.sq_master "sq_title" = some S := by rw [ws4, s3, ws]; exact s1
  have r4 : g4.r_master "gr_title" = some r := by rw [wr4]; exact r3
  have gr4 : g4.gr_master "gr_title" = some gr := by rw [wg4]; exact gr3
  have hr4 : ValidRsf g4 := m04.valid hr
  have hnames4 : names g4 = [g.stem_name ++ ".sq", g.stem_name ++ ".gr"] := by
    rw [n4, n3, n2, n1, hn0, m1.stem, m03.stem]; rfl
  unfold cli_workflow
  simp only [e1, bind_ok, w1, e3, w3, Dict.get, q4, s4, r4, gr4, pure_eq_ok]
  cases hc : g4.fourier_filter_cutoff with
  | none =>
    have hc0 : g.fourier_filter_cutoff = none := by rw [← m04.cut]; exact hc
    cases hl : g4.lorch_flag with
    | false =>
      have hl0 : g.lorch_flag = false := by rw [← m04.lor]; exact hl
      obtain ⟨g5, e5, m5, n5⟩ := L_keen_fq g4 Q S
      obtain ⟨g6, e6, m6, n6⟩ := L_keen_gr g5 r gr (m5.valid hr4)
      refine ⟨g6, ?_, ?_⟩
      · simp only [Option.isSome_none, Bool.false_eq_true, if_false, pure_eq_ok, bind_ok, hl, e5, e6]
      · rw [n6, n5, hnames4, m5.stem, m04.stem, hc0, hl0]; rfl
    | true =>
      have hl0 : g.lorch_flag = true := by rw [← m04.lor]; exact hl
      obtain ⟨g5, ret, e5, m5, n5⟩ := L_lorch g4 Q S r hr4
      obtain ⟨g6, e6, m6, n6⟩ := L_keen_fq g5 Q S
      obtain ⟨g7, e7, m7, n7⟩ := L_keen_gr g6 ret.1 ret.2 ((m5.trans m6).valid hr4)
      refine ⟨g7, ?_, ?_⟩
      · simp only [Option.isSome_none, Bool.false_eq_true, if_false, if_true, pure_eq_ok, bind_ok, hl, e5, e6, e7]
      · rw [n7, n6, n5, hnames4, m6.stem, m5.stem, m04.stem, hc0, hl0]; rfl
  | some c =>
    have hc0 : g.fourier_filter_cutoff = some c := by rw [← m04.cut]; exact hc
    obtain ⟨g5, ret, e5, m5, n5⟩ := L_filter g4 r gr Q S c q4 s4 r4 gr4 hc hr4
    cases hl : g4.lorch_flag with
    | false =>
      have hl0 : g.lorch_flag = false := by rw [← m04.lor]; exact hl
      have hl5 : g5.lorch_flag = false := by rw [m5.lor]; exact hl
      obtain ⟨g6, e6, m6, n6⟩ := L_keen_fq g5 ret.1 ret.2.1
      obtain ⟨g7, e7, m7, n7⟩ := L_keen_gr g6 ret.2.2.1 ret.2.2.2 ((m5.trans m6).valid hr4)
      refine ⟨g7, ?_, ?_⟩
      · simp only [Option.isSome_some, if_true, Bool.false_eq_true, if_false, pure_eq_ok, bind_ok, e5, hl5, e6, e7]
      · rw [n7, n6, n5, hnames4, m6.stem, m5.stem, m04.stem, hc0, hl0]; rfl
    | true =>
      have hl0 : g.lorch_flag = true := by rw [← m04.lor]; exact hl
      have hl5 : g5.lorch_flag = true := by rw [m5.lor]; exact hl
      obtain ⟨g6, ret6, e6, m6, n6⟩ := L_lorch g5 ret.1 ret.2.1 ret.2.2.1 (m5.valid hr4)
      obtain ⟨g7, e7, m7, n7⟩ := L_keen_fq g6 ret.1 ret.2.1
      obtain ⟨g8, e8, m8, n8⟩ := L_keen_gr g7 ret6.1 ret6.2 (((m5.trans m6).trans m7).valid hr4)
      refine ⟨g8, ?_, ?_⟩
      · simp only [Option.isSome_some, if_true, pure_eq_ok, bind_ok, e5, hl5, e6, e7, e8]
      · rw [n8, n7, n6, n5, hnames4, m7.stem, m6.stem, m5.stem, m04.stem, hc0, hl0]; rfl

end C19Gen
end
