import PystogVerif.Proofs.Merge
import PystogVerif.Proofs.Converter

/-!
# C17 — post-merge scale/offset options compose as documented; the two stored curves agree

Model: hand-written `Stog.postMerge` (tail of `merge_data`; absent option keys are `none`), whose conversions are the
generated `Converter.S_to_F` / `Converter.F_to_S`.
-/
noncomputable section
namespace C17
open Stog

/-- identity values of absent keys -/
def aS (o : MergeOpts ℝ) : ℝ := o.sScale.getD 1
def bS (o : MergeOpts ℝ) : ℝ := o.sOffset.getD 0
def cF (o : MergeOpts ℝ) : ℝ := o.fScale.getD 1
def dF (o : MergeOpts ℝ) : ℝ := o.fOffset.getD 0

variable (o : MergeOpts ℝ) (m : Rows ℝ)

/-- P: the Q grid is untouched by the post-merge options -/
theorem P_grid (h : m.x.length = m.y.length) : (postMerge o m).1 = m.x := by
  simp [postMerge, applyScalesAndOffset, Vec.addS]

/-- P: stored Q[S(Q)−1] = cF·Q·(aS·mean + bS − 1) + dF, for every present/absent subset of the four keys -/
theorem P_stored_F_formula (h : m.x.length = m.y.length) :
    (postMerge o m).2.2 = List.zipWith (fun q mean => cF o * (q * (aS o * mean + bS o - 1)) + dF o) m.x m.y := by
  rcases o with ⟨a, b, c, d⟩
  rcases a with _ | a <;> rcases b with _ | b <;> rcases c with _ | c <;> rcases d with _ | d <;>
  · simp only [postMerge, applyScalesAndOffset, aS, bS, cF, dF, Option.getD]
    generalize m.x = x at h ⊢
    generalize m.y = y at h ⊢
    apply List.ext_getElem?
    intro i
    have hiff := getElem?_isSome_eq x y h i
    simp only [conv_unfold, vec_unfold, Vec.addS, Vec.mulS, Vec.subS, List.getElem?_zipWith, List.getElem?_map]
    cases hx : x[i]? <;> cases hy : y[i]? <;> simp [hx, hy] at hiff <;> (try simp) <;> scalar_close

/-- P: stored S(Q) = stored Q[S(Q)−1]/Q + 1 wherever Q > 0 -/
theorem P_stored_S_formula (h : m.x.length = m.y.length) (hd : m.x.length = m.dy.length) :
    (postMerge o m).2.1 = List.zipWith (fun q f => if 0 < q then f / q + 1 else 1) m.x (postMerge o m).2.2 := by
  rcases o with ⟨a, b, c, d⟩
  rcases a with _ | a <;> rcases b with _ | b <;> rcases c with _ | c <;> rcases d with _ | d <;>
  · simp only [postMerge, applyScalesAndOffset, Cmp.eq_real, decide_true, if_true, List.map_id']
    generalize m.x = x at h hd ⊢
    generalize m.y = y at h ⊢
    apply List.ext_getElem?
    intro i
    have hiff := getElem?_isSome_eq x y h i
    simp only [conv_unfold, vec_unfold, Vec.addS, Vec.mulS, Vec.subS, List.zip_eq_zipWith, List.getElem?_zipWith, List.getElem?_map]
    cases hx : x[i]? <;> cases hy : y[i]? <;> simp [hx, hy] at hiff <;> simp <;> (split_ifs <;> simp)

/-- P: the two stored curves always satisfy Q[S(Q)−1] = Q·(S(Q)−1) on the common grid (Q > 0) -/
theorem P_F_eq_Q_S_minus_1 (h : m.x.length = m.y.length) (hd : m.x.length = m.dy.length) (hq : ∀ q ∈ m.x, 0 < q) :
    (postMerge o m).2.2 = List.zipWith (fun q s => q * (s - 1)) m.x (postMerge o m).2.1 := by
  rw [P_stored_S_formula o m h hd]
  have hl : m.x.length = (postMerge o m).2.2.length := by
    rw [P_stored_F_formula o m h]; simp [h]
  generalize (postMerge o m).2.2 = f at hl ⊢
  generalize m.x = x at hl hq ⊢
  apply List.ext_getElem?
  intro i
  have hiff := getElem?_isSome_eq x f hl i
  simp only [List.getElem?_zipWith]
  cases hx : x[i]? <;> cases hf : f[i]? <;> simp [hx, hf] at hiff <;> simp
  rename_i q fv
  have hqpos : 0 < q := hq q (List.mem_of_getElem? hx)
  simp only [hqpos, if_true]
  field_simp
  ring

/-- P: every absent key behaves exactly like supplying its identity value -/
theorem P_absent_is_identity :
    postMerge { o with sScale := none } m = postMerge { o with sScale := some 1 } m ∧
    postMerge { o with sOffset := none } m = postMerge { o with sOffset := some 0 } m ∧
    postMerge { o with fScale := none } m = postMerge { o with fScale := some 1 } m ∧
    postMerge { o with fOffset := none } m = postMerge { o with fOffset := some 0 } m := by
  refine ⟨by simp [postMerge], by simp [postMerge], ?_, ?_⟩
  · simp [postMerge, Vec.mulS]
  · simp [postMerge, Vec.addS]

example : cF ({ fScale := some 2 } : MergeOpts ℝ) = 2 ∧ dF ({ fScale := some 2 } : MergeOpts ℝ) = 0 := by
  simp [cF, dF]

end C17
end
