import PystogVerif.Proofs.Transform

/-!
# C13 — a transform window uses exactly the in-window points and nothing else

Model: generated `Transformer.apply_cropping` and `Transformer.fourier_transform` (all options).
-/
namespace C13
variable (kw : Kw ℝ) (junk : Junk ℝ)

/-- R: the cropping utility is the closed-interval filter applied to x, y and dy alike
    (order preserved; missing dy becomes zeros) -/
theorem R_apply_cropping_filter (x y : List ℝ) (lo hi : ℝ) (dy : Option (List ℝ))
    (hy : x.length = y.length) (hd : ∀ d, dy = some d → x.length = d.length) :
    Transformer.apply_cropping kw junk x y lo hi dy
      = (Spec.cropL lo hi x x, Spec.cropL lo hi x y, Spec.cropL lo hi x (dy.getD (Vec.zerosLike y))) :=
  apply_cropping_spec kw junk x y lo hi dy hy hd

/-- P: exactly the points of the closed interval survive (boundary points included) -/
theorem P_mem_crop_iff (x : List ℝ) (lo hi a : ℝ) :
    a ∈ Spec.cropL lo hi x x ↔ a ∈ x ∧ lo ≤ a ∧ a ≤ hi := by
  simp only [Spec.cropL, List.mem_map, List.mem_filter, Bool.and_eq_true, decide_eq_true_eq]
  constructor
  · rintro ⟨p, ⟨hp, h1, h2⟩, rfl⟩
    have := mem_zip_self x p hp
    exact ⟨(List.of_mem_zip hp).2, this ▸ h1, this ▸ h2⟩
  · rintro ⟨ha, h1, h2⟩
    refine ⟨(a, a), ⟨?_, h1, h2⟩, rfl⟩
    clear h1 h2
    induction x with
    | nil => simp at ha
    | cons b t ih =>
      simp only [List.zip_cons_cons, List.mem_cons, Prod.mk.injEq] at ha ⊢
      rcases ha with rfl | ha
      · exact Or.inl ⟨rfl, rfl⟩
      · exact Or.inr (ih ha)

/-- P: order is preserved: the kept points form a sublist of the input -/
theorem P_crop_sublist (x : List ℝ) (lo hi : ℝ) : (Spec.cropL lo hi x x).Sublist x := by
  induction x with
  | nil => simp [Spec.cropL]
  | cons a t ih =>
    simp only [Spec.cropL, List.zip_cons_cons, List.filter_cons] at ih ⊢
    split
    · simpa using ih
    · exact ih.trans (List.sublist_cons_self a t)

/-- P: cropping twice with the same window is cropping once -/
theorem P_crop_idem (x y : List ℝ) (lo hi : ℝ) (dy : Option (List ℝ))
    (hy : x.length = y.length) (hd : ∀ d, dy = some d → x.length = d.length) :
    let c := Transformer.apply_cropping kw junk x y lo hi dy
    Transformer.apply_cropping kw junk c.1 c.2.1 lo hi (some c.2.2) = c := by
  have hz : x.length = (dy.getD (Vec.zerosLike y)).length := by
    rcases dy with _ | d
    · simp [Vec.zerosLike, hy]
    · exact hd d rfl
  simp only [apply_cropping_spec kw junk x y lo hi dy hy hd]
  generalize dy.getD (Vec.zerosLike y) = e at hz
  rw [apply_cropping_spec kw junk _ _ lo hi _ (cropL_length lo hi x x y rfl hy)
    (fun d h => by cases h; exact cropL_length lo hi x x _ rfl hz)]
  simp only [Option.getD_some, cropL_idem lo hi x x rfl, cropL_idem lo hi x y hy, cropL_idem lo hi x e hz]

/-- P: a windowed transform is identical — values, uncertainties, Lorch damping, low-x correction — to deleting
    every point outside the closed interval beforehand and transforming the rest with the same window -/
theorem P_ft_window_eq_predeleted (x y xo : List ℝ) (lo hi : ℝ) (dy : Option (List ℝ))
    (hy : x.length = y.length) (hd : ∀ d, dy = some d → x.length = d.length) :
    Transformer.fourier_transform kw junk x y xo (some lo) (some hi) dy
      = Transformer.fourier_transform kw junk (Spec.cropL lo hi x x) (Spec.cropL lo hi x y) xo (some lo) (some hi)
          (some (Spec.cropL lo hi x (dy.getD (Vec.zerosLike y)))) := by
  have hz : x.length = (dy.getD (Vec.zerosLike y)).length := by
    rcases dy with _ | d
    · simp [Vec.zerosLike, hy]
    · exact hd d rfl
  simp only [Transformer.fourier_transform, apply_cropping_spec _ junk x y lo hi dy hy hd]
  generalize dy.getD (Vec.zerosLike y) = e at hz
  rw [apply_cropping_spec _ junk _ _ lo hi _ (cropL_length lo hi x x y rfl hy)
    (fun d h => by cases h; exact cropL_length lo hi x x _ rfl hz)]
  simp only [Option.getD_some, cropL_idem lo hi x x rfl, cropL_idem lo hi x y hy, cropL_idem lo hi x e hz]

/-- P: points outside the window cannot influence the result: two inputs that agree inside give the same transform -/
theorem P_ft_outside_irrelevant (x₁ y₁ x₂ y₂ xo : List ℝ) (lo hi : ℝ) (d₁ d₂ : List ℝ)
    (h1 : x₁.length = y₁.length) (h1' : x₁.length = d₁.length) (h2 : x₂.length = y₂.length) (h2' : x₂.length = d₂.length)
    (hx : Spec.cropL lo hi x₁ x₁ = Spec.cropL lo hi x₂ x₂) (hyy : Spec.cropL lo hi x₁ y₁ = Spec.cropL lo hi x₂ y₂)
    (hdd : Spec.cropL lo hi x₁ d₁ = Spec.cropL lo hi x₂ d₂) :
    Transformer.fourier_transform kw junk x₁ y₁ xo (some lo) (some hi) (some d₁)
      = Transformer.fourier_transform kw junk x₂ y₂ xo (some lo) (some hi) (some d₂) := by
  rw [P_ft_window_eq_predeleted kw junk x₁ y₁ xo lo hi (some d₁) h1 (fun d h => by cases h; exact h1'),
    P_ft_window_eq_predeleted kw junk x₂ y₂ xo lo hi (some d₂) h2 (fun d h => by cases h; exact h2')]
  simp only [Option.getD, hx, hyy, hdd]

/-- P: omitting the window means the full data range: nothing is removed -/
theorem P_ft_default_window_identity (x v : List ℝ) (hv : x.length = v.length) :
    Spec.cropL (winLo x none) (winHi x none) x v = v :=
  cropL_all _ _ x v hv (fun a ha => ⟨vec_min_le x a ha, vec_le_max x a ha⟩)

example : Spec.cropL 1 2 [0, 1, 1.5, 2, 3] [10, 11, 12, 13, 14] = [11, 12, 13] := by
  simp [Spec.cropL]; norm_num

/-- P: a window whose lower limit lies above its upper limit is the empty interval: nothing survives, whatever the grid (so `apply_cropping`
    returns three empty vectors; a "helpful" re-ordering of the limits falsifies this) -/
theorem P_crop_reversed_empty (x v : List ℝ) (lo hi : ℝ) (h : hi < lo) : Spec.cropL lo hi x v = [] := by
  simp only [Spec.cropL, List.map_eq_nil_iff, List.filter_eq_nil_iff, Bool.and_eq_true, decide_eq_true_eq, not_and, not_le]
  intro p _ h1
  exact lt_of_lt_of_le h h1

theorem P_apply_cropping_reversed_empty (x y : List ℝ) (lo hi : ℝ) (dy : Option (List ℝ))
    (hy : x.length = y.length) (hd : ∀ d, dy = some d → x.length = d.length) (h : hi < lo) :
    Transformer.apply_cropping kw junk x y lo hi dy = ([], [], []) := by
  rw [R_apply_cropping_filter kw junk x y lo hi dy hy hd, P_crop_reversed_empty x x lo hi h, P_crop_reversed_empty x y lo hi h,
    P_crop_reversed_empty x _ lo hi h]

end C13
