import PystogVerif.Props.C01
import PystogVerif.Props.C01Gauss
import PystogVerif.Proofs.Quadrature
import Mathlib.Data.List.GetD

/-!
# C01 — "to discretisation accuracy": an explicit error bound for the closed-form family on uniform grids

On a uniform grid x_j = j·d, j = 0..N (R = N·d), the generated `Transformer.fourier_transform` *is* Mathlib's `trapezoidal_integral`
of data·sin (refinement C02 + the uniform-grid form of the trapezoid sum).  For a member `A x exp(-a x²)` of the closed-form family the
second derivative of the integrand is bounded on [0, R] by `ζ(A,a,t,R) = |A|(6aR + 4a²R³ + 2|t|(1+2aR²) + t²R)`, hence, by Mathlib's
trapezoidal error bound and the Gaussian tail,

  | code value at t  −  closed-form partner at t |  ≤  R d² ζ / 12  +  |A| exp(-a R²) / (2a)

in the r → Q direction, and the same with a ↦ 1/(4a), A ↦ A√π/(4a^{3/2}) and the factor 2/π in the Q → r direction.
Both terms go to zero as d → 0 with R·d² → 0 and R → ∞: the code converges to the closed-form partner itself.
-/
namespace C01
open Real Finset Spec PystogVerif.Quad

variable (kw : Kw ℝ) (junk : Junk ℝ)

/-- uniform grid starting at 0 -/
noncomputable def uGrid (N : ℕ) (d : ℝ) : List ℝ := (List.range (N + 1)).map (fun i : ℕ => (i : ℝ) * d)

theorem sum_endpoints (ψ : ℕ → ℝ) (M : ℕ) :
    ∑ i ∈ range (M + 1 + 1), ψ i - (ψ 0 + ψ (M + 1)) / 2 = (ψ 0 + ψ (M + 1)) / 2 + ∑ k ∈ range M, ψ (k + 1) := by
  rw [Finset.sum_range_succ, Finset.sum_range_succ' (fun i => ψ i) M]; ring

/-- R: on a uniform grid the core transform of sampled data is Mathlib's trapezoidal rule applied to data·sin -/
theorem R_ft_is_trapezoidal (hp : plain kw) (N : ℕ) (hN : 0 < N) (d : ℝ) (f : ℝ → ℝ) (xo : List ℝ) :
    (Transformer.fourier_transform kw junk (uGrid N d) ((uGrid N d).map f) xo kw.xmin kw.xmax none).2.1
      = xo.map (fun t => trapezoidal_integral (fun x => f x * sin (x * t)) N 0 ((N : ℝ) * d)) := by
  obtain ⟨hl, ho, hmin, hmax⟩ := hp
  rw [hmin, hmax, C02.R_fourier_transform_val kw junk hl ho _ _ _ none (by simp [uGrid]) (by simp)]
  apply List.map_congr_left
  intro t _
  unfold T uGrid
  rw [List.map_map, zipWith_map_range]
  have := trapzRec_uniform 0 d (fun i : ℕ => f ((i : ℝ) * d) * sin ((i : ℝ) * d * t)) N
  simp only [zero_add] at this
  simp only [Function.comp]
  rw [this]
  obtain ⟨M, rfl⟩ : ∃ M, N = M + 1 := ⟨N - 1, by omega⟩
  rw [sum_endpoints]
  unfold trapezoidal_integral
  have hN' : ((M + 1 : ℕ) : ℝ) ≠ 0 := by positivity
  simp only [Nat.add_sub_cancel, sub_zero, zero_add]
  rw [mul_div_cancel_left₀ d hN']
  congr 2
  · simp
  · apply Finset.sum_congr rfl
    intro k _
    have : ((k : ℝ) + 1) * (((M + 1 : ℕ) : ℝ) * d) / ((M + 1 : ℕ) : ℝ) = ((k + 1 : ℕ) : ℝ) * d := by
      push_cast; field_simp
    rw [this]

theorem closed_form_eq (A a t : ℝ) (ha : 0 < a) :
    A * (t / (4 * a) * (Real.sqrt (π / a) * Real.exp (-t ^ 2 / (4 * a)))) = gaussF A a t := by
  have h1 := P_gauss_G_to_F A a t ha
  have h2 := PystogVerif.Gauss.integral_Ioi_mul_gauss_sin a t ha
  rw [← h1, ← h2, ← MeasureTheory.integral_const_mul]
  congr 1; funext r; unfold gaussG; ring

/-- the right-hand side of the bound -/
noncomputable def quadBound (A a t R : ℝ) (N : ℕ) : ℝ := R ^ 3 * zeta A a t R / (12 * N ^ 2) + |A| * Real.exp (-a * R ^ 2) / (2 * a)

/-- P (r → Q, "to discretisation accuracy"): for G sampled from `A r exp(-a r²)` on r_j = j·dr, j ≤ N, every value returned by the generated
`G_to_F` lies within `quadBound` of the closed-form partner `A√π Q/(4a^{3/2}) exp(-Q²/4a)` at that Q — for every A, a > 0, N ≥ 1, dr > 0 and
every output grid. -/
theorem P_gauss_G_to_F_grid (hp : plain kw) (A a : ℝ) (ha : 0 < a) (N : ℕ) (hN : 0 < N) (dr : ℝ) (hdr : 0 < dr) (q : List ℝ)
    (k : ℕ) (hk : k < q.length) :
    |((Transformer.G_to_F kw junk (uGrid N dr) ((uGrid N dr).map (gaussG A a)) q none).2.1).getD k 0 - gaussF A a (q.getD k 0)|
      ≤ quadBound A a (q.getD k 0) ((N : ℝ) * dr) N := by
  simp only [Transformer.G_to_F]
  rw [R_ft_is_trapezoidal kw junk hp N hN dr (gaussG A a) q]
  have hR : 0 < (N : ℝ) * dr := by positivity
  simp only [List.getD_eq_getElem?_getD, List.getElem?_map, List.getElem?_eq_getElem hk, Option.map_some, Option.getD_some]
  have e : (fun x => gaussG A a x * sin (x * q[k])) = h A a q[k] := by
    funext x; simp only [gaussG, h]; rw [mul_comm x q[k]]
  rw [e, ← closed_form_eq A a q[k] ha]
  exact trapezoid_vs_transform A a q[k] ((N : ℝ) * dr) ha hR N hN

/-- P (Q → r): for F sampled from the reciprocal-space member on Q_k = k·dQ, k ≤ N, every value returned by the generated `F_to_G` lies within
(2/π)·`quadBound` (with a ↦ 1/(4a), A ↦ A√π/(4a^{3/2})) of `A r exp(-a r²)` — the 2/π of the documented convention included. -/
theorem P_gauss_F_to_G_grid (hp : plain kw) (A a : ℝ) (ha : 0 < a) (N : ℕ) (hN : 0 < N) (dq : ℝ) (hdq : 0 < dq) (r : List ℝ)
    (k : ℕ) (hk : k < r.length) :
    |((Transformer.F_to_G kw junk (uGrid N dq) ((uGrid N dq).map (gaussF A a)) r none).2.1).getD k 0 - gaussG A a (r.getD k 0)|
      ≤ 2 / π * quadBound (A * Real.sqrt π / (4 * a ^ (3 / 2 : ℝ))) (1 / (4 * a)) (r.getD k 0) ((N : ℝ) * dq) N := by
  have ha' : 0 < 1 / (4 * a) := by positivity
  set C := A * Real.sqrt π / (4 * a ^ (3 / 2 : ℝ)) with hC
  simp only [Transformer.F_to_G]
  rw [R_ft_is_trapezoidal kw junk hp N hN dq (gaussF A a) r]
  have hR : 0 < (N : ℝ) * dq := by positivity
  simp only [Vec.mulS, List.map_map]
  simp only [List.getD_eq_getElem?_getD, List.getElem?_map, List.getElem?_eq_getElem hk, Option.map_some, Option.getD_some]
  simp only [Function.comp, Nat.cast_ofNat, Transc.pi_real]
  have e : (fun x => gaussF A a x * sin (x * r[k])) = h C (1 / (4 * a)) r[k] := by
    funext x; simp only [gaussF, h, hC]
    rw [show -x ^ 2 / (4 * a) = -(1 / (4 * a)) * x ^ 2 by ring, mul_comm x r[k]]; ring
  rw [e]
  have hb := trapezoid_vs_transform C (1 / (4 * a)) r[k] ((N : ℝ) * dq) ha' hR N hN
  have hval : 2 / π * (C * (r[k] / (4 * (1 / (4 * a))) * (Real.sqrt (π / (1 / (4 * a))) * Real.exp (-r[k] ^ 2 / (4 * (1 / (4 * a)))))))
      = gaussG A a r[k] := by
    have h1 := P_gauss_F_to_G A a r[k] ha
    have h2 := PystogVerif.Gauss.integral_Ioi_mul_gauss_sin (1 / (4 * a)) r[k] ha'
    rw [← h1, ← h2, ← MeasureTheory.integral_const_mul]
    congr 2; funext x; simp only [gaussF, hC]
    rw [show -x ^ 2 / (4 * a) = -(1 / (4 * a)) * x ^ 2 by ring, mul_comm x r[k]]; ring
  rw [← hval, mul_comm _ (2 / π), ← mul_sub, abs_mul, abs_of_pos (by positivity : (0 : ℝ) < 2 / π)]
  exact mul_le_mul_of_nonneg_left hb (by positivity)

theorem trapezoidal_integral_add (f g : ℝ → ℝ) (N : ℕ) (a b : ℝ) :
    trapezoidal_integral (fun x => f x + g x) N a b = trapezoidal_integral f N a b + trapezoidal_integral g N a b := by
  unfold trapezoidal_integral
  rw [Finset.sum_add_distrib]; ring

theorem trapezoidal_integral_list_sum (fs : List (ℝ → ℝ)) (s : ℝ → ℝ) (N : ℕ) (a b : ℝ) :
    trapezoidal_integral (fun x => (fs.map (fun f => f x)).sum * s x) N a b = (fs.map (fun f => trapezoidal_integral (fun x => f x * s x) N a b)).sum := by
  induction fs with
  | nil => simp [trapezoidal_integral]
  | cons f fs ih =>
    simp only [List.map_cons, List.sum_cons, add_mul]
    rw [trapezoidal_integral_add (fun x => f x * s x) (fun x => (fs.map (fun f => f x)).sum * s x), ih]

theorem abs_list_sum_sub_le (as bs : List ℝ) (cs : List ℝ) (h : List.Forall₂ (fun (ab : ℝ × ℝ) c => |ab.1 - ab.2| ≤ c) (as.zip bs) cs)
    (hl : as.length = bs.length) : |as.sum - bs.sum| ≤ cs.sum := by
  induction as generalizing bs cs with
  | nil => cases bs with
    | nil => cases h; simp
    | cons _ _ => simp at hl
  | cons a as ih => cases bs with
    | nil => simp at hl
    | cons b bs =>
      simp only [List.zip_cons_cons] at h
      cases h with
      | cons h1 h2 =>
        simp only [List.sum_cons]
        have := ih bs _ h2 (by simpa using hl)
        calc |a + as.sum - (b + bs.sum)| = |(a - b) + (as.sum - bs.sum)| := by ring_nf
          _ ≤ |a - b| + |as.sum - bs.sum| := abs_add_le _ _
          _ ≤ _ := add_le_add h1 this

/-- P (sums of members, r → Q): the value returned for a finite sum of family members lies within the sum of the members' bounds of the sum of
their closed-form partners -/
theorem P_gauss_sum_G_to_F_grid (hp : plain kw) (ps : List (ℝ × ℝ)) (hpos : ∀ p ∈ ps, 0 < p.2) (N : ℕ) (hN : 0 < N) (dr : ℝ) (hdr : 0 < dr)
    (q : List ℝ) (k : ℕ) (hk : k < q.length) :
    |((Transformer.G_to_F kw junk (uGrid N dr) ((uGrid N dr).map (fun r => (ps.map fun p => gaussG p.1 p.2 r).sum)) q none).2.1).getD k 0
        - (ps.map fun p => gaussF p.1 p.2 (q.getD k 0)).sum|
      ≤ (ps.map fun p => quadBound p.1 p.2 (q.getD k 0) ((N : ℝ) * dr) N).sum := by
  simp only [Transformer.G_to_F]
  rw [R_ft_is_trapezoidal kw junk hp N hN dr _ q]
  have hR : 0 < (N : ℝ) * dr := by positivity
  simp only [List.getD_eq_getElem?_getD, List.getElem?_map, List.getElem?_eq_getElem hk, Option.map_some, Option.getD_some]
  have e := trapezoidal_integral_list_sum (ps.map fun p => gaussG p.1 p.2) (fun x => sin (x * q[k])) N 0 ((N : ℝ) * dr)
  simp only [List.map_map, Function.comp_def] at e
  rw [e]
  apply abs_list_sum_sub_le _ _ _ _ (by simp)
  clear e
  induction ps with
  | nil => simp
  | cons p ps ih =>
    simp only [List.map_cons, List.zip_cons_cons]
    refine List.Forall₂.cons ?_ (ih fun x hx => hpos x (by simp [hx]))
    have ha : 0 < p.2 := hpos p (by simp)
    have e2 : (fun x => gaussG p.1 p.2 x * sin (x * q[k])) = h p.1 p.2 q[k] := by
      funext x; simp only [gaussG, h]; rw [mul_comm x q[k]]
    simp only [e2]
    rw [← closed_form_eq p.1 p.2 q[k] ha]
    exact trapezoid_vs_transform p.1 p.2 q[k] ((N : ℝ) * dr) ha hR N hN

/-- P (sums of members, Q → r): the same for the reciprocal-space sum, with the 2/π of the documented convention -/
theorem P_gauss_sum_F_to_G_grid (hp : plain kw) (ps : List (ℝ × ℝ)) (hpos : ∀ p ∈ ps, 0 < p.2) (N : ℕ) (hN : 0 < N) (dq : ℝ) (hdq : 0 < dq)
    (r : List ℝ) (k : ℕ) (hk : k < r.length) :
    |((Transformer.F_to_G kw junk (uGrid N dq) ((uGrid N dq).map (fun Q => (ps.map fun p => gaussF p.1 p.2 Q).sum)) r none).2.1).getD k 0
        - (ps.map fun p => gaussG p.1 p.2 (r.getD k 0)).sum|
      ≤ (ps.map fun p => 2 / π * quadBound (p.1 * Real.sqrt π / (4 * p.2 ^ (3 / 2 : ℝ))) (1 / (4 * p.2)) (r.getD k 0) ((N : ℝ) * dq) N).sum := by
  simp only [Transformer.F_to_G]
  rw [R_ft_is_trapezoidal kw junk hp N hN dq _ r]
  have hR : 0 < (N : ℝ) * dq := by positivity
  simp only [Vec.mulS, List.map_map]
  simp only [List.getD_eq_getElem?_getD, List.getElem?_map, List.getElem?_eq_getElem hk, Option.map_some, Option.getD_some]
  simp only [Function.comp, Nat.cast_ofNat, Transc.pi_real]
  have e := trapezoidal_integral_list_sum (ps.map fun p => gaussF p.1 p.2) (fun x => sin (x * r[k])) N 0 ((N : ℝ) * dq)
  simp only [List.map_map, Function.comp_def] at e
  rw [e, mul_comm _ (2 / π), ← List.sum_map_mul_left]
  apply abs_list_sum_sub_le _ _ _ _ (by simp)
  clear e
  induction ps with
  | nil => simp
  | cons p ps ih =>
    simp only [List.map_cons, List.zip_cons_cons]
    refine List.Forall₂.cons ?_ (ih fun x hx => hpos x (by simp [hx]))
    have ha : 0 < p.2 := hpos p (by simp)
    have ha' : 0 < 1 / (4 * p.2) := by positivity
    have e2 : (fun x => gaussF p.1 p.2 x * sin (x * r[k])) = h (p.1 * Real.sqrt π / (4 * p.2 ^ (3 / 2 : ℝ))) (1 / (4 * p.2)) r[k] := by
      funext x; simp only [gaussF, h]
      rw [show -x ^ 2 / (4 * p.2) = -(1 / (4 * p.2)) * x ^ 2 by ring, mul_comm x r[k]]; ring
    simp only [e2]
    have hb := trapezoid_vs_transform (p.1 * Real.sqrt π / (4 * p.2 ^ (3 / 2 : ℝ))) (1 / (4 * p.2)) r[k] ((N : ℝ) * dq) ha' hR N hN
    have hval : 2 / π * ((p.1 * Real.sqrt π / (4 * p.2 ^ (3 / 2 : ℝ))) * (r[k] / (4 * (1 / (4 * p.2))) * (Real.sqrt (π / (1 / (4 * p.2))) * Real.exp (-r[k] ^ 2 / (4 * (1 / (4 * p.2)))))))
        = gaussG p.1 p.2 r[k] := by
      have h1 := P_gauss_F_to_G p.1 p.2 r[k] ha
      have h2 := PystogVerif.Gauss.integral_Ioi_mul_gauss_sin (1 / (4 * p.2)) r[k] ha'
      rw [← h1, ← h2, ← MeasureTheory.integral_const_mul]
      congr 2; funext x; simp only [gaussF]
      rw [show -x ^ 2 / (4 * p.2) = -(1 / (4 * p.2)) * x ^ 2 by ring, mul_comm x r[k]]; ring
    rw [← hval, ← mul_sub, abs_mul, abs_of_pos (by positivity : (0 : ℝ) < 2 / π)]
    exact mul_le_mul_of_nonneg_left hb (by positivity)

/-- the bound is explicit and small on an everyday grid: A = a = 1, Q = 1, R = 8, N = 8000 (dr = 0.001) gives less than 2·10⁻³ (and a quarter of that with half the step) -/
example : quadBound 1 1 1 8 8000 < 2 / 1000 := by
  unfold quadBound zeta
  have he : Real.exp (-1 * (8 : ℝ) ^ 2) ≤ 1 / 10 ^ 6 := by
    have : Real.exp (-1 * (8 : ℝ) ^ 2) = (Real.exp 1)⁻¹ ^ 64 := by
      rw [← Real.exp_neg, ← Real.exp_nat_mul]; norm_num
    rw [this]
    have h2 : (Real.exp 1)⁻¹ ≤ 1 / 2 := by
      rw [inv_le_comm₀ (Real.exp_pos 1) (by norm_num)]
      have := Real.add_one_le_exp (1 : ℝ); norm_num at this ⊢; linarith
    calc (Real.exp 1)⁻¹ ^ 64 ≤ (1 / 2 : ℝ) ^ 64 := pow_le_pow_left₀ (by positivity) h2 64
      _ ≤ 1 / 10 ^ 6 := by norm_num
  norm_num at he ⊢
  linarith

end C01
