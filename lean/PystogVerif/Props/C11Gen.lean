import PystogVerif.Props.C11
import PystogVerif.Refine.Ingest
import PystogVerif.Gen.StogFacts

/-!
# C11 on the code generated from `StoG.add_dataset`

`Refine/Ingest.lean` proves (for every scalar type) that the state transformer generated from the current source of
`StoG.add_dataset` stores, in both arrays, exactly what the hand-written `Stog.addDataset` stores.  Here C11's statements are
transported to the generated code at ℝ.
-/
noncomputable section
namespace C11Gen
open StogRt RefineIngest

/-- P (generated code): `add_dataset` with a valid kind succeeds; what it appends to the as-given store is exactly the dataset's
    rounded rows inside the per-dataset window, each scaled / offset / shifted, then those inside the global window — in order, with
    multiplicity, nothing else; the S(Q) store receives the same Q row; the settings are untouched -/
theorem P_gen_stored_spec (g : GState ℝ) (i : StogRt.Info ℝ) (hk : ValidKind i)
    (hl : i.data.x.length = i.data.y.length) (hd : ∀ d, i.data.dy = some d → i.data.x.length = d.length) :
    GenStog.add_dataset g i 1 0 0 16 = .ok (afterAdd g i) ∧
    (afterAdd g i).reciprocal_individuals.x = g.reciprocal_individuals.x ++ (Stog.datasetRows (cfgOf g) (toInfo i)).1.x ∧
    Stog.zip3 (Stog.datasetRows (cfgOf g) (toInfo i)).1 =
      (((C11.rounded (toInfo i)).filter (C11.inPer (toInfo i))).map (C11.adjust (toInfo i))).filter (C11.inGlobal (cfgOf g)) ∧
    (Stog.datasetRows (cfgOf g) (toInfo i)).1.x = (Stog.datasetRows (cfgOf g) (toInfo i)).2.x := by
  refine ⟨?_, rfl, C11.P_stored_spec (cfgOf g) (toInfo i) hl hd, rfl⟩
  have := add_dataset_refines g i hk
  simpa using this

/-- P (generated code): both storage arrays stay aligned over any sequence of `add_dataset` calls on valid datasets -/
theorem P_gen_stores_aligned (is : List (StogRt.Info ℝ)) (g : GState ℝ) (h : ∀ i ∈ is, ValidKind i)
    (h0 : g.reciprocal_individuals.x = g.sq_individuals.x) :
    ∃ g', gingest g is = .ok g' ∧ g'.reciprocal_individuals.x = g'.sq_individuals.x := by
  obtain ⟨g', h1, _, h3⟩ := gingest_refines is g h
  refine ⟨g', h1, ?_⟩
  have key : ∀ (l : List (Stog.Info ℝ)) (st : Stog.Rows ℝ × Stog.Rows ℝ), st.1.x = st.2.x →
      (l.foldl (Stog.addDataset (cfgOf g)) st).1.x = (l.foldl (Stog.addDataset (cfgOf g)) st).2.x := by
    intro l
    induction l with
    | nil => intro st hst; exact hst
    | cons d t ih =>
      intro st hst
      simp only [List.foldl_cons]
      apply ih
      simp only [Stog.addDataset, Stog.Rows.append, hst, C11.P_stores_same_Q]
  have := key (is.map toInfo) (toRows g.reciprocal_individuals, toRows g.sq_individuals) h0
  rw [← h3] at this
  exact this

/-- P (generated code): a dataset of a kind outside the four choices is rejected with ValueError, never ignored -/
theorem P_gen_invalid_kind_rejected (g : GState ℝ) (i : StogRt.Info ℝ) (k : String) (h : i.ReciprocalFunction = some k)
    (hk : k ≠ "S(Q)" ∧ k ≠ "Q[S(Q)-1]" ∧ k ≠ "FK(Q)" ∧ k ≠ "DCS(Q)") :
    GenStog.add_dataset g i 1 0 0 16 = .error Err.valueError := by
  have := add_dataset_rejects g i k h hk
  simpa using this

/-- F: the reciprocal-space choices the generated code checks against are the documented four -/
theorem F_choices : GenStog.ReciprocalSpaceChoices = ["S(Q)", "Q[S(Q)-1]", "FK(Q)", "DCS(Q)"] := by decide

/-- F: storage precision constants read from `__init__` -/
theorem F_decimals : GenStog.Facts.xdecimals = 2 ∧ GenStog.Facts.ydecimals = 16 := by decide

end C11Gen
end
