import PystogVerif.Props.C12
import PystogVerif.Refine.Workflow
import PystogVerif.Gen.StogFacts
import PystogVerif.Gen.Facts

/-!
# C12 on the code generated from `stog.py`

`Refine/Workflow.lean` proves (for every scalar type) that the state transformers *generated from the current source* of
`StoG.transform_merged / fourier_filter / apply_lorch / _add_keen_fq / _add_keen_gr` simulate the hand-written state machine
`Workflow`.  Here C12's statements are transported to the generated code at `ℝ`, and the side conditions of the translation
(distinct dictionary keys, option dictionaries that contain every key the callee reads) are discharged on the generated facts.
-/
noncomputable section
namespace C12Gen
open StogRt RefineWorkflow

/-- the generated workflow, run from the state right after merging, leaves exactly the curves of `Workflow.run` -/
theorem P_gen_run_is_model (ops : List Workflow.Op) (g : GState ℝ) (q sq : Vec ℝ) (c : ℝ) (h : Inv g q sq c) :
    ∃ g', grun g q sq ops = .ok g' ∧ abs g' q sq = Workflow.run (settingsOf g) (abs g q sq) ops ∧ Inv g' q sq c :=
  grun_simulates ops g q sq c h

/-- P (history independence, generated code): after any sequence of workflow operations started right after the merge, each
    of the stored curves "<rsf> Merged", "FT term", "S(Q) FT", "<rsf> FT" is absent or equals the value determined by the
    merged S(Q) and the instance's settings alone, and the merged S(Q) is still the one that was stored -/
theorem P_gen_history_independent (ops : List Workflow.Op) (g : GState ℝ) (q sq : Vec ℝ) (c : ℝ) (h : Inv g q sq c)
    (hfresh : abs g q sq = { sq := (q, sq) }) :
    ∃ g', grun g q sq ops = .ok g' ∧ C12.Inv (settingsOf g) (q, sq) (abs g' q sq) ∧
      g'.q_master "sq_title" = some q ∧ g'.sq_master "sq_title" = some sq := by
  obtain ⟨g', h1, h2, h3⟩ := grun_simulates ops g q sq c h
  refine ⟨g', h1, ?_, h3.hq, h3.hs⟩
  rw [h2, hfresh]
  exact C12.P_history_independent (settingsOf g) (q, sq) ops

/-- P (each step = the library primitive, generated code): the five refinement equations, at ℝ -/
theorem P_gen_transform_is_primitive (g : GState ℝ) (q sq : Vec ℝ)
    (hq : g.q_master "sq_title" = some q) (hs : g.sq_master "sq_title" = some sq) (hr : ValidRsf g) (hdr : g.dr ≠ []) :
    GenStog.transform_merged g = .ok (afterTransform g q sq) ∧
    (afterTransform g q sq).gr_master "gr_title" = some (Workflow.sToX (rsfIndex g.real_space_function)
      (Workflow.kwTransform (settingsOf g)) q sq g.dr).2.1 := by
  refine ⟨transform_merged_refines g q sq hq hs hr hdr, ?_⟩
  simp [afterTransform, Workflow.grCurve, settingsOf]

/-- P: running the filter before the explicit transform is the same call as running it after (generated code) -/
theorem P_gen_filter_before_or_after (g : GState ℝ) (q sq : Vec ℝ) (c : ℝ)
    (hq : g.q_master "sq_title" = some q) (hs : g.sq_master "sq_title" = some sq)
    (hg : g.gr_master "gr_title" = none) (hdr : g.dr ≠ []) (hc : g.fourier_filter_cutoff = some c) (hr : ValidRsf g) :
    GenStog.fourier_filter g = (GenStog.transform_merged g >>= GenStog.fourier_filter) := by
  rw [transform_merged_refines g q sq hq hs hr hdr]
  exact fourier_filter_refines_fresh g q sq c hq hs hg hdr hc hr

/-- F: the title attributes have pairwise distinct default values for each real-space function, so keying the model's
    dictionaries by attribute name loses nothing -/
theorem F_titles_distinct : ∀ row ∈ GenStog.Facts.defaultTitles, (row.2.map (·.2)).Nodup := by decide

/-- F: every option dictionary the workflow hands to a generated function contains each key that function reads -/
theorem F_call_keys_cover :
    ∀ c ∈ GenStog.Facts.callKeys, ∀ r ∈ Gen.Facts.requiredKeys, r.1 = c.2.1 → ∀ k ∈ r.2, k ∈ c.2.2 := by decide

/-- F: the workflow methods and the writers they call were all translated (a refusal elsewhere in stog.py is not this property's business) -/
theorem F_translated : ∀ m ∈ ["transform_merged", "fourier_filter", "apply_lorch", "_add_keen_fq", "_add_keen_gr", "write_out_ft",
    "write_out_ft_sq", "write_out_ft_gr", "write_out_lorched_gr", "write_out_rmc_fq", "write_out_rmc_gr"], m ∈ GenStog.Facts.translated := by decide

/-- the state right after a merge of two points -/
def exState : GState ℝ :=
  { xmin := 0, xmax := 0, rmin := 0, rmax := 1, rdelta := 1, dr := [0, 1], density := 1, bcoh_sqrd := 1, btot_sqrd := 1,
    fourier_filter_cutoff := some 1, q_master := Dict.set Dict.empty "sq_title" [1, 2],
    sq_master := Dict.set Dict.empty "sq_title" [1, 1] }

/-- X: the hypotheses are satisfiable -/
example : Inv exState [1, 2] [1, 1] 1 := by
  refine ⟨by simp [exState, Dict.set], by simp [exState, Dict.set], Or.inl rfl, by simp [exState], rfl, ?_⟩
  intro k
  by_cases hk : k = "sq_title" <;> simp [exState, Dict.set, Dict.empty, hk]

end C12Gen
end
