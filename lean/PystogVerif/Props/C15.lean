import PystogVerif.Proofs.Integrals
import PystogVerif.Proofs.Transform
import PystogVerif.Spec.Transform

/-!
# C15 — the omitted low-Q correction is the transform of the assumed linear-to-zero S(Q)

Model: generated `Transformer._low_x_correction`, its call site in `fourier_transform` and the 2/π of `F_to_G`.
`S_lin(Q) = S(Qmin)·Q/Qmin` on [0, Qmin] (the model of the original StoG); the added term in G(r) is
(2/π)·∫₀^Qmin Q[S_lin(Q) − 1]·w(Q)·sin(Qr) dQ with w the Lorch weight (or 1).
-/
namespace C15
open Real intervalIntegral Spec

/-- the term the code adds to the core transform at output abscissa `r`, as a function of
    (Lorch flag, Qmin, S(Qmin), Qmax, r) only -/
noncomputable def codeTerm (lorch : Bool) (qmin smin qmax r : ℝ) : ℝ :=
  let a := Real.pi / qmax
  let F1 := if lorch then
      (qmin * qmin * (sincR (qmin * (r - a)) - 1 / 2 * (sincR (1 / 2 * (qmin * (r - a))) * sincR (1 / 2 * (qmin * (r - a)))))
        - qmin * qmin * (sincR (qmin * (r + a)) - 1 / 2 * (sincR (1 / 2 * (qmin * (r + a))) * sincR (1 / 2 * (qmin * (r + a)))))) / (2 * a)
    else if r ≠ 0 then (2 * (qmin * r) * sin (qmin * r) - ((qmin * r) * (qmin * r) - 2) * cos (qmin * r) - 2) / (r * r * r) else 0
  let F2 := if lorch then
      qmin * (sincR (qmin * (r - a)) - sincR (qmin * (r + a))) / (2 * a)
    else if r ≠ 0 then (sin (qmin * r) - qmin * r * cos (qmin * r)) / (r * r) else 0
  (if qmin ≠ 0 then F1 * smin / qmin else 0) - F2

variable (kw : Kw ℝ) (junk : Junk ℝ)

/-- R: the generated correction adds `codeTerm` at every output abscissa, with Qmin = min of the (cropped) grid,
    S(Qmin) recovered from the first data point Q[S−1](Qmin), Qmax = max of the grid -/
theorem R_low_x_term (xin yin xout yout : List ℝ) (hl : xout.length = yout.length) :
    Transformer._low_x_correction kw junk xin yin xout yout
      = List.zipWith (· + ·) yout
          (xout.map (codeTerm kw.lorch (Vec.min xin)
            ((if Vec.min xin ≠ 0 then Vec.head yin / Vec.min xin else 0) + 1) (Vec.max xin))) := by
  simp only [Transformer._low_x_correction, Vec.add, Cmp.eq_real, decide_eq_true_eq, Nat.cast_zero]
  by_cases h0 : Vec.min xin = 0
  · -- the data start at Q = 0: the code returns early, and the term it would have added is 0 at every output point
    rw [if_pos h0]
    have hz : ∀ (a : List ℝ) (b : List ℝ), b.length = a.length → List.zipWith (· + ·) a (b.map (fun _ => (0 : ℝ))) = a := by
      intro a
      induction a with
      | nil => intro b _; simp
      | cons x a ih => intro b hb; cases b with
        | nil => simp at hb
        | cons y b => simp only [List.map_cons, List.zipWith_cons_cons, add_zero, ih b (by simpa using hb)]
    have hc : ∀ r : ℝ, codeTerm kw.lorch (Vec.min xin) ((if Vec.min xin ≠ 0 then Vec.head yin / Vec.min xin else 0) + 1) (Vec.max xin) r = 0 := by
      intro r; rw [h0]; cases kw.lorch <;> simp [codeTerm]
    rw [funext hc]
    exact (hz yout xout hl).symm
  rw [if_neg h0]
  congr 1
  apply List.map_congr_left
  intro r _
  cases hlo : kw.lorch
  · simp only [codeTerm, Bool.false_eq_true, if_false, Cmp.ne_real, decide_eq_true_eq, Nat.cast_ofNat,
      Nat.cast_zero, Nat.cast_one, Transc.sin_real, Transc.cos_real, Transc.pi_real]
  · simp only [codeTerm, if_true, Cmp.ne_real, decide_eq_true_eq, Nat.cast_ofNat, Nat.cast_zero, Nat.cast_one,
      Num.sinc_div_pi, Transc.pi_real, ne_eq]

/-- P: the term is zero when Qmin = 0 -/
theorem P_term_zero_Qmin0 (lorch : Bool) (smin qmax r : ℝ) : codeTerm lorch 0 smin qmax r = 0 := by
  cases lorch <;> simp [codeTerm]

/-- P: the term vanishes at r = 0 -/
theorem P_term_zero_r0 (lorch : Bool) (qmin smin qmax : ℝ) : codeTerm lorch qmin smin qmax 0 = 0 := by
  cases lorch
  · simp [codeTerm]
  · simp only [codeTerm, if_true, zero_sub, zero_add, mul_neg, sincR_neg]
    ring_nf
    simp

/-- P (no Lorch): the term is the exact integral of the linear-to-zero model,
    ∫₀^Qmin Q[S_lin(Q) − 1] sin(Qr) dQ with S_lin(Q) = S(Qmin)·Q/Qmin -/
theorem P_term_is_integral (qmin smin qmax r : ℝ) (hq : qmin ≠ 0) (hr : r ≠ 0) :
    codeTerm false qmin smin qmax r = ∫ Q in (0:ℝ)..qmin, Q * (smin * Q / qmin - 1) * sin (Q * r) := by
  have h1 : ∀ Q : ℝ, Q * (smin * Q / qmin - 1) * sin (Q * r)
      = smin / qmin * (Q ^ 2 * sin (Q * r)) - Q * sin (Q * r) := by intro Q; field_simp
  simp_rw [h1]
  rw [intervalIntegral.integral_sub, intervalIntegral.integral_const_mul, int_F1 qmin r hr, int_F2 qmin r hr]
  · simp only [codeTerm, Bool.false_eq_true, if_false, hq, hr, ne_eq, not_false_eq_true, if_true]
    field_simp
  · exact (by fun_prop : Continuous fun Q : ℝ => smin / qmin * (Q ^ 2 * sin (Q * r))).intervalIntegrable _ _
  · exact (by fun_prop : Continuous fun Q : ℝ => Q * sin (Q * r)).intervalIntegrable _ _

/-- Q·w(Q) = sin(aQ)/a for the Lorch weight (w(0) = 1) -/
theorem mul_lorchW (a Q : ℝ) (ha : a ≠ 0) : Q * lorchW a Q = sin (a * Q) / a := by
  unfold lorchW
  by_cases hQ : Q = 0
  · subst hQ; simp
  · have : a * Q ≠ 0 := mul_ne_zero ha hQ
    simp only [this, ne_eq, not_false_eq_true, if_true]
    field_simp

/-- P (Lorch): the term is the integral of the same model damped by the Lorch window sin(aQ)/(aQ), a = π/Qmax — for every r,
    the points r = ±π/Qmax included (there the original quotient forms are 0/0; the code uses the sinc forms since the
    `fix:` commit "low-Q Lorch correction ... sinc forms") -/
theorem P_term_is_integral_lorch (qmin smin qmax r : ℝ) (hq : qmin ≠ 0) (hqmax : qmax ≠ 0) :
    codeTerm true qmin smin qmax r
      = ∫ Q in (0:ℝ)..qmin, Q * (smin * Q / qmin - 1) * lorchW (Real.pi / qmax) Q * sin (Q * r) := by
  have ha : Real.pi / qmax ≠ 0 := div_ne_zero Real.pi_ne_zero hqmax
  set a := Real.pi / qmax with hadef
  have h1 : ∀ Q : ℝ, Q * (smin * Q / qmin - 1) * lorchW a Q * sin (Q * r)
      = smin / qmin * (Q * (sin (a * Q) / a) * sin (Q * r)) - (sin (a * Q) / a) * sin (Q * r) := by
    intro Q
    have := mul_lorchW a Q ha
    calc Q * (smin * Q / qmin - 1) * lorchW a Q * sin (Q * r)
        = (smin * Q / qmin - 1) * (Q * lorchW a Q) * sin (Q * r) := by ring
      _ = _ := by rw [this]; field_simp
  simp_rw [h1]
  rw [intervalIntegral.integral_sub, intervalIntegral.integral_const_mul, int_F1_lorch_sinc qmin r a ha,
    int_F2_lorch_sinc qmin r a ha]
  · simp only [codeTerm, if_true, hq, ne_eq, not_false_eq_true, ← hadef]
    field_simp
  · exact (by fun_prop : Continuous fun Q : ℝ => smin / qmin * (Q * (sin (a * Q) / a) * sin (Q * r))).intervalIntegrable _ _
  · exact (by fun_prop : Continuous fun Q : ℝ => (sin (a * Q) / a) * sin (Q * r)).intervalIntegrable _ _

/-- P: away from r = ±π/Qmax the term is the closed form of the original StoG (quotient forms) -/
theorem P_term_lorch_quotient_form (qmin smin qmax r : ℝ)
    (hm : r - Real.pi / qmax ≠ 0) (hp : r + Real.pi / qmax ≠ 0) :
    codeTerm true qmin smin qmax r
      = (let a := Real.pi / qmax
         let F1 := ((qmin * (r - a) * sin (qmin * (r - a)) + cos (qmin * (r - a)) - 1) / ((r - a) * (r - a))
                    - (qmin * (r + a) * sin (qmin * (r + a)) + cos (qmin * (r + a)) - 1) / ((r + a) * (r + a))) / (2 * a)
         let F2 := (sin (qmin * (r - a)) / (r - a) - sin (qmin * (r + a)) / (r + a)) / (2 * a)
         (if qmin ≠ 0 then F1 * smin / qmin else 0) - F2) := by
  have e : qmin * (sincR (qmin * (r - Real.pi / qmax)) - sincR (qmin * (r + Real.pi / qmax)))
      = sin (qmin * (r - Real.pi / qmax)) / (r - Real.pi / qmax) - sin (qmin * (r + Real.pi / qmax)) / (r + Real.pi / qmax) := by
    rw [mul_sub, sinc_quot1 qmin _ hm, sinc_quot1 qmin _ hp]
  simp only [codeTerm, if_true]
  rw [sinc_quot2 qmin _ hm, sinc_quot2 qmin _ hp, e]

/-- P: with the option the core transform is the uncorrected one plus `codeTerm` evaluated with
    Qmin = smallest in-window abscissa, S(Qmin) from the first in-window data point, Qmax = largest in-window abscissa:
    the term depends on the data only through (Qmin, S(Qmin), Qmax) -/
theorem P_ft_added_term (x y xo : List ℝ) (xmin xmax : Option ℝ) (dy : Option (List ℝ))
    (hy : x.length = y.length) (hd : ∀ d, dy = some d → x.length = d.length) :
    (Transformer.fourier_transform { kw with omitted := true } junk x y xo xmin xmax dy).2.1
      = List.zipWith (· + ·) (Transformer.fourier_transform { kw with omitted := false } junk x y xo xmin xmax dy).2.1
          (xo.map (codeTerm kw.lorch (Vec.min (cropL (winLo x xmin) (winHi x xmax) x x))
            ((if Vec.min (cropL (winLo x xmin) (winHi x xmax) x x) ≠ 0
              then Vec.head (cropL (winLo x xmin) (winHi x xmax) x y) / Vec.min (cropL (winLo x xmin) (winHi x xmax) x x)
              else 0) + 1)
            (Vec.max (cropL (winLo x xmin) (winHi x xmax) x x)))) := by
  rcases xmin with _ | lo <;> rcases xmax with _ | hi <;>
  · simp only [winLo, winHi, Option.getD]
    simp only [Transformer.fourier_transform, Kw.dropWindow, if_true, Bool.false_eq_true, if_false,
      apply_cropping_spec _ junk x y _ _ dy hy hd]
    rw [R_low_x_term _ junk _ _ xo _ (by simp)]
    rfl

/-- P: in G(r) the 2/π normalisation is applied exactly once to the added term -/
theorem P_F_to_G_scales_once (q f r : List ℝ) (dy : Option (List ℝ)) :
    (Transformer.F_to_G kw junk q f r dy).2.1
      = (Transformer.fourier_transform kw junk q f r kw.xmin kw.xmax dy).2.1.map (· * (2 / Real.pi)) := by
  simp [Transformer.F_to_G, Vec.mulS]

example : codeTerm false 1 2 10 1 = (2 * sin 1 - (1 - 2) * cos 1 - 2) * 2 / 1 - (sin 1 - cos 1) := by
  simp [codeTerm]

/-- X: at the pole r = π/Qmax the term is a finite closed form (Qmin = 1, S(Qmin) = 2, Qmax = π, so a = 1, r = 1) -/
example : codeTerm true 1 2 Real.pi 1
    = ((1 - 1 / 2) - (sincR 2 - 1 / 2 * (sincR 1 * sincR 1))) / 2 * 2 / 1 - (1 - sincR 2) / 2 := by
  have hpi : Real.pi ≠ 0 := Real.pi_ne_zero
  simp [codeTerm]
  norm_num

end C15
