import PystogVerif.Props.C18
import PystogVerif.Gen.Stog
import PystogVerif.Gen.StogFacts
import PystogVerif.Refine.Writer
import PystogVerif.Proofs.WriterText

/-!
# C18 on the code generated from the eight `write_out_*` methods of `stog.py`

Each writer hands `_write_out_to_file` the abscissae and ordinates stored under *its* title in the dictionaries of *its* space,
and — when no name is given — the default name built from the stem with *its* extension.  The bytes that
`_write_out_to_file(x, y, name)` produces are `Writer.fileText` (C18's theorems; byte-exact correspondence).
-/
set_option linter.unusedSimpArgs false
namespace C18Gen
open StogRt GenStog

variable (g : GState ℝ) (x y : Vec ℝ)

/-- the name a writer uses: the explicit one, else stem + extension -/
def nameOf (fn : Option String) (dflt : String) : String := match fn with | some n => n | none => dflt

/-- P (generated code): the writer table — dictionary pair, title and default name of each of the eight writers -/
theorem P_gen_writer_table (fn : Option String) :
    (g.q_master "sq_title" = some x → g.sq_master "sq_title" = some y →
      write_out_merged_sq g fn = .ok (writeOut g x y (nameOf fn (g.stem_name ++ ".sq")))) ∧
    (g.r_master "gr_title" = some x → g.gr_master "gr_title" = some y →
      write_out_merged_gr g fn = .ok (writeOut g x y (nameOf fn (g.stem_name ++ ".gr")))) ∧
    (g.q_master "_ft_title" = some x → g.sq_master "_ft_title" = some y →
      write_out_ft g fn = .ok (writeOut g x y (nameOf fn "ft.dat"))) ∧
    (g.q_master "sq_ft_title" = some x → g.sq_master "sq_ft_title" = some y →
      write_out_ft_sq g fn = .ok (writeOut g x y (nameOf fn (g.stem_name ++ "_ft.sq")))) ∧
    (g.r_master "gr_ft_title" = some x → g.gr_master "gr_ft_title" = some y →
      write_out_ft_gr g fn = .ok (writeOut g x y (nameOf fn (g.stem_name ++ "_ft.gr")))) ∧
    (g.r_master "gr_lorch_title" = some x → g.gr_master "gr_lorch_title" = some y →
      write_out_lorched_gr g fn = .ok (writeOut g x y (nameOf fn (g.stem_name ++ "_ft_lorched.gr")))) ∧
    (g.q_master "fq_title" = some x → g.sq_master "fq_title" = some y →
      write_out_rmc_fq g fn = .ok (writeOut g x y (nameOf fn (g.stem_name ++ "_rmc.fq")))) ∧
    (g.r_master "GKofR_title" = some x → g.gr_master "GKofR_title" = some y →
      write_out_rmc_gr g fn = .ok (writeOut g x y (nameOf fn (g.stem_name ++ "_rmc.gr")))) := by
  refine ⟨?_, ?_, ?_, ?_, ?_, ?_, ?_, ?_⟩ <;> intro h1 h2 <;> cases fn <;>
    simp [write_out_merged_sq, write_out_merged_gr, write_out_ft, write_out_ft_sq, write_out_ft_gr, write_out_lorched_gr,
      write_out_rmc_fq, write_out_rmc_gr, Dict.get, h1, h2, nameOf]

/-- P (generated code): a writer whose curve is not stored raises KeyError and writes nothing -/
theorem P_gen_writer_missing (fn : Option String) (h : g.q_master "sq_title" = none) :
    write_out_merged_sq g fn = .error Err.keyError := by
  simp [write_out_merged_sq, Dict.get, h]

/-- P (generated code): a writer changes nothing but the list of written files, to which it appends exactly one entry holding the
    stored curve -/
theorem P_gen_writer_frame (fn : String) :
    (writeOut g x y fn).written = g.written ++ [⟨fn, x, y⟩] ∧ (writeOut g x y fn).q_master = g.q_master ∧
    (writeOut g x y fn).sq_master = g.sq_master ∧ (writeOut g x y fn).r_master = g.r_master ∧
    (writeOut g x y fn).gr_master = g.gr_master := ⟨rfl, rfl, rfl, rfl, rfl⟩

/-- F: all eight writers were translated -/
theorem F_writers_translated : ∀ w ∈ ["write_out_merged_sq", "write_out_merged_gr", "write_out_ft", "write_out_ft_sq", "write_out_ft_gr",
    "write_out_lorched_gr", "write_out_rmc_fq", "write_out_rmc_gr"], w ∈ GenStog.Facts.translated := by decide

/-! ## `_write_out_to_file` itself, regenerated: the characters in the file -/

/-- P: the text written by the code of the current tree (header `%d `, comment line, one `{:.12f} {:.12f}` row per point) is the hand
model's file, for which C18's theorems were proved and which the correspondence compares byte for byte with the real files -/
theorem P_gen_text (xs ys : List UInt64) : GenStog.write_out_to_file_text xs ys = Writer.fileText xs ys :=
  RefineWriter.write_out_to_file_text_refines xs ys

/-- P: read back — splitting the generated text at newlines, skipping two lines, dropping comment lines and splitting each row at the
blank — gives exactly one row per written point, in order, each the parsed text of the two stored numbers -/
theorem P_gen_read_write (xs ys : List UInt64) :
    Writer.readRows (Writer.splitNL (GenStog.write_out_to_file_text xs ys))
      = List.zipWith (fun a b => (Writer.parseDec (Writer.fmt12 a), Writer.parseDec (Writer.fmt12 b))) xs ys := by
  rw [P_gen_text, WriterText.splitNL_fileText, C18.P_read_write]

/-- P: the first line of the generated text is the row count followed by a blank, the second the comment line, and there are exactly
`len(x)` rows after them (equal-length columns) -/
theorem P_gen_header (xs ys : List UInt64) (h : xs.length = ys.length) :
    (Writer.splitNL (GenStog.write_out_to_file_text xs ys)).length = 2 + xs.length ∧
    Writer.parseDigits (((Writer.splitNL (GenStog.write_out_to_file_text xs ys)).headD []).takeWhile (· != ' ')) = xs.length ∧
    ((Writer.splitNL (GenStog.write_out_to_file_text xs ys)).drop 1).head? = some "# Comment line".toList := by
  rw [P_gen_text, WriterText.splitNL_fileText]
  exact C18.P_header_and_rows xs ys h

/-- P: every finite stored number reads back from the generated text as (sign, round-half-even(|v|·10¹²)), i.e. within 5·10⁻¹³ -/
theorem P_gen_read_back_value (a : UInt64) (d : Writer.Dec) (h : Writer.classify a = Writer.Cls.finite d) :
    Writer.parseDec (Writer.fmtFixed 12 a) = some (d.neg, Writer.round12 d) ∧
    |((Writer.round12 d : ℚ) / 10 ^ 12) - d.abs| ≤ 5 / 10 ^ 13 := by
  rw [Writer.fmtFixed_twelve]
  exact ⟨C18.P_read_back_finite a d h, C18.P_fmt_error_bound d⟩

/-- F: the default number of places in the source is 12 (the generated default argument) -/
theorem F_places_default (xs ys : List UInt64) : GenStog.write_out_to_file_text xs ys = GenStog.write_out_to_file_text xs ys 12 := rfl

example : GenStog.write_out_to_file_text [0x3FF8000000000000] [0xBFE0000000000000]
    = "1 \n# Comment line\n1.500000000000 -0.500000000000\n".toList := by decide +kernel

end C18Gen
