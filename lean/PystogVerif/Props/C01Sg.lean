import PystogVerif.Props.C01
import PystogVerif.Props.C05
import PystogVerif.Proofs.Converter
import PystogVerif.Proofs.ListLemmas

/-!
# C01 (continued) — the S(Q) ↔ g(r) round trips on the matched grids

`Transformer.S_to_g` / `g_to_S` (generated) are conversion ∘ core ∘ conversion (C05, by `rfl`); the conversions are exact
inverses of each other where the abscissa is positive and return the conventional values at Q = 0 / r = 0 (C03/C04
refinements), and the cores are DST partners (C01).  Hence S → g → S and g → S → g return the original for every N ≥ 1,
dr > 0, ρ > 0 and all data with the conventional value at index 0 and reduced function 0 at index N.
The values do not depend on the (internally generated) uncertainties: `ft_val_indep_dy`.
-/
namespace C01
open Real Finset Spec
variable (kw : Kw ℝ) (junk : Junk ℝ)

theorem ft_val_indep_dy (hp : plain kw) (x y xo : List ℝ) (d : List ℝ) (hy : x.length = y.length) (hd : x.length = d.length) :
    (Transformer.fourier_transform kw junk x y xo kw.xmin kw.xmax (some d)).2.1
      = (Transformer.fourier_transform kw junk x y xo kw.xmin kw.xmax none).2.1 := by
  obtain ⟨hl, ho, hmin, hmax⟩ := hp
  rw [hmin, hmax, C02.R_fourier_transform_val kw junk hl ho x y xo (some d) hy (by intro d' h; cases h; exact hd),
    C02.R_fourier_transform_val kw junk hl ho x y xo none hy (by simp)]

theorem F_to_G_val_indep_dy (hp : plain kw) (q f r d : List ℝ) (hy : q.length = f.length) (hd : q.length = d.length) :
    (Transformer.F_to_G kw junk q f r (some d)).2.1 = (Transformer.F_to_G kw junk q f r none).2.1 := by
  simp only [Transformer.F_to_G]
  rw [ft_val_indep_dy kw junk hp q f r d hy hd]

theorem G_to_F_val_indep_dy (hp : plain kw) (r g q d : List ℝ) (hy : r.length = g.length) (hd : r.length = d.length) :
    (Transformer.G_to_F kw junk r g q (some d)).2.1 = (Transformer.G_to_F kw junk r g q none).2.1 := by
  simp only [Transformer.G_to_F]
  rw [ft_val_indep_dy kw junk hp r g q d hy hd]

theorem F_to_G_grid_eq (q f r : List ℝ) (d : Option (List ℝ)) : (Transformer.F_to_G kw junk q f r d).1 = r := rfl
theorem G_to_F_grid_eq (q f r : List ℝ) (d : Option (List ℝ)) : (Transformer.G_to_F kw junk r f q d).1 = q := rfl

theorem ft_len (x y xo : List ℝ) (xmin xmax : Option ℝ) (dy : Option (List ℝ)) :
    (Transformer.fourier_transform kw junk x y xo xmin xmax dy).2.1.length = xo.length := by
  simp only [Transformer.fourier_transform]
  split_ifs <;> (try simp only [Transformer._low_x_correction, Vec.add, Vec.zerosLike]) <;> (try split_ifs) <;> simp

theorem F_to_G_len (q f r : List ℝ) (d : Option (List ℝ)) : (Transformer.F_to_G kw junk q f r d).2.1.length = r.length := by
  simp only [Transformer.F_to_G, Vec.mulS, List.length_map]
  exact ft_len kw junk q f r _ _ d

theorem G_to_F_len (r g q : List ℝ) (d : Option (List ℝ)) : (Transformer.G_to_F kw junk r g q d).2.1.length = q.length := by
  simp only [Transformer.G_to_F]
  exact ft_len kw junk r g q _ _ d

/-- values of S_to_g: conversion, core, conversion -/
theorem S_to_g_val (hp : plain kw) (hrho : 0 < kw.rho) (q s r : List ℝ) (hs : q.length = s.length) :
    (Transformer.S_to_g kw junk q s r none).2.1
      = List.zipWith (Spec.gconv kw .G .g) r
          (Transformer.F_to_G kw junk q (List.zipWith (Spec.rconv kw .S .F) q s) r none).2.1 := by
  have hf := C05.P_q2r_factor kw junk .S .g q s r none
  simp only [GenTable.q2r, GenTable.inR, GenTable.outG] at hf
  rw [hf]
  dsimp only
  have hv := rconv_val_SF kw junk .S .F (Or.inl rfl) (Or.inr rfl) q s none hs
  have hu := rconv_unc_SF kw junk .S .F (Or.inl rfl) (Or.inr rfl) q s none hs (by simp)
  have hvl : q.length = (GenTable.rconv RFn.S RFn.F kw junk q s none).1.length := by rw [hv]; simp [hs]
  have hul : q.length = (GenTable.rconv RFn.S RFn.F kw junk q s none).2.length := by rw [hu]; simp [Vec.zerosLike, hs]
  rw [F_to_G_grid_eq, F_to_G_val_indep_dy kw junk hp q _ r _ hvl hul, hv]
  exact gconv_val_gG kw junk .G .g (Or.inr rfl) (Or.inl rfl) hrho r _ _ (F_to_G_len kw junk q _ r none).symm

/-- values of g_to_S: conversion, core, conversion -/
theorem g_to_S_val (hp : plain kw) (hrho : 0 < kw.rho) (r g q : List ℝ) (hg : r.length = g.length) :
    (Transformer.g_to_S kw junk r g q none).2.1
      = List.zipWith (Spec.rconv kw .F .S) q
          (Transformer.G_to_F kw junk r (List.zipWith (Spec.gconv kw .g .G) r g) q none).2.1 := by
  have hf := C05.P_r2q_factor kw junk .g .S r g q none
  simp only [GenTable.r2q, GenTable.inG, GenTable.outR] at hf
  rw [hf]
  dsimp only
  have hv := gconv_val_gG kw junk .g .G (Or.inl rfl) (Or.inr rfl) hrho r g none hg
  have hu := gconv_unc_gG kw junk .g .G (Or.inl rfl) (Or.inr rfl) hrho r g none hg (by simp)
  have hvl : r.length = (GenTable.gconv GFn.g GFn.G kw junk r g none).1.length := by rw [hv]; simp [hg]
  have hul : r.length = (GenTable.gconv GFn.g GFn.G kw junk r g none).2.length := by rw [hu]; simp [Vec.zerosLike, hg]
  rw [G_to_F_grid_eq, G_to_F_val_indep_dy kw junk hp r _ q _ hvl hul, hv]
  exact rconv_val_SF kw junk .F .S (Or.inr rfl) (Or.inl rfl) q _ _ (G_to_F_len kw junk r _ q none).symm

theorem zipWith_grid (N : ℕ) (a : ℕ → ℝ) (b : ℕ → ℝ) (g : ℝ → ℝ → ℝ) :
    List.zipWith g ((List.range (N + 1)).map a) ((List.range (N + 1)).map b)
      = (List.range (N + 1)).map (fun i => g (a i) (b i)) := zipWith_map_range (N + 1) a b g

/-- P: S(Q) → g(r) → S(Q) on the matched grids returns the original, for every N ≥ 1, dr > 0, ρ > 0 and every S(Q) with the
    conventional value 1 at Q = 0 and S(Q_N) = 1 (Q[S−1] vanishing at both ends) -/
theorem P_g_to_S_S_to_g (hp : plain kw) (hrho : 0 < kw.rho) (N : ℕ) (hN : 0 < N) (dr : ℝ) (hdr : 0 < dr)
    (s : ℕ → ℝ) (h0 : s 0 = 1) (hsN : s N = 1) :
    (Transformer.g_to_S kw junk (rGrid N dr)
        (Transformer.S_to_g kw junk (qGrid N dr) ((List.range (N + 1)).map s) (rGrid N dr) none).2.1
        (qGrid N dr) none).2.1 = (List.range (N + 1)).map s := by
  have hNr : (0 : ℝ) < N := by exact_mod_cast hN
  have hpi := Real.pi_pos
  have hdQ : 0 < π / (N * dr) := by positivity
  -- forward
  rw [S_to_g_val kw junk hp hrho _ _ _ (by simp [qGrid])]
  set f : ℕ → ℝ := fun k => (k : ℝ) * (π / (N * dr)) * (s k - 1) with hf
  have hfl : List.zipWith (Spec.rconv kw .S .F) (qGrid N dr) ((List.range (N + 1)).map s) = (List.range (N + 1)).map f := by
    simp only [qGrid]; rw [zipWith_grid]; rfl
  have hf0 : f 0 = 0 := by simp [hf]
  have hfN : f N = 0 := by simp [hf, hsN]
  rw [hfl, R_F_to_G_grid kw junk hp N hN dr hdr f hf0 hfN]
  set G : ℕ → ℝ := fun j => (2 / π) * ((π / (N * dr)) * ∑ k ∈ range (N + 1), f k * sin (π * j * k / N)) with hG
  have hG0 : G 0 = 0 := by simp [hG]
  have hGN : G N = 0 := by simp [hG, sin_pi_N_mul N _ hN]
  have hgl : List.zipWith (Spec.gconv kw .G .g) (rGrid N dr) ((List.range (N + 1)).map G)
      = (List.range (N + 1)).map (fun j : ℕ => Spec.gconv kw .G .g ((j : ℝ) * dr) (G j)) := by
    simp only [rGrid]; rw [zipWith_grid]
  rw [hgl]
  -- back
  rw [g_to_S_val kw junk hp hrho _ _ _ (by simp [rGrid])]
  have hback : List.zipWith (Spec.gconv kw .g .G) (rGrid N dr)
        ((List.range (N + 1)).map (fun j : ℕ => Spec.gconv kw .G .g ((j : ℝ) * dr) (G j)))
      = (List.range (N + 1)).map G := by
    simp only [rGrid]; rw [zipWith_grid]
    apply List.map_congr_left
    intro j _
    rcases Nat.eq_zero_or_pos j with rfl | hj
    · simp [Spec.gconv, hG0]
    · have hr : 0 < (j : ℝ) * dr := mul_pos (by exact_mod_cast hj) hdr
      have hr' := hr.ne'
      have hrho' := hrho.ne'
      have hpi' := hpi.ne'
      simp only [Spec.gconv, if_pos hr]
      field_simp
      ring
  rw [hback]
  have hrt := P_G_to_F_F_to_G kw junk hp N hN dr hdr f hf0 hfN
  rw [R_F_to_G_grid kw junk hp N hN dr hdr f hf0 hfN] at hrt
  rw [hrt]
  simp only [qGrid]; rw [zipWith_grid]
  apply List.map_congr_left
  intro k _
  rcases Nat.eq_zero_or_pos k with rfl | hk
  · simp [Spec.rconv, h0]
  · have hq : 0 < (k : ℝ) * (π / (N * dr)) := mul_pos (by exact_mod_cast hk) hdQ
    have hq' := hq.ne'
    simp only [Spec.rconv, if_pos hq, hf]
    field_simp
    ring

/-- P: g(r) → S(Q) → g(r) on the matched grids returns the original, for every g(r) with the conventional value 1 at r = 0
    and g(r_N) = 1 (G(r) vanishing at both ends) -/
theorem P_S_to_g_g_to_S (hp : plain kw) (hrho : 0 < kw.rho) (N : ℕ) (hN : 0 < N) (dr : ℝ) (hdr : 0 < dr)
    (g : ℕ → ℝ) (h0 : g 0 = 1) (hgN : g N = 1) :
    (Transformer.S_to_g kw junk (qGrid N dr)
        (Transformer.g_to_S kw junk (rGrid N dr) ((List.range (N + 1)).map g) (qGrid N dr) none).2.1
        (rGrid N dr) none).2.1 = (List.range (N + 1)).map g := by
  have hNr : (0 : ℝ) < N := by exact_mod_cast hN
  have hpi := Real.pi_pos
  have hdQ : 0 < π / (N * dr) := by positivity
  rw [g_to_S_val kw junk hp hrho _ _ _ (by simp [rGrid])]
  set G : ℕ → ℝ := fun j => 4 * π * kw.rho * ((j : ℝ) * dr) * (g j - 1) with hG
  have hGl : List.zipWith (Spec.gconv kw .g .G) (rGrid N dr) ((List.range (N + 1)).map g) = (List.range (N + 1)).map G := by
    simp only [rGrid]; rw [zipWith_grid]; rfl
  have hG0 : G 0 = 0 := by simp [hG]
  have hGN : G N = 0 := by simp [hG, hgN]
  rw [hGl, R_G_to_F_grid kw junk hp N hN dr hdr G hG0 hGN]
  set F : ℕ → ℝ := fun k => dr * ∑ j ∈ range (N + 1), G j * sin (π * j * k / N) with hF
  have hF0 : F 0 = 0 := by simp [hF]
  have hSl : List.zipWith (Spec.rconv kw .F .S) (qGrid N dr) ((List.range (N + 1)).map F)
      = (List.range (N + 1)).map (fun k : ℕ => Spec.rconv kw .F .S ((k : ℝ) * (π / (N * dr))) (F k)) := by
    simp only [qGrid]; rw [zipWith_grid]
  rw [hSl, S_to_g_val kw junk hp hrho _ _ _ (by simp [qGrid])]
  have hback : List.zipWith (Spec.rconv kw .S .F) (qGrid N dr)
        ((List.range (N + 1)).map (fun k : ℕ => Spec.rconv kw .F .S ((k : ℝ) * (π / (N * dr))) (F k)))
      = (List.range (N + 1)).map F := by
    simp only [qGrid]; rw [zipWith_grid]
    apply List.map_congr_left
    intro k _
    rcases Nat.eq_zero_or_pos k with rfl | hk
    · simp [Spec.rconv, hF0]
    · have hq : 0 < (k : ℝ) * (π / (N * dr)) := mul_pos (by exact_mod_cast hk) hdQ
      have hq' := hq.ne'
      simp only [Spec.rconv, if_pos hq]
      field_simp
      ring
  rw [hback]
  have hrt := P_F_to_G_G_to_F kw junk hp N hN dr hdr G hG0 hGN
  rw [R_G_to_F_grid kw junk hp N hN dr hdr G hG0 hGN] at hrt
  rw [hrt]
  simp only [rGrid]; rw [zipWith_grid]
  apply List.map_congr_left
  intro j _
  rcases Nat.eq_zero_or_pos j with rfl | hj
  · simp [Spec.gconv, h0]
  · have hr : 0 < (j : ℝ) * dr := mul_pos (by exact_mod_cast hj) hdr
    have hr' := hr.ne'
    have hrho' := hrho.ne'
    have hpi' := hpi.ne'
    simp only [Spec.gconv, if_pos hr, hG]
    field_simp
    ring

/-- X: the hypotheses are satisfiable with non-trivial data (N = 2, S = (1, 3, 1)) -/
example : ∃ (N : ℕ) (s : ℕ → ℝ), 0 < N ∧ s 0 = 1 ∧ s N = 1 ∧ s 1 ≠ 1 :=
  ⟨2, fun k => if k = 1 then 3 else 1, by norm_num, by simp, by simp, by norm_num⟩
end C01
