import PystogVerif.Proofs.Merge
import PystogVerif.Model.Workflow

/-!
# C12 — StoG workflow steps equal the library primitives and are history-independent

Model: hand-written state machine `Workflow.step` (mirror of transform_merged / fourier_filter / apply_lorch /
_add_keen_fq / _add_keen_gr; compared with the real StoG after every step of random op sequences); the numeric content
of every step is a call of the *generated* `Transformer` / `FourierFilter` / `Converter` code with the option
dictionary the Python builds.
-/
noncomputable section
namespace C12
open Workflow

variable (s : Settings ℝ)

/-- P: transform_merged stores exactly Transformer.S_to_<X> of the merged S(Q) on the instance's r grid with
    {lorch: False, rho: density, <b_coh>^2} -/
theorem P_transform_merged_spec (st : State ℝ) :
    (transformMerged s st).gr = some (grCurve s st) ∧
    (s.rsf = 0 → (sToX s.rsf (kwTransform s) st.sq.1 st.sq.2 s.dr) = Transformer.S_to_g (kwTransform s) noJunk st.sq.1 st.sq.2 s.dr none) ∧
    (s.rsf = 1 → (sToX s.rsf (kwTransform s) st.sq.1 st.sq.2 s.dr) = Transformer.S_to_G (kwTransform s) noJunk st.sq.1 st.sq.2 s.dr none) ∧
    (s.rsf = 2 → (sToX s.rsf (kwTransform s) st.sq.1 st.sq.2 s.dr) = Transformer.S_to_GK (kwTransform s) noJunk st.sq.1 st.sq.2 s.dr none) := by
  refine ⟨rfl, ?_, ?_, ?_⟩ <;> intro h <;> simp [sToX, h]

/-- P: the filter step stores the (rounded) outputs of FourierFilter.<X>_using_S applied to the merged real-space curve and
    the merged S(Q) with {lorch: False, rho, <b_coh>^2, OmittedXrangeCorrection: low_q_correction}; the merged real-space
    curve stays as it was -/
theorem P_fourier_filter_spec (st : State ℝ) (c : Curve ℝ) (h : st.gr = some c) :
    fourierFilter s st = filterCore s st c ∧ (fourierFilter s st).gr = some c ∧
    (fourierFilter s st).ft = some (Numpy.aroundV 2 (filterX s.rsf (kwFilter s) c.1 c.2 st.sq.1 st.sq.2 s.cutoff).1,
                                    Numpy.aroundV 16 (filterX s.rsf (kwFilter s) c.1 c.2 st.sq.1 st.sq.2 s.cutoff).2.1) := by
  simp only [fourierFilter, h, filterCore, and_self]

/-- P: the merged curve is never overwritten by a later step (frame lemma for every operation) -/
theorem P_frame_merged (st : State ℝ) (op : Op) : (step s st op).sq = st.sq := by
  cases op
  · rfl
  · simp only [step, fourierFilter]
    cases h : st.gr <;> rfl
  · rfl
  · rfl
  · simp only [step]; cases curG st <;> rfl

theorem P_frame_merged_run (st : State ℝ) (ops : List Op) : (run s st ops).sq = st.sq := by
  induction ops generalizing st with
  | nil => rfl
  | cons op t ih => simp only [run, List.foldl_cons] at ih ⊢; rw [ih, P_frame_merged]

/-- P: running the filter before the explicit transform is the same as running it after -/
theorem P_filter_after_transform (st : State ℝ) (h : st.gr = none) :
    fourierFilter s (transformMerged s st) = fourierFilter s st := by
  simp only [fourierFilter, h, transformMerged]

/-- P: repeating a step changes nothing, in every state -/
theorem P_step_idempotent (st : State ℝ) (op : Op) : step s (step s st op) op = step s st op := by
  cases op
  · rfl
  · simp only [step, fourierFilter]
    cases h : st.gr with
    | none => rfl
    | some c => simp only [filterCore, h]
  · rfl
  · rfl
  · simp only [step]
    cases h : curG st with
    | none => simp [h]
    | some c =>
      have : curG (addKeenGr s st c.1 c.2) = some c := by
        simp only [curG, addKeenGr] at h ⊢; exact h
      simp only [this]
      rfl

/-- the three filter curves as functions of the merged S(Q) and the settings alone -/
def ftOf (st : State ℝ) : State ℝ := filterCore s st (grCurve s st)

/-- history-independence invariant: whatever sequence of steps was run, each of the curves "<rsf> Merged", "FT term",
    "S(Q) FT", "<rsf> FT" is either absent or equal to the value determined by the merged data and the settings -/
def Inv (sq0 : Curve ℝ) (st : State ℝ) : Prop :=
  st.sq = sq0 ∧
  (st.gr = none ∨ st.gr = some (grCurve s st)) ∧
  (st.ft = none ∨ st.ft = (ftOf s st).ft) ∧
  (st.sqFt = none ∨ st.sqFt = (ftOf s st).sqFt) ∧
  (st.grFt = none ∨ st.grFt = (ftOf s st).grFt)

theorem inv_step (sq0 : Curve ℝ) (st : State ℝ) (op : Op) (h : Inv s sq0 st) : Inv s sq0 (step s st op) := by
  obtain ⟨h0, hg, hf, hs, hr⟩ := h
  cases op
  · exact ⟨h0, Or.inr rfl, hf, hs, hr⟩
  · simp only [step, fourierFilter]
    rcases hg with hg | hg
    · rw [hg]
      exact ⟨h0, Or.inr rfl, Or.inr rfl, Or.inr rfl, Or.inr rfl⟩
    · rw [hg]
      exact ⟨h0, Or.inr hg, Or.inr rfl, Or.inr rfl, Or.inr rfl⟩
  · exact ⟨h0, hg, hf, hs, hr⟩
  · exact ⟨h0, hg, hf, hs, hr⟩
  · simp only [step]
    cases curG st with
    | none => exact ⟨h0, hg, hf, hs, hr⟩
    | some c => exact ⟨h0, hg, hf, hs, hr⟩

/-- P: history independence over arbitrary operation sequences from the state right after merging -/
theorem P_history_independent (sq0 : Curve ℝ) (ops : List Op) : Inv s sq0 (run s { sq := sq0 } ops) := by
  have h0 : Inv s sq0 ({ sq := sq0 } : State ℝ) := ⟨rfl, Or.inl rfl, Or.inl rfl, Or.inl rfl, Or.inl rfl⟩
  suffices h : ∀ st, Inv s sq0 st → Inv s sq0 (run s st ops) from h _ h0
  induction ops with
  | nil => intro st h; exact h
  | cons op t ih => intro st h; simp only [run, List.foldl_cons]; exact ih _ (inv_step s sq0 st op h)

/-- P: the Keen outputs are the conversions of the curves handed to them -/
theorem P_keen_spec (st : State ℝ) (q sq r gr : Vec ℝ) :
    (addKeenFq s st q sq).fqKeen = some (q, (Converter.S_to_FK (kwKeen s) noJunk q sq none).1) ∧
    (s.rsf = 0 → (addKeenGr s st r gr).gkKeen = some (r, (Converter.g_to_GK (kwKeen s) noJunk r gr none).1)) ∧
    (s.rsf = 1 → (addKeenGr s st r gr).gkKeen = some (r, (Converter.G_to_GK (kwKeen s) noJunk r gr none).1)) ∧
    (s.rsf = 2 → (addKeenGr s st r gr).gkKeen = some (r, gr)) := by
  refine ⟨rfl, ?_, ?_, ?_⟩ <;> intro h <;> simp [addKeenGr, h]

/-- P: the Lorch step stores Transformer.S_to_<X> with lorch = True and the documented keys -/
theorem P_apply_lorch_spec (st : State ℝ) (q sq r : Vec ℝ) :
    (applyLorch s st q sq r).grLorch = some ((sToX s.rsf (kwLorch s) q sq r).1, (sToX s.rsf (kwLorch s) q sq r).2.1) ∧
    (kwLorch s).lorch = true := by
  refine ⟨rfl, ?_⟩
  simp only [kwLorch]; split_ifs <;> rfl

example : (run ({ rsf := 0, rho := 1, bcoh := 1, lowq := false, cutoff := 1, dr := [0, 1] } : Settings ℝ)
    { sq := ([1, 2], [1, 1]) } [Op.filter]).gr.isSome = true := by
  simp [run, step, fourierFilter, transformMerged, filterCore]

end C12
end
