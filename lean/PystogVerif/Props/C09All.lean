import PystogVerif.Props.C08All
import PystogVerif.Props.C04
import PystogVerif.Props.C07Named

/-!
# C09 — two variants fed the same physical data return the same physics, output by output

`Props/C09` proves that every one of the 12 variants is the g(r)/Q[S−1] core wrapped in conversions, and that two variants whose *converted*
inputs coincide call the core alike.  Here the hypothesis is discharged: the conversion laws of C03/C04/C06 (path law for values, chain rule
for the slopes) show that inputs which are pointwise conversions of one another (X → X′ in real space, Y → Y′ in reciprocal space, values and
uncertainties) *do* have the same converted inputs — so all nine outputs of variant (X′, Y′) are the pointwise conversions of the outputs of
variant (X, Y):

  removed′ = conv_{Y→Y′}(removed),  corrected′ = conv_{Y→Y′}(corrected),  filtered′ = conv_{X→X′}(filtered),
  and the three uncertainties scale by ∂Y′/∂Y (resp. ∂X′/∂X),

on every grid with r > 0 and Q > 0, for every cutoff and every option setting.  A variant that drops, replaces or double-converts an
uncertainty, or converts with the wrong constants, falsifies these equations.
-/
namespace C09
open Spec
variable (kw : Kw ℝ) (junk : Junk ℝ)

/-! ## chain rule for the slopes -/

theorem rslope_chain (X Y Z : RFn) (hb : kw.bcoh ≠ 0) (q e : ℝ) (hq : 0 < q) :
    Spec.rslope kw Y Z q * (Spec.rslope kw X Y q * e) = Spec.rslope kw X Z q * e := by
  have hq' : q ≠ 0 := hq.ne'
  cases X <;> cases Y <;> cases Z <;> simp only [Spec.rslope, if_pos hq] <;> field_simp

theorem gslope_chain (X Y Z : GFn) (hb : kw.bcoh ≠ 0) (hrho : 0 < kw.rho) (r e : ℝ) (hr : 0 < r) :
    Spec.gslope kw Y Z r * (Spec.gslope kw X Y r * e) = Spec.gslope kw X Z r * e := by
  have hr' : r ≠ 0 := hr.ne'
  have hrho' : kw.rho ≠ 0 := hrho.ne'
  have hpi : Real.pi ≠ 0 := Real.pi_ne_zero
  cases X <;> cases Y <;> cases Z <;> simp only [Spec.gslope, if_pos hr] <;> field_simp

/-! ## list forms -/

theorem zip_path {f g h : ℝ → ℝ → ℝ} : ∀ (q v : List ℝ), (∀ a ∈ q, ∀ x, g a (f a x) = h a x) →
    List.zipWith g q (List.zipWith f q v) = List.zipWith h q v
  | [], _, _ => by simp
  | _ :: _, [], _ => by simp
  | a :: q, x :: v, hp => by
      simp only [List.zipWith_cons_cons, hp a (by simp) x, zip_path q v (fun b hb x => hp b (by simp [hb]) x)]

theorem rpath_list (X Y Z : RFn) (hb : kw.bcoh ≠ 0) (q v : List ℝ) (hpos : ∀ a ∈ q, 0 < a) :
    List.zipWith (Spec.rconv kw Y Z) q (List.zipWith (Spec.rconv kw X Y) q v) = List.zipWith (Spec.rconv kw X Z) q v :=
  zip_path q v (fun a ha x => C03.P_path_pt kw X Y Z hb a x (hpos a ha))

theorem gpath_list (X Y Z : GFn) (hb : kw.bcoh ≠ 0) (hrho : 0 < kw.rho) (r v : List ℝ) (hpos : ∀ a ∈ r, 0 < a) :
    List.zipWith (Spec.gconv kw Y Z) r (List.zipWith (Spec.gconv kw X Y) r v) = List.zipWith (Spec.gconv kw X Z) r v :=
  zip_path r v (fun a ha x => C04.P_path_pt kw X Y Z hb hrho a x (hpos a ha))

theorem rslope_list (X Y Z : RFn) (hb : kw.bcoh ≠ 0) (q e : List ℝ) (hpos : ∀ a ∈ q, 0 < a) :
    List.zipWith (fun q e => Spec.rslope kw Y Z q * e) q (List.zipWith (fun q e => Spec.rslope kw X Y q * e) q e)
      = List.zipWith (fun q e => Spec.rslope kw X Z q * e) q e :=
  zip_path q e (fun a ha x => rslope_chain kw X Y Z hb a x (hpos a ha))

theorem gslope_list (X Y Z : GFn) (hb : kw.bcoh ≠ 0) (hrho : 0 < kw.rho) (r e : List ℝ) (hpos : ∀ a ∈ r, 0 < a) :
    List.zipWith (fun r e => Spec.gslope kw Y Z r * e) r (List.zipWith (fun r e => Spec.gslope kw X Y r * e) r e)
      = List.zipWith (fun r e => Spec.gslope kw X Z r * e) r e :=
  zip_path r e (fun a ha x => gslope_chain kw X Y Z hb hrho a x (hpos a ha))

/-! ## the input conversions of a variant, in closed form (uncertainty supplied) -/

theorem gconv_gg : Spec.gconv kw .g .g = fun (_ : ℝ) (v : ℝ) => v := by funext a b; rfl
theorem gslope_gg : (fun (r e : ℝ) => Spec.gslope kw .g .g r * e) = fun (_ : ℝ) (e : ℝ) => (1 : ℝ) * e := by funext a b; rfl

theorem fIn_g_some (X : GFn) (hb : kw.bcoh ≠ 0) (hrho : 0 < kw.rho) (r y d : Vec ℝ) (h : r.length = y.length) (hd : r.length = d.length) :
    GenTable.fIn_g X kw junk r y (some d)
      = (List.zipWith (Spec.gconv kw X .g) r y, some (List.zipWith (fun r e => Spec.gslope kw X .g r * e) r d)) := by
  cases X
  case g => rw [gconv_gg, gslope_gg, C08.zipWith_snd r y h, C08.zipWith_one_mul r d hd]; rfl
  all_goals
    simp only [GenTable.fIn_g]
    rw [gconv_val kw junk _ .g hb hrho r y (some d) h, gconv_unc kw junk _ .g hb hrho r y (some d) h (fun d' hd' => by cases hd'; exact hd)]
    rfl

theorem fIn_F_some (Y : RFn) (hb : kw.bcoh ≠ 0) (q y d : Vec ℝ) (h : q.length = y.length) (hd : q.length = d.length) :
    GenTable.fIn_F Y kw junk q y (some d)
      = (List.zipWith (Spec.rconv kw Y .F) q y, some (List.zipWith (fun q e => Spec.rslope kw Y .F q * e) q d)) := by
  cases Y
  case F => rw [C08.rconv_FF, C08.rslope_FF, C08.zipWith_snd q y h, C08.zipWith_one_mul q d hd]; rfl
  all_goals
    simp only [GenTable.fIn_F]
    rw [rconv_val kw junk _ .F hb q y (some d) h, rconv_unc kw junk _ .F hb q y (some d) h (fun d' hd' => by cases hd'; exact hd)]
    rfl

/-- inputs that are conversions of one another have the same converted inputs (real space) -/
theorem fIn_g_conv (X X' : GFn) (hb : kw.bcoh ≠ 0) (hrho : 0 < kw.rho) (r y d : Vec ℝ) (h : r.length = y.length) (hd : r.length = d.length)
    (hpos : ∀ a ∈ r, 0 < a) :
    GenTable.fIn_g X' kw junk r (List.zipWith (Spec.gconv kw X X') r y) (some (List.zipWith (fun r e => Spec.gslope kw X X' r * e) r d))
      = GenTable.fIn_g X kw junk r y (some d) := by
  rw [fIn_g_some kw junk X' hb hrho r _ _ (by simp [h]) (by simp [hd]), fIn_g_some kw junk X hb hrho r y d h hd,
    gpath_list kw X X' .g hb hrho r y hpos, gslope_list kw X X' .g hb hrho r d hpos]

/-- … and reciprocal space -/
theorem fIn_F_conv (Y Y' : RFn) (hb : kw.bcoh ≠ 0) (q y d : Vec ℝ) (h : q.length = y.length) (hd : q.length = d.length)
    (hpos : ∀ a ∈ q, 0 < a) :
    GenTable.fIn_F Y' kw junk q (List.zipWith (Spec.rconv kw Y Y') q y) (some (List.zipWith (fun q e => Spec.rslope kw Y Y' q * e) q d))
      = GenTable.fIn_F Y kw junk q y (some d) := by
  rw [fIn_F_some kw junk Y' hb q _ _ (by simp [h]) (by simp [hd]), fIn_F_some kw junk Y hb q y d h hd,
    rpath_list kw Y Y' .F hb q y hpos, rslope_list kw Y Y' .F hb q d hpos]

/-! ## the output conversions -/

theorem fOut_g_val (X : GFn) (hb : kw.bcoh ≠ 0) (hrho : 0 < kw.rho) (r v dv : Vec ℝ) (h : r.length = v.length) :
    (GenTable.fOut_g X kw junk r v dv).1 = List.zipWith (Spec.gconv kw .g X) r v := by
  cases X
  case g => rw [gconv_gg, C08.zipWith_snd r v h]; rfl
  all_goals exact gconv_val kw junk .g _ hb hrho r v (some dv) h

theorem fOut_g_unc (X : GFn) (hb : kw.bcoh ≠ 0) (hrho : 0 < kw.rho) (r v dv : Vec ℝ) (h : r.length = v.length) (hd : r.length = dv.length) :
    (GenTable.fOut_g X kw junk r v dv).2 = List.zipWith (fun r e => Spec.gslope kw .g X r * e) r dv := by
  cases X
  case g => rw [gslope_gg, C08.zipWith_one_mul r dv hd]; rfl
  all_goals exact gconv_unc kw junk .g _ hb hrho r v (some dv) h (fun d hdd => by cases hdd; exact hd)

/-! ## the core's real-space outputs live on the caller's r grid -/

theorem rOut_eq (r gr q fq : Vec ℝ) (cutoff : ℝ) (dgr dfq : Option (Vec ℝ)) :
    C08.rOut (FourierFilter.g_using_F kw junk r gr q fq cutoff dgr dfq) = r := rfl

theorem gOut_lengths (hb : kw.bcoh ≠ 0) (hrho : 0 < kw.rho) (r gr q fq : Vec ℝ) (cutoff : ℝ) (dgr dfq : Option (Vec ℝ)) :
    (C08.gOut (FourierFilter.g_using_F kw junk r gr q fq cutoff dgr dfq)).length = r.length ∧
    (C08.dgOut (FourierFilter.g_using_F kw junk r gr q fq cutoff dgr dfq)).length = r.length := by
  set core := FourierFilter.g_using_F kw junk r gr q fq cutoff dgr dfq
  set t := Transformer.F_to_G kw junk (C08.qOut core) (C08.corrected core) r (some (C08.dCorrected core))
  have hl := C07.F_to_G_lengths kw junk (C08.qOut core) (C08.corrected core) r (some (C08.dCorrected core))
  have h2 : C08.gOut core = (GenTable.gconv .G .g kw junk r t.2.1 (some t.2.2)).1 := rfl
  have h3 : C08.dgOut core = (GenTable.gconv .G .g kw junk r t.2.1 (some t.2.2)).2 := rfl
  rw [h2, h3, gconv_val kw junk .G .g hb hrho r t.2.1 (some t.2.2) hl.1.symm,
    gconv_unc kw junk .G .g hb hrho r t.2.1 (some t.2.2) hl.1.symm (fun d hd => by cases hd; exact hl.2.symm)]
  simp only [List.length_zipWith, Option.getD_some]
  rw [hl.1, hl.2, min_self]
  exact ⟨rfl, rfl⟩

/-! ## the theorem -/

/-- **P (all pairs of the 12 variants)**: variant (X′, Y′) fed the conversions of the data (values and uncertainties) that variant (X, Y) was
fed returns, output by output, the conversions of what (X, Y) returns — removed component, corrected function, filtered real-space function
and all three uncertainties (r > 0, Q > 0, ⟨b_coh⟩² ≠ 0, ρ > 0; any cutoff, any option setting) -/
theorem P_variants_physically_agree (X X' : GFn) (Y Y' : RFn) (hb : kw.bcoh ≠ 0) (hrho : 0 < kw.rho)
    (r gr dg q fq df : Vec ℝ) (cutoff : ℝ)
    (hr : r.length = gr.length) (hdg : r.length = dg.length) (hq : q.length = fq.length) (hdf : q.length = df.length)
    (hrpos : ∀ a ∈ r, 0 < a) (hqpos : ∀ a ∈ q, 0 < a) :
    let o := GenTable.filt X Y kw junk r gr q fq cutoff (some dg) (some df)
    let o' := GenTable.filt X' Y' kw junk r (List.zipWith (Spec.gconv kw X X') r gr) q (List.zipWith (Spec.rconv kw Y Y') q fq) cutoff
      (some (List.zipWith (fun r e => Spec.gslope kw X X' r * e) r dg)) (some (List.zipWith (fun q e => Spec.rslope kw Y Y' q * e) q df))
    C08.qFt o' = C08.qFt o ∧ C08.qOut o' = C08.qOut o ∧ C08.rOut o' = C08.rOut o ∧
    C08.removed o' = List.zipWith (Spec.rconv kw Y Y') q (C08.removed o) ∧
    C08.corrected o' = List.zipWith (Spec.rconv kw Y Y') q (C08.corrected o) ∧
    C08.gOut o' = List.zipWith (Spec.gconv kw X X') r (C08.gOut o) ∧
    C08.dRemoved o' = List.zipWith (fun q e => Spec.rslope kw Y Y' q * e) q (C08.dRemoved o) ∧
    C08.dCorrected o' = List.zipWith (fun q e => Spec.rslope kw Y Y' q * e) q (C08.dCorrected o) ∧
    C08.dgOut o' = List.zipWith (fun r e => Spec.gslope kw X X' r * e) r (C08.dgOut o) := by
  intro o o'
  have ho : o = _ := P_variant_factor kw junk X Y r gr q fq cutoff (some dg) (some df)
  have ho' : o' = _ := P_variant_factor kw junk X' Y' r _ q _ cutoff _ _
  rw [fIn_g_conv kw junk X X' hb hrho r gr dg hr hdg hrpos, fIn_F_conv kw junk Y Y' hb q fq df hq hdf hqpos] at ho'
  set a := GenTable.fIn_g X kw junk r gr (some dg)
  set b := GenTable.fIn_F Y kw junk q fq (some df)
  have hbl : q.length = b.1.length := by rw [C08.fIn_F_val kw junk Y hb q fq (some df) hq]; simp [hq]
  have hbd := C08.fIn_F_unc_len kw junk Y hb q fq (some df) hq (fun d h => by cases h; exact hdf)
  set core := FourierFilter.g_using_F kw junk r a.1 q b.1 cutoff a.2 b.2
  have h1 : C08.qFt core = q := C08.qFt_eq kw junk r a.1 q b.1 cutoff a.2 b.2
  have h2 : C08.qOut core = q := C08.qOut_eq kw junk r a.1 q b.1 cutoff a.2 b.2 hbl hbd
  have h3 : C08.rOut core = r := rfl
  have hrl : (C08.removed core).length = q.length := C08.removed_length kw junk r a.1 q b.1 cutoff a.2 b.2
  have hdrl : (C08.dRemoved core).length = q.length := by
    rw [(C08.removed_eq kw junk r a.1 q b.1 cutoff a.2 b.2).2]; exact (C08.backT_lengths kw junk r a.1 q cutoff a.2).2
  have hcl : (C08.corrected core).length = q.length := by
    rw [(C08.corrected_eq kw junk r a.1 q b.1 cutoff a.2 b.2 hbl hbd).1]
    simp only [Vec.sub, List.length_zipWith]
    rw [hrl, ← hbl, min_self]
  have hdcl : (C08.dCorrected core).length = q.length := by
    rw [C08.P_filter_quadrature kw junk r a.1 q b.1 cutoff a.2 b.2 hbl hbd]
    simp only [List.length_zipWith]
    have : (b.2.getD (Vec.zerosLike b.1)).length = q.length := by
      obtain ⟨d, hd⟩ : ∃ d, b.2 = some d := by
        rw [show b = _ from fIn_F_some kw junk Y hb q fq df hq hdf]; exact ⟨_, rfl⟩
      rw [hd]; exact (hbd d hd).symm
    rw [this, hdrl, min_self]
  obtain ⟨hgl, hdgl⟩ := gOut_lengths kw junk hb hrho r a.1 q b.1 cutoff a.2 b.2
  -- both variants in terms of the same core outputs
  have e1 : C08.removed o = (GenTable.fOut_F Y kw junk (C08.qFt core) (C08.removed core) (C08.dRemoved core)).1 := by rw [ho]; rfl
  have e1' : C08.removed o' = (GenTable.fOut_F Y' kw junk (C08.qFt core) (C08.removed core) (C08.dRemoved core)).1 := by rw [ho']; rfl
  have e2 : C08.corrected o = (GenTable.fOut_F Y kw junk (C08.qOut core) (C08.corrected core) (C08.dCorrected core)).1 := by rw [ho]; rfl
  have e2' : C08.corrected o' = (GenTable.fOut_F Y' kw junk (C08.qOut core) (C08.corrected core) (C08.dCorrected core)).1 := by rw [ho']; rfl
  have e3 : C08.gOut o = (GenTable.fOut_g X kw junk (C08.rOut core) (C08.gOut core) (C08.dgOut core)).1 := by rw [ho]; rfl
  have e3' : C08.gOut o' = (GenTable.fOut_g X' kw junk (C08.rOut core) (C08.gOut core) (C08.dgOut core)).1 := by rw [ho']; rfl
  have e4 : C08.dRemoved o = (GenTable.fOut_F Y kw junk (C08.qFt core) (C08.removed core) (C08.dRemoved core)).2 := by rw [ho]; rfl
  have e4' : C08.dRemoved o' = (GenTable.fOut_F Y' kw junk (C08.qFt core) (C08.removed core) (C08.dRemoved core)).2 := by rw [ho']; rfl
  have e5 : C08.dCorrected o = (GenTable.fOut_F Y kw junk (C08.qOut core) (C08.corrected core) (C08.dCorrected core)).2 := by rw [ho]; rfl
  have e5' : C08.dCorrected o' = (GenTable.fOut_F Y' kw junk (C08.qOut core) (C08.corrected core) (C08.dCorrected core)).2 := by rw [ho']; rfl
  have e6 : C08.dgOut o = (GenTable.fOut_g X kw junk (C08.rOut core) (C08.gOut core) (C08.dgOut core)).2 := by rw [ho]; rfl
  have e6' : C08.dgOut o' = (GenTable.fOut_g X' kw junk (C08.rOut core) (C08.gOut core) (C08.dgOut core)).2 := by rw [ho']; rfl
  refine ⟨by rw [ho, ho']; rfl, by rw [ho, ho']; rfl, by rw [ho, ho']; rfl, ?_, ?_, ?_, ?_, ?_, ?_⟩
  · rw [e1, e1', h1, C08.fOut_F_val kw junk Y hb q _ _ hrl.symm, C08.fOut_F_val kw junk Y' hb q _ _ hrl.symm,
      rpath_list kw .F Y Y' hb q _ hqpos]
  · rw [e2, e2', h2, C08.fOut_F_val kw junk Y hb q _ _ hcl.symm, C08.fOut_F_val kw junk Y' hb q _ _ hcl.symm,
      rpath_list kw .F Y Y' hb q _ hqpos]
  · rw [e3, e3', h3, fOut_g_val kw junk X hb hrho r _ _ hgl.symm, fOut_g_val kw junk X' hb hrho r _ _ hgl.symm,
      gpath_list kw .g X X' hb hrho r _ hrpos]
  · rw [e4, e4', h1, C08.fOut_F_unc kw junk Y hb q _ _ hrl.symm hdrl.symm, C08.fOut_F_unc kw junk Y' hb q _ _ hrl.symm hdrl.symm,
      rslope_list kw .F Y Y' hb q _ hqpos]
  · rw [e5, e5', h2, C08.fOut_F_unc kw junk Y hb q _ _ hcl.symm hdcl.symm, C08.fOut_F_unc kw junk Y' hb q _ _ hcl.symm hdcl.symm,
      rslope_list kw .F Y Y' hb q _ hqpos]
  · rw [e6, e6', h3, fOut_g_unc kw junk X hb hrho r _ _ hgl.symm hdgl.symm, fOut_g_unc kw junk X' hb hrho r _ _ hgl.symm hdgl.symm,
      gslope_list kw .g X X' hb hrho r _ hrpos]

/-! ## no uncertainty supplied = zeros supplied -/

theorem crop_none_eq_zeros (x y : Vec ℝ) (lo hi : ℝ) (h : x.length = y.length) :
    Transformer.apply_cropping (Kw.none : Kw ℝ) junk x y lo hi none
      = Transformer.apply_cropping (Kw.none : Kw ℝ) junk x y lo hi (some (Vec.zerosLike y)) := by
  rw [apply_cropping_spec (Kw.none : Kw ℝ) junk x y lo hi none h (by simp),
    apply_cropping_spec (Kw.none : Kw ℝ) junk x y lo hi (some (Vec.zerosLike y)) h (fun d hd => by cases hd; simp [Vec.zerosLike, h])]
  rfl

/-- the core treats an absent uncertainty vector (either of the two) exactly like a vector of zeros, on all nine outputs -/
theorem core_none_eq_zeros (r gr q fq : Vec ℝ) (cutoff : ℝ) (hr : r.length = gr.length) (hq : q.length = fq.length) (dgr dfq : Option (Vec ℝ)) :
    FourierFilter.g_using_F kw junk r gr q fq cutoff none dfq
      = FourierFilter.g_using_F kw junk r gr q fq cutoff (some (Vec.zerosLike gr)) dfq ∧
    FourierFilter.g_using_F kw junk r gr q fq cutoff dgr none
      = FourierFilter.g_using_F kw junk r gr q fq cutoff dgr (some (Vec.zerosLike fq)) := by
  constructor
  · simp only [FourierFilter.g_using_F]
    rw [crop_none_eq_zeros junk r gr _ cutoff hr]
  · simp only [FourierFilter.g_using_F]
    rw [crop_none_eq_zeros junk q fq _ _ hq]

theorem gconv_none_eq_zeros (X Y : GFn) (hb : kw.bcoh ≠ 0) (hrho : 0 < kw.rho) (r y : Vec ℝ) (h : r.length = y.length) :
    GenTable.gconv X Y kw junk r y none = GenTable.gconv X Y kw junk r y (some (Vec.zerosLike y)) := by
  apply Prod.ext
  · rw [gconv_val kw junk X Y hb hrho r y none h, gconv_val kw junk X Y hb hrho r y (some (Vec.zerosLike y)) h]
  · rw [gconv_unc kw junk X Y hb hrho r y none h (by simp),
      gconv_unc kw junk X Y hb hrho r y (some (Vec.zerosLike y)) h (fun d hd => by cases hd; simp [Vec.zerosLike, h])]
    rfl

theorem rconv_none_eq_zeros (X Y : RFn) (hb : kw.bcoh ≠ 0) (q y : Vec ℝ) (h : q.length = y.length) :
    GenTable.rconv X Y kw junk q y none = GenTable.rconv X Y kw junk q y (some (Vec.zerosLike y)) := by
  apply Prod.ext
  · rw [rconv_val kw junk X Y hb q y none h, rconv_val kw junk X Y hb q y (some (Vec.zerosLike y)) h]
  · rw [rconv_unc kw junk X Y hb q y none h (by simp),
      rconv_unc kw junk X Y hb q y (some (Vec.zerosLike y)) h (fun d hd => by cases hd; simp [Vec.zerosLike, h])]
    rfl

/-- **P (all 12 variants)**: a variant called without uncertainties returns what it returns for zero uncertainties, on all nine outputs — so
`P_variants_physically_agree` also covers callers that supply none -/
theorem P_variant_none_eq_zeros (X : GFn) (Y : RFn) (hb : kw.bcoh ≠ 0) (hrho : 0 < kw.rho) (r gr q fq : Vec ℝ) (cutoff : ℝ)
    (hr : r.length = gr.length) (hq : q.length = fq.length) :
    GenTable.filt X Y kw junk r gr q fq cutoff none none
      = GenTable.filt X Y kw junk r gr q fq cutoff (some (Vec.zerosLike gr)) (some (Vec.zerosLike fq)) := by
  rw [P_variant_factor kw junk X Y r gr q fq cutoff none none, P_variant_factor kw junk X Y r gr q fq cutoff (some _) (some _)]
  have hbl : q.length = (GenTable.fIn_F Y kw junk q fq (some (Vec.zerosLike fq))).1.length := by
    rw [C08.fIn_F_val kw junk Y hb q fq _ hq]; simp [hq]
  have hal : r.length = (GenTable.fIn_g X kw junk r gr (some (Vec.zerosLike gr))).1.length := by
    cases X
    case g => exact hr
    all_goals
      simp only [GenTable.fIn_g]
      rw [gconv_val kw junk _ .g hb hrho r gr _ hr]; simp [hr]
  -- the converted inputs: equal outright for X ≠ g, Y ≠ Q[S−1]; for the identity cases the core lemma closes the gap
  have hg : ∀ e : Option (Vec ℝ), ∀ b1 : Vec ℝ, q.length = b1.length →
      FourierFilter.g_using_F kw junk r (GenTable.fIn_g X kw junk r gr none).1 q b1 cutoff (GenTable.fIn_g X kw junk r gr none).2 e
        = FourierFilter.g_using_F kw junk r (GenTable.fIn_g X kw junk r gr (some (Vec.zerosLike gr))).1 q b1 cutoff
            (GenTable.fIn_g X kw junk r gr (some (Vec.zerosLike gr))).2 e := by
    intro e b1 hb1
    cases X
    case g => exact (core_none_eq_zeros kw junk r gr q b1 cutoff hr hb1 none e).1
    all_goals
      simp only [GenTable.fIn_g]
      rw [gconv_none_eq_zeros kw junk _ .g hb hrho r gr hr]
  have hf : ∀ (a1 : Vec ℝ) (d : Option (Vec ℝ)), r.length = a1.length →
      FourierFilter.g_using_F kw junk r a1 q (GenTable.fIn_F Y kw junk q fq none).1 cutoff d (GenTable.fIn_F Y kw junk q fq none).2
        = FourierFilter.g_using_F kw junk r a1 q (GenTable.fIn_F Y kw junk q fq (some (Vec.zerosLike fq))).1 cutoff d
            (GenTable.fIn_F Y kw junk q fq (some (Vec.zerosLike fq))).2 := by
    intro a1 d ha1
    cases Y
    case F => exact (core_none_eq_zeros kw junk r a1 q fq cutoff ha1 hq d none).2
    all_goals
      simp only [GenTable.fIn_F]
      rw [rconv_none_eq_zeros kw junk _ .F hb q fq hq]
  have hval : (GenTable.fIn_F Y kw junk q fq none).1 = (GenTable.fIn_F Y kw junk q fq (some (Vec.zerosLike fq))).1 := by
    rw [C08.fIn_F_val kw junk Y hb q fq _ hq, C08.fIn_F_val kw junk Y hb q fq _ hq]
  have key : FourierFilter.g_using_F kw junk r (GenTable.fIn_g X kw junk r gr none).1 q (GenTable.fIn_F Y kw junk q fq none).1 cutoff
        (GenTable.fIn_g X kw junk r gr none).2 (GenTable.fIn_F Y kw junk q fq none).2
      = FourierFilter.g_using_F kw junk r (GenTable.fIn_g X kw junk r gr (some (Vec.zerosLike gr))).1 q
          (GenTable.fIn_F Y kw junk q fq (some (Vec.zerosLike fq))).1 cutoff
          (GenTable.fIn_g X kw junk r gr (some (Vec.zerosLike gr))).2 (GenTable.fIn_F Y kw junk q fq (some (Vec.zerosLike fq))).2 := by
    rw [hg _ _ (by rw [hval]; exact hbl), hf _ _ hal]
  simp only [key]

/-- the hypotheses are satisfiable (a two-point example relating variant (G, S) to variant (G_K, DCS)): the theorem instantiates -/
example (junk : Junk ℝ) :
    let kw : Kw ℝ := { rho := 1, bcoh := 2, btot := 3 }
    C08.removed (GenTable.filt .GK .DCS kw junk [1, 2] (List.zipWith (Spec.gconv kw .G .GK) [1, 2] [3, 4]) [1, 2]
        (List.zipWith (Spec.rconv kw .S .DCS) [1, 2] [5, 6]) 1
        (some (List.zipWith (fun r e => Spec.gslope kw .G .GK r * e) [1, 2] [7, 8]))
        (some (List.zipWith (fun q e => Spec.rslope kw .S .DCS q * e) [1, 2] [9, 10])))
      = List.zipWith (Spec.rconv kw .S .DCS) [1, 2]
          (C08.removed (GenTable.filt .G .S kw junk [1, 2] [3, 4] [1, 2] [5, 6] 1 (some [7, 8]) (some [9, 10]))) := by
  intro kw
  have hpos : ∀ a ∈ ([1, 2] : List ℝ), 0 < a := by
    intro a ha; simp at ha; rcases ha with rfl | rfl <;> norm_num
  exact (P_variants_physically_agree kw junk .G .GK .S .DCS (by norm_num [kw]) (by norm_num [kw]) [1, 2] [3, 4] [7, 8] [1, 2] [5, 6] [9, 10] 1
    rfl rfl rfl rfl hpos hpos).2.2.2.1

end C09
