import PystogVerif.Proofs.Variance
import PystogVerif.Proofs.ListLemmas

/-!
# C07 — transform uncertainties: value-independent, zero without input, homogeneous, monotone,
  within [1, √2] of exact uncorrelated propagation through the trapezoid weights

Model: the `eout` channel of the generated `Transformer.fourier_transform` (any window, with or without Lorch)
and the 2/π scaling in `F_to_G`.
-/
namespace C07
open Spec
variable (kw : Kw ℝ) (junk : Junk ℝ)

/-- the kernel whose squares the code integrates: s_j = f_j · e_j · sin(x_j t) over the in-window points -/
noncomputable def sKernel (lorch : Bool) (hi t : ℝ) (x' e' : List ℝ) : List ℝ :=
  List.zipWith (fun a e => Spec.weight lorch hi a * e * Real.sin (a * t)) x' e'

/-- R: the returned uncertainty is sqrt(Σ_i d_i² (s_i² + s_{i+1}²)/2) over the in-window points -/
theorem R_ft_unc (x y xo : List ℝ) (xmin xmax : Option ℝ) (dy : Option (List ℝ))
    (hy : x.length = y.length) (hd : ∀ d, dy = some d → x.length = d.length) :
    (Transformer.fourier_transform kw junk x y xo xmin xmax dy).2.2
      = xo.map (fun t => Real.sqrt (codeVarSum (cropL (winLo x xmin) (winHi x xmax) x x)
          (sKernel kw.lorch (winHi x xmax) t (cropL (winLo x xmin) (winHi x xmax) x x)
            (cropL (winLo x xmin) (winHi x xmax) x (dy.getD (Vec.zerosLike y)))))) :=
  ft_unc kw junk x y xo xmin xmax dy hy hd

/-- P: the uncertainty does not depend on the data values (only grids, options, input uncertainties) -/
theorem P_unc_indep_of_y (x y y' xo : List ℝ) (xmin xmax : Option ℝ) (d : List ℝ)
    (hy : x.length = y.length) (hy' : x.length = y'.length) (hd : x.length = d.length) :
    (Transformer.fourier_transform kw junk x y xo xmin xmax (some d)).2.2
      = (Transformer.fourier_transform kw junk x y' xo xmin xmax (some d)).2.2 := by
  rw [ft_unc kw junk x y xo xmin xmax (some d) hy (fun d' h => by cases h; exact hd),
    ft_unc kw junk x y' xo xmin xmax (some d) hy' (fun d' h => by cases h; exact hd)]
  rfl

theorem cropL_zeros (lo hi : ℝ) (x v : List ℝ) (h : ∀ a ∈ v, a = 0) : ∀ a ∈ cropL lo hi x v, a = 0 := by
  intro a ha
  simp only [cropL, List.mem_map, List.mem_filter] at ha
  obtain ⟨p, ⟨hp, _⟩, rfl⟩ := ha
  exact h _ (List.of_mem_zip hp).2

theorem sKernel_zeros (lorch : Bool) (hi t : ℝ) (x' e' : List ℝ) (h : ∀ a ∈ e', a = 0) :
    ∀ a ∈ sKernel lorch hi t x' e', a = 0 := by
  intro a ha
  simp only [sKernel, List.mem_iff_getElem?, List.getElem?_zipWith] at ha
  obtain ⟨i, hi'⟩ := ha
  cases hx : x'[i]? <;> cases he : e'[i]? <;> simp [hx, he] at hi'
  rename_i xv ev
  have : ev = 0 := h ev (List.mem_of_getElem? he)
  rw [← hi', this]; ring

/-- P: zero when no uncertainty is given -/
theorem P_unc_none_zero (x y xo : List ℝ) (xmin xmax : Option ℝ) (hy : x.length = y.length) :
    ∀ u ∈ (Transformer.fourier_transform kw junk x y xo xmin xmax none).2.2, u = 0 := by
  rw [ft_unc kw junk x y xo xmin xmax none hy (by simp)]
  intro u hu
  simp only [List.mem_map] at hu
  obtain ⟨t, _, rfl⟩ := hu
  rw [codeVarSum_zeros, Real.sqrt_zero]
  apply sKernel_zeros
  apply cropL_zeros
  simp [Vec.zerosLike]

/-- P: scales linearly with the input uncertainties (c ≥ 0) -/
theorem P_unc_homog (c : ℝ) (hc : 0 ≤ c) (x y xo : List ℝ) (xmin xmax : Option ℝ) (d : List ℝ)
    (hy : x.length = y.length) (hd : x.length = d.length) :
    (Transformer.fourier_transform kw junk x y xo xmin xmax (some (d.map (c * ·)))).2.2
      = (Transformer.fourier_transform kw junk x y xo xmin xmax (some d)).2.2.map (c * ·) := by
  rw [ft_unc kw junk x y xo xmin xmax (some _) hy (fun d' h => by cases h; simp [hd]),
    ft_unc kw junk x y xo xmin xmax (some d) hy (fun d' h => by cases h; exact hd)]
  rw [List.map_map]
  apply List.map_congr_left
  intro t _
  simp only [Option.getD_some, Function.comp]
  have hmap : d.map (c * ·) = List.zipWith (fun _ e => c * e) x d := by
    apply List.ext_getElem?
    intro i
    have := getElem?_isSome_eq x d hd i
    simp only [List.getElem?_map, List.getElem?_zipWith]
    cases hx : x[i]? <;> cases he : d[i]? <;> simp [hx, he] at this <;> simp
  have hk : List.zipWith (fun a e => Spec.weight kw.lorch (winHi x xmax) a * e * Real.sin (a * t))
        (cropL (winLo x xmin) (winHi x xmax) x x) (cropL (winLo x xmin) (winHi x xmax) x (d.map (c * ·)))
      = (List.zipWith (fun a e => Spec.weight kw.lorch (winHi x xmax) a * e * Real.sin (a * t))
        (cropL (winLo x xmin) (winHi x xmax) x x) (cropL (winLo x xmin) (winHi x xmax) x d)).map (c * ·) := by
    rw [hmap, cropL_zipWith _ _ _ x d hd, zipWith_zipWith_self_right, List.map_zipWith]
    congr 1; funext a e; ring
  rw [hk, codeVarSum_smul, Real.sqrt_mul (sq_nonneg c), Real.sqrt_sq hc]

/-- P: never decreases when any input uncertainty grows -/
theorem P_unc_mono_kernel (x' s s' : List ℝ) (h : List.Forall₂ (fun a b => a ^ 2 ≤ b ^ 2) s s') :
    Real.sqrt (codeVarSum x' s) ≤ Real.sqrt (codeVarSum x' s') :=
  Real.sqrt_le_sqrt (codeVarSum_mono x' s s' h)

/-- the squared kernel entries grow with the input uncertainties (0 ≤ e ≤ e' pointwise) -/
theorem sKernel_mono (lorch : Bool) (hi t : ℝ) : ∀ (x' e e' : List ℝ), List.Forall₂ (fun a b => 0 ≤ a ∧ a ≤ b) e e' →
    x'.length = e.length → List.Forall₂ (fun a b => a ^ 2 ≤ b ^ 2) (sKernel lorch hi t x' e) (sKernel lorch hi t x' e')
  | [], _, _, _, _ => by simp [sKernel]
  | _ :: _, [], _, _, hl => by simp at hl
  | a :: x', e0 :: e, [], h, _ => by cases h
  | a :: x', e0 :: e, f0 :: f, h, hl => by
      rcases List.forall₂_cons.mp h with ⟨⟨h0, h1⟩, h'⟩
      have ih := sKernel_mono lorch hi t x' e f h' (by simpa using hl)
      simp only [sKernel, List.zipWith_cons_cons] at ih ⊢
      refine List.Forall₂.cons ?_ ih
      have : (Spec.weight lorch hi a * e0 * Real.sin (a * t)) ^ 2
          = (Spec.weight lorch hi a * Real.sin (a * t)) ^ 2 * e0 ^ 2 := by ring
      rw [this]
      have : (Spec.weight lorch hi a * f0 * Real.sin (a * t)) ^ 2
          = (Spec.weight lorch hi a * Real.sin (a * t)) ^ 2 * f0 ^ 2 := by ring
      rw [this]
      have he : e0 ^ 2 ≤ f0 ^ 2 := by nlinarith
      exact mul_le_mul_of_nonneg_left he (sq_nonneg _)

theorem cropL_forall₂ (lo hi : ℝ) (R : ℝ → ℝ → Prop) : ∀ (x e e' : List ℝ), List.Forall₂ R e e' → x.length = e.length →
    List.Forall₂ R (cropL lo hi x e) (cropL lo hi x e')
  | [], _, _, _, _ => by simp [cropL]
  | _ :: _, [], _, _, hl => by simp at hl
  | a :: x, e0 :: e, [], h, _ => by cases h
  | a :: x, e0 :: e, f0 :: f, h, hl => by
      rcases List.forall₂_cons.mp h with ⟨h0, h'⟩
      have ih := cropL_forall₂ lo hi R x e f h' (by simpa using hl)
      simp only [cropL, List.zip_cons_cons, List.filter_cons] at ih ⊢
      split
      · simp only [List.map_cons]
        exact List.Forall₂.cons h0 ih
      · exact ih

/-- P: the returned uncertainty never decreases when any input uncertainty grows (0 ≤ e ≤ e' pointwise) -/
theorem P_unc_mono (x y xo : List ℝ) (xmin xmax : Option ℝ) (d d' : List ℝ)
    (hy : x.length = y.length) (hd : x.length = d.length) (h : List.Forall₂ (fun a b => 0 ≤ a ∧ a ≤ b) d d') :
    List.Forall₂ (· ≤ ·) (Transformer.fourier_transform kw junk x y xo xmin xmax (some d)).2.2
      (Transformer.fourier_transform kw junk x y xo xmin xmax (some d')).2.2 := by
  have hd' : x.length = d'.length := by rw [hd, h.length_eq]
  rw [ft_unc kw junk x y xo xmin xmax (some d) hy (fun _ h => by cases h; exact hd),
    ft_unc kw junk x y xo xmin xmax (some d') hy (fun _ h => by cases h; exact hd')]
  simp only [Option.getD_some, List.forall₂_map_left_iff, List.forall₂_map_right_iff]
  apply List.forall₂_same.mpr
  intro t _
  apply Real.sqrt_le_sqrt
  apply codeVarSum_mono
  apply sKernel_mono kw.lorch _ t _ _ _ (cropL_forall₂ _ _ _ x d d' h hd)
  exact cropL_length _ _ x x d rfl hd

/-- P: the coded variance is never smaller than exact uncorrelated propagation Σ_j (w_j s_j)² through the trapezoid
    weights w_j, and never larger than twice it (so the uncertainty is within [1, √2] of exact), on every
    non-decreasing grid; `weights 0 x` are exactly the coefficients of T = Σ_j w_j y_j sin(x_j t) (C02.P_T_weights) -/
theorem P_var_bounds (x' s : List ℝ) (hs : x'.length = s.length) (hx : x'.Pairwise (· ≤ ·)) :
    (List.zipWith (fun w s => (w * s) ^ 2) (weights 0 x') s).sum ≤ codeVarSum x' s ∧
    codeVarSum x' s ≤ 2 * (List.zipWith (fun w s => (w * s) ^ 2) (weights 0 x') s).sum := by
  rw [← exactVarP_eq_weights 0 x' s hs, codeVarSum_eq_codeVarP x' s hs]
  exact var_bounds 0 x' s le_rfl hx

theorem P_unc_bounds_sqrt (x' s : List ℝ) (hs : x'.length = s.length) (hx : x'.Pairwise (· ≤ ·)) :
    Real.sqrt ((List.zipWith (fun w s => (w * s) ^ 2) (weights 0 x') s).sum) ≤ Real.sqrt (codeVarSum x' s) ∧
    Real.sqrt (codeVarSum x' s)
      ≤ Real.sqrt 2 * Real.sqrt ((List.zipWith (fun w s => (w * s) ^ 2) (weights 0 x') s).sum) := by
  have h := P_var_bounds x' s hs hx
  refine ⟨Real.sqrt_le_sqrt h.1, ?_⟩
  rw [← Real.sqrt_mul (by norm_num : (0:ℝ) ≤ 2)]
  exact Real.sqrt_le_sqrt h.2

/-- the in-window points of a strictly increasing grid are non-decreasing -/
theorem cropped_grid_sorted (lo hi : ℝ) (x : List ℝ) (hx : x.Pairwise (· < ·)) :
    (cropL lo hi x x).Pairwise (· ≤ ·) := by
  have hsub : (cropL lo hi x x).Sublist x := by
    induction x with
    | nil => simp [cropL]
    | cons a t ih =>
      have ih' := ih (List.pairwise_cons.mp hx).2
      simp only [cropL, List.zip_cons_cons, List.filter_cons] at ih' ⊢
      split
      · simpa using ih'
      · exact ih'.trans (List.sublist_cons_self a t)
  exact (hx.sublist hsub).imp (fun h => le_of_lt h)

/-- P: the 2/π normalisation of the Q→r direction scales the uncertainty by the same factor -/
theorem P_F_to_G_unc_scale (q f r : List ℝ) (dy : Option (List ℝ)) :
    (Transformer.F_to_G kw junk q f r dy).2.2
      = (Transformer.fourier_transform kw junk q f r kw.xmin kw.xmax dy).2.2.map (· * (2 / Real.pi)) := by
  simp [Transformer.F_to_G, Vec.mulS]

example : codeVarSum [0, 1, 3] [1, 1, 1] = 1 ^ 2 * (1 ^ 2 + 1 ^ 2) / 2 + 2 ^ 2 * (1 ^ 2 + 1 ^ 2) / 2 + 0 := by
  simp [codeVarSum]; norm_num

end C07
