import PystogVerif.Props.C20
import PystogVerif.Refine.Rebin
import PystogVerif.Gen.StogFacts

/-!
# C20 on the code generated from `Pre_Proc.rebin`

`Refine/Rebin.lean` proves that the function generated from the current source of `pre_proc.py` (grid built by a `range` loop, two
accumulator lists updated with indexed `+=` in one pass, in-place normalisation, last bin dropped) returns exactly the hand model's
result.  C20's theorems about the hand model therefore hold of the generated code.
-/
noncomputable section
namespace C20Gen
open RefineRebin

variable (xmin xdiv xmax : ℝ)

/-- P (generated code): the returned grid starts at xmin, has the requested step, has floor((xmax-xmin)/xdiv)+1 points and stays within
    [xmin, xmax]; the returned values are, bin by bin, (Σ y·w)/(Σ w) over the input points with the hand model's weights (which C20 proves to
    be the hat function of one bin width) -/
theorem P_gen_rebin (x y : List ℝ) (hd : 0 < xdiv) (hx : xmin ≤ xmax) (hl : x.length = y.length) :
    (GenStog.rebin x y xmin xdiv xmax).1 = (List.range (⌊(xmax - xmin) / xdiv⌋.toNat + 1)).map (fun k : ℕ => xmin + (k : ℝ) * xdiv) ∧
    (∀ g ∈ (GenStog.rebin x y xmin xdiv xmax).1, xmin ≤ g ∧ g ≤ xmax) ∧
    (GenStog.rebin x y xmin xdiv xmax).2 = (List.range (Rebin.numpts xmin xdiv xmax)).map
      (fun k => (Rebin.accum xmin xdiv xmax k (x.zip y)).1 / (Rebin.accum xmin xdiv xmax k (x.zip y)).2) := by
  rw [rebin_refines xmin xdiv xmax x y hd hl]
  exact ⟨(C20.P_grid xmin xdiv xmax hd hx).1, (C20.P_grid xmin xdiv xmax hd hx).2, rfl⟩

/-- P (generated code): the result does not depend on the order of the input points -/
theorem P_gen_rebin_perm (x₁ y₁ x₂ y₂ : List ℝ) (hd : 0 < xdiv) (h1 : x₁.length = y₁.length) (h2 : x₂.length = y₂.length)
    (hp : (x₁.zip y₁).Perm (x₂.zip y₂)) :
    GenStog.rebin x₁ y₁ xmin xdiv xmax = GenStog.rebin x₂ y₂ xmin xdiv xmax := by
  rw [rebin_refines xmin xdiv xmax x₁ y₁ hd h1, rebin_refines xmin xdiv xmax x₂ y₂ hd h2]
  unfold Rebin.rebin
  refine Prod.ext rfl ?_
  apply List.map_congr_left
  intro k _
  have := C20.P_rebin_perm xmin xdiv xmax k hp
  simp only [this]

/-- P (generated code): data already on the returned grid — one point on every node, in node order — come back unchanged -/
theorem P_gen_rebin_on_grid (hd : 0 < xdiv) (hx : xmin ≤ xmax) (y : ℕ → ℝ) :
    GenStog.rebin (Rebin.grid xmin xdiv xmax) ((List.range (Rebin.numpts xmin xdiv xmax)).map y) xmin xdiv xmax
      = (Rebin.grid xmin xdiv xmax, (List.range (Rebin.numpts xmin xdiv xmax)).map y) := by
  rw [rebin_refines xmin xdiv xmax _ _ hd (by simp [Rebin.grid])]
  exact C20.P_rebin_on_grid xmin xdiv xmax hd hx y

/-- F: `rebin` was translated, and the indexings the translator could not bound statically are exactly the ones the refinement's
    invariant covers (`xout[bin_index]`, two `y[i]` and the four indexed `+=`) -/
theorem F_rebin_translated : "rebin" ∈ GenStog.Facts.translated ∧
    (GenStog.Facts.guardedCoercions.filter (fun c => c.1 == "rebin")).length = 7 := by decide

end C20Gen
end
