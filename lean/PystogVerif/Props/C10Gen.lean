import PystogVerif.Props.C10
import PystogVerif.Props.C17
import PystogVerif.Refine.Merge
import PystogVerif.Gen.StogFacts

/-!
# C10 and C17 on the code generated from `StoG.merge_data`

`Refine/Merge.lean` proves that the state transformer generated from the current source of `merge_data` (sort block, the
five-variable averaging loop, the S(Q)-level and Q[S(Q)-1]-level options, the write-back) computes the hand model's `Stog.mergeData`.
Here the statements of C10 (grid, mean, order independence, idempotence) and of C17 (formulas for the two stored curves) are
transported to the generated code.
-/
noncomputable section
namespace C10Gen
open StogRt RefineMerge

/-- the stored points as the merge sees them -/
def pts (g : GState ℝ) : List (ℝ × ℝ × ℝ) := Stog.zip3 (toRows g.sq_individuals)

/-- the merged points before the post-merge options -/
def merged (g : GState ℝ) : Stog.Rows ℝ := Stog.unzip3 (Stog.mergePts (pts g))

theorem mergeData_grid (g : GState ℝ) :
    (Stog.mergeData (optsOf g.merged_opts) (toRows g.sq_individuals)).2.1 = (Stog.mergePts (pts g)).map (·.1) := by
  simp [Stog.mergeData, Stog.postMerge, Stog.applyScalesAndOffset, Stog.unzip3, Stog.mergePts, pts, Vec.addS]

/-- P (generated code): with at least one stored point `merge_data` succeeds, and the Q grid it stores under both titles is the grid of
    the group-by-Q specification: strictly increasing, containing each stored Q value exactly once -/
theorem P_gen_grid (g : GState ℝ) (hne : StogRt.Rows.cols g.sq_individuals ≠ []) :
    GenStog.merge_data g = .ok (afterMerge g) ∧
    (afterMerge g).q_master "sq_title" = some ((MergeSpec.mergeSpec (pts g)).map (·.1)) ∧
    (afterMerge g).q_master "qsq_minus_one_title" = some ((MergeSpec.mergeSpec (pts g)).map (·.1)) ∧
    ((MergeSpec.mergeSpec (pts g)).map (·.1)).Pairwise (· < ·) ∧
    (∀ k, k ∈ (MergeSpec.mergeSpec (pts g)).map (·.1) ↔ k ∈ (pts g).map (·.1)) := by
  obtain ⟨h1, _, h3, _, _⟩ := afterMerge_curves g
  have hg := mergeData_grid g
  rw [C10.R_merge_eq_spec] at hg
  have hP := C10.P_grid_strictly_increasing_keys_once (pts g)
  rw [C10.R_merge_eq_spec] at hP
  exact ⟨merge_data_refines g hne, by rw [h1, hg], by rw [h3, hg], hP.1, hP.2⟩

/-- P (generated code): the merged value at each grid point, before the post-merge options, is the arithmetic mean of all stored
    points with that Q; the stored Q[S(Q)-1] is cF·Q·(aS·mean + bS − 1) + dF and the stored S(Q) is that divided by Q plus 1 -/
theorem P_gen_stored_curves (g : GState ℝ) (hne : StogRt.Rows.cols g.sq_individuals ≠ []) :
    GenStog.merge_data g = .ok (afterMerge g) ∧
    (∀ p ∈ Stog.mergePts (pts g), p.2.1 = MergeSpec.meanAt (pts g) p.1) ∧
    (afterMerge g).sq_master "qsq_minus_one_title" = some (List.zipWith
      (fun q mean => C17.cF (optsOf g.merged_opts) * (q * (C17.aS (optsOf g.merged_opts) * mean + C17.bS (optsOf g.merged_opts) - 1)) +
        C17.dF (optsOf g.merged_opts)) (merged g).x (merged g).y) ∧
    (afterMerge g).sq_master "sq_title" = some (List.zipWith (fun q f => if 0 < q then f / q + 1 else 1) (merged g).x
      (Stog.postMerge (optsOf g.merged_opts) (merged g)).2.2) := by
  obtain ⟨_, h2, _, h4, _⟩ := afterMerge_curves g
  have hl : (merged g).x.length = (merged g).y.length := by simp [merged, Stog.unzip3]
  have hd : (merged g).x.length = (merged g).dy.length := by simp [merged, Stog.unzip3]
  refine ⟨merge_data_refines g hne, fun p hp => (C10.P_value_is_mean (pts g) p hp).1, ?_, ?_⟩
  · rw [h4]
    have := C17.P_stored_F_formula (optsOf g.merged_opts) (merged g) hl
    simpa [Stog.mergeData, merged, pts, Stog.mergePts] using this
  · rw [h2]
    have := C17.P_stored_S_formula (optsOf g.merged_opts) (merged g) hl hd
    simpa [Stog.mergeData, merged, pts, Stog.mergePts] using this

/-- P (generated code): merging again without new data stores the same curves — `merge_data` leaves the storage sorted, and
    the merge of the sorted storage is the merge of the storage -/
theorem P_gen_merge_idempotent (g : GState ℝ) (hal : C10.Aligned (toRows g.sq_individuals)) :
    Stog.mergePts (pts (afterMerge g)) = Stog.mergePts (pts g) ∧ (afterMerge g).merged_opts = g.merged_opts := by
  refine ⟨?_, rfl⟩
  have h5 := (afterMerge_curves g).2.2.2.2
  have : pts (afterMerge g) = Stog.sortPts (pts g) := by
    unfold pts
    rw [h5]
    simp only [Stog.mergeData]
    generalize Stog.sortPts (Stog.zip3 (toRows g.sq_individuals)) = l
    induction l with
    | nil => rfl
    | cons a t ih =>
      simp only [Stog.unzip3, Stog.zip3, List.map_cons, List.zip_cons_cons, List.zipWith_cons_cons] at ih ⊢
      rw [ih]
  rw [this]
  exact (C10.P_merge_idempotent (pts g)).1

/-- P (generated code): with nothing stored `merge_data` raises ValueError (recorded behaviour, outside the property's quantifier) -/
theorem P_gen_empty (g : GState ℝ) (h : StogRt.Rows.cols g.sq_individuals = []) : GenStog.merge_data g = .error Err.valueError :=
  merge_data_empty g h

/-- F: the two places where the loop stores a possibly-`None` abscissa are exactly the ones the refinement's invariant covers -/
theorem F_guarded : (GenStog.Facts.guardedCoercions.filter (fun c => c.1 == "merge_data")).length = 2 := by decide

/-- X: a state with two stored points at the same Q -/
example : StogRt.Rows.cols (⟨[1, 1], [2, 4], [0, 0]⟩ : StogRt.Rows ℝ) ≠ [] := by simp [StogRt.Rows.cols]

end C10Gen
end
