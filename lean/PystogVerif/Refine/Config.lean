import PystogVerif.Gen.Stog
import PystogVerif.Model.Config
/-!
# Refinement: `StoG.__init__` + `__kwargs2attr` + the validating setters (regenerated from stog.py) equal the hand-written
  configuration model `Config.settings`

Mathlib-free, polymorphic in the scalar type.
-/
set_option linter.unusedSectionVars false
set_option linter.unusedSimpArgs false
namespace RefineConfig
open StogRt GenStog
variable {α : Type} [Add α] [Sub α] [Mul α] [Div α] [Neg α] [LT α] [LE α] [NatCast α]
  [DecidableLT α] [DecidableLE α] [Transc α] [Rint α]

/-- index of a real-space function name in `RealSpaceChoices`; 3 = not a valid choice -/
def rsfCode (s : String) : Nat := if s = "g(r)" then 0 else if s = "G(r)" then 1 else if s = "GK(r)" then 2 else 3

def toPy : JVal α → Config.PyVal α
  | .null => .none
  | .bool b => .bool b
  | .num x => .num x
  | .str _ => .str

def cutoffPy (o : Option α) : Config.PyVal α := match o with | some c => .num c | none => .none

/-- the JSON keyword arguments as the hand model reads them (file list and stem name are compared separately) -/
def toK (kw : KwargsJ α) : Config.Kwargs α :=
  { rsf := kw.RealSpaceFunction.map rsfCode, rmin := kw.Rmin, rmax := kw.Rmax, rdelta := kw.Rdelta, rpoints := kw.Rpoints,
    density := kw.NumberDensity.map Config.PyVal.num, lowq := kw.OmittedXrangeCorrection.map toPy, lorch := kw.LorchFlag.map toPy,
    hasFF := kw.FourierFilter.isSome, cutoff := (kw.FourierFilter.bind (·.Cutoff)).map cutoffPy,
    bcoh := kw.bcoh, btot := kw.btot, qmin := (kw.Merging.bind (·.Transform)).bind (·.Qmin),
    qmax := (kw.Merging.bind (·.Transform)).bind (·.Qmax), stem := none }

/-- the attributes of a constructed object as the hand model's settings -/
def viewSettings (g : GState α) : Config.Settings α :=
  { rsf := rsfCode g.real_space_function, rmin := g.rmin, rmax := g.rmax, rdelta := g.rdelta, density := .num g.density,
    lowq := g.low_q_correction, lorch := g.lorch_flag, cutoff := cutoffPy g.fourier_filter_cutoff, bcoh := g.bcoh_sqrd,
    btot := g.btot_sqrd, qmin := g.qmin, qmax := g.qmax, stem := none }

def errOf : Err → Config.Err
  | .valueError => .valueError
  | .typeError => .typeError
  | _ => .noFiles

theorem set_rmin_eq (g : GState α) (v : α) : set_rmin g v = .ok { g with rmin := v, dr := create_domain v g.rmax g.rdelta } := rfl
theorem set_rmax_eq (g : GState α) (v : α) : set_rmax g v = .ok { g with rmax := v, dr := create_domain g.rmin v g.rdelta } := rfl
theorem set_rdelta_eq (g : GState α) (v : α) : set_rdelta g v = .ok { g with rdelta := v, dr := create_domain g.rmin g.rmax v } := rfl

theorem set_flag_eq (g : GState α) (v : JVal α) :
    (set_low_q_correction g v = match Config.boolSetter (toPy v) with
      | .ok b => .ok { g with low_q_correction := b } | .error _ => .error Err.typeError) ∧
    (set_lorch_flag g v = match Config.boolSetter (toPy v) with
      | .ok b => .ok { g with lorch_flag := b } | .error _ => .error Err.typeError) := by
  cases v <;> exact ⟨rfl, rfl⟩

theorem set_rsf_eq (g : GState α) (s : String) :
    set_real_space_function g s = if rsfCode s < 3 then .ok { g with real_space_function := s } else .error Err.valueError := by
  unfold set_real_space_function rsfCode
  by_cases h1 : s = "g(r)"
  · subst h1; rfl
  · by_cases h2 : s = "G(r)"
    · subst h2; rfl
    · by_cases h3 : s = "GK(r)"
      · subst h3; rfl
      · simp [RealSpaceChoices, h1, h2, h3]


theorem createDomain_eq (a b d : α) : (create_domain a b d : Vec α) = Config.createDomain a b d := rfl

/-- the default post-merge options of `__init__` -/
def defaultOpts : MergedOpts α := { Y := some { Offset := some ((0:Nat):α), Scale := some ((1:Nat):α) } }

/-! ### Key by key: what each statement of `__kwargs2attr` does -/

theorem step_rsf (g : GState α) (kw : KwargsJ α) :
    kwargs2attr_RealSpaceFunction g kw = (match kw.RealSpaceFunction with
      | none => .ok g
      | some s => if rsfCode s < 3 then .ok { g with real_space_function := s } else .error Err.valueError) := by
  unfold kwargs2attr_RealSpaceFunction
  cases h : kw.RealSpaceFunction with
  | none => rfl
  | some s => simp only [set_rsf_eq]

theorem step_rmin (g : GState α) (kw : KwargsJ α) :
    kwargs2attr_Rmin g kw = .ok (match kw.Rmin with
      | some v => { g with rmin := v, dr := create_domain v g.rmax g.rdelta } | none => g) := by
  unfold kwargs2attr_Rmin; cases kw.Rmin <;> rfl

theorem step_rmax (g : GState α) (kw : KwargsJ α) :
    kwargs2attr_Rmax g kw = .ok (match kw.Rmax with
      | some v => { g with rmax := v, dr := create_domain g.rmin v g.rdelta } | none => g) := by
  unfold kwargs2attr_Rmax; cases kw.Rmax <;> rfl

theorem step_rdelta (g : GState α) (kw : KwargsJ α) :
    kwargs2attr_Rdelta g kw = .ok (match kw.Rdelta with
      | some d => { g with rdelta := d, dr := create_domain g.rmin g.rmax d }
      | none => match kw.Rpoints with
        | some n => { g with rdelta := g.rmax / n, dr := create_domain g.rmin g.rmax (g.rmax / n) }
        | none => g) := by
  unfold kwargs2attr_Rdelta; cases kw.Rdelta <;> cases kw.Rpoints <;> rfl

theorem step_lowq (g : GState α) (kw : KwargsJ α) :
    kwargs2attr_OmittedXrangeCorrection g kw = (match kw.OmittedXrangeCorrection with
      | none => .ok g
      | some v => match Config.boolSetter (toPy v) with
        | .ok b => .ok { g with low_q_correction := b } | .error _ => .error Err.typeError) := by
  unfold kwargs2attr_OmittedXrangeCorrection
  cases h : kw.OmittedXrangeCorrection with
  | none => rfl
  | some v => cases v <;> rfl

theorem step_lorch (g : GState α) (kw : KwargsJ α) :
    kwargs2attr_LorchFlag g kw = (match kw.LorchFlag with
      | none => .ok g
      | some v => match Config.boolSetter (toPy v) with
        | .ok b => .ok { g with lorch_flag := b } | .error _ => .error Err.typeError) := by
  unfold kwargs2attr_LorchFlag
  cases h : kw.LorchFlag with
  | none => rfl
  | some v => cases v <;> rfl

/-- the settings-view of the pure steps -/
theorem view_density (g : GState α) (kw : KwargsJ α) :
    viewSettings (kwargs2attr_NumberDensity g kw) = { viewSettings g with density := .num (kw.NumberDensity.getD g.density) } := by
  unfold kwargs2attr_NumberDensity; cases kw.NumberDensity <;> rfl

theorem view_ff (g : GState α) (kw : KwargsJ α) :
    viewSettings (kwargs2attr_FourierFilter g kw) =
      { viewSettings g with cutoff := cutoffPy ((kw.FourierFilter.bind (·.Cutoff)).getD g.fourier_filter_cutoff) } := by
  unfold kwargs2attr_FourierFilter
  cases h : kw.FourierFilter with
  | none => rfl
  | some f => cases h2 : f.Cutoff <;> simp [viewSettings, h2]

theorem view_bcoh (g : GState α) (kw : KwargsJ α) :
    viewSettings (kwargs2attr_b_coh__2 g kw) = { viewSettings g with bcoh := kw.bcoh.getD g.bcoh_sqrd } := by
  unfold kwargs2attr_b_coh__2; cases kw.bcoh <;> rfl

theorem view_btot (g : GState α) (kw : KwargsJ α) :
    viewSettings (kwargs2attr_b_tot_2 g kw) = { viewSettings g with btot := kw.btot.getD g.btot_sqrd } := by
  unfold kwargs2attr_b_tot_2; cases kw.btot <;> rfl

def orElse' (a b : Option α) : Option α := match a with | some v => some v | none => b

theorem view_merging (g : GState α) (kw : KwargsJ α) :
    viewSettings (kwargs2attr_Merging g kw) =
      { viewSettings g with qmin := orElse' ((kw.Merging.bind (·.Transform)).bind (·.Qmin)) g.qmin,
                            qmax := orElse' ((kw.Merging.bind (·.Transform)).bind (·.Qmax)) g.qmax } ∧
    (kwargs2attr_Merging g kw).merged_opts = (match kw.Merging with | some m => m.opts | none => g.merged_opts) ∧
    (kwargs2attr_Merging g kw).stem_name = g.stem_name ∧ (kwargs2attr_Merging g kw).dr = g.dr ∧
    (kwargs2attr_Merging g kw).rmin = g.rmin ∧ (kwargs2attr_Merging g kw).rmax = g.rmax ∧ (kwargs2attr_Merging g kw).rdelta = g.rdelta := by
  unfold kwargs2attr_Merging
  cases h : kw.Merging with
  | none => exact ⟨rfl, rfl, rfl, rfl, rfl, rfl, rfl⟩
  | some m =>
    cases h2 : m.Transform with
    | none => simp [viewSettings, orElse', h2]
    | some t => cases h3 : t.Qmin <;> cases h4 : t.Qmax <;> simp [viewSettings, orElse', h2, h3, h4]

theorem view_outputs (g : GState α) (kw : KwargsJ α) :
    viewSettings (kwargs2attr_Outputs g kw) = viewSettings g ∧
    (kwargs2attr_Outputs g kw).stem_name = (kw.Outputs.bind (·.StemName)).getD g.stem_name ∧
    (kwargs2attr_Outputs g kw).merged_opts = g.merged_opts ∧ (kwargs2attr_Outputs g kw).dr = g.dr ∧
    (kwargs2attr_Outputs g kw).rmin = g.rmin ∧ (kwargs2attr_Outputs g kw).rmax = g.rmax ∧ (kwargs2attr_Outputs g kw).rdelta = g.rdelta := by
  unfold kwargs2attr_Outputs
  cases h : kw.Outputs with
  | none => exact ⟨rfl, rfl, rfl, rfl, rfl, rfl, rfl⟩
  | some o => cases h2 : o.StemName <;> simp [viewSettings, h2]

/-- what is tracked along the statements of `__kwargs2attr`: the settings view, grid consistency, stem name, post-merge options -/
structure Sum (g : GState α) (S : Config.Settings α) (stem : String) (mo : MergedOpts α) : Prop where
  view : viewSettings g = S
  dr : g.dr = create_domain g.rmin g.rmax g.rdelta
  stem : g.stem_name = stem
  mo : g.merged_opts = mo

variable {g : GState α} {S : Config.Settings α} {st : String} {mo : MergedOpts α}

theorem sum_rmin (kw : KwargsJ α) (h : Sum g S st mo) :
    ∃ g', kwargs2attr_Rmin g kw = .ok g' ∧ Sum g' { S with rmin := kw.Rmin.getD S.rmin } st mo := by
  obtain ⟨hv, hd, hs, hm⟩ := h
  subst hv
  rw [step_rmin]
  cases kw.Rmin with
  | none => exact ⟨_, rfl, ⟨rfl, hd, hs, hm⟩⟩
  | some v => exact ⟨_, rfl, ⟨rfl, rfl, hs, hm⟩⟩

theorem sum_rmax (kw : KwargsJ α) (h : Sum g S st mo) :
    ∃ g', kwargs2attr_Rmax g kw = .ok g' ∧ Sum g' { S with rmax := kw.Rmax.getD S.rmax } st mo := by
  obtain ⟨hv, hd, hs, hm⟩ := h
  subst hv
  rw [step_rmax]
  cases kw.Rmax with
  | none => exact ⟨_, rfl, ⟨rfl, hd, hs, hm⟩⟩
  | some v => exact ⟨_, rfl, ⟨rfl, rfl, hs, hm⟩⟩

theorem sum_rdelta (kw : KwargsJ α) (h : Sum g S st mo) :
    ∃ g', kwargs2attr_Rdelta g kw = .ok g' ∧
      Sum g' { S with rdelta := (match kw.Rdelta with
        | some d => d | none => match kw.Rpoints with | some n => S.rmax / n | none => S.rdelta) } st mo := by
  obtain ⟨hv, hd, hs, hm⟩ := h
  subst hv
  rw [step_rdelta]
  cases kw.Rdelta with
  | some d => exact ⟨_, rfl, ⟨rfl, rfl, hs, hm⟩⟩
  | none =>
    cases kw.Rpoints with
    | none => exact ⟨_, rfl, ⟨rfl, hd, hs, hm⟩⟩
    | some n => exact ⟨_, rfl, ⟨rfl, rfl, hs, hm⟩⟩

theorem sum_density (kw : KwargsJ α) (h : Sum g S st mo) :
    Sum (kwargs2attr_NumberDensity g kw) { S with density := (match kw.NumberDensity with | some v => .num v | none => S.density) } st mo := by
  obtain ⟨hv, hd, hs, hm⟩ := h
  subst hv
  unfold kwargs2attr_NumberDensity
  cases kw.NumberDensity with
  | none => exact ⟨rfl, hd, hs, hm⟩
  | some v => exact ⟨rfl, hd, hs, hm⟩

theorem sum_rsf_ok (kw : KwargsJ α) (h : Sum g S st mo) (s : String) (hk : kw.RealSpaceFunction = some s) (hs : rsfCode s < 3) :
    ∃ g', kwargs2attr_RealSpaceFunction g kw = .ok g' ∧ Sum g' { S with rsf := rsfCode s } st mo := by
  obtain ⟨hv, hd, hst, hm⟩ := h
  subst hv
  rw [step_rsf, hk]
  simp only [hs, if_true]
  exact ⟨_, rfl, ⟨rfl, hd, hst, hm⟩⟩

theorem sum_flag_lowq (kw : KwargsJ α) (h : Sum g S st mo) (v : JVal α) (b : Bool) (hk : kw.OmittedXrangeCorrection = some v)
    (hb : Config.boolSetter (toPy v) = .ok b) :
    ∃ g', kwargs2attr_OmittedXrangeCorrection g kw = .ok g' ∧ Sum g' { S with lowq := b } st mo := by
  obtain ⟨hv, hd, hst, hm⟩ := h
  subst hv
  rw [step_lowq, hk]
  simp only [hb]
  exact ⟨_, rfl, ⟨rfl, hd, hst, hm⟩⟩

theorem sum_flag_lorch (kw : KwargsJ α) (h : Sum g S st mo) (v : JVal α) (b : Bool) (hk : kw.LorchFlag = some v)
    (hb : Config.boolSetter (toPy v) = .ok b) :
    ∃ g', kwargs2attr_LorchFlag g kw = .ok g' ∧ Sum g' { S with lorch := b } st mo := by
  obtain ⟨hv, hd, hst, hm⟩ := h
  subst hv
  rw [step_lorch, hk]
  simp only [hb]
  exact ⟨_, rfl, ⟨rfl, hd, hst, hm⟩⟩

theorem sum_ff (kw : KwargsJ α) (h : Sum g S st mo) :
    Sum (kwargs2attr_FourierFilter g kw)
      { S with cutoff := (match kw.FourierFilter.bind (·.Cutoff) with | some c => cutoffPy c | none => S.cutoff) } st mo := by
  obtain ⟨hv, hd, hs, hm⟩ := h
  subst hv
  refine ⟨?_, ?_, ?_, ?_⟩
  · rw [view_ff]; cases kw.FourierFilter.bind (·.Cutoff) <;> rfl
  all_goals (unfold kwargs2attr_FourierFilter; cases h1 : kw.FourierFilter with
    | none => assumption
    | some f => cases h2 : f.Cutoff <;> simp_all)

theorem sum_bcoh (kw : KwargsJ α) (h : Sum g S st mo) :
    Sum (kwargs2attr_b_coh__2 g kw) { S with bcoh := kw.bcoh.getD S.bcoh } st mo := by
  obtain ⟨hv, hd, hs, hm⟩ := h
  subst hv
  unfold kwargs2attr_b_coh__2
  cases kw.bcoh <;> exact ⟨rfl, hd, hs, hm⟩

theorem sum_btot (kw : KwargsJ α) (h : Sum g S st mo) :
    Sum (kwargs2attr_b_tot_2 g kw) { S with btot := kw.btot.getD S.btot } st mo := by
  obtain ⟨hv, hd, hs, hm⟩ := h
  subst hv
  unfold kwargs2attr_b_tot_2
  cases kw.btot <;> exact ⟨rfl, hd, hs, hm⟩

theorem sum_merging (kw : KwargsJ α) (h : Sum g S st mo) :
    Sum (kwargs2attr_Merging g kw)
      { S with qmin := orElse' ((kw.Merging.bind (·.Transform)).bind (·.Qmin)) S.qmin,
               qmax := orElse' ((kw.Merging.bind (·.Transform)).bind (·.Qmax)) S.qmax } st
      (match kw.Merging with | some m => m.opts | none => mo) := by
  obtain ⟨hv, hd, hs, hm⟩ := h
  subst hv
  obtain ⟨v1, v2, v3, v4, v5, v6, v7⟩ := view_merging g kw
  refine ⟨v1, ?_, by rw [v3, hs], ?_⟩
  · rw [v4, v5, v6, v7]; exact hd
  · rw [v2]; cases kw.Merging <;> simp [hm]

theorem sum_outputs (kw : KwargsJ α) (h : Sum g S st mo) :
    Sum (kwargs2attr_Outputs g kw) S ((kw.Outputs.bind (·.StemName)).getD st) mo := by
  obtain ⟨hv, hd, hs, hm⟩ := h
  subst hv
  obtain ⟨v1, v2, v3, v4, v5, v6, v7⟩ := view_outputs g kw
  refine ⟨v1, ?_, by rw [v2, hs], by rw [v3, hm]⟩
  rw [v4, v5, v6, v7]; exact hd

/-- the statement of the refinement for one keyword dictionary -/
def Refines (kw : KwargsJ α) : Prop :=
  match construct kw with
  | .ok g => Config.settings (toK kw) = .ok (viewSettings g) ∧ g.dr = Config.createDomain g.rmin g.rmax g.rdelta ∧
      g.stem_name = (kw.Outputs.bind (·.StemName)).getD "out" ∧
      g.merged_opts = (match kw.Merging with | some m => m.opts | none => defaultOpts)
  | .error e => Config.settings (toK kw) = .error (errOf e)

theorem sum_init : Sum (init_state : GState α) (viewSettings init_state) "out" defaultOpts := ⟨rfl, rfl, rfl, rfl⟩

/-- the settings the chain of statements arrives at, written out -/
def finalS (kw : KwargsJ α) (r : Nat) (a b : Bool) : Config.Settings α :=
  { rsf := r, rmin := kw.Rmin.getD ((0:Nat):α), rmax := kw.Rmax.getD ((50:Nat):α),
    rdelta := (match kw.Rdelta with
      | some d => d
      | none => match kw.Rpoints with | some n => kw.Rmax.getD ((50:Nat):α) / n | none => ((1:Nat):α) / ((100:Nat):α)),
    density := (match kw.NumberDensity with | some v => .num v | none => .num ((1:Nat):α)),
    lowq := a, lorch := b,
    cutoff := (match kw.FourierFilter.bind (·.Cutoff) with | some c => cutoffPy c | none => .none),
    bcoh := kw.bcoh.getD ((1:Nat):α), btot := kw.btot.getD ((1:Nat):α),
    qmin := orElse' ((kw.Merging.bind (·.Transform)).bind (·.Qmin)) none,
    qmax := orElse' ((kw.Merging.bind (·.Transform)).bind (·.Qmax)) none, stem := none }

theorem core_eq (kw : KwargsJ α) (r : Nat) (a b : Bool) : Config.core (toK kw) r a b = finalS kw r a b := by
  obtain ⟨rsf, rmin, rmax, rdelta, rpoints, dens, lowq, lorch, ff, bcoh, btot, mer, outs⟩ := kw
  simp only [Config.core, toK, finalS]
  congr 1
  all_goals (try rfl)
  all_goals first
    | (cases rmin <;> rfl)
    | (cases rmax <;> rfl)
    | (cases rmax <;> cases rdelta <;> cases rpoints <;> rfl)
    | (cases dens <;> rfl)
    | (cases bcoh <;> rfl)
    | (cases btot <;> rfl)
    | (cases ff with
       | none => rfl
       | some f => obtain ⟨c⟩ := f; cases c with
         | none => rfl
         | some c2 => cases c2 <;> rfl)
    | (cases mer with
       | none => rfl
       | some m => obtain ⟨o, t⟩ := m; cases t with
         | none => rfl
         | some tt => obtain ⟨a1, a2⟩ := tt; cases a1 <;> cases a2 <;> rfl)

/-- everything after the real-space-function key, from a state `g1` reached without error -/
theorem tail_refines (kw : KwargsJ α) (g1 : GState α) (S1 : Config.Settings α) (h1 : Sum g1 S1 "out" defaultOpts)
    (r : Nat) (hr : Config.rsfOf (toK kw).rsf = .ok r) (hS1 : S1 = { viewSettings (init_state : GState α) with rsf := r }) :
    (match (do
        let self ← kwargs2attr_Rmin g1 kw
        let self ← kwargs2attr_Rmax self kw
        let self ← kwargs2attr_Rdelta self kw
        let self := kwargs2attr_NumberDensity self kw
        let self ← kwargs2attr_OmittedXrangeCorrection self kw
        let self ← kwargs2attr_LorchFlag self kw
        let self := kwargs2attr_FourierFilter self kw
        let self := kwargs2attr_b_coh__2 self kw
        let self := kwargs2attr_b_tot_2 self kw
        let self := kwargs2attr_Merging self kw
        let self := kwargs2attr_Outputs self kw
        pure self : Except Err (GState α)) with
     | .ok g => Config.settings (toK kw) = .ok (viewSettings g) ∧ g.dr = Config.createDomain g.rmin g.rmax g.rdelta ∧
         g.stem_name = (kw.Outputs.bind (·.StemName)).getD "out" ∧
         g.merged_opts = (match kw.Merging with | some m => m.opts | none => defaultOpts)
     | .error e => Config.settings (toK kw) = .error (errOf e)) := by
  obtain ⟨g2, e2, h2⟩ := sum_rmin kw h1
  obtain ⟨g3, e3, h3⟩ := sum_rmax kw h2
  obtain ⟨g4, e4, h4⟩ := sum_rdelta kw h3
  have h5 := sum_density kw h4
  simp only [e2, e3, e4, bind_ok]
  generalize kwargs2attr_NumberDensity g4 kw = g5 at h5 ⊢
  generalize hS5 : ({ (_ : Config.Settings α) with density := _ } : Config.Settings α) = S5 at h5
  have hlow5 : S5.lowq = false ∧ S5.lorch = false := by subst hS5; subst hS1; exact ⟨rfl, rfl⟩
  -- the two flags: absent / a bool / anything else
  have flag : ∀ (o : Option (JVal α)), (∃ a, Config.flagOf (o.map toPy) = .ok a ∧ (o = none ∧ a = false ∨ ∃ v, o = some v ∧ Config.boolSetter (toPy v) = .ok a)) ∨
      (∃ v, o = some v ∧ Config.boolSetter (toPy v) = .error Config.Err.typeError ∧ Config.flagOf (o.map toPy) = .error Config.Err.typeError) := by
    intro o
    cases o with
    | none => exact Or.inl ⟨false, rfl, Or.inl ⟨rfl, rfl⟩⟩
    | some v => cases v <;> first | exact Or.inr ⟨_, rfl, rfl, rfl⟩ | exact Or.inl ⟨_, rfl, Or.inr ⟨_, rfl, rfl⟩⟩
  rcases flag kw.OmittedXrangeCorrection with ⟨a, fa, ha⟩ | ⟨v, hv, hbv, fe⟩
  · -- low-Q flag accepted
    have step6 : ∃ g6, kwargs2attr_OmittedXrangeCorrection g5 kw = .ok g6 ∧ Sum g6 { S5 with lowq := a } "out" defaultOpts := by
      rcases ha with ⟨hn, ha0⟩ | ⟨v, hv, hb⟩
      · refine ⟨g5, by rw [step_lowq, hn], ?_⟩
        subst ha0
        refine ⟨?_, h5.dr, h5.stem, h5.mo⟩
        rw [h5.view]
        cases S5; simp only at hlow5; simp [hlow5.1]
      · exact sum_flag_lowq kw h5 v a hv hb
    obtain ⟨g6, e6, h6⟩ := step6
    generalize hS6 : ({ S5 with lowq := a } : Config.Settings α) = S6 at h6
    have hlor6 : S6.lorch = false := by subst hS6; exact hlow5.2
    simp only [e6, bind_ok]
    rcases flag kw.LorchFlag with ⟨b, fb, hb⟩ | ⟨v, hv, hbv, fe⟩
    · have step7 : ∃ g7, kwargs2attr_LorchFlag g6 kw = .ok g7 ∧ Sum g7 { S6 with lorch := b } "out" defaultOpts := by
        rcases hb with ⟨hn, hb0⟩ | ⟨v, hv, hbb⟩
        · refine ⟨g6, by rw [step_lorch, hn], ?_⟩
          subst hb0
          refine ⟨?_, h6.dr, h6.stem, h6.mo⟩
          rw [h6.view]
          cases S6; simp only at hlor6; simp [hlor6]
        · exact sum_flag_lorch kw h6 v b hv hbb
      obtain ⟨g7, e7, h7⟩ := step7
      have h12 := sum_outputs kw (sum_merging kw (sum_btot kw (sum_bcoh kw (sum_ff kw h7))))
      simp only [e7, bind_ok, pure_eq_ok]
      refine ⟨?_, ?_, h12.stem, h12.mo⟩
      · rw [h12.view]
        have hset : Config.settings (toK kw) = .ok (Config.core (toK kw) r a b) := by
          simp only [Config.settings, hr]
          have f1 : Config.flagOf (toK kw).lowq = .ok a := fa
          have f2 : Config.flagOf (toK kw).lorch = .ok b := fb
          rw [f1, f2]
        rw [hset, core_eq]
        subst hS6; subst hS5; subst hS1
        rfl
      · rw [h12.dr]; rfl
    · -- Lorch flag rejected
      have e7 : kwargs2attr_LorchFlag g6 kw = .error Err.typeError := by
        rw [step_lorch, hv]
        cases v <;> simp_all [Config.boolSetter, toPy]
      simp only [e7, bind_error]
      have f1 : Config.flagOf (toK kw).lowq = .ok a := fa
      have f2 : Config.flagOf (toK kw).lorch = .error Config.Err.typeError := fe
      simp only [Config.settings, hr, f1, f2, errOf]
  · -- low-Q flag rejected
    have e6 : kwargs2attr_OmittedXrangeCorrection g5 kw = .error Err.typeError := by
      rw [step_lowq, hv]
      cases v <;> simp_all [Config.boolSetter, toPy]
    simp only [e6, bind_error]
    have f1 : Config.flagOf (toK kw).lowq = .error Config.Err.typeError := fe
    simp only [Config.settings, hr, f1, errOf]

/-- **Refinement of construction**: `StoG(**kwargs)` (regenerated `__init__`, `__kwargs2attr`, validating setters) succeeds exactly when the
    hand model's `Config.settings` does, with the same error otherwise; on success every setting is the hand model's, the r grid is
    `createDomain` of the final Rmin, Rmax, Rdelta, the stem name and the post-merge options are the given ones or their defaults -/
theorem construct_refines (kw : KwargsJ α) : Refines kw := by
  unfold Refines construct kwargs2attr
  cases hk : kw.RealSpaceFunction with
  | none =>
    have e1 : kwargs2attr_RealSpaceFunction (init_state : GState α) kw = .ok init_state := by rw [step_rsf, hk]
    simp only [e1, bind_ok]
    exact tail_refines kw init_state _ sum_init 0 (by simp [toK, hk, Config.rsfOf]) (by simp [viewSettings, init_state, rsfCode])
  | some s =>
    by_cases hs : rsfCode s < 3
    · obtain ⟨g1, e1, h1⟩ := sum_rsf_ok kw sum_init s hk hs
      simp only [e1, bind_ok]
      exact tail_refines kw g1 _ h1 (rsfCode s) (by simp [toK, hk, Config.rsfOf, hs]) rfl
    · have e1 : kwargs2attr_RealSpaceFunction (init_state : GState α) kw = .error Err.valueError := by
        rw [step_rsf, hk]; simp only [hs, if_false]
      simp only [e1, bind_error]
      simp [Config.settings, toK, hk, Config.rsfOf, hs, errOf]

/-! ### The flag form: `io.parse_cli_args` -/

/-- the parsed namespace as the hand model's flags (the parser has already applied its defaults) -/
def toFlags (ns : ArgsNS α) : Config.Flags α :=
  { density := ns.density, rsf := some (rsfCode ns.real_space_function), rmax := some ns.Rmax, rpoints := some ns.Rpoints,
    rdelta := ns.Rdelta, cutoff := ns.fourier_filter_cutoff, lorch := ns.lorch_flag, bcoh := some ns.bcoh_sqrd, btot := some ns.btot_sqrd,
    lowq := ns.low_q_correction }

/-- **Refinement of the flag form**: the keyword dictionary that the regenerated `parse_cli_args` builds is, read as the hand model reads it,
    `Config.parseFlags` of the namespace (file list and stem name apart); the stem name and the merged-S(Q) offset/scale are passed on -/
theorem parse_cli_args_refines (ns : ArgsNS α) :
    toK (parse_cli_args ns) = { Config.parseFlags (toFlags ns) with stem := none, nFiles := 1 } ∧
    ((parse_cli_args ns).Outputs.bind (·.StemName)) = some ns.stem_name ∧
    ((parse_cli_args ns).Merging.map (·.opts)) = some { Y := some { Offset := some ns.merging.1, Scale := some ns.merging.2 } } := by
  cases hd : ns.density <;> cases hr : ns.Rdelta <;>
    simp [parse_cli_args, toK, toFlags, Config.parseFlags, hd, hr, toPy, cutoffPy]
  all_goals (try (split <;> simp_all [toK, toPy, cutoffPy]))
  all_goals (try (cases ns.fourier_filter_cutoff <;> simp [cutoffPy]))

end RefineConfig