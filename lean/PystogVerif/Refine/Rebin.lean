import PystogVerif.Gen.Stog
import PystogVerif.Model.Rebin
import PystogVerif.Real
import PystogVerif.RealRint
import Mathlib.Tactic.Linarith
import Mathlib.Algebra.Order.Floor.Ring

/-!
# Refinement: the code generated from `Pre_Proc.rebin` equals the hand-written model `Rebin.rebin` (at ℝ)

The Python accumulates into two arrays with indexed `+=`; the hand model computes each bin by its own fold (which is what the
theorems of C20 are about).  The invariant: after any prefix of the input, entry `k` of the two arrays holds the hand model's
accumulated (Σ y·w, Σ w) of bin `k`.  It also discharges the translator's guarded indexings (`xout[bin_index]`,
`yout[bin_index + 1]` are in range for every in-range point).
-/
set_option linter.unusedSimpArgs false
noncomputable section
namespace RefineRebin
open StogRt GenStog

variable (xmin xdiv xmax : ℝ)

theorem getD_mapIdx (l : List ℝ) (f : ℕ → ℝ → ℝ) (k : ℕ) (h : k < l.length) :
    List.getD (l.mapIdx f) k 0 = f k (List.getD l k 0) := by
  simp [List.getD_eq_getElem?_getD, List.getElem?_mapIdx, List.getElem?_eq_getElem h]

theorem getD_addAt (l : List ℝ) (j k : ℕ) (v : ℝ) (h : k < l.length) :
    List.getD (addAt l j v) k 0 = if k = j then List.getD l k 0 + v else List.getD l k 0 := by
  unfold addAt
  rw [getD_mapIdx l _ k h]

theorem length_addAt (l : List ℝ) (j : ℕ) (v : ℝ) : (addAt l j v).length = l.length := by simp [addAt]

/-- the generated step with the ordinate handed over directly -/
def step' (xout : List ℝ) (acc : List ℝ × List ℝ) (p : ℝ × ℝ) : List ℝ × List ℝ :=
  rebin_loop1 xmin xmax xdiv [p.2] xout acc (0, p.1)

theorem loop_as_step' (xout y : List ℝ) (acc : List ℝ × List ℝ) (it : ℕ × ℝ) :
    rebin_loop1 xmin xmax xdiv y xout acc it = step' xmin xdiv xmax xout acc (it.2, List.getD y it.1 0) := by
  obtain ⟨i, xi⟩ := it
  simp [step', rebin_loop1]

theorem fold_as_step' (xout y : List ℝ) (l : List (ℕ × ℝ)) (acc : List ℝ × List ℝ) :
    l.foldl (rebin_loop1 xmin xmax xdiv y xout) acc =
      (l.map (fun it => (it.2, List.getD y it.1 0))).foldl (step' xmin xdiv xmax xout) acc := by
  induction l generalizing acc with
  | nil => rfl
  | cons a t ih => simp only [List.foldl_cons, List.map_cons, ih, loop_as_step']

theorem enum_zip (x y : List ℝ) (h : x.length = y.length) :
    ((List.range x.length).zip x).map (fun it => (it.2, List.getD y it.1 0)) = x.zip y := by
  apply List.ext_getElem
  · simp [h]
  · intro i h1 h2
    simp only [List.length_map, List.length_zip, List.length_range, Nat.min_self] at h1
    have hy : i < y.length := h ▸ h1
    simp [List.getD_eq_getElem?_getD, List.getElem?_eq_getElem hy]

/-- the bin index of an in-range point is below the number of grid points -/
theorem binIndex_lt (hd : 0 < xdiv) (x : ℝ) (hlo : xmin ≤ x) (hhi : x ≤ xmax) :
    Rebin.binIndex xmin xdiv x < Rebin.numpts xmin xdiv xmax := by
  unfold Rebin.binIndex Rebin.numpts
  show ⌊(x - xmin) / xdiv⌋.toNat < ⌊(xmax - xmin) / xdiv⌋.toNat + 1
  have h1 : (x - xmin) / xdiv ≤ (xmax - xmin) / xdiv := by
    apply div_le_div_of_nonneg_right _ hd.le; linarith
  have := Int.toNat_le_toNat (Int.floor_le_floor h1)
  omega

theorem grid_getD (k : ℕ) (h : k < Rebin.numpts xmin xdiv xmax) :
    List.getD ((List.range (Rebin.numpts xmin xdiv xmax)).map (fun (loop : ℕ) => xmin + ((loop : ℕ) : ℝ) * xdiv)) k 0 =
      Rebin.gridPt xmin xdiv k := by
  simp [List.getD_eq_getElem?_getD, h, Rebin.gridPt]

/-- entry `k` of both arrays is the hand model's accumulated pair of bin `k` -/
def Inv (n : ℕ) (acc : List ℝ × List ℝ) (pts : List (ℝ × ℝ)) : Prop :=
  acc.1.length = n + 1 ∧ acc.2.length = n + 1 ∧
  ∀ k, k < n + 1 → List.getD acc.1 k 0 = (Rebin.accum xmin xdiv xmax k pts).1 ∧ List.getD acc.2 k 0 = (Rebin.accum xmin xdiv xmax k pts).2

theorem accum_snoc (k : ℕ) (pts : List (ℝ × ℝ)) (p : ℝ × ℝ) :
    Rebin.accum xmin xdiv xmax k (pts ++ [p]) = Rebin.accumStep xmin xdiv xmax k (Rebin.accum xmin xdiv xmax k pts) p := by
  simp [Rebin.accum, List.foldl_append]

theorem step_inv (hd : 0 < xdiv) (acc : List ℝ × List ℝ) (pts : List (ℝ × ℝ)) (p : ℝ × ℝ)
    (h : Inv xmin xdiv xmax (Rebin.numpts xmin xdiv xmax) acc pts) :
    Inv xmin xdiv xmax (Rebin.numpts xmin xdiv xmax)
      (step' xmin xdiv xmax ((List.range (Rebin.numpts xmin xdiv xmax)).map (fun (loop : ℕ) => xmin + ((loop : ℕ) : ℝ) * xdiv)) acc p)
      (pts ++ [p]) := by
  obtain ⟨l1, l2, hk⟩ := h
  obtain ⟨yo, yn⟩ := acc
  obtain ⟨xi, yi⟩ := p
  simp only at l1 l2 hk
  by_cases hin : xmin ≤ xi ∧ xi ≤ xmax
  · have hb := binIndex_lt xmin xdiv xmax hd xi hin.1 hin.2
    have hg := grid_getD xmin xdiv xmax _ hb
    have hr : Rebin.inRange xmin xmax xi = true := by simp [Rebin.inRange, hin.1, hin.2]
    refine ⟨?_, ?_, ?_⟩
    · simp [step', rebin_loop1, Cmp.le, hin.1, hin.2, length_addAt, l1]
    · simp [step', rebin_loop1, Cmp.le, hin.1, hin.2, length_addAt, l2]
    · intro k hk1
      have h0 := hk k hk1
      have e1 : ∀ (j : ℕ) (v : ℝ) (l : List ℝ), l.length = Rebin.numpts xmin xdiv xmax + 1 →
          List.getD (addAt l j v) k 0 = if k = j then List.getD l k 0 + v else List.getD l k 0 :=
        fun j v l hl => getD_addAt l j k v (by omega)
      simp only [step', rebin_loop1, Cmp.le, hin.1, hin.2, decide_true, Bool.and_self, if_true, List.getD_cons_zero, Nat.cast_zero, Nat.cast_one]
      have hbi : Rint.toNat ((xi - xmin) / xdiv) = Rebin.binIndex xmin xdiv xi := rfl
      simp only [hbi, hg]
      rw [e1 _ _ _ (by simp [length_addAt, l1]), e1 _ _ _ l1, e1 _ _ _ (by simp [length_addAt, l2]), e1 _ _ _ l2, accum_snoc]
      simp only [Rebin.accumStep, Rebin.weightTo, hr, if_true, h0.1, h0.2, Rebin.scale1, Rebin.scale2]
      by_cases hk0 : k = Rebin.binIndex xmin xdiv xi
      · subst hk0
        have : ¬ (Rebin.binIndex xmin xdiv xi = Rebin.binIndex xmin xdiv xi + 1) := by omega
        simp [this]
      · by_cases hk2 : k = Rebin.binIndex xmin xdiv xi + 1
        · subst hk2
          have : ¬ (Rebin.binIndex xmin xdiv xi = Rebin.binIndex xmin xdiv xi + 1) := by omega
          simp [this]
        · have a1 : ¬ (Rebin.binIndex xmin xdiv xi = k) := fun h => hk0 h.symm
          have a2 : ¬ (Rebin.binIndex xmin xdiv xi + 1 = k) := fun h => hk2 h.symm
          simp [hk0, hk2, a1, a2]
  · have hr : Rebin.inRange xmin xmax xi = false := by
      simp only [Rebin.inRange, Bool.and_eq_false_iff, decide_eq_false_iff_not]
      by_contra hc; exact hin ⟨not_not.mp (fun h => hc (Or.inl h)), not_not.mp (fun h => hc (Or.inr h))⟩
    have hc : (Cmp.le xmin xi && Cmp.le xi xmax) = false := by
      simpa [Cmp.le, Rebin.inRange] using hr
    refine ⟨?_, ?_, ?_⟩
    · simp [step', rebin_loop1, hc, l1]
    · simp [step', rebin_loop1, hc, l2]
    · intro k hk1
      have h0 := hk k hk1
      simp only [step', rebin_loop1, hc, accum_snoc, Rebin.accumStep, Rebin.weightTo, hr]
      simpa using h0

theorem fold_inv (hd : 0 < xdiv) (l pts : List (ℝ × ℝ)) (acc : List ℝ × List ℝ)
    (h : Inv xmin xdiv xmax (Rebin.numpts xmin xdiv xmax) acc pts) :
    Inv xmin xdiv xmax (Rebin.numpts xmin xdiv xmax)
      (l.foldl (step' xmin xdiv xmax ((List.range (Rebin.numpts xmin xdiv xmax)).map (fun (loop : ℕ) => xmin + ((loop : ℕ) : ℝ) * xdiv))) acc)
      (pts ++ l) := by
  induction l generalizing acc pts with
  | nil => simpa using h
  | cons p t ih =>
    simp only [List.foldl_cons]
    have := ih (pts ++ [p]) _ (step_inv xmin xdiv xmax hd acc pts p h)
    simpa using this

theorem inv_init : Inv xmin xdiv xmax (Rebin.numpts xmin xdiv xmax)
    (List.replicate (Rebin.numpts xmin xdiv xmax + 1) 0, List.replicate (Rebin.numpts xmin xdiv xmax + 1) 0) [] := by
  refine ⟨by simp, by simp, fun k hk => ?_⟩
  simp [Rebin.accum, List.getD_eq_getElem?_getD, List.getElem?_replicate, hk]

/-- **Refinement of `Pre_Proc.rebin`**: for a positive step and equally long x, y the generated code returns exactly the hand model's
    grid and bin values -/
theorem rebin_refines (x y : List ℝ) (hd : 0 < xdiv) (hl : x.length = y.length) :
    GenStog.rebin x y xmin xdiv xmax = Rebin.rebin x y xmin xdiv xmax := by
  have hn : (Rint.toNat ((xmax - xmin) / xdiv)) + 1 = Rebin.numpts xmin xdiv xmax := rfl
  unfold GenStog.rebin Rebin.rebin
  simp only [hn, List.length_map, List.length_range, fold_as_step', enum_zip x y hl]
  have hinv := fold_inv xmin xdiv xmax hd (x.zip y) [] _ (inv_init xmin xdiv xmax)
  simp only [List.nil_append, Nat.cast_zero] at hinv
  have h0 : (((0:ℕ):ℝ)) = 0 := Nat.cast_zero
  simp only [h0]
  generalize List.foldl (step' xmin xdiv xmax _) _ (x.zip y) = acc at hinv ⊢
  obtain ⟨l1, l2, hk⟩ := hinv
  refine Prod.ext rfl ?_
  simp only [Rebin.grid]
  apply List.ext_getElem
  · simp [divPrefix, l1]
  · intro k h1 h2
    simp only [List.length_map, List.length_range] at h2
    have hk' := hk k (by omega)
    simp only [divPrefix, l1, Nat.add_sub_cancel, List.getElem_dropLast, List.getElem_mapIdx, h2, if_true, List.getElem_map,
      List.getElem_range]
    have e1 : acc.1[k]'(by rw [l1]; omega) = List.getD acc.1 k 0 := by
      simp [List.getD_eq_getElem?_getD, List.getElem?_eq_getElem (show k < acc.1.length by rw [l1]; omega)]
    rw [e1, hk'.1]
    simp only [Nat.cast_zero]
    rw [hk'.2]

end RefineRebin
end
