import PystogVerif.Gen.Stog
import PystogVerif.Model.Stog
import PystogVerif.Real
import Mathlib.Tactic.Linarith

/-!
# Refinement: the code generated from `StoG.merge_data` equals the hand-written merge model `Stog.mergeData`

At ℝ (the loop's guard `_n_total > 0` needs an ordered field).  The generated loop keeps five variables and decides "a run is
open" by `_n_total > 0`, storing `_previous_x` (which may be `None`) into the output row; the hand model matches on the previous
abscissa.  The fold invariant below — a run is open iff the count is ≥ 1 iff the previous abscissa is set — makes the two agree
and discharges the translator's `guardedCoercions` (the `Option.getD · 0` default is never used).
-/
set_option linter.unusedSimpArgs false
noncomputable section
namespace RefineMerge
open StogRt GenStog

abbrev Tup := ℝ × ℝ × ℝ × List (ℝ × ℝ × ℝ) × Option ℝ

def toAcc (t : Tup) : Stog.Acc ℝ := ⟨t.2.2.2.1, t.2.2.2.2, t.1, t.2.1, t.2.2.1⟩
def ofAcc (a : Stog.Acc ℝ) : Tup := (a.n, a.sum, a.err, a.out, a.prev)

/-- a run is open iff the previous abscissa is set, and then at least one point was counted -/
def InvT (t : Tup) : Prop := (t.2.2.2.2 = none ∧ t.1 = 0) ∨ (t.2.2.2.2.isSome ∧ 1 ≤ t.1)

theorem cmp_eq_real (a b : ℝ) : Cmp.eq a b = decide (a = b) := by
  unfold Cmp.eq
  by_cases h : a = b
  · subst h; simp
  · have : ¬ (a ≤ b ∧ b ≤ a) := fun ⟨h1, h2⟩ => h (le_antisymm h1 h2)
    rw [← Bool.decide_and, decide_eq_false this]; simp [h]

/-- one iteration of the generated loop = one `stepM` of the hand model, and the invariant is kept -/
theorem loop_step (t : Tup) (item : ℝ × ℝ × ℝ) (h : InvT t) :
    merge_data_loop1 t item = ofAcc (Stog.stepM (toAcc t) item) ∧ InvT (merge_data_loop1 t item) := by
  obtain ⟨n, s, e, out, prev⟩ := t
  rcases h with ⟨hp, hn⟩ | ⟨hp, hn⟩
  · simp only at hp hn
    subst hp; subst hn
    refine ⟨?_, Or.inr ?_⟩
    · simp [merge_data_loop1, Stog.stepM, toAcc, ofAcc, eqOpt, Cmp.gt]
    · simp [merge_data_loop1, eqOpt, Cmp.gt]
  · simp only at hp hn
    obtain ⟨q, rfl⟩ := Option.isSome_iff_exists.mp hp
    have hpos : (0:ℝ) < n := by linarith
    by_cases hq : item.1 = q
    · refine ⟨?_, Or.inr ?_⟩
      · simp [merge_data_loop1, Stog.stepM, toAcc, ofAcc, eqOpt, cmp_eq_real, hq]
      · simp [merge_data_loop1, eqOpt, cmp_eq_real, hq]; linarith
    · refine ⟨?_, Or.inr ?_⟩
      · simp [merge_data_loop1, Stog.stepM, toAcc, ofAcc, eqOpt, cmp_eq_real, hq, Cmp.gt, hpos]
      · simp [merge_data_loop1, eqOpt, cmp_eq_real, hq, Cmp.gt, hpos]

theorem loop_fold (l : List (ℝ × ℝ × ℝ)) (t : Tup) (h : InvT t) :
    l.foldl merge_data_loop1 t = ofAcc (l.foldl Stog.stepM (toAcc t)) ∧ InvT (l.foldl merge_data_loop1 t) := by
  induction l generalizing t with
  | nil => exact ⟨rfl, h⟩
  | cons a r ih =>
    obtain ⟨h1, h2⟩ := loop_step t a h
    obtain ⟨k1, k2⟩ := ih _ h2
    simp only [List.foldl_cons]
    refine ⟨?_, k2⟩
    rw [k1, h1]; rfl

/-- the closing `if _n_total > 0: append` = `finishM` -/
theorem finish_eq (t : Tup) (h : InvT t) :
    (if Cmp.gt t.1 ((0:Nat):ℝ) = true then t.2.2.2.1 ++ [(Option.getD t.2.2.2.2 ((0:Nat):ℝ), t.2.1 / t.1, Transc.sqrt t.2.2.1 / t.1)] else t.2.2.2.1)
      = Stog.finishM (toAcc t) := by
  obtain ⟨n, s, e, out, prev⟩ := t
  rcases h with ⟨hp, hn⟩ | ⟨hp, hn⟩
  · simp only at hp hn; subst hp; subst hn
    simp [Stog.finishM, toAcc, Cmp.gt]
  · simp only at hp hn
    obtain ⟨q, rfl⟩ := Option.isSome_iff_exists.mp hp
    have hpos : (0:ℝ) < n := by linarith
    simp [Stog.finishM, toAcc, Cmp.gt, hpos]

theorem noJunk_eq : (StogRt.noJunk : Junk ℝ) = Stog.noJunk := rfl

def optsOf (m : StogRt.MergedOpts ℝ) : Stog.MergeOpts ℝ :=
  { sScale := m.Y.bind (·.Scale), sOffset := m.Y.bind (·.Offset),
    fScale := (m.F.bind (·.Y)).bind (·.Scale), fOffset := (m.F.bind (·.Y)).bind (·.Offset) }

def toRows (r : StogRt.Rows ℝ) : Stog.Rows ℝ := ⟨r.x, r.y, r.dy⟩

theorem cols_eq (r : StogRt.Rows ℝ) : StogRt.Rows.cols r = Stog.zip3 (toRows r) := rfl

/-- the initial accumulator satisfies the invariant -/
theorem inv_init : InvT ((0:ℝ), (0:ℝ), (0:ℝ), ([] : List (ℝ × ℝ × ℝ)), (none : Option ℝ)) := Or.inl ⟨rfl, rfl⟩

theorem mergeSorted_ne_nil (l : List (ℝ × ℝ × ℝ)) (h : l ≠ []) : Stog.mergeSorted l ≠ [] := by
  unfold Stog.mergeSorted Stog.finishM
  have key : ∀ (l : List (ℝ × ℝ × ℝ)) (a : Stog.Acc ℝ), a.prev.isSome → (l.foldl Stog.stepM a).prev.isSome := by
    intro l
    induction l with
    | nil => intro a ha; exact ha
    | cons p r ih =>
      intro a ha
      simp only [List.foldl_cons]
      apply ih
      unfold Stog.stepM
      obtain ⟨q, hq⟩ := Option.isSome_iff_exists.mp ha
      rw [hq]; simp only
      split_ifs <;> rfl
  cases l with
  | nil => exact absurd rfl h
  | cons p r =>
    simp only [List.foldl_cons]
    have := key r (Stog.stepM ⟨[], none, ((0:Nat):ℝ), ((0:Nat):ℝ), ((0:Nat):ℝ)⟩ p) (by simp [Stog.stepM])
    obtain ⟨q, hq⟩ := Option.isSome_iff_exists.mp this
    rw [hq]; simp

theorem set_shadow {β : Type} (d : Dict β) (k k' : String) (a b c : β) :
    ((d.set k a).set k' b).set k c = (d.set k' b).set k c := by
  funext x
  by_cases h1 : x = k <;> by_cases h2 : x = k' <;> simp [Dict.set, h1, h2]

/-- the state after `merge_data` -/
def afterMerge (g : GState ℝ) : GState ℝ :=
  let r := Stog.mergeData (optsOf g.merged_opts) (toRows g.sq_individuals)
  { g with sq_individuals := ⟨r.1.x, r.1.y, r.1.dy⟩,
           q_master := (g.q_master.set "sq_title" r.2.1).set "qsq_minus_one_title" r.2.1,
           sq_master := (g.sq_master.set "qsq_minus_one_title" r.2.2.2).set "sq_title" r.2.2.1 }

theorem sorted_cols (g : GState ℝ) :
    (StogRt.Rows.cols ⟨g.sq_individuals.x, g.sq_individuals.y, g.sq_individuals.dy⟩).mergeSort (fun a b => decide (a.1 ≤ b.1))
      = Stog.sortPts (Stog.zip3 (toRows g.sq_individuals)) := rfl

theorem cols_unzip (l : List (ℝ × ℝ × ℝ)) :
    StogRt.Rows.cols ⟨l.map (·.1), l.map (·.2.1), l.map (·.2.2)⟩ = l := by
  induction l with
  | nil => rfl
  | cons a t ih =>
    simp only [StogRt.Rows.cols, List.map_cons, List.zip_cons_cons, List.zipWith_cons_cons] at ih ⊢
    rw [ih]

theorem asRowsT_ok (l : List (ℝ × ℝ × ℝ)) (h : l ≠ []) :
    asRowsT l = .ok ⟨l.map (·.1), l.map (·.2.1), l.map (·.2.2)⟩ := by
  cases l with
  | nil => exact absurd rfl h
  | cons a t => rfl

theorem merge_data_refines (g : GState ℝ) (hne : StogRt.Rows.cols g.sq_individuals ≠ []) :
    merge_data g = .ok (afterMerge g) := by
  have hs : Stog.sortPts (Stog.zip3 (toRows g.sq_individuals)) ≠ [] := by
    intro h
    apply hne
    have := congrArg List.length h
    simp only [Stog.sortPts, List.length_mergeSort, List.length_nil] at this
    exact List.eq_nil_of_length_eq_zero this
  have hemp : (Stog.sortPts (Stog.zip3 (toRows g.sq_individuals))).isEmpty = false := by
    cases h : Stog.sortPts (Stog.zip3 (toRows g.sq_individuals)) with
    | nil => exact absurd h hs
    | cons a t => rfl
  unfold merge_data
  simp only [sorted_cols, hemp, Bool.false_eq_true, if_false, pure_eq_ok, bind_ok, cols_unzip]
  have hf := loop_fold (Stog.sortPts (Stog.zip3 (toRows g.sq_individuals))) _ inv_init
  have hfin := finish_eq _ hf.2
  have h0 : (((0:Nat):ℝ), ((0:Nat):ℝ), ((0:Nat):ℝ), ([] : List (ℝ × ℝ × ℝ)), (none : Option ℝ)) = ((0:ℝ), (0:ℝ), (0:ℝ), [], none) := by
    simp
  rw [h0, hfin, hf.1]
  have hm : Stog.finishM (toAcc (ofAcc (List.foldl Stog.stepM (toAcc ((0:ℝ), (0:ℝ), (0:ℝ), [], none))
      (Stog.sortPts (Stog.zip3 (toRows g.sq_individuals)))))) = Stog.mergeSorted (Stog.sortPts (Stog.zip3 (toRows g.sq_individuals))) := by
    simp [Stog.mergeSorted, toAcc, ofAcc]
  rw [hm, asRowsT_ok _ (mergeSorted_ne_nil _ hs)]
  simp only [bind_ok, pure_eq_ok]
  have hsc : ∀ (x y dy : Vec ℝ) (a b c : ℝ), apply_scales_and_offset x y (some dy) a b c = Stog.applyScalesAndOffset x y dy a b c :=
    fun _ _ _ _ _ _ => rfl
  simp only [afterMerge, Stog.mergeData, Stog.postMerge, optsOf, hsc]
  generalize (g.merged_opts.Y.bind fun x => x.Scale) = sS
  generalize (g.merged_opts.Y.bind fun x => x.Offset) = sO
  cases hF : g.merged_opts.F with
  | none =>
    cases sS <;> cases sO <;>
      simp [hF, set_shadow, Stog.unzip3, noJunk_eq, nanToZero, toRows]
  | some f =>
    cases hY : f.Y with
    | none =>
      cases sS <;> cases sO <;>
        simp [hF, hY, set_shadow, Stog.unzip3, noJunk_eq, nanToZero, toRows]
    | some y =>
      cases hS : y.Scale <;> cases hO : y.Offset <;> cases sS <;> cases sO <;>
        simp [hF, hY, hS, hO, set_shadow, Stog.unzip3, noJunk_eq, nanToZero, toRows]

/-- with nothing stored, `merge_data` raises (the `zip(*ordered)` unpacking has nothing to unpack) -/
theorem merge_data_empty (g : GState ℝ) (h : StogRt.Rows.cols g.sq_individuals = []) : merge_data g = .error Err.valueError := by
  have hs : Stog.sortPts (Stog.zip3 (toRows g.sq_individuals)) = [] := by
    have : (Stog.sortPts (Stog.zip3 (toRows g.sq_individuals))).length = 0 := by
      simp only [Stog.sortPts, List.length_mergeSort]
      rw [← cols_eq, h]; rfl
    exact List.eq_nil_of_length_eq_zero this
  unfold merge_data
  simp only [sorted_cols, hs]
  rfl

/-- what `merge_data` leaves in the dictionaries, in the hand model's terms -/
theorem afterMerge_curves (g : GState ℝ) :
    (afterMerge g).q_master "sq_title" = some (Stog.mergeData (optsOf g.merged_opts) (toRows g.sq_individuals)).2.1 ∧
    (afterMerge g).sq_master "sq_title" = some (Stog.mergeData (optsOf g.merged_opts) (toRows g.sq_individuals)).2.2.1 ∧
    (afterMerge g).q_master "qsq_minus_one_title" = some (Stog.mergeData (optsOf g.merged_opts) (toRows g.sq_individuals)).2.1 ∧
    (afterMerge g).sq_master "qsq_minus_one_title" = some (Stog.mergeData (optsOf g.merged_opts) (toRows g.sq_individuals)).2.2.2 ∧
    toRows (afterMerge g).sq_individuals = (Stog.mergeData (optsOf g.merged_opts) (toRows g.sq_individuals)).1 := by
  refine ⟨by simp [afterMerge, Dict.set], by simp [afterMerge, Dict.set], by simp [afterMerge, Dict.set], by simp [afterMerge, Dict.set], rfl⟩

end RefineMerge
end
