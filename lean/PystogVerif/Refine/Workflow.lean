import PystogVerif.Gen.Stog
import PystogVerif.Model.Workflow
/-!
# Refinement: the code generated from `stog.py` (workflow methods) equals the hand-written state machine `Workflow`

Mathlib-free and polymorphic in the scalar type: the statements hold at `ℝ` (where C12's theorems live) and at `Float`
(where the hand model is compared with the real `StoG`).  Proofs are by unfolding only.
-/
namespace RefineWorkflow
open StogRt GenStog
variable {α : Type} [Add α] [Sub α] [Mul α] [Div α] [Neg α] [LT α] [LE α] [NatCast α]
  [DecidableLT α] [DecidableLE α] [Transc α] [Rint α]

/-- index of the selected real-space function in `RealSpaceChoices` -/
def rsfIndex (s : String) : Nat := if s = "g(r)" then 0 else if s = "G(r)" then 1 else 2

/-- the real-space-function setter only admits these -/
def ValidRsf (g : GState α) : Prop :=
  g.real_space_function = "g(r)" ∨ g.real_space_function = "G(r)" ∨ g.real_space_function = "GK(r)"

/-- the settings the hand model reads -/
def settingsOf (g : GState α) : Workflow.Settings α :=
  { rsf := rsfIndex g.real_space_function, rho := g.density, bcoh := g.bcoh_sqrd, lowq := g.low_q_correction,
    cutoff := g.fourier_filter_cutoff.getD ((0:Nat):α), dr := g.dr }

theorem noJunk_eq : (StogRt.noJunk : Junk α) = Workflow.noJunk := rfl

theorem transform_merged_refines (g : GState α) (q sq : Vec α)
    (hq : g.q_master "sq_title" = some q) (hs : g.sq_master "sq_title" = some sq) (hr : ValidRsf g) (hdr : g.dr ≠ []) :
    transform_merged g = .ok { g with
      gr_master := g.gr_master.set "gr_title" (Workflow.grCurve (settingsOf g) { sq := (q, sq) }).2,
      r_master := g.r_master.set "gr_title" (Workflow.grCurve (settingsOf g) { sq := (q, sq) }).1 } := by
  have hl : (g.dr.length == 0) = false := by
    cases h : g.dr with
    | nil => exact absurd h hdr
    | cons a t => rfl
  rcases hr with h | h | h <;>
    simp [transform_merged, Dict.get, hq, hs, hl, h, Workflow.grCurve, Workflow.sToX, settingsOf, rsfIndex,
      Workflow.kwTransform, Kw.none, noJunk_eq]
end RefineWorkflow
