import PystogVerif.Gen.Stog
import PystogVerif.Model.Workflow
/-!
# Refinement: the code generated from `stog.py` (workflow methods) equals the hand-written state machine `Workflow`

Mathlib-free and polymorphic in the scalar type: the statements hold at `ℝ` (where C12's theorems live) and at `Float`
(where the hand model is compared with the real `StoG`).  Proofs are by unfolding only.
-/
set_option linter.unusedSectionVars false
set_option linter.unusedSimpArgs false
namespace RefineWorkflow
open StogRt GenStog
variable {α : Type} [Add α] [Sub α] [Mul α] [Div α] [Neg α] [LT α] [LE α] [NatCast α]
  [DecidableLT α] [DecidableLE α] [Transc α] [Rint α]

/-- index of the selected real-space function in `RealSpaceChoices` -/
def rsfIndex (s : String) : Nat := if s = "g(r)" then 0 else if s = "G(r)" then 1 else 2

/-- the real-space-function setter only admits these -/
def ValidRsf (g : GState α) : Prop :=
  g.real_space_function = "g(r)" ∨ g.real_space_function = "G(r)" ∨ g.real_space_function = "GK(r)"

/-- the settings the hand model reads -/
def settingsOf (g : GState α) : Workflow.Settings α :=
  { rsf := rsfIndex g.real_space_function, rho := g.density, bcoh := g.bcoh_sqrd, lowq := g.low_q_correction,
    cutoff := g.fourier_filter_cutoff.getD ((0:Nat):α), dr := g.dr }

theorem noJunk_eq : (StogRt.noJunk : Junk α) = Workflow.noJunk := rfl

theorem transform_merged_refines (g : GState α) (q sq : Vec α)
    (hq : g.q_master "sq_title" = some q) (hs : g.sq_master "sq_title" = some sq) (hr : ValidRsf g) (hdr : g.dr ≠ []) :
    transform_merged g = .ok { g with
      gr_master := g.gr_master.set "gr_title" (Workflow.grCurve (settingsOf g) { sq := (q, sq) }).2,
      r_master := g.r_master.set "gr_title" (Workflow.grCurve (settingsOf g) { sq := (q, sq) }).1 } := by
  have hl : (g.dr.length == 0) = false := by
    cases h : g.dr with
    | nil => exact absurd h hdr
    | cons a t => rfl
  rcases hr with h | h | h <;>
    simp [transform_merged, Dict.get, hq, hs, hl, h, Workflow.grCurve, Workflow.sToX, settingsOf, rsfIndex,
      Workflow.kwTransform, Kw.none, noJunk_eq]

/-- what the filter primitive returns for the selected real-space function with the options `fourier_filter` builds -/
def filtOut (g : GState α) (r gr q sq : Vec α) (c : α) :=
  Workflow.filterX (rsfIndex g.real_space_function) (Workflow.kwFilter (settingsOf g)) r gr q sq c

/-- the state after `fourier_filter` when the merged real-space curve `(r, gr)` is already stored -/
def afterFilter (g : GState α) (r gr q sq : Vec α) (c : α) : GState α :=
  let o := filtOut g r gr q sq c
  let qft := Numpy.aroundV 2 o.1
  let sqft := Numpy.aroundV 16 o.2.1
  let q' := Numpy.aroundV 2 o.2.2.1
  let sq' := Numpy.aroundV 16 o.2.2.2.1
  let r' := o.2.2.2.2.1
  let gr' := o.2.2.2.2.2.1
  { g with q_master := (g.q_master.set "_ft_title" qft).set "sq_ft_title" q',
           sq_master := (g.sq_master.set "_ft_title" sqft).set "sq_ft_title" sq',
           r_master := g.r_master.set "gr_ft_title" r',
           gr_master := g.gr_master.set "gr_ft_title" gr',
           written := g.written ++ [⟨"ft.dat", qft, sqft⟩] ++ [⟨g.stem_name ++ "_ft.sq", q', sq'⟩] ++ [⟨g.stem_name ++ "_ft.gr", r', gr'⟩] }

theorem fourier_filter_refines (g : GState α) (r gr q sq : Vec α) (c : α)
    (hq : g.q_master "sq_title" = some q) (hs : g.sq_master "sq_title" = some sq)
    (hr' : g.r_master "gr_title" = some r) (hg : g.gr_master "gr_title" = some gr)
    (hc : g.fourier_filter_cutoff = some c) (hr : ValidRsf g) :
    fourier_filter g = .ok (afterFilter g r gr q sq c,
      (Numpy.aroundV 2 (filtOut g r gr q sq c).2.2.1, Numpy.aroundV 16 (filtOut g r gr q sq c).2.2.2.1,
       (filtOut g r gr q sq c).2.2.2.2.1, (filtOut g r gr q sq c).2.2.2.2.2.1)) := by
  rcases hr with h | h | h <;>
    simp [fourier_filter, write_out_ft, write_out_ft_sq, write_out_ft_gr, writeOut, afterFilter, filtOut, Dict.get, Dict.contains,
      Dict.set, reqNum, hq, hs, hr', hg, hc, h, Workflow.filterX, settingsOf, rsfIndex, Workflow.kwFilter, Kw.none, noJunk_eq]

/-- the state after `transform_merged` -/
def afterTransform (g : GState α) (q sq : Vec α) : GState α :=
  { g with gr_master := g.gr_master.set "gr_title" (Workflow.grCurve (settingsOf g) { sq := (q, sq) }).2,
           r_master := g.r_master.set "gr_title" (Workflow.grCurve (settingsOf g) { sq := (q, sq) }).1 }

/-- `fourier_filter` before any transform: transforms first, then filters the curve it just stored -/
theorem fourier_filter_refines_fresh (g : GState α) (q sq : Vec α) (c : α)
    (hq : g.q_master "sq_title" = some q) (hs : g.sq_master "sq_title" = some sq)
    (hg : g.gr_master "gr_title" = none) (hdr : g.dr ≠ [])
    (hc : g.fourier_filter_cutoff = some c) (hr : ValidRsf g) :
    fourier_filter g = fourier_filter (afterTransform g q sq) := by
  have ht := transform_merged_refines g q sq hq hs hr hdr
  have hr2 : ValidRsf (afterTransform g q sq) := hr
  rw [fourier_filter_refines (afterTransform g q sq) (Workflow.grCurve (settingsOf g) { sq := (q, sq) }).1
    (Workflow.grCurve (settingsOf g) { sq := (q, sq) }).2 q sq c hq hs (by simp [afterTransform]) (by simp [afterTransform]) hc hr2]
  unfold fourier_filter
  simp only [Dict.contains, hg, ht]
  rcases hr with h | h | h <;>
    simp [afterTransform, write_out_ft, write_out_ft_sq, write_out_ft_gr, writeOut, afterFilter, filtOut, Dict.get,
      Dict.set, reqNum, hq, hs, hc, h, Workflow.filterX, settingsOf, rsfIndex, Workflow.kwFilter, Kw.none, noJunk_eq]

def lorchOut (g : GState α) (q sq r : Vec α) :=
  Workflow.sToX (rsfIndex g.real_space_function) (Workflow.kwLorch (settingsOf g)) q sq r

def afterLorch (g : GState α) (q sq r : Vec α) : GState α :=
  { g with gr_master := g.gr_master.set "gr_lorch_title" (lorchOut g q sq r).2.1,
           r_master := g.r_master.set "gr_lorch_title" (lorchOut g q sq r).1,
           written := g.written ++ [⟨g.stem_name ++ "_ft_lorched.gr", (lorchOut g q sq r).1, (lorchOut g q sq r).2.1⟩] }

/-- `apply_lorch(q, sq, r)` -/
theorem apply_lorch_refines (g : GState α) (q sq r : Vec α) (hr : ValidRsf g) :
    apply_lorch g q sq r = .ok (afterLorch g q sq r, ((lorchOut g q sq r).1, (lorchOut g q sq r).2.1)) := by
  unfold afterLorch lorchOut
  rcases hr with h | h | h <;>
    simp [apply_lorch, write_out_lorched_gr, writeOut, Dict.get, Dict.set, h, Workflow.sToX, settingsOf, rsfIndex,
      Workflow.kwLorch, Kw.none, noJunk_eq]

def keenFq (g : GState α) (q sq : Vec α) : Vec α := (Converter.S_to_FK (Workflow.kwKeen (settingsOf g)) Workflow.noJunk q sq none).1

def afterKeenFq (g : GState α) (q sq : Vec α) : GState α :=
  { g with sq_master := g.sq_master.set "fq_title" (keenFq g q sq), q_master := g.q_master.set "fq_title" q,
           written := g.written ++ [⟨g.stem_name ++ "_rmc.fq", q, keenFq g q sq⟩] }

/-- `_add_keen_fq(q, sq)` -/
theorem add_keen_fq_refines (g : GState α) (q sq : Vec α) : _add_keen_fq g q sq = .ok (afterKeenFq g q sq) := by
  unfold afterKeenFq keenFq
  simp [_add_keen_fq, write_out_rmc_fq, writeOut, Dict.get, Dict.set, settingsOf, Workflow.kwKeen, Kw.none, noJunk_eq]

/-- the Keen G(r) of a curve of the selected real-space function -/
def keenGr (g : GState α) (r gr : Vec α) : Vec α :=
  if rsfIndex g.real_space_function == 0 then (Converter.g_to_GK (Workflow.kwKeen (settingsOf g)) Workflow.noJunk r gr none).1
  else if rsfIndex g.real_space_function == 1 then (Converter.G_to_GK (Workflow.kwKeen (settingsOf g)) Workflow.noJunk r gr none).1
  else gr

def afterKeenGr (g : GState α) (r gr : Vec α) : GState α :=
  { g with gr_master := g.gr_master.set "GKofR_title" (keenGr g r gr), r_master := g.r_master.set "GKofR_title" r,
           written := g.written ++ [⟨g.stem_name ++ "_rmc.gr", r, keenGr g r gr⟩] }

/-- `_add_keen_gr(r, gr)` -/
theorem add_keen_gr_refines (g : GState α) (r gr : Vec α) (hr : ValidRsf g) : _add_keen_gr g r gr = .ok (afterKeenGr g r gr) := by
  unfold afterKeenGr
  rcases hr with h | h | h <;>
    simp [_add_keen_gr, write_out_rmc_gr, writeOut, Dict.get, Dict.set, h, keenGr, settingsOf, rsfIndex, Workflow.kwKeen,
      Kw.none, noJunk_eq]

/-! ### The master dictionaries seen as the hand model's state -/

def curve (x y : Dict (Vec α)) (k : String) : Option (Workflow.Curve α) :=
  match x k, y k with
  | some a, some b => some (a, b)
  | _, _ => none

/-- abstraction: the named curves of the four dictionaries (`q`, `sq` = the merged S(Q), which every step reads) -/
def abs (g : GState α) (q sq : Vec α) : Workflow.State α :=
  { sq := (q, sq),
    gr := curve g.r_master g.gr_master "gr_title",
    ft := curve g.q_master g.sq_master "_ft_title",
    sqFt := curve g.q_master g.sq_master "sq_ft_title",
    grFt := curve g.r_master g.gr_master "gr_ft_title",
    grLorch := curve g.r_master g.gr_master "gr_lorch_title",
    fqKeen := curve g.q_master g.sq_master "fq_title",
    gkKeen := curve g.r_master g.gr_master "GKofR_title" }

/-- the settings do not change along the workflow -/
theorem settingsOf_with (g g' : GState α) (h1 : g'.real_space_function = g.real_space_function) (h2 : g'.density = g.density)
    (h3 : g'.bcoh_sqrd = g.bcoh_sqrd) (h4 : g'.low_q_correction = g.low_q_correction)
    (h5 : g'.fourier_filter_cutoff = g.fourier_filter_cutoff) (h6 : g'.dr = g.dr) : settingsOf g' = settingsOf g := by
  simp [settingsOf, h1, h2, h3, h4, h5, h6]

/-- simulation, transform step -/
theorem abs_transform_merged (g : GState α) (q sq : Vec α)
    (hq : g.q_master "sq_title" = some q) (hs : g.sq_master "sq_title" = some sq) (hr : ValidRsf g) (hdr : g.dr ≠ []) :
    ∃ g', transform_merged g = .ok g' ∧ abs g' q sq = Workflow.transformMerged (settingsOf g) (abs g q sq) ∧
      settingsOf g' = settingsOf g ∧ g'.q_master "sq_title" = some q ∧ g'.sq_master "sq_title" = some sq := by
  refine ⟨_, transform_merged_refines g q sq hq hs hr hdr, ?_, rfl, hq, hs⟩
  simp [abs, curve, Workflow.transformMerged, Dict.set, Workflow.grCurve]

/-- simulation, filter step (merged real-space curve stored) -/
theorem abs_fourier_filter (g : GState α) (r gr q sq : Vec α) (c : α)
    (hq : g.q_master "sq_title" = some q) (hs : g.sq_master "sq_title" = some sq)
    (hr' : g.r_master "gr_title" = some r) (hg : g.gr_master "gr_title" = some gr)
    (hc : g.fourier_filter_cutoff = some c) (hr : ValidRsf g) :
    ∃ g' ret, fourier_filter g = .ok (g', ret) ∧ abs g' q sq = Workflow.fourierFilter (settingsOf g) (abs g q sq) ∧
      settingsOf g' = settingsOf g := by
  refine ⟨_, _, fourier_filter_refines g r gr q sq c hq hs hr' hg hc hr, ?_, rfl⟩
  simp [abs, curve, afterFilter, filtOut, Workflow.fourierFilter, Workflow.filterCore, Dict.set, hr', hg, settingsOf, hc]

/-! ### Simulation of arbitrary operation sequences -/

/-- the two dictionaries of each space always hold the same titles -/
def Aligned (g : GState α) : Prop :=
  ∀ k, ((g.r_master k).isSome = (g.gr_master k).isSome) ∧ ((g.q_master k).isSome = (g.sq_master k).isSome)

/-- what the workflow relies on: merged S(Q) stored, a valid real-space function, a non-empty r grid, a cutoff -/
structure Inv (g : GState α) (q sq : Vec α) (c : α) : Prop where
  hq : g.q_master "sq_title" = some q
  hs : g.sq_master "sq_title" = some sq
  hr : ValidRsf g
  hdr : g.dr ≠ []
  hc : g.fourier_filter_cutoff = some c
  al : Aligned g

/-- one workflow operation on the generated code, with the data arguments taken the way `cli.py` takes them -/
def gstep (g : GState α) (q sq : Vec α) : Workflow.Op → Except Err (GState α)
  | .transform => transform_merged g
  | .filter => (fourier_filter g).map Prod.fst
  | .lorch =>
      let st := abs g q sq
      (apply_lorch g (Workflow.curQS st).1 (Workflow.curQS st).2 (Workflow.curR (settingsOf g) st)).map Prod.fst
  | .keenFq => let st := abs g q sq; _add_keen_fq g (Workflow.curQS st).1 (Workflow.curQS st).2
  | .keenGr => match Workflow.curG (abs g q sq) with
      | some c => _add_keen_gr g c.1 c.2
      | none => .ok g

theorem curve_none_iff (g : GState α) (h : Aligned g) (k : String) : curve g.r_master g.gr_master k = none ↔ g.gr_master k = none := by
  have := (h k).1
  unfold curve
  cases h1 : g.r_master k <;> cases h2 : g.gr_master k <;> simp_all

theorem aligned_of (g g' : GState α) (h : Aligned g)
    (hr : ∀ k, (g'.r_master k).isSome = (g'.gr_master k).isSome ∨ (g'.r_master k = g.r_master k ∧ g'.gr_master k = g.gr_master k))
    (hq : ∀ k, (g'.q_master k).isSome = (g'.sq_master k).isSome ∨ (g'.q_master k = g.q_master k ∧ g'.sq_master k = g.sq_master k)) :
    Aligned g' := by
  intro k
  refine ⟨?_, ?_⟩
  · rcases hr k with h1 | ⟨h1, h2⟩
    · exact h1
    · rw [h1, h2]; exact (h k).1
  · rcases hq k with h1 | ⟨h1, h2⟩
    · exact h1
    · rw [h1, h2]; exact (h k).2

/-- setting the same key in both dictionaries of a pair keeps them aligned -/
theorem set_pair {β : Type} (a b : Dict β) (k0 : String) (v w : β) (k : String) :
    ((a.set k0 v) k).isSome = ((b.set k0 w) k).isSome ∨ ((a.set k0 v) k = a k ∧ (b.set k0 w) k = b k) := by
  by_cases hk : k = k0
  · left; subst hk; simp [Dict.set]
  · right; simp [Dict.set, hk]

theorem aligned_filter (g : GState α) (r gr q sq : Vec α) (c : α) (al : Aligned g) : Aligned (afterFilter g r gr q sq c) := by
  intro k
  have h := al k
  refine ⟨?_, ?_⟩
  · by_cases hk : k = "gr_ft_title"
    · subst hk; simp [afterFilter, Dict.set]
    · simp [afterFilter, Dict.set, hk, h.1]
  · by_cases hk : k = "sq_ft_title"
    · subst hk; simp [afterFilter, Dict.set]
    · by_cases hk2 : k = "_ft_title"
      · subst hk2; simp [afterFilter, Dict.set]
      · simp [afterFilter, Dict.set, hk, hk2, h.2]

/-- every operation succeeds on a state satisfying `Inv`, keeps `Inv`, and its effect on the named curves is the hand model's step -/
theorem gstep_simulates (g : GState α) (q sq : Vec α) (c : α) (h : Inv g q sq c) (op : Workflow.Op) :
    ∃ g', gstep g q sq op = .ok g' ∧ abs g' q sq = Workflow.step (settingsOf g) (abs g q sq) op ∧
      settingsOf g' = settingsOf g ∧ Inv g' q sq c := by
  obtain ⟨hq, hs, hr, hdr, hc, al⟩ := h
  cases op with
  | transform =>
    refine ⟨afterTransform g q sq, transform_merged_refines g q sq hq hs hr hdr, ?_, rfl, ⟨hq, hs, hr, hdr, hc, ?_⟩⟩
    · simp [abs, curve, afterTransform, Workflow.step, Workflow.transformMerged, Dict.set, Workflow.grCurve]
    · exact aligned_of g _ al (fun k => set_pair _ _ _ _ _ k) (fun k => Or.inr ⟨rfl, rfl⟩)
  | filter =>
    cases hg : g.gr_master "gr_title" with
    | some gr =>
      have hsome : (g.r_master "gr_title").isSome = true := by rw [(al "gr_title").1, hg]; rfl
      obtain ⟨r, hr'⟩ := Option.isSome_iff_exists.mp hsome
      refine ⟨afterFilter g r gr q sq c, ?_, ?_, rfl, ⟨?_, ?_, hr, hdr, hc, ?_⟩⟩
      · simp [gstep, fourier_filter_refines g r gr q sq c hq hs hr' hg hc hr, Except.map]
      · simp [abs, curve, afterFilter, filtOut, Workflow.step, Workflow.fourierFilter, Workflow.filterCore, Dict.set, hr', hg,
          settingsOf, hc]
      · simp [afterFilter, Dict.set, hq]
      · simp [afterFilter, Dict.set, hs]
      · exact aligned_filter g r gr q sq c al
    | none =>
      have hr2 : ValidRsf (afterTransform g q sq) := hr
      have hf := fourier_filter_refines (afterTransform g q sq) (Workflow.grCurve (settingsOf g) { sq := (q, sq) }).1
        (Workflow.grCurve (settingsOf g) { sq := (q, sq) }).2 q sq c hq hs (by simp [afterTransform]) (by simp [afterTransform]) hc hr2
      have hgr : (abs g q sq).gr = none := by
        simp only [abs]; exact (curve_none_iff g al "gr_title").mpr hg
      refine ⟨afterFilter (afterTransform g q sq) (Workflow.grCurve (settingsOf g) { sq := (q, sq) }).1
        (Workflow.grCurve (settingsOf g) { sq := (q, sq) }).2 q sq c, ?_, ?_, rfl, ⟨?_, ?_, hr, hdr, hc, ?_⟩⟩
      · simp [gstep, fourier_filter_refines_fresh g q sq c hq hs hg hdr hc hr, hf, Except.map]
      · simp only [Workflow.step, Workflow.fourierFilter, hgr]
        simp [abs, curve, afterFilter, afterTransform, filtOut, Workflow.filterCore, Workflow.transformMerged, Dict.set,
          settingsOf, hc, Workflow.grCurve]
      · simp [afterFilter, afterTransform, Dict.set, hq]
      · simp [afterFilter, afterTransform, Dict.set, hs]
      · exact aligned_filter _ _ _ q sq c (aligned_of g _ al (fun k => set_pair _ _ _ _ _ k) (fun k => Or.inr ⟨rfl, rfl⟩))
  | lorch =>
    refine ⟨afterLorch g (Workflow.curQS (abs g q sq)).1 (Workflow.curQS (abs g q sq)).2 (Workflow.curR (settingsOf g) (abs g q sq)),
      ?_, ?_, rfl, ⟨?_, ?_, hr, hdr, hc, ?_⟩⟩
    · simp only [gstep, apply_lorch_refines g _ _ _ hr, Except.map]
    · simp [abs, curve, afterLorch, lorchOut, Workflow.step, Workflow.applyLorch, Dict.set, settingsOf]
    · simp [afterLorch, Dict.set, hq]
    · simp [afterLorch, Dict.set, hs]
    · exact aligned_of g _ al (fun k => set_pair _ _ _ _ _ k) (fun k => Or.inr ⟨rfl, rfl⟩)
  | keenFq =>
    refine ⟨afterKeenFq g (Workflow.curQS (abs g q sq)).1 (Workflow.curQS (abs g q sq)).2, ?_, ?_, rfl, ⟨?_, ?_, hr, hdr, hc, ?_⟩⟩
    · simp only [gstep, add_keen_fq_refines]
    · simp [abs, curve, afterKeenFq, keenFq, Workflow.step, Workflow.addKeenFq, Dict.set, settingsOf]
    · simp [afterKeenFq, Dict.set, hq]
    · simp [afterKeenFq, Dict.set, hs]
    · exact aligned_of g _ al (fun k => Or.inr ⟨rfl, rfl⟩) (fun k => set_pair _ _ _ _ _ k)
  | keenGr =>
    cases hcg : Workflow.curG (abs g q sq) with
    | none => exact ⟨g, by simp [gstep, hcg], by simp [Workflow.step, hcg], rfl, ⟨hq, hs, hr, hdr, hc, al⟩⟩
    | some cv =>
      refine ⟨afterKeenGr g cv.1 cv.2, ?_, ?_, rfl, ⟨?_, ?_, hr, hdr, hc, ?_⟩⟩
      · simp only [gstep, hcg, add_keen_gr_refines g _ _ hr]
      · simp only [Workflow.step, hcg]
        simp [abs, curve, afterKeenGr, Workflow.addKeenGr, keenGr, Dict.set, settingsOf]
      · simp [afterKeenGr, Dict.set, hq]
      · simp [afterKeenGr, Dict.set, hs]
      · exact aligned_of g _ al (fun k => set_pair _ _ _ _ _ k) (fun k => Or.inr ⟨rfl, rfl⟩)

/-- a sequence of operations on the generated code -/
def grun (g : GState α) (q sq : Vec α) : List Workflow.Op → Except Err (GState α)
  | [] => .ok g
  | op :: ops => gstep g q sq op >>= fun g' => grun g' q sq ops

/-- **Refinement of the workflow**: on every state satisfying `Inv`, every sequence of operations of the code generated from
    stog.py succeeds and leaves exactly the named curves that the hand-written state machine `Workflow.run` computes -/
theorem grun_simulates (ops : List Workflow.Op) (g : GState α) (q sq : Vec α) (c : α) (h : Inv g q sq c) :
    ∃ g', grun g q sq ops = .ok g' ∧ abs g' q sq = Workflow.run (settingsOf g) (abs g q sq) ops ∧ Inv g' q sq c := by
  induction ops generalizing g with
  | nil => exact ⟨g, rfl, rfl, h⟩
  | cons op t ih =>
    obtain ⟨g₁, h1, h2, h3, h4⟩ := gstep_simulates g q sq c h op
    obtain ⟨g₂, k1, k2, k3⟩ := ih g₁ h4
    refine ⟨g₂, by simp [grun, h1, k1], ?_, k3⟩
    simp only [Workflow.run, List.foldl_cons] at k2 ⊢
    rw [k2, h2, h3]
end RefineWorkflow
