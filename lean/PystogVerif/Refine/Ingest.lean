import PystogVerif.Gen.Stog
import PystogVerif.Model.Stog
/-!
# Refinement: the code generated from `StoG.add_dataset` / `apply_scales_and_offset` equals the hand-written ingestion model `Stog`

Mathlib-free, polymorphic in the scalar type (valid at ℝ and at Float).
-/
set_option linter.unusedSectionVars false
set_option linter.unusedSimpArgs false
namespace RefineIngest
open StogRt GenStog
variable {α : Type} [Add α] [Sub α] [Mul α] [Div α] [Neg α] [LT α] [LE α] [NatCast α]
  [DecidableLT α] [DecidableLE α] [Transc α] [Rint α]

/-- index of a reciprocal-space function name in `ReciprocalSpaceChoices` (0 for S(Q)) -/
def kindIndex (s : String) : Nat := if s = "Q[S(Q)-1]" then 1 else if s = "FK(Q)" then 2 else if s = "DCS(Q)" then 3 else 0

/-- the dataset dictionary as the hand model reads it -/
def toInfo (i : StogRt.Info α) : Stog.Info α :=
  { x := i.data.x, y := i.data.y, dy := i.data.dy, qmin := i.Qmin, qmax := i.Qmax, hasY := i.Y.isSome, hasX := i.X.isSome,
    yscale := i.Y.bind (·.Scale), yoffset := i.Y.bind (·.Offset), xoffset := i.X.bind (·.Offset),
    kind := kindIndex (i.ReciprocalFunction.getD "S(Q)") }

def cfgOf (g : GState α) : Stog.Cfg α := { qmin := g.qmin, qmax := g.qmax, bcoh := g.bcoh_sqrd, btot := g.btot_sqrd }

def toRows (r : StogRt.Rows α) : Stog.Rows α := ⟨r.x, r.y, r.dy⟩

theorem noJunk_eq : (StogRt.noJunk : Junk α) = Stog.noJunk := rfl

/-- `apply_scales_and_offset` (generated) = the hand model's -/
theorem apply_scales_refines (x y dy : Vec α) (a b c : α) :
    apply_scales_and_offset x y (some dy) a b c = Stog.applyScalesAndOffset x y dy a b c := rfl

/-- the per-dataset window limits -/
def lo (i : StogRt.Info α) : α := Option.getD i.Qmin (Vec.min (Numpy.aroundV 2 i.data.x))
def hi (i : StogRt.Info α) : α := Option.getD i.Qmax (Vec.max (Numpy.aroundV 2 i.data.x))

/-- the state after a successful `add_dataset` -/
def afterAdd (g : GState α) (i : StogRt.Info α) : GState α :=
  let r := Stog.datasetRows (cfgOf g) (toInfo i)
  { g with xmin := (if lo i < g.xmin then lo i else g.xmin),
           xmax := (if g.xmax < hi i then hi i else g.xmax),
           reciprocal_individuals := Rows.concat g.reciprocal_individuals r.1.x r.1.y r.1.dy,
           sq_individuals := Rows.concat g.sq_individuals r.2.x r.2.y r.2.dy }

def ValidKind (i : StogRt.Info α) : Prop :=
  i.ReciprocalFunction = none ∨ i.ReciprocalFunction = some "S(Q)" ∨ i.ReciprocalFunction = some "Q[S(Q)-1]" ∨
  i.ReciprocalFunction = some "FK(Q)" ∨ i.ReciprocalFunction = some "DCS(Q)"

theorem cropStage_eq (i : StogRt.Info α) :
    Stog.cropStage (toInfo i) =
      (let x := Numpy.aroundV 2 i.data.x
       let y := Numpy.aroundV 16 i.data.y
       let dy := (match i.data.dy with | some d => Numpy.aroundV 16 d | none => Vec.zerosLike y)
       let c := Transformer.apply_cropping (Kw.none : Kw α) Stog.noJunk x y (lo i) (hi i) (some dy)
       (⟨c.1, c.2.1, c.2.2⟩ : Stog.Rows α)) := by
  simp only [Stog.cropStage, Stog.roundedDy, toInfo, Stog.orElse, lo, hi]
  cases i.data.dy <;> cases i.Qmin <;> cases i.Qmax <;> rfl

theorem add_dataset_refines (g : GState α) (i : StogRt.Info α) (hk : ValidKind i) :
    add_dataset g i ((1:Nat):α) ((0:Nat):α) ((0:Nat):α) 16 = .ok (afterAdd g i) := by
  unfold afterAdd Stog.datasetRows
  rw [cropStage_eq]
  rcases hk with h | h | h | h | h <;>
  cases hy : i.Y <;> cases hx : i.X <;> cases hq1 : g.qmin <;> cases hq2 : g.qmax <;>
    simp [add_dataset, apply_scales_refines, Stog.adjustStage, Stog.globalStage, Stog.toSq, toInfo, cfgOf, kindIndex, lo, hi, h, hy, hx,
      hq1, hq2, reqNum, reqKey, ReciprocalSpaceChoices, Rows.concat, Stog.orElse, Stog.compressRows, cropFrom, cropUpTo, noJunk_eq, Kw.none] <;>
    (try (repeat' apply And.intro)) <;> rfl

/-- a dataset whose kind is not one of the four choices is rejected with ValueError -/
theorem add_dataset_rejects (g : GState α) (i : StogRt.Info α) (k : String) (h : i.ReciprocalFunction = some k)
    (hk : k ≠ "S(Q)" ∧ k ≠ "Q[S(Q)-1]" ∧ k ≠ "FK(Q)" ∧ k ≠ "DCS(Q)") :
    add_dataset g i ((1:Nat):α) ((0:Nat):α) ((0:Nat):α) 16 = .error Err.valueError := by
  obtain ⟨h1, h2, h3, h4⟩ := hk
  cases hq1 : g.qmin <;> cases hq2 : g.qmax <;>
    simp [add_dataset, h, hq1, hq2, reqNum, reqKey, ReciprocalSpaceChoices, h1, h2, h3, h4]

/-- both storage arrays after a successful `add_dataset` are the hand model's `addDataset` -/
theorem afterAdd_stores (g : GState α) (i : StogRt.Info α) :
    (toRows (afterAdd g i).reciprocal_individuals, toRows (afterAdd g i).sq_individuals) =
      Stog.addDataset (cfgOf g) (toRows g.reciprocal_individuals, toRows g.sq_individuals) (toInfo i) := rfl

theorem afterAdd_cfg (g : GState α) (i : StogRt.Info α) : cfgOf (afterAdd g i) = cfgOf g := rfl

/-- adding a list of datasets with the generated code -/
def gingest (g : GState α) : List (StogRt.Info α) → Except Err (GState α)
  | [] => .ok g
  | i :: is => add_dataset g i ((1:Nat):α) ((0:Nat):α) ((0:Nat):α) 16 >>= fun g' => gingest g' is

/-- **Refinement of ingestion**: any list of datasets of valid kinds is ingested without error and both storage arrays are
    what the hand model's fold of `addDataset` gives; the ingestion settings are unchanged -/
theorem gingest_refines (is : List (StogRt.Info α)) (g : GState α) (h : ∀ i ∈ is, ValidKind i) :
    ∃ g', gingest g is = .ok g' ∧ cfgOf g' = cfgOf g ∧
      (toRows g'.reciprocal_individuals, toRows g'.sq_individuals) =
        (is.map toInfo).foldl (Stog.addDataset (cfgOf g)) (toRows g.reciprocal_individuals, toRows g.sq_individuals) := by
  induction is generalizing g with
  | nil => exact ⟨g, rfl, rfl, rfl⟩
  | cons i t ih =>
    obtain ⟨g', h1, h2, h3⟩ := ih (afterAdd g i) (fun j hj => h j (List.mem_cons_of_mem _ hj))
    refine ⟨g', ?_, by rw [h2, afterAdd_cfg], ?_⟩
    · simp [gingest, add_dataset_refines g i (h i (List.mem_cons_self)), h1]
    · rw [h3, afterAdd_cfg, afterAdd_stores]; rfl
end RefineIngest
