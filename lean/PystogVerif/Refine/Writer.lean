import PystogVerif.Gen.StogWriter

/-!
# `_write_out_to_file` regenerated from stog.py equals the hand model `Writer.fileText`

The generated function is the concatenation of what the `with open(...)` blocks write, in source order, with every literal, the
`%d` header, the field order of the row format and the default `places` read from the source; the hand model builds the same file as a list
of lines.  Mathlib-free.
-/
namespace RefineWriter
open Writer

theorem rows_flatten (f : UInt64 → UInt64 → List Char) : ∀ (xs ys : List UInt64),
    (List.zipWith (fun a b => f a b ++ ['\n']) xs ys).flatten = (List.zipWith f xs ys).flatMap (· ++ ['\n'])
  | [], _ => by simp
  | _ :: _, [] => by simp
  | a :: xs, b :: ys => by simp [rows_flatten f xs ys]

/-- the text written by the code of the current tree is the hand model's file, for all columns (equal length or not) -/
theorem write_out_to_file_text_refines (xs ys : List UInt64) : GenStog.write_out_to_file_text xs ys = fileText xs ys := by
  unfold GenStog.write_out_to_file_text fileText fileLines pctD
  have h := rows_flatten (fun a b => fmt12 a ++ [' '] ++ fmt12 b) xs ys
  simp only [List.flatMap_cons, fmtFixed_twelve]
  rw [← h]
  simp [List.append_assoc]

/-- with another number of places only the number formatting changes -/
theorem write_out_to_file_text_places (p : Nat) (xs ys : List UInt64) :
    GenStog.write_out_to_file_text xs ys p = (natDigits xs.length ++ " \n".toList) ++ "# Comment line\n".toList ++
      (List.zipWith (fun a b => fmtFixed p a ++ [' '] ++ fmtFixed p b ++ ['\n']) xs ys).flatten := by
  unfold GenStog.write_out_to_file_text pctD
  simp [List.append_assoc]

end RefineWriter
