import PystogVerif.Model.Numpy
/-!
# Hand-written model of `Pre_Proc.rebin` (pre_proc.py)

The Python accumulates into two arrays in one pass over the input; bin `k` of `yout`/`ynorm` receives, in input order,
`y·scale1` from the points whose bin index is `k` and `y·scale2` from those whose bin index is `k−1`.  The model computes
each bin by a left fold over the input in the same order, so the Float reading performs the same additions.
-/
namespace Rebin
variable {α : Type} [Add α] [Sub α] [Mul α] [Div α] [Neg α] [LT α] [LE α] [NatCast α]
  [DecidableLT α] [DecidableLE α] [Transc α] [Rint α]

def numpts (xmin xdiv xmax : α) : Nat := Rint.toNat ((xmax - xmin) / xdiv) + 1
def gridPt (xmin xdiv : α) (k : Nat) : α := xmin + ((k : Nat) : α) * xdiv
def grid (xmin xdiv xmax : α) : Vec α := (List.range (numpts xmin xdiv xmax)).map (gridPt xmin xdiv)

def inRange (xmin xmax x : α) : Bool := decide (xmin ≤ x) && decide (x ≤ xmax)
def binIndex (xmin xdiv x : α) : Nat := Rint.toNat ((x - xmin) / xdiv)
def scale1 (xmin xdiv x : α) : α := ((1:Nat):α) - (x - gridPt xmin xdiv (binIndex xmin xdiv x)) / xdiv
def scale2 (xmin xdiv x : α) : α := ((1:Nat):α) - scale1 xmin xdiv x

/-- weight with which input abscissa `x` enters bin `k` (none = does not enter) -/
def weightTo (xmin xdiv xmax : α) (k : Nat) (x : α) : Option α :=
  if inRange xmin xmax x then
    if binIndex xmin xdiv x = k then some (scale1 xmin xdiv x)
    else if binIndex xmin xdiv x + 1 = k then some (scale2 xmin xdiv x)
    else none
  else none

/-- accumulated (Σ y·w, Σ w) of bin `k`, in input order -/
def accumStep (xmin xdiv xmax : α) (k : Nat) (acc : α × α) (p : α × α) : α × α :=
  match weightTo xmin xdiv xmax k p.1 with
  | some w => (acc.1 + p.2 * w, acc.2 + w)
  | none => acc

def accum (xmin xdiv xmax : α) (k : Nat) (pts : List (α × α)) : α × α :=
  pts.foldl (accumStep xmin xdiv xmax k) (((0:Nat):α), ((0:Nat):α))

/-- `Pre_Proc.rebin`: (grid, yout[:-1]) -/
def rebin (x y : Vec α) (xmin xdiv xmax : α) : Vec α × Vec α :=
  (grid xmin xdiv xmax,
   (List.range (numpts xmin xdiv xmax)).map (fun k => let a := accum xmin xdiv xmax k (x.zip y); a.1 / a.2))
end Rebin
