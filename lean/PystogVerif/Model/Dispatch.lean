import PystogVerif.Driver
import PystogVerif.Model.Stog
import PystogVerif.Model.Rebin
import PystogVerif.Model.Writer
import PystogVerif.Model.Workflow
import PystogVerif.Model.Config
import PystogVerif.Model.Fortran
/-! Driver entry points of the hand-written models (Float reading) -/

def flag (x : Float) : Bool := x != 0.0

def Model.dispatch (name : String) (a : Array Arg) : Except String (List (List Float)) :=
  match name with
  | "Stog.datasetRows" => do
      let cfg : Stog.Cfg Float := { qmin := ← Arg.getOScalar a 0, qmax := ← Arg.getOScalar a 1, bcoh := ← Arg.getScalar a 2, btot := ← Arg.getScalar a 3 }
      let info : Stog.Info Float := {
        x := ← Arg.getVec a 4, y := ← Arg.getVec a 5, dy := ← Arg.getOVec a 6, qmin := ← Arg.getOScalar a 7, qmax := ← Arg.getOScalar a 8,
        hasY := flag (← Arg.getScalar a 9), hasX := flag (← Arg.getScalar a 10), yscale := ← Arg.getOScalar a 11,
        yoffset := ← Arg.getOScalar a 12, xoffset := ← Arg.getOScalar a 13, kind := (← Arg.getScalar a 14).toUInt64.toNat }
      let r := Stog.datasetRows cfg info
      pure [r.1.x, r.1.y, r.1.dy, r.2.x, r.2.y, r.2.dy]
  | "Stog.mergeData" => do
      let opts : Stog.MergeOpts Float := { sScale := ← Arg.getOScalar a 0, sOffset := ← Arg.getOScalar a 1, fScale := ← Arg.getOScalar a 2, fOffset := ← Arg.getOScalar a 3 }
      let sq : Stog.Rows Float := ⟨← Arg.getVec a 4, ← Arg.getVec a 5, ← Arg.getVec a 6⟩
      let r := Stog.mergeData opts sq
      pure [r.1.x, r.1.y, r.1.dy, r.2.1, r.2.2.1, r.2.2.2]
  | "Model.rebin" => do
      let r := Rebin.rebin (← Arg.getVec a 0) (← Arg.getVec a 1) (← Arg.getScalar a 2) (← Arg.getScalar a 3) (← Arg.getScalar a 4)
      pure [r.1, r.2]
  | "Model.fileText" => do
      -- returns the bytes of the file as numbers (all characters are ASCII)
      let xs := (← Arg.getVec a 0).map Float.toBits
      let ys := (← Arg.getVec a 1).map Float.toBits
      pure [(Writer.fileText xs ys).map (fun c => Float.ofNat c.toNat)]
  | "Model.readBack" => do
      -- (sign, round(|v|*10^12)) for both columns of the file written for x, y; -1 marks a parse failure
      let xs := (← Arg.getVec a 0).map Float.toBits
      let ys := (← Arg.getVec a 1).map Float.toBits
      let rows := Writer.readRows (Writer.fileLines xs ys)
      let enc : Option (Bool × Nat) → List Float := fun o => match o with
        | some (s, n) => [if s then 1.0 else 0.0, Float.ofNat (n / 10^12), Float.ofNat (n % 10^12)]
        | Option.none => [-1.0, -1.0, -1.0]
      pure [rows.flatMap (fun r => enc r.1), rows.flatMap (fun r => enc r.2)]
  | "Wf.run" => do
      let rsf := (← Arg.getScalar a 0).toUInt64.toNat
      let rho ← Arg.getScalar a 1
      let bcoh ← Arg.getScalar a 2
      let lowq := flag (← Arg.getScalar a 3)
      let cutoff ← Arg.getScalar a 4
      let dr ← Arg.getVec a 5
      let s : Workflow.Settings Float := { rsf := rsf, rho := rho, bcoh := bcoh, lowq := lowq, cutoff := cutoff, dr := dr }
      let st0 : Workflow.State Float := { sq := (← Arg.getVec a 6, ← Arg.getVec a 7) }
      let ops := (← Arg.getVec a 8).map (fun c => match c.toUInt64.toNat with
        | 0 => Workflow.Op.transform | 1 => Workflow.Op.filter | 2 => Workflow.Op.lorch | 3 => Workflow.Op.keenFq | _ => Workflow.Op.keenGr)
      let st := Workflow.run s st0 ops
      let enc : Option (Workflow.Curve Float) → List (List Float) := fun o => match o with
        | some c => [[1.0], c.1, c.2] | Option.none => [[0.0], [], []]
      pure ([st.sq.1, st.sq.2] ++ enc st.gr ++ enc st.ft ++ enc st.sqFt ++ enc st.grFt ++ enc st.grLorch ++ enc st.fqKeen ++ enc st.gkKeen)
  | "Cfg.domain" => do
      pure [Config.createDomain (← Arg.getScalar a 0) (← Arg.getScalar a 1) (← Arg.getScalar a 2)]
  | "Cfg.settings" => do
      -- PyVal encoded as a vector [tag, value]: 0 none, 1 bool, 2 num, 3 str; absent key = "-"
      let pv : Nat → Except String (Option (Config.PyVal Float)) := fun i => do
        match ← Arg.getOVec a i with
        | Option.none => pure Option.none
        | some [t, v] => pure (some (if t == 0.0 then Config.PyVal.none else if t == 1.0 then Config.PyVal.bool (v != 0.0)
                                      else if t == 2.0 then Config.PyVal.num v else Config.PyVal.str))
        | _ => throw "bad PyVal"
      let nat? : Nat → Except String (Option Nat) := fun i => do
        pure ((← Arg.getOScalar a i).map (fun x => x.toUInt64.toNat))
      let k : Config.Kwargs Float := {
        nFiles := (← Arg.getScalar a 0).toUInt64.toNat, rsf := ← nat? 1, rmin := ← Arg.getOScalar a 2, rmax := ← Arg.getOScalar a 3,
        rdelta := ← Arg.getOScalar a 4, rpoints := ← Arg.getOScalar a 5, density := ← pv 6, lowq := ← pv 7, lorch := ← pv 8,
        hasFF := flag (← Arg.getScalar a 9), cutoff := ← pv 10, bcoh := ← Arg.getOScalar a 11, btot := ← Arg.getOScalar a 12,
        qmin := ← Arg.getOScalar a 13, qmax := ← Arg.getOScalar a 14, stem := ← nat? 15 }
      let encPv : Config.PyVal Float → List Float := fun v => match v with
        | .none => [0.0, 0.0] | .bool b => [1.0, if b then 1.0 else 0.0] | .num x => [2.0, x] | .str => [3.0, 0.0]
      let oenc : Option Float → List Float := fun o => match o with | some x => [1.0, x] | Option.none => [0.0, 0.0]
      match Config.settings k with
      | .error e => pure [[match e with | .valueError => 1.0 | .typeError => 2.0 | .noFiles => 3.0]]
      | .ok s =>
        let steps := match Config.cliSteps k with
          | .ok l => l.map (fun st => match st with
              | .readAll => 0.0 | .merge => 1.0 | .writeSq => 2.0 | .transform => 3.0 | .writeGr => 4.0 | .filter => 5.0
              | .lorch => 6.0 | .keenFq => 7.0 | .keenGr => 8.0)
          | .error _ => [-1.0]
        let files := match Config.cliSteps k with
          | .ok l => (l.flatMap Config.filesOf).map (fun n => Float.ofNat n)
          | .error _ => []
        pure [[0.0], [Float.ofNat s.rsf, s.rmin, s.rmax, s.rdelta, if s.lowq then 1.0 else 0.0, if s.lorch then 1.0 else 0.0, s.bcoh, s.btot],
              encPv s.density, encPv s.cutoff, oenc s.qmin, oenc s.qmax, (match s.stem with | some n => [Float.ofNat n] | Option.none => [0.0]),
              steps, files, Config.createDomain s.rmin s.rmax s.rdelta]
  | "Model.stogBit" => do
      let r := Fortran.stogBit (← Arg.getVec a 0) (← Arg.getVec a 1) (← Arg.getScalar a 2).toUInt64.toNat (← Arg.getScalar a 3)
        (← Arg.getScalar a 4) (flag (← Arg.getScalar a 5))
      pure [r.1, r.2]
  | _ => throw "unknown-entry"
