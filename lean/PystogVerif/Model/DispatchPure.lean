import PystogVerif.Driver
import PystogVerif.Model.Rebin
import PystogVerif.Model.Writer
import PystogVerif.Model.Config
import PystogVerif.Model.Fortran
/-! Driver entry points of the hand-written models that do not depend on generated code (Float reading) -/

def flag (x : Float) : Bool := x != 0.0

def ModelPure.dispatch (name : String) (a : Array Arg) : Except String (List (List Float)) :=
  match name with
  | "Model.rebin" => do
      let r := Rebin.rebin (← Arg.getVec a 0) (← Arg.getVec a 1) (← Arg.getScalar a 2) (← Arg.getScalar a 3) (← Arg.getScalar a 4)
      pure [r.1, r.2]
  | "Model.fileText" => do
      -- returns the bytes of the file as numbers (all characters are ASCII)
      let xs := (← Arg.getVec a 0).map Float.toBits
      let ys := (← Arg.getVec a 1).map Float.toBits
      pure [(Writer.fileText xs ys).map (fun c => Float.ofNat c.toNat)]
  | "Model.readBack" => do
      -- (sign, round(|v|*10^12)) for both columns of the file written for x, y; -1 marks a parse failure
      let xs := (← Arg.getVec a 0).map Float.toBits
      let ys := (← Arg.getVec a 1).map Float.toBits
      let rows := Writer.readRows (Writer.fileLines xs ys)
      let enc : Option (Bool × Nat) → List Float := fun o => match o with
        | some (s, n) => [if s then 1.0 else 0.0, Float.ofNat (n / 10^12), Float.ofNat (n % 10^12)]
        | Option.none => [-1.0, -1.0, -1.0]
      pure [rows.flatMap (fun r => enc r.1), rows.flatMap (fun r => enc r.2)]
  | "Cfg.domain" => do
      pure [Config.createDomain (← Arg.getScalar a 0) (← Arg.getScalar a 1) (← Arg.getScalar a 2)]
  | "Cfg.settings" => do
      -- PyVal encoded as a vector [tag, value]: 0 none, 1 bool, 2 num, 3 str; absent key = "-"
      let pv : Nat → Except String (Option (Config.PyVal Float)) := fun i => do
        match ← Arg.getOVec a i with
        | Option.none => pure Option.none
        | some [t, v] => pure (some (if t == 0.0 then Config.PyVal.none else if t == 1.0 then Config.PyVal.bool (v != 0.0)
                                      else if t == 2.0 then Config.PyVal.num v else Config.PyVal.str))
        | _ => throw "bad PyVal"
      let nat? : Nat → Except String (Option Nat) := fun i => do
        pure ((← Arg.getOScalar a i).map (fun x => x.toUInt64.toNat))
      let k : Config.Kwargs Float := {
        nFiles := (← Arg.getScalar a 0).toUInt64.toNat, rsf := ← nat? 1, rmin := ← Arg.getOScalar a 2, rmax := ← Arg.getOScalar a 3,
        rdelta := ← Arg.getOScalar a 4, rpoints := ← Arg.getOScalar a 5, density := ← pv 6, lowq := ← pv 7, lorch := ← pv 8,
        hasFF := flag (← Arg.getScalar a 9), cutoff := ← pv 10, bcoh := ← Arg.getOScalar a 11, btot := ← Arg.getOScalar a 12,
        qmin := ← Arg.getOScalar a 13, qmax := ← Arg.getOScalar a 14, stem := ← nat? 15 }
      let encPv : Config.PyVal Float → List Float := fun v => match v with
        | .none => [0.0, 0.0] | .bool b => [1.0, if b then 1.0 else 0.0] | .num x => [2.0, x] | .str => [3.0, 0.0]
      let oenc : Option Float → List Float := fun o => match o with | some x => [1.0, x] | Option.none => [0.0, 0.0]
      match Config.settings k with
      | .error e => pure [[match e with | .valueError => 1.0 | .typeError => 2.0 | .noFiles => 3.0]]
      | .ok s =>
        let steps := match Config.cliSteps k with
          | .ok l => l.map (fun st => match st with
              | .readAll => 0.0 | .merge => 1.0 | .writeSq => 2.0 | .transform => 3.0 | .writeGr => 4.0 | .filter => 5.0
              | .lorch => 6.0 | .keenFq => 7.0 | .keenGr => 8.0)
          | .error _ => [-1.0]
        let files := match Config.cliSteps k with
          | .ok l => (l.flatMap Config.filesOf).map (fun n => Float.ofNat n)
          | .error _ => []
        pure [[0.0], [Float.ofNat s.rsf, s.rmin, s.rmax, s.rdelta, if s.lowq then 1.0 else 0.0, if s.lorch then 1.0 else 0.0, s.bcoh, s.btot],
              encPv s.density, encPv s.cutoff, oenc s.qmin, oenc s.qmax, (match s.stem with | some n => [Float.ofNat n] | Option.none => [0.0]),
              steps, files, Config.createDomain s.rmin s.rmax s.rdelta]
  | "Model.stogBit" => do
      let r := Fortran.stogBit (← Arg.getVec a 0) (← Arg.getVec a 1) (← Arg.getScalar a 2).toUInt64.toNat (← Arg.getScalar a 3)
        (← Arg.getScalar a 4) (flag (← Arg.getScalar a 5))
      pure [r.1, r.2]
  | _ => throw "unknown-entry"
