import PystogVerif.Vec
/-!
# More numpy primitives used by the hand-written models: `rint`, `around`, `arange`, `floor`
-/

/-- round-half-even to an integer value, and floor, as functions α → α (numpy `rint`, `floor`) -/
class Rint (α : Type) where
  rint : α → α
  floor : α → α
  /-- Python's `int(x)` for x ≥ 0 (truncation = floor), as a natural number -/
  toNat : α → Nat

/-- IEEE round-half-even built from `floor` (Lean's `Float.round` rounds half away from zero) -/
def Float.rintHalfEven (x : Float) : Float :=
  let f := x.floor
  let d := x - f
  if d < 0.5 then f
  else if d > 0.5 then f + 1.0
  else if (f / 2.0).floor * 2.0 == f then f else f + 1.0

instance : Rint Float := ⟨Float.rintHalfEven, Float.floor, fun x => x.toUInt64.toNat⟩

section
variable {α : Type} [Add α] [Sub α] [Mul α] [Div α] [Neg α] [LT α] [LE α] [NatCast α]
  [DecidableLT α] [DecidableLE α] [Transc α] [Rint α]

namespace Numpy
/-- `np.around(x, decimals=d)` = rint(x·10^d)/10^d (numpy multiplies by the exact power of ten, rounds, divides) -/
def around (d : Nat) (x : α) : α := Rint.rint (x * ((10 ^ d : Nat) : α)) / ((10 ^ d : Nat) : α)
def aroundV (d : Nat) (x : Vec α) : Vec α := x.map (around d)
end Numpy
end
