import PystogVerif.Model.Numpy
/-!
# Hand-written model of configuration handling (io.py parse_cli_args, stog.py __kwargs2attr + setters, utils.create_domain,
  cli.py sequencing and optional-step guards)

Configuration is a record with `Option` fields (absent key = `none`); values that Python would type-check are `PyVal`.
Tied to /repo by the correspondence run only (modelled, not verified).
-/
namespace Config
variable {α : Type} [Add α] [Sub α] [Mul α] [Div α] [Neg α] [LT α] [LE α] [NatCast α]
  [DecidableLT α] [DecidableLE α] [Transc α] [Rint α]

/-- a JSON value as far as the setters distinguish it -/
inductive PyVal (α : Type) where
  | none
  | bool (b : Bool)
  | num (x : α)
  | str
deriving Inhabited

/-- the kwargs dictionary handed to `StoG(**kwargs)` / `pystog_cli(kwargs)` (keys that matter to C19) -/
structure Kwargs (α : Type) where
  nFiles : Nat := 1
  rsf : Option Nat := none            -- RealSpaceFunction: 0 g(r), 1 G(r), 2 GK(r), anything else = not a valid choice
  rmin : Option α := none
  rmax : Option α := none
  rdelta : Option α := none
  rpoints : Option α := none
  density : Option (PyVal α) := none
  lowq : Option (PyVal α) := none     -- OmittedXrangeCorrection
  lorch : Option (PyVal α) := none    -- LorchFlag
  hasFF : Bool := false               -- "FourierFilter" key present
  cutoff : Option (PyVal α) := none   -- FourierFilter.Cutoff (present → value, possibly None)
  bcoh : Option α := none
  btot : Option α := none
  qmin : Option α := none             -- Merging.Transform.Qmin
  qmax : Option α := none
  stem : Option Nat := none           -- Outputs.StemName (an index into the harness's name table)

inductive Err where
  | valueError | typeError | noFiles
deriving Repr, DecidableEq

/-- the StoG attributes after construction -/
structure Settings (α : Type) where
  rsf : Nat
  rmin : α
  rmax : α
  rdelta : α
  density : PyVal α
  lowq : Bool
  lorch : Bool
  cutoff : PyVal α
  bcoh : α
  btot : α
  qmin : Option α
  qmax : Option α
  stem : Option Nat      -- none = the default "out"

def boolSetter (v : PyVal α) : Except Err Bool :=
  match v with
  | .bool b => pure b
  | _ => throw Err.typeError

/-- the real-space-function setter: one of the three choices or ValueError; default g(r) -/
def rsfOf (o : Option Nat) : Except Err Nat :=
  match o with
  | none => pure 0
  | some c => if c < 3 then pure c else throw Err.valueError

/-- a boolean option with default False whose setter type-checks -/
def flagOf (o : Option (PyVal α)) : Except Err Bool :=
  match o with
  | none => pure false
  | some v => boolSetter v

/-- the attributes once the three checked options are known -/
def core (k : Kwargs α) (rsf : Nat) (lowq lorch : Bool) : Settings α :=
  let rmax := match k.rmax with | some v => v | none => ((50:Nat):α)
  { rsf := rsf,
    rmin := (match k.rmin with | some v => v | none => ((0:Nat):α)),
    rmax := rmax,
    rdelta := (match k.rdelta with
      | some d => d
      | none => (match k.rpoints with | some n => rmax / n | none => ((1:Nat):α) / ((100:Nat):α))),
    density := (match k.density with | some v => v | none => PyVal.num ((1:Nat):α)),
    lowq := lowq, lorch := lorch,
    cutoff := (if k.hasFF then (match k.cutoff with | some v => v | none => PyVal.none) else PyVal.none),
    bcoh := (match k.bcoh with | some v => v | none => ((1:Nat):α)),
    btot := (match k.btot with | some v => v | none => ((1:Nat):α)),
    qmin := k.qmin, qmax := k.qmax, stem := k.stem }

/-- `StoG.__init__` defaults followed by `__kwargs2attr` -/
def settings (k : Kwargs α) : Except Err (Settings α) :=
  match rsfOf k.rsf, flagOf k.lowq, flagOf k.lorch with
  | .ok r, .ok a, .ok b => .ok (core k r a b)
  | .error e, _, _ => .error e
  | _, .error e, _ => .error e
  | _, _, .error e => .error e

/-- `utils.create_domain(rmin, rmax, rdelta)` = numpy.arange(rmin, rmax + rdelta, rdelta):
    length ceil((stop − start)/step), values start + i·step -/
def arangeLen (start stop step : α) : Nat :=
  let t := (stop - start) / step
  let f := Rint.toNat t
  if ((f : Nat) : α) < t then f + 1 else f
def createDomain (rmin rmax rdelta : α) : Vec α :=
  -- numpy fills `start + i*delta` with delta = (start + step) − start evaluated once in double precision
  (List.range (arangeLen rmin (rmax + rdelta) rdelta)).map (fun i : Nat => rmin + ((i : Nat) : α) * ((rmin + rdelta) - rmin))

/-- steps of the command-line entry point -/
inductive Step where
  | readAll | merge | writeSq | transform | writeGr | filter | lorch | keenFq | keenGr
deriving Repr, DecidableEq

def isSet (v : PyVal α) : Bool := match v with | .none => false | _ => true

/-- what driving the library with the settings `s` does (the documented workflow) -/
def libSteps (s : Settings α) : List Step :=
  [.readAll, .merge, .writeSq, .transform, .writeGr] ++ (if isSet s.cutoff then [.filter] else []) ++
  (if s.lorch then [.lorch] else []) ++ [.keenFq, .keenGr]

/-- what `pystog_cli(kwargs)` does: the same sequence, optional steps guarded by the instance's settings -/
def cliSteps (k : Kwargs α) : Except Err (List Step) := do
  if k.nFiles == 0 then throw Err.noFiles
  let s ← settings k
  pure ([.readAll, .merge, .writeSq, .transform, .writeGr] ++ (if isSet s.cutoff then [.filter] else []) ++
    (if s.lorch then [.lorch] else []) ++ [.keenFq, .keenGr])

/-- files a step writes: 0 stem.sq, 1 stem.gr, 2 ft.dat, 3 stem_ft.sq, 4 stem_ft.gr, 5 stem_ft_lorched.gr, 6 stem_rmc.fq, 7 stem_rmc.gr -/
def filesOf : Step → List Nat
  | .writeSq => [0] | .writeGr => [1] | .filter => [2, 3, 4] | .lorch => [5] | .keenFq => [6] | .keenGr => [7]
  | _ => []

/-- the flag form: `parse_cli_args(parser.parse_args(argv))`, defaults of the parser included -/
structure Flags (α : Type) where
  nFiles : Nat := 1
  density : Option α := none
  stem : Option Nat := none          -- default "merged" = name 1
  rsf : Option Nat := none
  rmax : Option α := none
  rpoints : Option α := none
  rdelta : Option α := none
  cutoff : Option α := none
  lorch : Bool := false
  bcoh : Option α := none
  btot : Option α := none
  lowq : Bool := false

def parseFlags (f : Flags α) : Kwargs α :=
  { nFiles := f.nFiles,
    density := f.density.map PyVal.num,
    rmax := some (match f.rmax with | some v => v | none => ((50:Nat):α)),
    rpoints := some (match f.rpoints with | some v => v | none => ((5000:Nat):α)),
    rdelta := (match f.rdelta with | some d => if Cmp.ne d ((0:Nat):α) then some d else none | none => none),   -- `if args.Rdelta:` — 0.0 is falsy
    hasFF := true,
    cutoff := some (match f.cutoff with | some c => PyVal.num c | none => PyVal.none),
    lorch := some (PyVal.bool f.lorch),
    stem := some (match f.stem with | some n => n | none => 1),
    bcoh := some (match f.bcoh with | some v => v | none => ((1:Nat):α)),
    btot := some (match f.btot with | some v => v | none => ((1:Nat):α)),
    rsf := some (match f.rsf with | some c => c | none => 0),
    lowq := some (PyVal.bool f.lowq) }

end Config
