import PystogVerif.Driver
import PystogVerif.Model.Stog
import PystogVerif.Model.Workflow
/-! Driver entry points of the hand-written models that call generated code (Float reading) -/

def flagG (x : Float) : Bool := x != 0.0

def ModelGen.dispatch (name : String) (a : Array Arg) : Except String (List (List Float)) :=
  match name with
  | "Stog.datasetRows" => do
      let cfg : Stog.Cfg Float := { qmin := ← Arg.getOScalar a 0, qmax := ← Arg.getOScalar a 1, bcoh := ← Arg.getScalar a 2, btot := ← Arg.getScalar a 3 }
      let info : Stog.Info Float := {
        x := ← Arg.getVec a 4, y := ← Arg.getVec a 5, dy := ← Arg.getOVec a 6, qmin := ← Arg.getOScalar a 7, qmax := ← Arg.getOScalar a 8,
        hasY := flagG (← Arg.getScalar a 9), hasX := flagG (← Arg.getScalar a 10), yscale := ← Arg.getOScalar a 11,
        yoffset := ← Arg.getOScalar a 12, xoffset := ← Arg.getOScalar a 13, kind := (← Arg.getScalar a 14).toUInt64.toNat }
      let r := Stog.datasetRows cfg info
      pure [r.1.x, r.1.y, r.1.dy, r.2.x, r.2.y, r.2.dy]
  | "Stog.mergeData" => do
      let opts : Stog.MergeOpts Float := { sScale := ← Arg.getOScalar a 0, sOffset := ← Arg.getOScalar a 1, fScale := ← Arg.getOScalar a 2, fOffset := ← Arg.getOScalar a 3 }
      let sq : Stog.Rows Float := ⟨← Arg.getVec a 4, ← Arg.getVec a 5, ← Arg.getVec a 6⟩
      let r := Stog.mergeData opts sq
      pure [r.1.x, r.1.y, r.1.dy, r.2.1, r.2.2.1, r.2.2.2]
  | "Wf.run" => do
      let rsf := (← Arg.getScalar a 0).toUInt64.toNat
      let rho ← Arg.getScalar a 1
      let bcoh ← Arg.getScalar a 2
      let lowq := flagG (← Arg.getScalar a 3)
      let cutoff ← Arg.getScalar a 4
      let dr ← Arg.getVec a 5
      let s : Workflow.Settings Float := { rsf := rsf, rho := rho, bcoh := bcoh, lowq := lowq, cutoff := cutoff, dr := dr }
      let st0 : Workflow.State Float := { sq := (← Arg.getVec a 6, ← Arg.getVec a 7) }
      let ops := (← Arg.getVec a 8).map (fun c => match c.toUInt64.toNat with
        | 0 => Workflow.Op.transform | 1 => Workflow.Op.filter | 2 => Workflow.Op.lorch | 3 => Workflow.Op.keenFq | _ => Workflow.Op.keenGr)
      let st := Workflow.run s st0 ops
      let enc : Option (Workflow.Curve Float) → List (List Float) := fun o => match o with
        | some c => [[1.0], c.1, c.2] | Option.none => [[0.0], [], []]
      pure ([st.sq.1, st.sq.2] ++ enc st.gr ++ enc st.ft ++ enc st.sqFt ++ enc st.grFt ++ enc st.grLorch ++ enc st.fqKeen ++ enc st.gkKeen)
  | _ => throw "unknown-entry"
