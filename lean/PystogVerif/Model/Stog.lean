import PystogVerif.Model.Numpy
import PystogVerif.Gen.FourierFilter
/-!
# Hand-written model of `StoG` ingestion, merge and post-merge options (stog.py)

Mirrors `StoG.add_dataset`, `apply_scales_and_offset`, `merge_data` statement by statement; the numeric work that
the Python delegates to `Converter`/`Transformer` is delegated here to the *generated* definitions.
Tied to /repo by the correspondence run only (modelled, not verified).
-/

namespace Stog
variable {α : Type} [Add α] [Sub α] [Mul α] [Div α] [Neg α] [LT α] [LE α] [NatCast α]
  [DecidableLT α] [DecidableLE α] [Transc α] [Rint α]

/-- a 3×N storage array: Q, value, uncertainty -/
structure Rows (α : Type) where
  x : Vec α
  y : Vec α
  dy : Vec α

def Rows.empty : Rows α := ⟨[], [], []⟩
def Rows.append (a b : Rows α) : Rows α := ⟨a.x ++ b.x, a.y ++ b.y, a.dy ++ b.dy⟩

/-- reciprocal-space function kind of a dataset: 0 S(Q), 1 Q[S(Q)-1], 2 FK(Q), 3 DCS(Q) -/
abbrev Kind := Nat

/-- the `info` dictionary of one dataset -/
structure Info (α : Type) where
  x : Vec α
  y : Vec α
  dy : Option (Vec α) := none
  qmin : Option α := none
  qmax : Option α := none
  hasY : Bool := false
  hasX : Bool := false
  yscale : Option α := none
  yoffset : Option α := none
  xoffset : Option α := none
  kind : Kind := 0

/-- instance settings read by ingestion -/
structure Cfg (α : Type) where
  qmin : Option α := none
  qmax : Option α := none
  bcoh : α
  btot : α

def noJunk : Junk α := fun _ _ => ((0:Nat):α)

/-- `apply_scales_and_offset` -/
def applyScalesAndOffset (x y dy : Vec α) (yscale yoffset xoffset : α) : Vec α × Vec α × Vec α :=
  let y := Vec.mulS y yscale
  let y := Vec.addS y yoffset
  let x := Vec.addS x xoffset
  let dy := Vec.mulS dy yscale
  (x, y, dy)

/-- `d.get(key, default)` / `if key in d: v = d[key]` -/
def orElse (o : Option α) (d : α) : α := match o with | some v => v | none => d

/-! `add_dataset` in four stages (the Python is one straight-line method; the stages are its paragraphs) -/

/-- the uncertainty column at storage precision (zeros when the dataset has none) -/
def roundedDy (info : Info α) : Vec α :=
  match info.dy with | some d => Numpy.aroundV 16 d | none => Vec.zerosLike (Numpy.aroundV 16 info.y)

/-- "Extract data" + "Cropping": rows at storage precision (Q to 2 decimals, values to 16), restricted to the per-dataset
    window [Qmin, Qmax] (an absent limit is the smallest / largest rounded Q of the dataset) -/
def cropStage (info : Info α) : Rows α :=
  let x := Numpy.aroundV 2 info.x
  let y := Numpy.aroundV 16 info.y
  let dy := roundedDy info
  let xmin := orElse info.qmin (Vec.min x)
  let xmax := orElse info.qmax (Vec.max x)
  let c := Transformer.apply_cropping (Kw.none : Kw α) noJunk x y xmin xmax (some dy)
  ⟨c.1, c.2.1, c.2.2⟩

/-- "Offset and scale": only when the dataset carries an "X" or "Y" entry; the shifted Q is put back on the 0.01 lattice -/
def adjustStage (info : Info α) (r : Rows α) : Rows α :=
  if info.hasY || info.hasX then
    let yscale := orElse info.yscale ((1:Nat):α)
    let yoffset := orElse info.yoffset ((0:Nat):α)
    let xoffset := orElse info.xoffset ((0:Nat):α)
    let a := applyScalesAndOffset r.x r.y r.dy yscale yoffset xoffset
    ⟨Numpy.aroundV 2 a.1, a.2.1, a.2.2⟩
  else r

def compressRows (m : Mask) (r : Rows α) : Rows α := ⟨Vec.compress m r.x, Vec.compress m r.y, Vec.compress m r.dy⟩

/-- "Use Qmin and Qmax to crop datasets": the global window (upper limit +inf, resp. lower limit -inf in the Python) -/
def globalStage (cfg : Cfg α) (r : Rows α) : Rows α :=
  let r := match cfg.qmin with | some a => compressRows (Vec.geS r.x a) r | none => r
  match cfg.qmax with | some b => compressRows (Vec.leS r.x b) r | none => r

/-- "Convert to S(Q)": the stored S(Q) row of a stored as-given row -/
def toSq (cfg : Cfg α) (kind : Kind) (r : Rows α) : Rows α :=
  let kwb : Kw α := { (Kw.none : Kw α) with bcoh := cfg.bcoh, btot := cfg.btot }
  let c :=
    if kind == 1 then Converter.F_to_S (Kw.none : Kw α) noJunk r.x r.y (some r.dy)
    else if kind == 2 then Converter.FK_to_S kwb noJunk r.x r.y (some r.dy)
    else if kind == 3 then Converter.DCS_to_S kwb noJunk r.x r.y (some r.dy)
    else (r.y, r.dy)
  ⟨r.x, c.1, c.2⟩

/-- the two rows `add_dataset` appends: (as given, converted to S(Q)) -/
def datasetRows (cfg : Cfg α) (info : Info α) : Rows α × Rows α :=
  let r := globalStage cfg (adjustStage info (cropStage info))
  (r, toSq cfg info.kind r)

/-- `add_dataset`: append to both storage arrays -/
def addDataset (cfg : Cfg α) (st : Rows α × Rows α) (info : Info α) : Rows α × Rows α :=
  let r := datasetRows cfg info
  (st.1.append r.1, st.2.append r.2)

/-! ### merge -/

abbrev Pt (α : Type) := α × α × α

/-- accumulator of the run-length average: finished points, previous Q, count, Σy, Σdy² -/
structure Acc (α : Type) where
  out : List (Pt α)
  prev : Option α
  n : α
  sum : α
  err : α

def stepM (s : Acc α) (p : Pt α) : Acc α :=
  match s.prev with
  | some q =>
    if Cmp.eq p.1 q then { s with n := s.n + ((1:Nat):α), sum := s.sum + p.2.1, err := s.err + p.2.2 * p.2.2, prev := some p.1 }
    else { out := s.out ++ [(q, s.sum / s.n, Transc.sqrt s.err / s.n)], prev := some p.1, n := ((1:Nat):α), sum := p.2.1, err := p.2.2 * p.2.2 }
  | none => { out := s.out, prev := some p.1, n := ((1:Nat):α), sum := p.2.1, err := p.2.2 * p.2.2 }

def finishM (s : Acc α) : List (Pt α) :=
  match s.prev with
  | some q => s.out ++ [(q, s.sum / s.n, Transc.sqrt s.err / s.n)]
  | none => s.out

/-- stable sort by Q, then run-length average on exact equality of Q -/
def sortPts (pts : List (Pt α)) : List (Pt α) := pts.mergeSort (fun a b => decide (a.1 ≤ b.1))

def mergeSorted (pts : List (Pt α)) : List (Pt α) :=
  finishM (pts.foldl stepM ⟨[], none, ((0:Nat):α), ((0:Nat):α), ((0:Nat):α)⟩)

def mergePts (pts : List (Pt α)) : List (Pt α) := mergeSorted (sortPts pts)

/-- post-merge options (`merged_opts`): absent keys are `none` -/
structure MergeOpts (α : Type) where
  sScale : Option α := none
  sOffset : Option α := none
  fScale : Option α := none
  fOffset : Option α := none

def zip3 (r : Rows α) : List (Pt α) := List.zipWith (fun a (b : α × α) => (a, b.1, b.2)) r.x (r.y.zip r.dy)
def unzip3 (l : List (Pt α)) : Rows α := ⟨l.map (·.1), l.map (·.2.1), l.map (·.2.2)⟩

/-- the part of `merge_data` after the averaging: S(Q)-level scale/offset, conversion to Q[S(Q)-1], its scale/offset,
    write-back of S(Q).  Returns (Q grid, stored S(Q), stored Q[S(Q)-1]) -/
def postMerge (opts : MergeOpts α) (m : Rows α) : Vec α × Vec α × Vec α :=
  let yscale := match opts.sScale with | some v => v | none => ((1:Nat):α)
  let yoffset := match opts.sOffset with | some v => v | none => ((0:Nat):α)
  let (q, s, ds) := applyScalesAndOffset m.x m.y m.dy yscale yoffset ((0:Nat):α)
  let (f, df) := Converter.S_to_F (Kw.none : Kw α) noJunk q s (some ds)
  let f := match opts.fScale with | some c => Vec.mulS f c | none => f
  let f := match opts.fOffset with | some d => Vec.addS f d | none => f
  let (s2, _) := Converter.F_to_S (Kw.none : Kw α) noJunk q f (some df)
  let s2 := s2.map (fun v => if Cmp.eq v v then v else ((0:Nat):α))
  (q, s2, f)

/-- `merge_data`: returns (sorted S(Q) storage, merged Q grid, stored S(Q), stored Q[S(Q)-1]) -/
def mergeData (opts : MergeOpts α) (sq : Rows α) : Rows α × Vec α × Vec α × Vec α :=
  let sorted := sortPts (zip3 sq)
  let m := unzip3 (mergeSorted sorted)
  (unzip3 sorted, postMerge opts m)

/-- all datasets added in order to empty storage -/
def ingestAll (cfg : Cfg α) (ds : List (Info α)) : Rows α × Rows α :=
  ds.foldl (addDataset cfg) (Rows.empty, Rows.empty)

end Stog
