import PystogVerif.Vec
/-!
# Hand-written model of `subroutine stog_bit` (fortran/stog_new3.f90), the routine PyStoG ports

Statement by statement: window `yw`, `ynew = yw·(y−1)·x`, the trapezoid loop `FS` with `AFACT = delq·2/π`,
the analytic low-Q term `yDS`, and `g = D/(4πρ r) + 1` on the grid r_n = n·delr, n = 1..lptout.
Tied to the Fortran text by the correspondence run against the *compiled* routine (modelled, not verified).
-/
namespace Fortran
variable {α : Type} [Add α] [Sub α] [Mul α] [Div α] [Neg α] [LT α] [LE α] [NatCast α]
  [DecidableLT α] [DecidableLE α] [Transc α]

def last (x : Vec α) : α := x.getLastD ((0:Nat):α)

/-- window function `yw` -/
def yw (lmod : Bool) (xin : Vec α) : Vec α :=
  if lmod then xin.map (fun x => Transc.sin (x * (Transc.pi / last xin)) / x / (Transc.pi / last xin))
  else xin.map (fun _ => ((1:Nat):α))

/-- `ynew(n) = yw(n)*(y(n)-1)*xnew(n)` -/
def ynew (lmod : Bool) (xin y : Vec α) : Vec α :=
  List.zipWith (fun (w : α) (p : α × α) => w * (p.2 - ((1:Nat):α)) * p.1) (yw lmod xin) (xin.zip y)

/-- the inner loop: `FS = Σ_{N=2..n} (sin(x_N R) ynew_N + sin(x_{N-1} R) ynew_{N-1}) / 2`, accumulated in order -/
def fsLoop (rp : α) : Vec α → Vec α → α → α
  | x0 :: x1 :: xs, k0 :: k1 :: ks, acc =>
      fsLoop rp (x1 :: xs) (k1 :: ks) (acc + (Transc.sin (x1 * rp) * k1 + Transc.sin (x0 * rp) * k0) / ((2:Nat):α))
  | _, _, acc => acc

/-- analytic low-Q term `yDS` at radius R -/
def yDS (lmod : Bool) (x1 y1 a r : α) : α :=
  let v := x1 * r
  let (f1, f2) :=
    if lmod then
      let vm := x1 * (r - a)
      let vp := x1 * (r + a)
      (((vm * Transc.sin vm + Transc.cos vm - ((1:Nat):α)) / ((r - a) * (r - a))
          - (vp * Transc.sin vp + Transc.cos vp - ((1:Nat):α)) / ((r + a) * (r + a))) / ((2:Nat):α) / a,
       (Transc.sin vm / (r - a) - Transc.sin vp / (r + a)) / ((2:Nat):α) / a)
    else
      ((((2:Nat):α) * v * Transc.sin v - (v * v - ((2:Nat):α)) * Transc.cos v - ((2:Nat):α)) / r / r / r,
       (Transc.sin v - v * Transc.cos v) / r / r)
  (((2:Nat):α) / Transc.pi) * (f1 * y1 / x1 - f2)

/-- `stog_bit(lptin, lptout, xin, y, delr, RHO, LMOD, xout, yout)` → (xout, yout) -/
def stogBit (xin y : Vec α) (lptout : Nat) (delr rho : α) (lmod : Bool) : Vec α × Vec α :=
  let a := Transc.pi / last xin
  let yn := ynew lmod xin y
  let delq := (last xin - xin.headD ((0:Nat):α)) / (((xin.length - 1 : Nat) : Nat) : α)
  let afact := delq * ((2:Nat):α) / Transc.pi
  let xout := (List.range lptout).map (fun n => delr * (((n + 1 : Nat) : Nat) : α))
  let pi4r := Transc.pi * ((4:Nat):α) * rho
  (xout, xout.map (fun r =>
      let d := fsLoop r xin yn ((0:Nat):α) * afact + yDS lmod (xin.headD ((0:Nat):α)) (y.headD ((0:Nat):α)) a r
      d / pi4r / r + ((1:Nat):α)))
end Fortran
