import PystogVerif.Model.Numpy
import PystogVerif.Gen.FourierFilter
/-!
# Hand-written model of the StoG workflow steps (stog.py: transform_merged, fourier_filter, apply_lorch, _add_keen_fq/_gr)

A state machine `step : State → Op → State` whose numeric work is done by the *generated* `Transformer` /
`FourierFilter` / `Converter` functions with exactly the option dictionaries the Python builds.
Tied to /repo by the op-sequence correspondence only (modelled, not verified).
-/
namespace Workflow
variable {α : Type} [Add α] [Sub α] [Mul α] [Div α] [Neg α] [LT α] [LE α] [NatCast α]
  [DecidableLT α] [DecidableLE α] [Transc α] [Rint α]

/-- selectable real-space function: 0 g(r), 1 G(r), 2 GK(r) -/
abbrev Rsf := Nat

structure Settings (α : Type) where
  rsf : Rsf
  rho : α
  bcoh : α
  lowq : Bool
  cutoff : α
  dr : Vec α

/-- a named curve of a master dictionary: abscissae and values -/
abbrev Curve (α : Type) := Vec α × Vec α

/-- the master dictionaries, one optional entry per title -/
structure State (α : Type) where
  sq : Curve α                     -- "S(Q) Merged" (present after merge_data)
  gr : Option (Curve α) := none    -- "<rsf> Merged"
  ft : Option (Curve α) := none    -- "FT term"
  sqFt : Option (Curve α) := none  -- "S(Q) FT"
  grFt : Option (Curve α) := none  -- "<rsf> FT"
  grLorch : Option (Curve α) := none -- "<rsf> FT Lorched"
  fqKeen : Option (Curve α) := none  -- "F(Q) Merged"
  gkKeen : Option (Curve α) := none  -- "G(r) (Keen Version)"

def noJunk : Junk α := fun _ _ => ((0:Nat):α)

/-- `{"lorch": False, "rho": density, "<b_coh>^2": bcoh}` (+ OmittedXrangeCorrection for the filter) -/
def kwTransform (s : Settings α) : Kw α := { rho := s.rho, bcoh := s.bcoh, btot := ((0:Nat):α) }
def kwFilter (s : Settings α) : Kw α := { rho := s.rho, bcoh := s.bcoh, btot := ((0:Nat):α), omitted := s.lowq }
/-- the option dictionaries of `apply_lorch`, per real-space function (keys not given are not read) -/
def kwLorch (s : Settings α) : Kw α :=
  if s.rsf == 0 then { rho := s.rho, bcoh := ((0:Nat):α), btot := ((0:Nat):α), lorch := true }
  else if s.rsf == 1 then { rho := ((0:Nat):α), bcoh := ((0:Nat):α), btot := ((0:Nat):α), lorch := true }
  else { rho := s.rho, bcoh := s.bcoh, btot := ((0:Nat):α), lorch := true }
def kwKeen (s : Settings α) : Kw α := { rho := s.rho, bcoh := s.bcoh, btot := ((0:Nat):α) }

/-- S(Q) → selected real-space function with the given options -/
def sToX (rsf : Rsf) (kw : Kw α) (q sq r : Vec α) : Vec α × Vec α × Vec α :=
  if rsf == 0 then Transformer.S_to_g kw noJunk q sq r none
  else if rsf == 1 then Transformer.S_to_G kw noJunk q sq r none
  else Transformer.S_to_GK kw noJunk q sq r none

/-- the merged real-space curve: S_to_<X> of the merged S(Q) on the instance's r grid -/
def grCurve (s : Settings α) (st : State α) : Curve α :=
  let t := sToX s.rsf (kwTransform s) st.sq.1 st.sq.2 s.dr
  (t.1, t.2.1)

def transformMerged (s : Settings α) (st : State α) : State α :=
  { st with gr := some (grCurve s st) }

def filterX (rsf : Rsf) (kw : Kw α) (r gr q sq : Vec α) (cutoff : α) :=
  if rsf == 0 then FourierFilter.g_using_S kw noJunk r gr q sq cutoff none none
  else if rsf == 1 then FourierFilter.G_using_S kw noJunk r gr q sq cutoff none none
  else FourierFilter.GK_using_S kw noJunk r gr q sq cutoff none none

/-- the filter proper, given the merged real-space curve `c`; results are rounded as the code does -/
def filterCore (s : Settings α) (st : State α) (c : Curve α) : State α :=
  let o := filterX s.rsf (kwFilter s) c.1 c.2 st.sq.1 st.sq.2 s.cutoff
  { st with ft := some (Numpy.aroundV 2 o.1, Numpy.aroundV 16 o.2.1),
            sqFt := some (Numpy.aroundV 2 o.2.2.1, Numpy.aroundV 16 o.2.2.2.1),
            grFt := some (o.2.2.2.2.1, o.2.2.2.2.2.1) }

/-- `fourier_filter` (transforms first when the merged real-space curve is missing) -/
def fourierFilter (s : Settings α) (st : State α) : State α :=
  match st.gr with
  | some c => filterCore s st c
  | none => filterCore s (transformMerged s st) (grCurve s st)

/-- `apply_lorch(q, sq, r)` -/
def applyLorch (s : Settings α) (st : State α) (q sq r : Vec α) : State α :=
  let t := sToX s.rsf (kwLorch s) q sq r
  { st with grLorch := some (t.1, t.2.1) }

def addKeenFq (s : Settings α) (st : State α) (q sq : Vec α) : State α :=
  { st with fqKeen := some (q, (Converter.S_to_FK (kwKeen s) noJunk q sq none).1) }

def addKeenGr (s : Settings α) (st : State α) (r gr : Vec α) : State α :=
  let gk := if s.rsf == 0 then (Converter.g_to_GK (kwKeen s) noJunk r gr none).1
            else if s.rsf == 1 then (Converter.G_to_GK (kwKeen s) noJunk r gr none).1
            else gr
  { st with gkKeen := some (r, gk) }

/-- operations of the workflow; the data arguments of the last three are taken the way `cli.py` takes them:
    from the filter results when a filter was run, otherwise from the merged curves -/
inductive Op where
  | transform | filter | lorch | keenFq | keenGr
deriving Repr, DecidableEq

def curQS (st : State α) : Curve α := match st.sqFt with | some c => c | none => st.sq
def curR (s : Settings α) (st : State α) : Vec α :=
  match st.grFt with | some c => c.1 | none => (match st.gr with | some c => c.1 | none => s.dr)
def curG (st : State α) : Option (Curve α) :=
  match st.grLorch with | some c => some c | none => (match st.grFt with | some c => some c | none => st.gr)

def step (s : Settings α) (st : State α) : Op → State α
  | .transform => transformMerged s st
  | .filter => fourierFilter s st
  | .lorch => applyLorch s st (curQS st).1 (curQS st).2 (curR s st)
  | .keenFq => addKeenFq s st (curQS st).1 (curQS st).2
  | .keenGr => match curG st with | some c => addKeenGr s st c.1 c.2 | none => st

def run (s : Settings α) (st : State α) (ops : List Op) : State α := ops.foldl (step s) st

end Workflow
