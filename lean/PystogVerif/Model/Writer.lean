/-!
# Hand-written model of `StoG._write_out_to_file` and of the reader's view of such a file (stog.py)

A double is the exact dyadic rational given by its bit pattern; `'{:.12f}'.format(v)` is: sign, integer part, '.', and
the 12 digits of round-half-even(|v|·10¹²).  Digits are produced and parsed by the functions below (no `toString`),
so that the round trip can be proved; byte-exactness against CPython is checked by the correspondence run.
Mathlib-free.
-/
namespace Writer

def digitChar (d : Nat) : Char := Char.ofNat (48 + d)
def charDigit (c : Char) : Nat := c.toNat - 48

/-- exactly `k` decimal digits of `n`, most significant first (n < 10^k) -/
def fixedDigits : Nat → Nat → List Char
  | 0, _ => []
  | k + 1, n => fixedDigits k (n / 10) ++ [digitChar (n % 10)]

/-- decimal digits of `n` without leading zeros ("0" for 0) -/
def natDigits (n : Nat) : List Char :=
  if h : n < 10 then [digitChar n] else natDigits (n / 10) ++ [digitChar (n % 10)]
termination_by n
decreasing_by omega

def parseDigits (cs : List Char) : Nat := cs.foldl (fun acc c => acc * 10 + charDigit c) 0

/-- a finite double: value = (-1)^neg · M · 2^E -/
structure Dec where
  neg : Bool
  M : Nat
  E : Int
deriving Repr

inductive Cls where
  | finite (d : Dec)
  | inf (neg : Bool)
  | nan
deriving Repr

def classify (bits : UInt64) : Cls :=
  let b : Nat := bits.toNat
  let neg := b / 2^63 == 1
  let e : Nat := (b / 2^52) % 2048
  let m : Nat := b % 2^52
  if e == 2047 then (if m == 0 then Cls.inf neg else Cls.nan)
  else if e == 0 then Cls.finite ⟨neg, m, -1074⟩
  else Cls.finite ⟨neg, 2^52 + m, (e : Int) - 1075⟩

/-- round-half-even(|v|·10^12) as a natural number -/
def round12 (d : Dec) : Nat :=
  let N := d.M * 10^12
  if d.E ≥ 0 then N * 2^d.E.toNat
  else
    let den := 2^((-d.E).toNat)
    let q := N / den
    let r := N % den
    if 2 * r > den || (2 * r == den && q % 2 == 1) then q + 1 else q

def fmtDec (d : Dec) : List Char :=
  let n := round12 d
  (if d.neg then ['-'] else []) ++ natDigits (n / 10^12) ++ ['.'] ++ fixedDigits 12 (n % 10^12)

/-- `'{:.12f}'.format(x)` -/
def fmt12 (bits : UInt64) : List Char :=
  match classify bits with
  | .finite d => fmtDec d
  | .inf neg => (if neg then ['-'] else []) ++ "inf".toList
  | .nan => "nan".toList

/-- round-half-even(|v|·10^p): the general form behind `'{:.{places}f}'` -/
def roundP (p : Nat) (d : Dec) : Nat :=
  let N := d.M * 10^p
  if d.E ≥ 0 then N * 2^d.E.toNat
  else
    let den := 2^((-d.E).toNat)
    let q := N / den
    let r := N % den
    if 2 * r > den || (2 * r == den && q % 2 == 1) then q + 1 else q

/-- `'{:.{p}f}'.format(x)` for any number of places (no decimal point when p = 0, as in CPython) -/
def fmtFixed (p : Nat) (bits : UInt64) : List Char :=
  match classify bits with
  | .finite d =>
    let n := roundP p d
    (if d.neg then ['-'] else []) ++ natDigits (n / 10^p) ++ (if p == 0 then [] else ['.']) ++ fixedDigits p (n % 10^p)
  | .inf neg => (if neg then ['-'] else []) ++ "inf".toList
  | .nan => "nan".toList

theorem fmtFixed_twelve (bits : UInt64) : fmtFixed 12 bits = fmt12 bits := by
  unfold fmtFixed fmt12
  cases classify bits <;> rfl

/-- `'%d' % n` for a natural number -/
def pctD (n : Nat) : List Char := natDigits n

/-- split off a leading minus sign -/
def stripSign : List Char → Bool × List Char
  | '-' :: t => (true, t)
  | t => (false, t)

/-- unsigned fixed-point text "ddd.dddddddddddd" → round(|v|·10^12) -/
def parseBody (body : List Char) : Option Nat :=
  let ip := body.takeWhile (· != '.')
  match body.dropWhile (· != '.') with
  | '.' :: fp => if fp.length == 12 && !ip.isEmpty then some (parseDigits ip * 10^12 + parseDigits fp) else none
  | _ => none

/-- a number read back from the text: sign and the integer round(|v|·10^12) (value = ±n / 10^12) -/
def parseDec (cs : List Char) : Option (Bool × Nat) :=
  (parseBody (stripSign cs).2).map (fun n => ((stripSign cs).1, n))

/-- the file `_write_out_to_file(x, y, name)` produces, as a list of lines (each terminated by a newline in the file) -/
def fileLines (xs ys : List UInt64) : List (List Char) :=
  (natDigits xs.length ++ [' ']) :: "# Comment line".toList ::
    List.zipWith (fun a b => fmt12 a ++ [' '] ++ fmt12 b) xs ys

def fileText (xs ys : List UInt64) : List Char := (fileLines xs ys).flatMap (· ++ ['\n'])

/-- the lines of a text (what `readline`/`loadtxt` see): split at every newline; a last unterminated piece is a line too -/
def splitNLAux : List Char → List Char → List (List Char)
  | [], cur => if cur.isEmpty then [] else [cur.reverse]
  | c :: t, cur => if c == '\n' then cur.reverse :: splitNLAux t [] else splitNLAux t (c :: cur)

def splitNL (cs : List Char) : List (List Char) := splitNLAux cs []

/-- what the reader does (`np.loadtxt(skiprows=2, comments="#")`) up to the final text→double step:
    skip 2 lines, drop comment lines, split each remaining line at the blank, parse both numbers exactly -/
def readRows (lines : List (List Char)) : List (Option (Bool × Nat) × Option (Bool × Nat)) :=
  ((lines.drop 2).filter (fun l => l.head? != some '#')).map (fun l =>
    (parseDec (l.takeWhile (· != ' ')), parseDec ((l.dropWhile (· != ' ')).drop 1)))

end Writer
