import PystogVerif.Proofs.Trapz
import Mathlib.Tactic.Positivity
import Mathlib.Tactic.NormNum

/-! # The uncertainty the code accumulates versus exact uncorrelated propagation -/
open Spec

/-- trapezoid weights with carried previous width `p`: w_j = (d_{j−1} + d_j)/2 -/
noncomputable def weights : ℝ → List ℝ → List ℝ
  | p, x0 :: x1 :: xs => (p + (x1 - x0)) / 2 :: weights (x1 - x0) (x1 :: xs)
  | p, [_] => [p / 2]
  | _, [] => []

theorem wSum_eq_weights : ∀ (p : ℝ) (x k : List ℝ), x.length = k.length →
    wSum p x k = (List.zipWith (· * ·) (weights p x) k).sum
  | p, x0 :: x1 :: xs, k0 :: k1 :: ks, h => by
      have ih := wSum_eq_weights (x1 - x0) (x1 :: xs) (k1 :: ks) (by simpa using h)
      simp only [wSum, weights, List.zipWith_cons_cons, List.sum_cons] at ih ⊢
      rw [ih]
  | p, [_], [k], _ => by simp [wSum, weights]
  | p, [], [], _ => by simp [wSum, weights]
  | _, [], _ :: _, h => by simp at h
  | _, _ :: _, [], h => by simp at h
  | _, [_], _ :: _ :: _, h => by simp at h
  | _, _ :: _ :: _, [_], h => by simp at h

/-- variance as coded, regrouped per point: Σ_j (d_{j−1}² + d_j²)/2 · s_j² -/
noncomputable def codeVarP : ℝ → List ℝ → List ℝ → ℝ
  | p, x0 :: x1 :: xs, s0 :: ss => (p ^ 2 + (x1 - x0) ^ 2) / 2 * s0 ^ 2 + codeVarP (x1 - x0) (x1 :: xs) ss
  | p, [_], [s] => p ^ 2 / 2 * s ^ 2
  | _, _, _ => 0

/-- exact uncorrelated propagation through the trapezoid weights: Σ_j (w_j s_j)² -/
noncomputable def exactVarP : ℝ → List ℝ → List ℝ → ℝ
  | p, x0 :: x1 :: xs, s0 :: ss => ((p + (x1 - x0)) / 2) ^ 2 * s0 ^ 2 + exactVarP (x1 - x0) (x1 :: xs) ss
  | p, [_], [s] => (p / 2) ^ 2 * s ^ 2
  | _, _, _ => 0

theorem exactVarP_eq_weights : ∀ (p : ℝ) (x s : List ℝ), x.length = s.length →
    exactVarP p x s = (List.zipWith (fun w s => (w * s) ^ 2) (weights p x) s).sum
  | p, x0 :: x1 :: xs, s0 :: s1 :: ss, h => by
      have ih := exactVarP_eq_weights (x1 - x0) (x1 :: xs) (s1 :: ss) (by simpa using h)
      simp only [exactVarP, weights, List.zipWith_cons_cons, List.sum_cons] at ih ⊢
      rw [ih]; ring
  | p, [_], [k], _ => by simp [exactVarP, weights]; ring
  | p, [], [], _ => by simp [exactVarP, weights]
  | _, [], _ :: _, h => by simp at h
  | _, _ :: _, [], h => by simp at h
  | _, [_], _ :: _ :: _, h => by simp at h
  | _, _ :: _ :: _, [_], h => by simp at h

theorem codeVarP_eq : ∀ (p : ℝ) (x s : List ℝ), x.length = s.length →
    codeVarP p x s = p ^ 2 / 2 * (s.headD 0) ^ 2 + codeVarSum x s
  | p, x0 :: x1 :: xs, s0 :: s1 :: ss, h => by
      have ih := codeVarP_eq (x1 - x0) (x1 :: xs) (s1 :: ss) (by simpa using h)
      simp only [codeVarP, codeVarSum, List.headD_cons] at ih ⊢
      rw [ih]; ring
  | p, [_], [k], _ => by simp [codeVarP, codeVarSum]
  | p, [], [], _ => by simp [codeVarP, codeVarSum]
  | _, [], _ :: _, h => by simp at h
  | _, _ :: _, [], h => by simp at h
  | _, [_], _ :: _ :: _, h => by simp at h
  | _, _ :: _ :: _, [_], h => by simp at h

theorem codeVarSum_eq_codeVarP (x s : List ℝ) (h : x.length = s.length) : codeVarSum x s = codeVarP 0 x s := by
  rw [codeVarP_eq 0 x s h]; ring

theorem step_ineq (p d : ℝ) (hp : 0 ≤ p) (hd : 0 ≤ d) :
    ((p + d) / 2) ^ 2 ≤ (p ^ 2 + d ^ 2) / 2 ∧ (p ^ 2 + d ^ 2) / 2 ≤ 2 * ((p + d) / 2) ^ 2 := by
  constructor
  · nlinarith [sq_nonneg (p - d)]
  · nlinarith [mul_nonneg hp hd]

/-- exact ≤ coded ≤ 2·exact along any non-decreasing grid -/
theorem var_bounds : ∀ (p : ℝ) (x s : List ℝ), 0 ≤ p → x.Pairwise (· ≤ ·) →
    exactVarP p x s ≤ codeVarP p x s ∧ codeVarP p x s ≤ 2 * exactVarP p x s
  | p, x0 :: x1 :: xs, s0 :: ss, hp, hx => by
      have hd : 0 ≤ x1 - x0 := by
        have := (List.pairwise_cons.mp hx).1 x1 (by simp); linarith
      have ih := var_bounds (x1 - x0) (x1 :: xs) ss hd (List.pairwise_cons.mp hx).2
      have st := step_ineq p (x1 - x0) hp hd
      have hs : 0 ≤ s0 ^ 2 := sq_nonneg _
      simp only [codeVarP, exactVarP]
      constructor
      · nlinarith [mul_le_mul_of_nonneg_right st.1 hs, ih.1]
      · nlinarith [mul_le_mul_of_nonneg_right st.2 hs, ih.2]
  | p, [_], [s], hp, _ => by
      simp only [codeVarP, exactVarP]
      constructor <;> nlinarith [sq_nonneg s, sq_nonneg p, mul_nonneg (sq_nonneg p) (sq_nonneg s)]
  | _, [], _, _, _ => by simp [codeVarP, exactVarP]
  | _, [_], [], _, _ => by simp [codeVarP, exactVarP]
  | _, [_], _ :: _ :: _, _, _ => by simp [codeVarP, exactVarP]
  | _, _ :: _ :: _, [], _, _ => by simp [codeVarP, exactVarP]

theorem codeVarSum_nonneg : ∀ (x s : List ℝ), 0 ≤ codeVarSum x s
  | x0 :: x1 :: xs, s0 :: s1 :: ss => by
      have ih := codeVarSum_nonneg (x1 :: xs) (s1 :: ss)
      simp only [codeVarSum]; positivity
  | [], _ => by simp [codeVarSum]
  | [_], _ => by simp [codeVarSum]
  | _ :: _ :: _, [] => by simp [codeVarSum]
  | _ :: _ :: _, [_] => by simp [codeVarSum]

/-- monotone in the squared kernel entries -/
theorem codeVarSum_mono : ∀ (x s s' : List ℝ), List.Forall₂ (fun a b => a ^ 2 ≤ b ^ 2) s s' →
    codeVarSum x s ≤ codeVarSum x s'
  | x0 :: x1 :: xs, s0 :: s1 :: ss, t0 :: t1 :: ts, h => by
      rcases List.forall₂_cons.mp h with ⟨h0, h'⟩
      rcases List.forall₂_cons.mp h' with ⟨h1, _⟩
      have ih := codeVarSum_mono (x1 :: xs) (s1 :: ss) (t1 :: ts) h'
      simp only [codeVarSum]
      have hd : 0 ≤ (x1 - x0) ^ 2 := sq_nonneg _
      nlinarith [mul_le_mul_of_nonneg_left h0 hd, mul_le_mul_of_nonneg_left h1 hd]
  | [], _, _, _ => by simp [codeVarSum]
  | [_], _, _, _ => by simp [codeVarSum]
  | _ :: _ :: _, [], _, h => by cases h; simp [codeVarSum]
  | _ :: _ :: _, [_], _, h => by
      cases h with
      | cons _ h' => cases h'; simp [codeVarSum]
  | _ :: _ :: _, _ :: _ :: _, [], h => by cases h
  | _ :: _ :: _, _ :: _ :: _, [_], h => by
      cases h with
      | cons _ h' => cases h'

/-- homogeneous of degree 2 -/
theorem codeVarSum_smul (c : ℝ) : ∀ (x s : List ℝ), codeVarSum x (s.map (c * ·)) = c ^ 2 * codeVarSum x s
  | x0 :: x1 :: xs, s0 :: s1 :: ss => by
      have ih := codeVarSum_smul c (x1 :: xs) (s1 :: ss)
      simp only [List.map_cons, codeVarSum] at ih ⊢
      rw [ih]; ring
  | [], _ => by simp [codeVarSum]
  | [_], _ => by simp [codeVarSum]
  | _ :: _ :: _, [] => by simp [codeVarSum]
  | _ :: _ :: _, [_] => by simp [codeVarSum]

theorem codeVarSum_zeros : ∀ (x s : List ℝ), (∀ a ∈ s, a = 0) → codeVarSum x s = 0
  | x0 :: x1 :: xs, s0 :: s1 :: ss, h => by
      have h0 : s0 = 0 := h s0 (by simp)
      have h1 : s1 = 0 := h s1 (by simp)
      have ih := codeVarSum_zeros (x1 :: xs) (s1 :: ss) (fun a ha => h a (by simp [List.mem_cons] at ha ⊢; tauto))
      subst h0 h1
      simp only [codeVarSum, ih]; ring
  | [], _, _ => by simp [codeVarSum]
  | [_], _, _ => by simp [codeVarSum]
  | _ :: _ :: _, [], _ => by simp [codeVarSum]
  | _ :: _ :: _, [_], _ => by simp [codeVarSum]
