import Mathlib.Analysis.SpecialFunctions.Gaussian.FourierTransform
import Mathlib.MeasureTheory.Integral.IntegralEqImproper
import Mathlib.MeasureTheory.Measure.Lebesgue.Integral

open Real MeasureTheory Set

namespace PystogVerif.Gauss

/-- cosine transform of a Gaussian over the whole line -/
theorem integral_gauss_cos (a Q : ℝ) (ha : 0 < a) :
    ∫ x : ℝ, Real.exp (-a * x ^ 2) * Real.cos (Q * x) = Real.sqrt (π / a) * Real.exp (-Q ^ 2 / (4 * a)) := by
  have h := fourierIntegral_gaussian (b := (a : ℂ)) (by simpa using ha) (Q : ℂ)
  have hint : Integrable (fun x : ℝ => Complex.exp (Complex.I * Q * x) * Complex.exp (-(a : ℂ) * x ^ 2)) := by
    by_contra hn
    have h0 := integral_undef hn
    rw [h0] at h
    have : (π / (a : ℂ)) ^ (1 / 2 : ℂ) ≠ 0 := by
      have : ((π : ℂ) / (a : ℂ)) ≠ 0 := by
        apply div_ne_zero
        · exact_mod_cast Real.pi_ne_zero
        · exact_mod_cast ha.ne'
      exact (Complex.cpow_ne_zero_iff_of_exponent_ne_zero (by norm_num)).mpr this
    exact (mul_ne_zero this (Complex.exp_ne_zero _)) h.symm
  have hr : ∫ x : ℝ, (Complex.exp (Complex.I * Q * x) * Complex.exp (-(a : ℂ) * x ^ 2)).re
      = (∫ x : ℝ, Complex.exp (Complex.I * Q * x) * Complex.exp (-(a : ℂ) * x ^ 2)).re := integral_re hint
  rw [h] at hr
  have hpt : ∀ x : ℝ, (Complex.exp (Complex.I * Q * x) * Complex.exp (-(a : ℂ) * x ^ 2)).re
      = Real.exp (-a * x ^ 2) * Real.cos (Q * x) := by
    intro x
    have e1 : Complex.exp (-(a : ℂ) * x ^ 2) = ((Real.exp (-a * x ^ 2) : ℝ) : ℂ) := by push_cast; rfl
    have e2 : Complex.I * Q * x = ((Q * x : ℝ) : ℂ) * Complex.I := by push_cast; ring
    rw [e1, e2, Complex.re_mul_ofReal, Complex.exp_ofReal_mul_I_re, mul_comm]
  simp_rw [hpt] at hr
  rw [hr]
  have e3 : ((π : ℂ) / (a : ℂ)) ^ (1 / 2 : ℂ) = ((Real.sqrt (π / a) : ℝ) : ℂ) := by
    rw [Real.sqrt_eq_rpow, Complex.ofReal_cpow (div_pos Real.pi_pos ha).le]
    push_cast; rfl
  have e4 : Complex.exp (-(Q : ℂ) ^ 2 / (4 * (a : ℂ))) = ((Real.exp (-Q ^ 2 / (4 * a)) : ℝ) : ℂ) := by push_cast; rfl
  rw [e3, e4, ← Complex.ofReal_mul, Complex.ofReal_re]


/-- sine transform of r·Gaussian over the whole line, by parts from the cosine transform -/
theorem integral_mul_gauss_sin (a Q : ℝ) (ha : 0 < a) :
    ∫ x : ℝ, Real.sin (Q * x) * (x * Real.exp (-a * x ^ 2)) = Q / (2 * a) * (Real.sqrt (π / a) * Real.exp (-Q ^ 2 / (4 * a))) := by
  have hg : Integrable (fun x : ℝ => Real.exp (-a * x ^ 2)) := integrable_exp_neg_mul_sq ha
  have hxg : Integrable (fun x : ℝ => x * Real.exp (-a * x ^ 2)) := integrable_mul_exp_neg_mul_sq ha
  have hsin : ∀ c : ℝ, AEStronglyMeasurable (fun x : ℝ => Real.sin (c * x)) volume := fun c =>
    (Real.continuous_sin.comp (continuous_const.mul continuous_id)).aestronglyMeasurable
  have hcos : ∀ c : ℝ, AEStronglyMeasurable (fun x : ℝ => Real.cos (c * x)) volume := fun c =>
    (Real.continuous_cos.comp (continuous_const.mul continuous_id)).aestronglyMeasurable
  have key := integral_mul_deriv_eq_deriv_mul_of_integrable (A := ℝ)
    (u := fun x : ℝ => Real.sin (Q * x)) (u' := fun x : ℝ => Q * Real.cos (Q * x))
    (v := fun x : ℝ => -(1 / (2 * a)) * Real.exp (-a * x ^ 2)) (v' := fun x : ℝ => x * Real.exp (-a * x ^ 2))
    (fun x _ => by
      have := ((hasDerivAt_id x).const_mul Q).sin
      simpa [mul_comm] using this)
    (fun x _ => by
      have h1 : HasDerivAt (fun y : ℝ => -a * y ^ 2) (-a * (2 * x)) x := by
        have := ((hasDerivAt_id x).pow 2).const_mul (-a)
        simpa using this
      have := (h1.exp).const_mul (-(1 / (2 * a)))
      convert this using 1
      field_simp)
    (hxg.bdd_mul (c := 1) (hsin Q) (Filter.Eventually.of_forall fun x => by simpa using Real.abs_sin_le_one _))
    ((hg.const_mul (-(1 / (2 * a)))).bdd_mul (c := |Q|) ((hcos Q).const_mul Q)
      (Filter.Eventually.of_forall fun x => by
        simp only [norm_mul, Real.norm_eq_abs]
        exact mul_le_of_le_one_right (abs_nonneg _) (Real.abs_cos_le_one _)))
    ((hg.const_mul (-(1 / (2 * a)))).bdd_mul (c := 1) (hsin Q)
      (Filter.Eventually.of_forall fun x => by simpa using Real.abs_sin_le_one _))
  rw [key]
  have : ∀ x : ℝ, Q * Real.cos (Q * x) * (-(1 / (2 * a)) * Real.exp (-a * x ^ 2))
      = -(Q / (2 * a)) * (Real.exp (-a * x ^ 2) * Real.cos (Q * x)) := by intro x; ring
  simp_rw [this]
  rw [integral_const_mul, integral_gauss_cos a Q ha]
  ring

/-- the same over r > 0 (the integrand is even): the sine transform that `Transformer.G_to_F` approximates by quadrature, for
G(r) = A r exp(-a r²), is the closed form F(Q) = A √π Q / (4 a^{3/2}) exp(-Q²/4a). -/
theorem integral_Ioi_mul_gauss_sin (a Q : ℝ) (ha : 0 < a) :
    ∫ x in Ioi (0 : ℝ), x * Real.exp (-a * x ^ 2) * Real.sin (Q * x)
      = Q / (4 * a) * (Real.sqrt (π / a) * Real.exp (-Q ^ 2 / (4 * a))) := by
  have h := integral_comp_abs (f := fun x : ℝ => x * Real.exp (-a * x ^ 2) * Real.sin (Q * x))
  have heven : ∀ x : ℝ, |x| * Real.exp (-a * |x| ^ 2) * Real.sin (Q * |x|) = Real.sin (Q * x) * (x * Real.exp (-a * x ^ 2)) := by
    intro x
    rcases abs_cases x with ⟨hx, _⟩ | ⟨hx, _⟩
    · rw [hx]; ring
    · rw [hx]; simp only [mul_neg, Real.sin_neg, neg_sq]; ring
  simp only [heven] at h
  rw [integral_mul_gauss_sin a Q ha] at h
  have e : Q / (4 * a) * (Real.sqrt (π / a) * Real.exp (-Q ^ 2 / (4 * a)))
      = (Q / (2 * a) * (Real.sqrt (π / a) * Real.exp (-Q ^ 2 / (4 * a)))) / 2 := by ring
  rw [e, h]; ring

end PystogVerif.Gauss
