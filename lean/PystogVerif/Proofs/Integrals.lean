import PystogVerif.Real
import Mathlib.Analysis.SpecialFunctions.Integrals.Basic
import Mathlib.Tactic.Ring
import Mathlib.Tactic.FieldSimp

/-! # Closed-form integrals behind the omitted low-Q correction (C15) -/
open Real intervalIntegral

/-- F2 = ∫₀^q Q sin(Q r) dQ -/
theorem int_F2 (q r : ℝ) (hr : r ≠ 0) :
    ∫ Q in (0:ℝ)..q, Q * sin (Q * r) = (sin (q * r) - q * r * cos (q * r)) / r ^ 2 := by
  have hderiv : ∀ x ∈ Set.uIcc 0 q,
      HasDerivAt (fun Q => (sin (Q * r) - Q * r * cos (Q * r)) / r ^ 2) (x * sin (x * r)) x := by
    intro x _
    have h1 : HasDerivAt (fun Q : ℝ => Q * r) r x := by simpa using (hasDerivAt_id x).mul_const r
    have h4 := ((h1.sin).sub (h1.mul h1.cos)).div_const (r ^ 2)
    refine h4.congr_deriv ?_
    field_simp
    ring
  rw [integral_eq_sub_of_hasDerivAt hderiv]
  · simp
  · exact (by fun_prop : Continuous fun x : ℝ => x * sin (x * r)).intervalIntegrable _ _

/-- F1 = ∫₀^q Q² sin(Q r) dQ -/
theorem int_F1 (q r : ℝ) (hr : r ≠ 0) :
    ∫ Q in (0:ℝ)..q, Q ^ 2 * sin (Q * r)
      = (2 * (q * r) * sin (q * r) - ((q * r) ^ 2 - 2) * cos (q * r) - 2) / r ^ 3 := by
  have hderiv : ∀ x ∈ Set.uIcc 0 q,
      HasDerivAt (fun Q => (2 * (Q * r) * sin (Q * r) - ((Q * r) ^ 2 - 2) * cos (Q * r)) / r ^ 3)
        (x ^ 2 * sin (x * r)) x := by
    intro x _
    have h1 : HasDerivAt (fun Q : ℝ => Q * r) r x := by simpa using (hasDerivAt_id x).mul_const r
    have h2 := (((h1.const_mul 2).mul h1.sin).sub (((h1.pow 2).sub_const 2).mul h1.cos)).div_const (r ^ 3)
    refine h2.congr_deriv ?_
    simp only [Pi.pow_apply]
    field_simp
    ring
  rw [integral_eq_sub_of_hasDerivAt hderiv]
  · simp; field_simp
  · exact (by fun_prop : Continuous fun x : ℝ => x ^ 2 * sin (x * r)).intervalIntegrable _ _
/-- Lorch-damped F2: ∫₀^q (sin(aQ)/a) sin(Q r) dQ, with vm = q (r-a), vp = q (r+a) -/
theorem int_F2_lorch (q r a : ℝ) (ha : a ≠ 0) (hm : r - a ≠ 0) (hp : r + a ≠ 0) :
    ∫ Q in (0:ℝ)..q, (sin (a * Q) / a) * sin (Q * r)
      = (sin (q * (r - a)) / (r - a) - sin (q * (r + a)) / (r + a)) / (2 * a) := by
  have hderiv : ∀ x ∈ Set.uIcc 0 q,
      HasDerivAt (fun Q => (sin (Q * (r - a)) / (r - a) - sin (Q * (r + a)) / (r + a)) / (2 * a))
        ((sin (a * x) / a) * sin (x * r)) x := by
    intro x _
    have hb : HasDerivAt (fun Q : ℝ => Q * (r - a)) (r - a) x := by simpa using (hasDerivAt_id x).mul_const (r - a)
    have hc : HasDerivAt (fun Q : ℝ => Q * (r + a)) (r + a) x := by simpa using (hasDerivAt_id x).mul_const (r + a)
    have h := ((hb.sin.div_const (r - a)).sub (hc.sin.div_const (r + a))).div_const (2 * a)
    refine h.congr_deriv ?_
    have e1 : x * (r - a) = x * r - a * x := by ring
    have e2 : x * (r + a) = x * r + a * x := by ring
    rw [e1, e2, cos_sub, cos_add]
    field_simp
    ring
  rw [integral_eq_sub_of_hasDerivAt hderiv]
  · simp
  · exact (by fun_prop : Continuous fun x : ℝ => (sin (a * x) / a) * sin (x * r)).intervalIntegrable _ _

/-- Lorch-damped F1: ∫₀^q Q (sin(aQ)/a) sin(Q r) dQ -/
theorem int_F1_lorch (q r a : ℝ) (ha : a ≠ 0) (hm : r - a ≠ 0) (hp : r + a ≠ 0) :
    ∫ Q in (0:ℝ)..q, Q * (sin (a * Q) / a) * sin (Q * r)
      = ((q * (r - a) * sin (q * (r - a)) + cos (q * (r - a)) - 1) / (r - a) ^ 2
          - (q * (r + a) * sin (q * (r + a)) + cos (q * (r + a)) - 1) / (r + a) ^ 2) / (2 * a) := by
  have hderiv : ∀ x ∈ Set.uIcc 0 q,
      HasDerivAt (fun Q => ((Q * (r - a) * sin (Q * (r - a)) + cos (Q * (r - a))) / (r - a) ^ 2
          - (Q * (r + a) * sin (Q * (r + a)) + cos (Q * (r + a))) / (r + a) ^ 2) / (2 * a))
        (x * (sin (a * x) / a) * sin (x * r)) x := by
    intro x _
    have hb : HasDerivAt (fun Q : ℝ => Q * (r - a)) (r - a) x := by simpa using (hasDerivAt_id x).mul_const (r - a)
    have hc : HasDerivAt (fun Q : ℝ => Q * (r + a)) (r + a) x := by simpa using (hasDerivAt_id x).mul_const (r + a)
    have h := ((((hb.mul hb.sin).add hb.cos).div_const ((r - a) ^ 2)).sub
               (((hc.mul hc.sin).add hc.cos).div_const ((r + a) ^ 2))).div_const (2 * a)
    refine h.congr_deriv ?_
    have e1 : x * (r - a) = x * r - a * x := by ring
    have e2 : x * (r + a) = x * r + a * x := by ring
    rw [e1, e2, cos_sub, cos_add, sin_sub, sin_add]
    field_simp
    ring
  rw [integral_eq_sub_of_hasDerivAt hderiv]
  · simp; field_simp; ring
  · exact (by fun_prop : Continuous fun x : ℝ => x * (sin (a * x) / a) * sin (x * r)).intervalIntegrable _ _

/-! ### sinc forms: valid for every r, the points r = ±π/Qmax included -/

/-- sin t / t, continued by 1 at t = 0 -/
noncomputable def sincR (t : ℝ) : ℝ := if t ≠ 0 then sin t / t else 1

@[simp] theorem sincR_zero : sincR 0 = 1 := by simp [sincR]
theorem sincR_of_ne {t : ℝ} (h : t ≠ 0) : sincR t = sin t / t := by simp [sincR, h]

/-- ∫₀^q cos(Q m) dQ = q·sinc(q m), for every m (m = 0 included) -/
theorem int_cos_mul (q m : ℝ) : ∫ Q in (0:ℝ)..q, cos (Q * m) = q * sincR (q * m) := by
  by_cases hm : m = 0
  · subst hm; simp
  by_cases hq : q = 0
  · subst hq; simp
  have hderiv : ∀ x ∈ Set.uIcc 0 q, HasDerivAt (fun Q => sin (Q * m) / m) (cos (x * m)) x := by
    intro x _
    have h1 : HasDerivAt (fun Q : ℝ => Q * m) m x := by simpa using (hasDerivAt_id x).mul_const m
    have h2 := h1.sin.div_const m
    refine h2.congr_deriv ?_
    field_simp
  rw [integral_eq_sub_of_hasDerivAt hderiv]
  · rw [sincR_of_ne (mul_ne_zero hq hm)]; simp; field_simp
  · exact (by fun_prop : Continuous fun x : ℝ => cos (x * m)).intervalIntegrable _ _

/-- ∫₀^q Q cos(Q m) dQ = q²·(sinc(q m) − sinc(q m/2)²/2), for every m (m = 0 included) -/
theorem int_mul_cos_mul (q m : ℝ) :
    ∫ Q in (0:ℝ)..q, Q * cos (Q * m) = q * q * (sincR (q * m) - 1 / 2 * (sincR (1 / 2 * (q * m)) * sincR (1 / 2 * (q * m)))) := by
  by_cases hm : m = 0
  · subst hm; simp; ring
  by_cases hq : q = 0
  · subst hq; simp
  have hderiv : ∀ x ∈ Set.uIcc 0 q, HasDerivAt (fun Q => cos (Q * m) / m ^ 2 + Q * sin (Q * m) / m) (x * cos (x * m)) x := by
    intro x _
    have h1 : HasDerivAt (fun Q : ℝ => Q * m) m x := by simpa using (hasDerivAt_id x).mul_const m
    have h2 := (h1.cos.div_const (m ^ 2)).add (((hasDerivAt_id x).mul h1.sin).div_const m)
    refine h2.congr_deriv ?_
    simp only [id]
    field_simp
    ring
  rw [integral_eq_sub_of_hasDerivAt hderiv]
  · have hv : q * m ≠ 0 := mul_ne_zero hq hm
    have hv2 : 1 / 2 * (q * m) ≠ 0 := by positivity
    rw [sincR_of_ne hv, sincR_of_ne hv2]
    have hs : sin (1 / 2 * (q * m)) * sin (1 / 2 * (q * m)) = 1 / 2 - cos (q * m) / 2 := by
      have := Real.sin_sq_eq_half_sub (1 / 2 * (q * m))
      rw [show 2 * (1 / 2 * (q * m)) = q * m by ring, sq] at this
      exact this
    simp only [zero_mul, cos_zero, sin_zero, mul_zero, zero_div, add_zero]
    have e : sin (1 / 2 * (q * m)) / (1 / 2 * (q * m)) * (sin (1 / 2 * (q * m)) / (1 / 2 * (q * m)))
        = (sin (1 / 2 * (q * m)) * sin (1 / 2 * (q * m))) / ((1 / 2 * (q * m)) * (1 / 2 * (q * m))) := by
      field_simp
    rw [e, hs]
    field_simp
    ring
  · exact (by fun_prop : Continuous fun x : ℝ => x * cos (x * m)).intervalIntegrable _ _

theorem sin_mul_sin_eq (a r x : ℝ) : sin (a * x) * sin (x * r) = (cos (x * (r - a)) - cos (x * (r + a))) / 2 := by
  have e1 : x * (r - a) = x * r - a * x := by ring
  have e2 : x * (r + a) = x * r + a * x := by ring
  rw [e1, e2, cos_sub, cos_add]; ring

/-- Lorch-damped F2 for every r (the points r = ±a included): ∫₀^q (sin(aQ)/a) sin(Q r) dQ -/
theorem int_F2_lorch_sinc (q r a : ℝ) (ha : a ≠ 0) :
    ∫ Q in (0:ℝ)..q, (sin (a * Q) / a) * sin (Q * r)
      = q * (sincR (q * (r - a)) - sincR (q * (r + a))) / (2 * a) := by
  have h : ∀ Q : ℝ, (sin (a * Q) / a) * sin (Q * r) = 1 / (2 * a) * (cos (Q * (r - a)) - cos (Q * (r + a))) := by
    intro Q
    rw [div_mul_eq_mul_div, sin_mul_sin_eq]; field_simp
  simp_rw [h]
  rw [intervalIntegral.integral_const_mul, intervalIntegral.integral_sub, int_cos_mul, int_cos_mul]
  · field_simp
  · exact (by fun_prop : Continuous fun Q : ℝ => cos (Q * (r - a))).intervalIntegrable _ _
  · exact (by fun_prop : Continuous fun Q : ℝ => cos (Q * (r + a))).intervalIntegrable _ _

/-- Lorch-damped F1 for every r: ∫₀^q Q (sin(aQ)/a) sin(Q r) dQ -/
theorem int_F1_lorch_sinc (q r a : ℝ) (ha : a ≠ 0) :
    ∫ Q in (0:ℝ)..q, Q * (sin (a * Q) / a) * sin (Q * r)
      = (q * q * (sincR (q * (r - a)) - 1 / 2 * (sincR (1 / 2 * (q * (r - a))) * sincR (1 / 2 * (q * (r - a)))))
          - q * q * (sincR (q * (r + a)) - 1 / 2 * (sincR (1 / 2 * (q * (r + a))) * sincR (1 / 2 * (q * (r + a)))))) / (2 * a) := by
  have h : ∀ Q : ℝ, Q * (sin (a * Q) / a) * sin (Q * r)
      = 1 / (2 * a) * (Q * cos (Q * (r - a)) - Q * cos (Q * (r + a))) := by
    intro Q
    rw [mul_assoc, div_mul_eq_mul_div, sin_mul_sin_eq]; field_simp
  simp_rw [h]
  rw [intervalIntegral.integral_const_mul, intervalIntegral.integral_sub, int_mul_cos_mul, int_mul_cos_mul]
  · field_simp
  · exact (by fun_prop : Continuous fun Q : ℝ => Q * cos (Q * (r - a))).intervalIntegrable _ _
  · exact (by fun_prop : Continuous fun Q : ℝ => Q * cos (Q * (r + a))).intervalIntegrable _ _

/-- for m ≠ 0 the sinc forms are the quotients of the original StoG -/
theorem sinc_quot1 (q m : ℝ) (hm : m ≠ 0) : q * sincR (q * m) = sin (q * m) / m := by
  by_cases hq : q = 0
  · subst hq; simp
  · rw [sincR_of_ne (mul_ne_zero hq hm)]; field_simp

theorem sinc_quot2 (q m : ℝ) (hm : m ≠ 0) :
    q * q * (sincR (q * m) - 1 / 2 * (sincR (1 / 2 * (q * m)) * sincR (1 / 2 * (q * m))))
      = (q * m * sin (q * m) + cos (q * m) - 1) / (m * m) := by
  by_cases hq : q = 0
  · subst hq; simp
  · have hv : q * m ≠ 0 := mul_ne_zero hq hm
    have hv2 : 1 / 2 * (q * m) ≠ 0 := by positivity
    rw [sincR_of_ne hv, sincR_of_ne hv2]
    have hs : sin (1 / 2 * (q * m)) * sin (1 / 2 * (q * m)) = 1 / 2 - cos (q * m) / 2 := by
      have := Real.sin_sq_eq_half_sub (1 / 2 * (q * m))
      rw [show 2 * (1 / 2 * (q * m)) = q * m by ring, sq] at this
      exact this
    have e : sin (1 / 2 * (q * m)) / (1 / 2 * (q * m)) * (sin (1 / 2 * (q * m)) / (1 / 2 * (q * m)))
        = (sin (1 / 2 * (q * m)) * sin (1 / 2 * (q * m))) / ((1 / 2 * (q * m)) * (1 / 2 * (q * m))) := by
      field_simp
    rw [e, hs]
    field_simp
    ring

theorem sincR_neg (t : ℝ) : sincR (-t) = sincR t := by
  by_cases h : t = 0
  · subst h; simp
  · rw [sincR_of_ne h, sincR_of_ne (neg_ne_zero.mpr h), sin_neg, neg_div_neg_eq]

/-- `numpy.sinc(t/π)` is sin(t)/t continued by 1 -/
theorem Num.sinc_div_pi (t : ℝ) : Num.sinc (t / Real.pi) = sincR t := by
  have hpi : (Real.pi : ℝ) ≠ 0 := Real.pi_ne_zero
  simp only [Num.sinc, Transc.pi_real, Transc.sin_real, Cmp.ne_real, Nat.cast_zero, Nat.cast_one, sincR]
  rw [mul_div_cancel₀ t hpi]
  by_cases h : t = 0 <;> simp [h]
