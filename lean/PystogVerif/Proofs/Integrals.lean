import PystogVerif.Real
import Mathlib.Analysis.SpecialFunctions.Integrals.Basic
import Mathlib.Tactic.Ring
import Mathlib.Tactic.FieldSimp

/-! # Closed-form integrals behind the omitted low-Q correction (C15) -/
open Real intervalIntegral

/-- F2 = ∫₀^q Q sin(Q r) dQ -/
theorem int_F2 (q r : ℝ) (hr : r ≠ 0) :
    ∫ Q in (0:ℝ)..q, Q * sin (Q * r) = (sin (q * r) - q * r * cos (q * r)) / r ^ 2 := by
  have hderiv : ∀ x ∈ Set.uIcc 0 q,
      HasDerivAt (fun Q => (sin (Q * r) - Q * r * cos (Q * r)) / r ^ 2) (x * sin (x * r)) x := by
    intro x _
    have h1 : HasDerivAt (fun Q : ℝ => Q * r) r x := by simpa using (hasDerivAt_id x).mul_const r
    have h4 := ((h1.sin).sub (h1.mul h1.cos)).div_const (r ^ 2)
    refine h4.congr_deriv ?_
    field_simp
    ring
  rw [integral_eq_sub_of_hasDerivAt hderiv]
  · simp
  · exact (by fun_prop : Continuous fun x : ℝ => x * sin (x * r)).intervalIntegrable _ _

/-- F1 = ∫₀^q Q² sin(Q r) dQ -/
theorem int_F1 (q r : ℝ) (hr : r ≠ 0) :
    ∫ Q in (0:ℝ)..q, Q ^ 2 * sin (Q * r)
      = (2 * (q * r) * sin (q * r) - ((q * r) ^ 2 - 2) * cos (q * r) - 2) / r ^ 3 := by
  have hderiv : ∀ x ∈ Set.uIcc 0 q,
      HasDerivAt (fun Q => (2 * (Q * r) * sin (Q * r) - ((Q * r) ^ 2 - 2) * cos (Q * r)) / r ^ 3)
        (x ^ 2 * sin (x * r)) x := by
    intro x _
    have h1 : HasDerivAt (fun Q : ℝ => Q * r) r x := by simpa using (hasDerivAt_id x).mul_const r
    have h2 := (((h1.const_mul 2).mul h1.sin).sub (((h1.pow 2).sub_const 2).mul h1.cos)).div_const (r ^ 3)
    refine h2.congr_deriv ?_
    simp only [Pi.pow_apply]
    field_simp
    ring
  rw [integral_eq_sub_of_hasDerivAt hderiv]
  · simp; field_simp
  · exact (by fun_prop : Continuous fun x : ℝ => x ^ 2 * sin (x * r)).intervalIntegrable _ _
/-- Lorch-damped F2: ∫₀^q (sin(aQ)/a) sin(Q r) dQ, with vm = q (r-a), vp = q (r+a) -/
theorem int_F2_lorch (q r a : ℝ) (ha : a ≠ 0) (hm : r - a ≠ 0) (hp : r + a ≠ 0) :
    ∫ Q in (0:ℝ)..q, (sin (a * Q) / a) * sin (Q * r)
      = (sin (q * (r - a)) / (r - a) - sin (q * (r + a)) / (r + a)) / (2 * a) := by
  have hderiv : ∀ x ∈ Set.uIcc 0 q,
      HasDerivAt (fun Q => (sin (Q * (r - a)) / (r - a) - sin (Q * (r + a)) / (r + a)) / (2 * a))
        ((sin (a * x) / a) * sin (x * r)) x := by
    intro x _
    have hb : HasDerivAt (fun Q : ℝ => Q * (r - a)) (r - a) x := by simpa using (hasDerivAt_id x).mul_const (r - a)
    have hc : HasDerivAt (fun Q : ℝ => Q * (r + a)) (r + a) x := by simpa using (hasDerivAt_id x).mul_const (r + a)
    have h := ((hb.sin.div_const (r - a)).sub (hc.sin.div_const (r + a))).div_const (2 * a)
    refine h.congr_deriv ?_
    have e1 : x * (r - a) = x * r - a * x := by ring
    have e2 : x * (r + a) = x * r + a * x := by ring
    rw [e1, e2, cos_sub, cos_add]
    field_simp
    ring
  rw [integral_eq_sub_of_hasDerivAt hderiv]
  · simp
  · exact (by fun_prop : Continuous fun x : ℝ => (sin (a * x) / a) * sin (x * r)).intervalIntegrable _ _

/-- Lorch-damped F1: ∫₀^q Q (sin(aQ)/a) sin(Q r) dQ -/
theorem int_F1_lorch (q r a : ℝ) (ha : a ≠ 0) (hm : r - a ≠ 0) (hp : r + a ≠ 0) :
    ∫ Q in (0:ℝ)..q, Q * (sin (a * Q) / a) * sin (Q * r)
      = ((q * (r - a) * sin (q * (r - a)) + cos (q * (r - a)) - 1) / (r - a) ^ 2
          - (q * (r + a) * sin (q * (r + a)) + cos (q * (r + a)) - 1) / (r + a) ^ 2) / (2 * a) := by
  have hderiv : ∀ x ∈ Set.uIcc 0 q,
      HasDerivAt (fun Q => ((Q * (r - a) * sin (Q * (r - a)) + cos (Q * (r - a))) / (r - a) ^ 2
          - (Q * (r + a) * sin (Q * (r + a)) + cos (Q * (r + a))) / (r + a) ^ 2) / (2 * a))
        (x * (sin (a * x) / a) * sin (x * r)) x := by
    intro x _
    have hb : HasDerivAt (fun Q : ℝ => Q * (r - a)) (r - a) x := by simpa using (hasDerivAt_id x).mul_const (r - a)
    have hc : HasDerivAt (fun Q : ℝ => Q * (r + a)) (r + a) x := by simpa using (hasDerivAt_id x).mul_const (r + a)
    have h := ((((hb.mul hb.sin).add hb.cos).div_const ((r - a) ^ 2)).sub
               (((hc.mul hc.sin).add hc.cos).div_const ((r + a) ^ 2))).div_const (2 * a)
    refine h.congr_deriv ?_
    have e1 : x * (r - a) = x * r - a * x := by ring
    have e2 : x * (r + a) = x * r + a * x := by ring
    rw [e1, e2, cos_sub, cos_add, sin_sub, sin_add]
    field_simp
    ring
  rw [integral_eq_sub_of_hasDerivAt hderiv]
  · simp; field_simp; ring
  · exact (by fun_prop : Continuous fun x : ℝ => x * (sin (a * x) / a) * sin (x * r)).intervalIntegrable _ _
