import PystogVerif.Props.C02
import Mathlib.Algebra.BigOperators.Intervals
import Mathlib.Algebra.BigOperators.Field
import Mathlib.Tactic.Positivity
import Mathlib.Tactic.NormNum
import Mathlib.Tactic.FieldSimp

/-! # Discrete sine transform orthogonality and the trapezoid rule on uniform grids (engine of C01) -/
open Real Finset Spec

/-- Lagrange: 2 sin(θ/2) Σ_{j<N} cos(jθ) = sin((N-1/2)θ) + sin(θ/2) -/
theorem cos_sum_telescope (θ : ℝ) (N : ℕ) :
    2 * sin (θ / 2) * ∑ j ∈ range N, cos (j * θ) = sin ((N - 1/2) * θ) + sin (θ / 2) := by
  induction N with
  | zero =>
    simp
    rw [show (2:ℝ)⁻¹ * θ = θ / 2 by ring]; ring
  | succ n ih =>
    rw [sum_range_succ, mul_add, ih]
    have h : 2 * sin (θ/2) * cos (n * θ) = sin ((n + 1/2) * θ) - sin ((n - 1/2) * θ) := by
      have e1 : (n + 1/2 : ℝ) * θ = n * θ + θ/2 := by ring
      have e2 : (n - 1/2 : ℝ) * θ = n * θ - θ/2 := by ring
      rw [e1, e2, sin_add, sin_sub]; ring
    rw [h]; push_cast; ring_nf

/-- Σ_{j<N} cos(j π m / N) for 0 < m < 2N -/
theorem cos_sum_grid (N m : ℕ) (hN : 0 < N) (hm : 0 < m) (hm2 : m < 2 * N) :
    ∑ j ∈ range N, cos (j * (π * m / N)) = (1 - (-1:ℝ)^m) / 2 := by
  have hNr : (0:ℝ) < N := by exact_mod_cast hN
  set θ : ℝ := π * m / N with hθ
  have key := cos_sum_telescope θ N
  have hs : sin (θ / 2) ≠ 0 := by
    apply ne_of_gt
    apply sin_pos_of_pos_of_lt_pi
    · have : (0:ℝ) < m := by exact_mod_cast hm
      positivity
    · have : (m:ℝ) < 2 * N := by exact_mod_cast hm2
      rw [hθ]
      have : π * m / N / 2 = π * (m / (2 * N)) := by field_simp
      rw [this]
      have h1 : (m:ℝ) / (2 * N) < 1 := by rw [div_lt_one (by positivity)]; exact ‹(m:ℝ) < 2 * N›
      nlinarith [pi_pos]
  have e : (N - 1/2 : ℝ) * θ = m * π - θ / 2 := by rw [hθ]; field_simp
  rw [e, sin_sub] at key
  have hsin : sin (m * π) = 0 := sin_nat_mul_pi m
  have hcos : cos (m * π) = (-1)^m := cos_nat_mul_pi m
  rw [hsin, hcos] at key
  have : 2 * sin (θ/2) * ∑ j ∈ range N, cos (j * θ) = 2 * sin (θ/2) * ((1 - (-1:ℝ)^m) / 2) := by
    rw [key]; ring
  exact mul_left_cancel₀ (mul_ne_zero two_ne_zero hs) this

/-- cos sum for all integers offsets m with 0 ≤ m < 2N, including m = 0 -/
theorem cos_sum_grid0 (N : ℕ) : ∑ j ∈ range N, cos (j * (π * (0:ℕ) / N)) = N := by simp

/-- DST-I orthogonality -/
theorem dst_orth (N k l : ℕ) (hN : 0 < N) (hk : 0 < k) (hkN : k < N) (hl : 0 < l) (hlN : l < N) :
    ∑ j ∈ range N, sin (π * j * k / N) * sin (π * j * l / N) = if k = l then (N:ℝ) / 2 else 0 := by
  have hNr : (N:ℝ) ≠ 0 := by exact_mod_cast hN.ne'
  -- product to sum
  have prod : ∀ j : ℕ, sin (π * j * k / N) * sin (π * j * l / N)
      = (cos (j * (π * ((k:ℝ) - l) / N)) - cos (j * (π * ((k + l : ℕ):ℝ) / N))) / 2 := by
    intro j
    have e1 : (j:ℝ) * (π * ((k:ℝ) - l) / N) = π * j * k / N - π * j * l / N := by field_simp
    have e2 : (j:ℝ) * (π * ((k + l : ℕ):ℝ) / N) = π * j * k / N + π * j * l / N := by push_cast; field_simp
    rw [e1, e2, cos_sub, cos_add]; ring
  simp_rw [prod]
  rw [← Finset.sum_div, Finset.sum_sub_distrib]
  have hsum : ∑ j ∈ range N, cos (j * (π * ((k + l : ℕ):ℝ) / N)) = (1 - (-1:ℝ)^(k+l)) / 2 :=
    cos_sum_grid N (k + l) hN (by omega) (by omega)
  rw [hsum]
  by_cases h : k = l
  · subst h
    simp only [sub_self, mul_zero, zero_div, cos_zero, sum_const, card_range, nsmul_eq_mul, mul_one, if_true]
    have : ((-1:ℝ))^(k+k) = 1 := by rw [← two_mul, pow_mul]; simp
    rw [this]; ring
  · simp only [h, if_false]
    -- wlog on order via cos even
    rcases Nat.lt_or_gt_of_ne h with hlt | hgt
    · -- k < l : cos(j*(π (k-l)/N)) = cos(j*(π (l-k)/N))
      have hm : ∑ j ∈ range N, cos (j * (π * ((k:ℝ) - l) / N)) = (1 - (-1:ℝ)^(l-k)) / 2 := by
        have := cos_sum_grid N (l - k) hN (by omega) (by omega)
        rw [← this]
        apply Finset.sum_congr rfl
        intro j _
        rw [← cos_neg]
        congr 1
        rw [Nat.cast_sub hlt.le]; ring
      rw [hm]
      have par : ((-1:ℝ))^(k+l) = (-1)^(l-k) := by
        have : k + l = (l - k) + 2 * k := by omega
        rw [this, pow_add, pow_mul]; simp
      rw [par]; ring
    · have hm : ∑ j ∈ range N, cos (j * (π * ((k:ℝ) - l) / N)) = (1 - (-1:ℝ)^(k-l)) / 2 := by
        have := cos_sum_grid N (k - l) hN (by omega) (by omega)
        rw [← this]
        apply Finset.sum_congr rfl
        intro j _
        congr 2
        rw [Nat.cast_sub hgt.le]
      rw [hm]
      have par : ((-1:ℝ))^(k+l) = (-1)^(k-l) := by
        have : k + l = (k - l) + 2 * l := by omega
        rw [this, pow_add, pow_mul]; simp
      rw [par]; ring
/-- trapezoid over an indexed grid as a Finset sum over intervals -/
theorem trapzRec_range' (X ψ : ℕ → ℝ) : ∀ (n s : ℕ),
    trapzRec ((List.range' s (n + 1)).map X) ((List.range' s (n + 1)).map ψ)
      = ∑ i ∈ range n, (X (s + i + 1) - X (s + i)) * (ψ (s + i + 1) + ψ (s + i)) / 2
  | 0, s => by simp [List.range', trapzRec]
  | n + 1, s => by
      have ih := trapzRec_range' X ψ n (s + 1)
      rw [List.range'_succ, List.range'_succ] at *
      simp only [List.map_cons, trapzRec] at ih ⊢
      rw [Finset.sum_range_succ']
      rw [ih]
      simp only [add_zero]
      rw [add_comm]
      congr 1
      apply Finset.sum_congr rfl
      intro i _
      have e1 : s + 1 + i + 1 = s + (i + 1) + 1 := by omega
      have e2 : s + 1 + i = s + (i + 1) := by omega
      rw [e1, e2]

/-- uniform grid: d * (sum of all − half the end points) -/
theorem trapzRec_uniform (a d : ℝ) (ψ : ℕ → ℝ) (n : ℕ) :
    trapzRec ((List.range (n + 1)).map (fun i : ℕ => a + (i : ℝ) * d)) ((List.range (n + 1)).map ψ)
      = d * (∑ i ∈ range (n + 1), ψ i - (ψ 0 + ψ n) / 2) := by
  rw [List.range_eq_range', trapzRec_range' (fun i : ℕ => a + (i : ℝ) * d) ψ n 0]
  have h : ∀ i ∈ range n, ((fun i : ℕ => a + (i : ℝ) * d) (0 + i + 1) - (fun i : ℕ => a + (i : ℝ) * d) (0 + i)) *
      (ψ (0 + i + 1) + ψ (0 + i)) / 2 = d / 2 * (ψ (i + 1) + ψ i) := by
    intro i _
    simp only [zero_add]
    push_cast
    ring
  rw [Finset.sum_congr rfl h, ← Finset.mul_sum, Finset.sum_add_distrib]
  have s1 : ∑ i ∈ range n, ψ (i + 1) = ∑ i ∈ range (n + 1), ψ i - ψ 0 := by
    rw [Finset.sum_range_succ' (fun i => ψ i) n]; ring
  have s2 : ∑ i ∈ range n, ψ i = ∑ i ∈ range (n + 1), ψ i - ψ n := by
    rw [Finset.sum_range_succ]; ring
  rw [s1, s2]; ring
/-- inner sum over j of sin·sin on the closed index range 0..N, for any k,l ≤ N -/
theorem sinsin_sum (N k l : ℕ) (hN : 0 < N) (hk : k ≤ N) (hl : l ≤ N) :
    ∑ j ∈ range (N + 1), sin (π * j * k / N) * sin (π * j * l / N)
      = if k = l ∧ 0 < k ∧ k < N then (N : ℝ) / 2 else 0 := by
  have hNr : (N : ℝ) ≠ 0 := by exact_mod_cast hN.ne'
  -- drop the j = N term
  rw [Finset.sum_range_succ]
  have hlast : sin (π * (N : ℝ) * k / N) = 0 := by
    have : π * (N : ℝ) * k / N = k * π := by field_simp
    rw [this]; exact sin_nat_mul_pi k
  rw [hlast, zero_mul, add_zero]
  by_cases hk0 : k = 0
  · subst hk0; simp
  by_cases hkN : k = N
  · subst hkN
    have : ∀ j : ℕ, sin (π * j * (k : ℝ) / k) = 0 := by
      intro j
      have : π * (j : ℝ) * k / k = j * π := by field_simp
      rw [this]; exact sin_nat_mul_pi j
    simp [this]
  by_cases hl0 : l = 0
  · subst hl0
    have : ¬ (k = 0) := hk0
    simp [this]
  by_cases hlN : l = N
  · subst hlN
    have : ∀ j : ℕ, sin (π * j * (l : ℝ) / l) = 0 := by
      intro j
      have : π * (j : ℝ) * l / l = j * π := by field_simp
      rw [this]; exact sin_nat_mul_pi j
    have hne : ¬ (k = l) := hkN
    simp [this, hne]
  have hk1 : 0 < k := Nat.pos_of_ne_zero hk0
  have hk2 : k < N := lt_of_le_of_ne hk hkN
  have hl1 : 0 < l := Nat.pos_of_ne_zero hl0
  have hl2 : l < N := lt_of_le_of_ne hl hlN
  rw [dst_orth N k l hN hk1 hk2 hl1 hl2]
  by_cases h : k = l
  · subst h; simp [hk1, hk2]
  · simp [h]

/-- discrete sine transform applied twice on the matched grid returns (N/2)·f -/
theorem dst_roundtrip (N : ℕ) (hN : 0 < N) (f : ℕ → ℝ) (h0 : f 0 = 0) (hN' : f N = 0) (l : ℕ) (hl : l ≤ N) :
    ∑ j ∈ range (N + 1), (∑ k ∈ range (N + 1), f k * sin (π * j * k / N)) * sin (π * j * l / N)
      = (N : ℝ) / 2 * f l := by
  simp_rw [Finset.sum_mul]
  rw [Finset.sum_comm]
  have : ∀ k ∈ range (N + 1), ∑ j ∈ range (N + 1), f k * sin (π * j * k / N) * sin (π * j * l / N)
      = f k * (if k = l ∧ 0 < k ∧ k < N then (N : ℝ) / 2 else 0) := by
    intro k hk
    have hk' : k ≤ N := Nat.lt_succ_iff.mp (mem_range.mp hk)
    rw [← sinsin_sum N k l hN hk' hl, Finset.mul_sum]
    apply Finset.sum_congr rfl; intro j _; ring
  rw [Finset.sum_congr rfl this]
  by_cases hl0 : l = 0
  · subst hl0
    rw [h0]
    simp only [mul_zero]
    apply Finset.sum_eq_zero
    intro k _
    by_cases hk : k = 0 <;> simp [hk]
  by_cases hlN : l = N
  · subst hlN
    rw [hN']
    simp only [mul_zero]
    apply Finset.sum_eq_zero
    intro k _
    have : ¬ (k = l ∧ 0 < k ∧ k < l) := by rintro ⟨rfl, _, h⟩; exact lt_irrefl _ h
    simp [this]
  have hl1 : 0 < l := Nat.pos_of_ne_zero hl0
  have hl2 : l < N := lt_of_le_of_ne hl hlN
  rw [Finset.sum_eq_single l]
  · simp [hl1, hl2]; ring
  · intro k _ hkl
    have : ¬ (k = l ∧ 0 < k ∧ k < N) := fun h => hkl h.1
    simp [this]
  · intro h; exact absurd (mem_range.mpr (Nat.lt_succ_of_le hl)) h
