import PystogVerif.Proofs.Gaussian
import Mathlib.MeasureTheory.Integral.IntervalIntegral.TrapezoidalRule
import Mathlib.Analysis.Calculus.IteratedDeriv.Lemmas

open Real MeasureTheory Set Filter Topology

namespace PystogVerif.Quad

/-- the integrand of the sine transform of `A x exp(-a x²)` -/
noncomputable def h (A a t : ℝ) (x : ℝ) : ℝ := A * x * Real.exp (-a * x ^ 2) * Real.sin (t * x)

noncomputable def h1 (A a t : ℝ) (x : ℝ) : ℝ :=
  A * ((1 - 2 * a * x ^ 2) * Real.exp (-a * x ^ 2) * Real.sin (t * x) + x * Real.exp (-a * x ^ 2) * (t * Real.cos (t * x)))

noncomputable def h2 (A a t : ℝ) (x : ℝ) : ℝ :=
  A * ((-6 * a * x + 4 * a ^ 2 * x ^ 3) * Real.exp (-a * x ^ 2) * Real.sin (t * x)
    + 2 * (1 - 2 * a * x ^ 2) * Real.exp (-a * x ^ 2) * (t * Real.cos (t * x))
    - x * Real.exp (-a * x ^ 2) * (t ^ 2 * Real.sin (t * x)))

theorem hasDerivAt_gexp (a x : ℝ) : HasDerivAt (fun y : ℝ => Real.exp (-a * y ^ 2)) (Real.exp (-a * x ^ 2) * (-a * (2 * x))) x := by
  have h1 : HasDerivAt (fun y : ℝ => -a * y ^ 2) (-a * (2 * x)) x := by
    have := ((hasDerivAt_id x).pow 2).const_mul (-a)
    simpa using this
  exact h1.exp

theorem hasDerivAt_sin_mul (t x : ℝ) : HasDerivAt (fun y : ℝ => Real.sin (t * y)) (t * Real.cos (t * x)) x := by
  have := ((hasDerivAt_id x).const_mul t).sin
  simpa [mul_comm] using this

theorem hasDerivAt_cos_mul (t x : ℝ) : HasDerivAt (fun y : ℝ => Real.cos (t * y)) (-(t * Real.sin (t * x))) x := by
  have := ((hasDerivAt_id x).const_mul t).cos
  simpa [mul_comm] using this

theorem hasDerivAt_h (A a t x : ℝ) : HasDerivAt (h A a t) (h1 A a t x) x := by
  have e := hasDerivAt_gexp a x
  have s := hasDerivAt_sin_mul t x
  have := (((hasDerivAt_id x).const_mul A).mul e).mul s
  have key : HasDerivAt (h A a t) _ x := this
  refine key.congr_deriv ?_
  simp only [h1, Pi.mul_apply, id]; ring

theorem hasDerivAt_h1 (A a t x : ℝ) : HasDerivAt (h1 A a t) (h2 A a t x) x := by
  have e := hasDerivAt_gexp a x
  have s := hasDerivAt_sin_mul t x
  have c := hasDerivAt_cos_mul t x
  have p : HasDerivAt (fun y : ℝ => 1 - 2 * a * y ^ 2) (-(2 * a * (2 * x))) x := by
    have := (((hasDerivAt_id x).pow 2).const_mul (2 * a)).const_sub 1
    simpa using this
  have t1 := (p.mul e).mul s
  have t2 := ((hasDerivAt_id x).mul e).mul (c.const_mul t)
  have := (t1.add t2).const_mul A
  have key : HasDerivAt (h1 A a t) _ x := this
  refine key.congr_deriv ?_
  simp only [h2, Pi.mul_apply, id]; ring

theorem deriv_h (A a t : ℝ) : deriv (h A a t) = h1 A a t := funext fun x => (hasDerivAt_h A a t x).deriv
theorem deriv_h1 (A a t : ℝ) : deriv (h1 A a t) = h2 A a t := funext fun x => (hasDerivAt_h1 A a t x).deriv

theorem iteratedDeriv_two_h (A a t : ℝ) : iteratedDeriv 2 (h A a t) = h2 A a t := by
  rw [iteratedDeriv_succ, iteratedDeriv_one, deriv_h, deriv_h1]

theorem contDiff_h (A a t : ℝ) : ContDiff ℝ 2 (h A a t) := by
  unfold h
  fun_prop

/-- bound of the second derivative on [0, R] -/
noncomputable def zeta (A a t R : ℝ) : ℝ := |A| * (6 * a * R + 4 * a ^ 2 * R ^ 3 + 2 * |t| * (1 + 2 * a * R ^ 2) + t ^ 2 * R)

theorem abs_h2_le (A a t R x : ℝ) (ha : 0 < a) (hx0 : 0 ≤ x) (hxR : x ≤ R) : |h2 A a t x| ≤ zeta A a t R := by
  have he : |Real.exp (-a * x ^ 2)| ≤ 1 := by
    rw [abs_of_pos (Real.exp_pos _)]
    apply Real.exp_le_one_iff.mpr
    nlinarith [sq_nonneg x]
  have hs := Real.abs_sin_le_one (t * x)
  have hc := Real.abs_cos_le_one (t * x)
  have hR : 0 ≤ R := hx0.trans hxR
  unfold h2 zeta
  rw [abs_mul]
  apply mul_le_mul_of_nonneg_left _ (abs_nonneg A)
  have b1 : |(-6 * a * x + 4 * a ^ 2 * x ^ 3) * Real.exp (-a * x ^ 2) * Real.sin (t * x)| ≤ 6 * a * R + 4 * a ^ 2 * R ^ 3 := by
    rw [abs_mul, abs_mul]
    have : |-6 * a * x + 4 * a ^ 2 * x ^ 3| ≤ 6 * a * R + 4 * a ^ 2 * R ^ 3 := by
      have h3 : x ^ 3 ≤ R ^ 3 := pow_le_pow_left₀ hx0 hxR 3
      have h3' : 0 ≤ x ^ 3 := pow_nonneg hx0 3
      rw [abs_le]; constructor <;> nlinarith [mul_nonneg ha.le hx0, mul_nonneg (sq_nonneg a) h3']
    calc _ ≤ (6 * a * R + 4 * a ^ 2 * R ^ 3) * 1 * 1 := by
          apply mul_le_mul (mul_le_mul this he (abs_nonneg _) (by positivity)) hs (abs_nonneg _) (by positivity)
      _ = _ := by ring
  have b2 : |2 * (1 - 2 * a * x ^ 2) * Real.exp (-a * x ^ 2) * (t * Real.cos (t * x))| ≤ 2 * |t| * (1 + 2 * a * R ^ 2) := by
    rw [abs_mul, abs_mul, abs_mul t]
    have : |2 * (1 - 2 * a * x ^ 2)| ≤ 2 * (1 + 2 * a * R ^ 2) := by
      have h2 : x ^ 2 ≤ R ^ 2 := pow_le_pow_left₀ hx0 hxR 2
      rw [abs_le]; constructor <;> nlinarith [mul_nonneg ha.le (sq_nonneg x), mul_le_mul_of_nonneg_left h2 ha.le]
    calc _ ≤ (2 * (1 + 2 * a * R ^ 2)) * 1 * (|t| * 1) := by
          apply mul_le_mul (mul_le_mul this he (abs_nonneg _) (by positivity)) (mul_le_mul_of_nonneg_left hc (abs_nonneg t))
            (by positivity) (by positivity)
      _ = _ := by ring
  have b3 : |x * Real.exp (-a * x ^ 2) * (t ^ 2 * Real.sin (t * x))| ≤ t ^ 2 * R := by
    rw [abs_mul, abs_mul, abs_mul (t ^ 2), abs_of_nonneg hx0, abs_of_nonneg (sq_nonneg t)]
    calc _ ≤ R * 1 * (t ^ 2 * 1) := by
          apply mul_le_mul (mul_le_mul hxR he (abs_nonneg _) hR) (mul_le_mul_of_nonneg_left hs (sq_nonneg t)) (by positivity) (by positivity)
      _ = _ := by ring
  calc _ ≤ |(-6 * a * x + 4 * a ^ 2 * x ^ 3) * Real.exp (-a * x ^ 2) * Real.sin (t * x)
        + 2 * (1 - 2 * a * x ^ 2) * Real.exp (-a * x ^ 2) * (t * Real.cos (t * x))|
        + |x * Real.exp (-a * x ^ 2) * (t ^ 2 * Real.sin (t * x))| := abs_sub _ _
    _ ≤ _ := by
      have := abs_add_le ((-6 * a * x + 4 * a ^ 2 * x ^ 3) * Real.exp (-a * x ^ 2) * Real.sin (t * x)) (2 * (1 - 2 * a * x ^ 2) * Real.exp (-a * x ^ 2) * (t * Real.cos (t * x)))
      linarith

theorem zeta_nonneg (A a t R : ℝ) (ha : 0 < a) (hR : 0 ≤ R) : 0 ≤ zeta A a t R := by
  unfold zeta; positivity


theorem iteratedDerivWithin_two_h_le (A a t R : ℝ) (ha : 0 < a) (hR : 0 < R) (x : ℝ) :
    |iteratedDerivWithin 2 (h A a t) (uIcc 0 R) x| ≤ zeta A a t R := by
  rw [uIcc_of_le hR.le]
  by_cases hx : x ∈ Icc 0 R
  · rw [iteratedDerivWithin_eq_iteratedDeriv (uniqueDiffOn_Icc hR) (contDiff_h A a t).contDiffAt hx, iteratedDeriv_two_h]
    exact abs_h2_le A a t R x ha hx.1 hx.2
  · have hc : x ∉ closure (Icc 0 R) := by rwa [closure_Icc]
    rw [iteratedDerivWithin_succ, derivWithin_zero_of_notMem_closure hc, abs_zero]
    exact zeta_nonneg A a t R ha hR.le

/-- trapezoid rule with N panels on [0, R] against the integral over [0, R] -/
theorem trapezoid_error_h (A a t R : ℝ) (ha : 0 < a) (hR : 0 < R) (N : ℕ) (hN : 0 < N) :
    |trapezoidal_integral (h A a t) N 0 R - ∫ x in (0 : ℝ)..R, h A a t x| ≤ R ^ 3 * zeta A a t R / (12 * N ^ 2) := by
  have := trapezoidal_error_le_of_c2 (f := h A a t) (a := 0) (b := R) (contDiff_h A a t).contDiffOn
    (iteratedDerivWithin_two_h_le A a t R ha hR) hN
  simpa [trapezoidal_error, abs_of_pos hR] using this

theorem integrableOn_h (A a t c : ℝ) (ha : 0 < a) : IntegrableOn (h A a t) (Ioi c) := by
  have hxg : Integrable (fun x : ℝ => x * Real.exp (-a * x ^ 2)) := integrable_mul_exp_neg_mul_sq ha
  have hsin : AEStronglyMeasurable (fun x : ℝ => Real.sin (t * x)) volume :=
    (Real.continuous_sin.comp (continuous_const.mul continuous_id)).aestronglyMeasurable
  have : Integrable (h A a t) := by
    have hh := (hxg.const_mul A).mul_bdd (c := 1) hsin (Filter.Eventually.of_forall fun x => by simpa using Real.abs_sin_le_one _)
    refine hh.congr (Filter.Eventually.of_forall fun x => ?_)
    simp only [h]; ring
  exact this.integrableOn

/-- what the grid does not see: the part of the integral beyond R -/
theorem tail_le (A a t R : ℝ) (ha : 0 < a) (hR : 0 ≤ R) :
    |∫ x in Ioi R, h A a t x| ≤ |A| * Real.exp (-a * R ^ 2) / (2 * a) := by
  have hint : IntegrableOn (fun x : ℝ => |A| * (x * Real.exp (-a * x ^ 2))) (Ioi R) :=
    ((integrable_mul_exp_neg_mul_sq ha).const_mul |A|).integrableOn
  have hle : |∫ x in Ioi R, h A a t x| ≤ ∫ x in Ioi R, |A| * (x * Real.exp (-a * x ^ 2)) := by
    calc |∫ x in Ioi R, h A a t x| = ‖∫ x in Ioi R, h A a t x‖ := (Real.norm_eq_abs _).symm
      _ ≤ ∫ x in Ioi R, ‖h A a t x‖ := norm_integral_le_integral_norm _
      _ ≤ ∫ x in Ioi R, |A| * (x * Real.exp (-a * x ^ 2)) := by
        refine setIntegral_mono_on (integrableOn_h A a t R ha).norm hint measurableSet_Ioi (fun x hx => ?_)
        have hx0 : 0 ≤ x := hR.trans (le_of_lt hx)
        simp only [h, Real.norm_eq_abs, abs_mul, abs_of_nonneg hx0, abs_of_pos (Real.exp_pos _)]
        calc |A| * x * Real.exp (-a * x ^ 2) * |Real.sin (t * x)| ≤ |A| * x * Real.exp (-a * x ^ 2) * 1 :=
              mul_le_mul_of_nonneg_left (Real.abs_sin_le_one _) (by positivity)
          _ = _ := by ring
  have hval : ∫ x in Ioi R, |A| * (x * Real.exp (-a * x ^ 2)) = |A| * Real.exp (-a * R ^ 2) / (2 * a) := by
    have hderiv : ∀ x ∈ Ici R, HasDerivAt (fun y : ℝ => -(|A| / (2 * a)) * Real.exp (-a * y ^ 2)) (|A| * (x * Real.exp (-a * x ^ 2))) x := by
      intro x _
      have := (hasDerivAt_gexp a x).const_mul (-(|A| / (2 * a)))
      refine this.congr_deriv ?_
      field_simp
    have htend : Tendsto (fun y : ℝ => -(|A| / (2 * a)) * Real.exp (-a * y ^ 2)) atTop (𝓝 (-(|A| / (2 * a)) * 0)) := by
      apply Tendsto.const_mul
      have h1 : Tendsto (fun y : ℝ => a * y ^ 2) atTop atTop :=
        Tendsto.const_mul_atTop ha (tendsto_pow_atTop (by norm_num))
      have := Real.tendsto_exp_neg_atTop_nhds_zero.comp h1
      refine this.congr (fun y => ?_)
      simp [neg_mul]
    rw [integral_Ioi_of_hasDerivAt_of_tendsto' hderiv hint htend]
    field_simp
    ring
  rw [← hval]; exact hle

/-- **the discretisation bound**: trapezoid rule with N panels on [0, R] against the sine transform over (0, ∞) -/
theorem trapezoid_vs_transform (A a t R : ℝ) (ha : 0 < a) (hR : 0 < R) (N : ℕ) (hN : 0 < N) :
    |trapezoidal_integral (h A a t) N 0 R - A * (t / (4 * a) * (Real.sqrt (π / a) * Real.exp (-t ^ 2 / (4 * a))))|
      ≤ R ^ 3 * zeta A a t R / (12 * N ^ 2) + |A| * Real.exp (-a * R ^ 2) / (2 * a) := by
  have hfull : ∫ x in Ioi (0 : ℝ), h A a t x = A * (t / (4 * a) * (Real.sqrt (π / a) * Real.exp (-t ^ 2 / (4 * a)))) := by
    have := PystogVerif.Gauss.integral_Ioi_mul_gauss_sin a t ha
    have e : ∀ x : ℝ, h A a t x = A * (x * Real.exp (-a * x ^ 2) * Real.sin (t * x)) := by intro x; simp only [h]; ring
    simp_rw [e]
    rw [integral_const_mul, this]
  have hsplit := intervalIntegral.integral_interval_add_Ioi (integrableOn_h A a t 0 ha) (integrableOn_h A a t R ha)
  rw [← hfull, ← hsplit]
  have e1 := trapezoid_error_h A a t R ha hR N hN
  have e2 := tail_le A a t R ha hR.le
  calc |trapezoidal_integral (h A a t) N 0 R - ((∫ x in (0 : ℝ)..R, h A a t x) + ∫ x in Ioi R, h A a t x)|
      = |(trapezoidal_integral (h A a t) N 0 R - ∫ x in (0 : ℝ)..R, h A a t x) - ∫ x in Ioi R, h A a t x| := by ring_nf
    _ ≤ |trapezoidal_integral (h A a t) N 0 R - ∫ x in (0 : ℝ)..R, h A a t x| + |∫ x in Ioi R, h A a t x| := abs_sub _ _
    _ ≤ _ := add_le_add e1 e2

end PystogVerif.Quad
