import PystogVerif.RealRint
import PystogVerif.Model.Stog
import Mathlib.Data.Finset.Sort
import Mathlib.Data.List.TakeWhile
import Mathlib.Algebra.BigOperators.Group.List.Basic
import Mathlib.Tactic.Ring
import Mathlib.Tactic.Linarith
import Mathlib.Tactic.FieldSimp

/-!
# The merge of `StoG.merge_data` (model `Stog.mergePts`) equals "group by Q, take the mean"
-/
noncomputable section
open Classical

abbrev Pt := Stog.Pt ℝ

namespace MergeSpec

/-- arithmetic mean of the values contributed at Q = k, and the propagated uncertainty sqrt(Σ dy²)/n -/
def meanAt (pts : List Pt) (k : ℝ) : ℝ :=
  ((pts.filter (fun t => t.1 = k)).map (·.2.1)).sum / ((pts.filter (fun t => t.1 = k)).length : ℝ)
def errAt (pts : List Pt) (k : ℝ) : ℝ :=
  Real.sqrt (((pts.filter (fun t => t.1 = k)).map (fun t => t.2.2 * t.2.2)).sum) / ((pts.filter (fun t => t.1 = k)).length : ℝ)

/-- canonical specification: the sorted distinct Q values, each with the mean of its points -/
def mergeSpec (pts : List Pt) : List Pt :=
  ((pts.map (·.1)).toFinset.sort (· ≤ ·)).map (fun k => (k, meanAt pts k, errAt pts k))

/-- "runs" formulation: head point, then all immediately following points with the same Q -/
def mergeRuns : List Pt → List Pt
  | [] => []
  | p :: ps =>
    let same := ps.takeWhile (fun t => t.1 = p.1)
    let rest := ps.dropWhile (fun t => t.1 = p.1)
    (p.1, (p.2.1 + (same.map (·.2.1)).sum) / (1 + same.length),
      Real.sqrt (p.2.2 * p.2.2 + (same.map (fun t => t.2.2 * t.2.2)).sum) / (1 + same.length)) :: mergeRuns rest
termination_by l => l.length
decreasing_by
  simp only [List.length_cons]
  have := (List.dropWhile_sublist (fun t : Pt => decide (t.1 = p.1)) (l := ps)).length_le
  omega

/-- fold invariant: folding from a state that is in the middle of a run with key k -/
theorem fold_in_run (k : ℝ) (n sum err : ℝ) (out : List Pt) :
    ∀ (ps : List Pt),
    Stog.finishM (ps.foldl Stog.stepM ⟨out, some k, n, sum, err⟩) =
      out ++ (k, (sum + ((ps.takeWhile (fun t => t.1 = k)).map (·.2.1)).sum) /
                  (n + (ps.takeWhile (fun t => t.1 = k)).length),
              Real.sqrt (err + ((ps.takeWhile (fun t => t.1 = k)).map (fun t => t.2.2 * t.2.2)).sum) /
                  (n + (ps.takeWhile (fun t => t.1 = k)).length)) ::
        mergeRuns (ps.dropWhile (fun t => t.1 = k))
  | [] => by simp [Stog.finishM, mergeRuns]
  | p :: ps => by
    by_cases h : p.1 = k
    · have ih := fold_in_run k (n + 1) (sum + p.2.1) (err + p.2.2 * p.2.2) out ps
      simp only [List.foldl_cons, Stog.stepM, Cmp.eq_real, h, decide_true, if_true, Nat.cast_one]
      rw [ih]
      simp only [List.takeWhile_cons, List.dropWhile_cons, h, decide_true, if_true, List.map_cons, List.sum_cons, List.length_cons]
      push_cast
      congr 3 <;> ring_nf
    · have ih := fold_in_run p.1 1 p.2.1 (p.2.2 * p.2.2) (out ++ [(k, sum / n, Real.sqrt err / n)]) ps
      simp only [List.foldl_cons, Stog.stepM, Cmp.eq_real, h, decide_false, Bool.false_eq_true, if_false, Nat.cast_one,
        Transc.sqrt_real]
      rw [ih]
      simp [List.takeWhile_cons, List.dropWhile_cons, h, mergeRuns]
termination_by ps => ps.length

theorem mergeSorted_eq_runs (pts : List Pt) : Stog.mergeSorted pts = mergeRuns pts := by
  cases pts with
  | nil => simp [Stog.mergeSorted, Stog.finishM, mergeRuns]
  | cons p ps =>
    have := fold_in_run p.1 1 p.2.1 (p.2.2 * p.2.2) [] ps
    simp only [Stog.mergeSorted, List.foldl_cons, Stog.stepM, Nat.cast_one]
    rw [this]
    simp [mergeRuns]

theorem takeWhile_eq_filter_of_sorted (k : ℝ) : ∀ (l : List Pt), l.Pairwise (fun a b => a.1 ≤ b.1) →
    (∀ a ∈ l, k ≤ a.1) →
    l.takeWhile (fun t => t.1 = k) = l.filter (fun t => t.1 = k) ∧
    l.dropWhile (fun t => t.1 = k) = l.filter (fun t => !decide (t.1 = k))
  | [], _, _ => by simp
  | x :: xs, hs, hk => by
    have hs' := (List.pairwise_cons.mp hs)
    by_cases hx : x.1 = k
    · have ih := takeWhile_eq_filter_of_sorted k xs hs'.2 (fun a ha => hk a (by simp [ha]))
      simp [List.takeWhile_cons, List.dropWhile_cons, List.filter_cons, hx, ih.1, ih.2]
    · have hgt : k < x.1 := lt_of_le_of_ne (hk x (by simp)) (Ne.symm hx)
      have hall : ∀ a ∈ xs, ¬ a.1 = k := fun a ha => ne_of_gt (lt_of_lt_of_le hgt (hs'.1 a ha))
      have h1 : xs.filter (fun t => decide (t.1 = k)) = [] := by
        simp only [List.filter_eq_nil_iff]; intro a ha; simp [hall a ha]
      have h2 : xs.filter (fun t => !decide (t.1 = k)) = xs := by
        simp only [List.filter_eq_self]; intro a ha; simp [hall a ha]
      simp [List.takeWhile_cons, List.dropWhile_cons, List.filter_cons, hx, h1, h2]

theorem filter_filter_ne (pts : List Pt) (k k' : ℝ) (h : k' ≠ k) :
    (pts.filter (fun t => !decide (t.1 = k))).filter (fun t => decide (t.1 = k')) = pts.filter (fun t => decide (t.1 = k')) := by
  rw [List.filter_filter]
  apply List.filter_congr
  intro a _
  by_cases ha : a.1 = k' <;> simp [ha, h]

theorem mergeRuns_eq_spec : ∀ (n : ℕ) (pts : List Pt), pts.length = n → pts.Pairwise (fun a b => a.1 ≤ b.1) →
    mergeRuns pts = mergeSpec pts := by
  intro n
  induction n using Nat.strong_induction_on with
  | _ n ih =>
    intro pts hlen hs
    cases pts with
    | nil => simp [mergeRuns, mergeSpec]
    | cons p ps =>
      have hs' := List.pairwise_cons.mp hs
      have hk : ∀ a ∈ ps, p.1 ≤ a.1 := hs'.1
      obtain ⟨ht, hd⟩ := takeWhile_eq_filter_of_sorted p.1 ps hs'.2 hk
      obtain ⟨rest, hrest⟩ : ∃ r, r = ps.filter (fun t => !decide (t.1 = p.1)) := ⟨_, rfl⟩
      rw [← hrest] at hd
      have hrest_len : rest.length < n := by
        have := List.length_filter_le (fun t : Pt => !decide (t.1 = p.1)) ps
        rw [← hrest] at this
        simp only [List.length_cons] at hlen; omega
      have hrest_sorted : rest.Pairwise (fun a b => a.1 ≤ b.1) := by rw [hrest]; exact hs'.2.filter _
      have ihr := ih rest.length hrest_len rest rfl hrest_sorted
      rw [mergeRuns]
      simp only [ht, hd]
      rw [ihr]
      have hkeys : ((p :: ps).map (·.1)).toFinset = insert p.1 ((rest.map (·.1)).toFinset) := by
        ext k
        simp only [List.map_cons, List.toFinset_cons, Finset.mem_insert, List.mem_toFinset, List.mem_map, hrest,
          List.mem_filter]
        constructor
        · rintro (h | ⟨a, ha, rfl⟩)
          · exact Or.inl h
          · by_cases e : a.1 = p.1
            · exact Or.inl e
            · exact Or.inr ⟨a, ⟨ha, by simp [e]⟩, rfl⟩
        · rintro (h | ⟨a, ⟨ha, _⟩, rfl⟩)
          · exact Or.inl h
          · exact Or.inr ⟨a, ha, rfl⟩
      have hmin : ∀ b ∈ (rest.map (·.1)).toFinset, p.1 ≤ b := by
        intro b hb
        simp only [List.mem_toFinset, List.mem_map, hrest, List.mem_filter] at hb
        obtain ⟨a, ⟨ha, _⟩, rfl⟩ := hb
        exact hk a ha
      have hnot : p.1 ∉ (rest.map (·.1)).toFinset := by
        simp only [List.mem_toFinset, List.mem_map, hrest, List.mem_filter, not_exists, not_and]
        rintro a ⟨_, hne⟩ h; simp [h] at hne
      simp only [mergeSpec]
      rw [hkeys, Finset.sort_insert (r := (· ≤ ·)) hmin hnot]
      simp only [List.map_cons]
      congr 1
      · simp only [meanAt, errAt, List.filter_cons, if_true, decide_true, List.map_cons, List.sum_cons, List.length_cons]
        push_cast
        ring_nf
      · apply List.map_congr_left
        intro k hk'
        have hkne : k ≠ p.1 := by
          rintro rfl
          exact hnot ((Finset.mem_sort _).mp hk')
        have hpk : ¬ p.1 = k := fun h => hkne h.symm
        simp only [meanAt, errAt, hrest, filter_filter_ne ps p.1 k hkne, List.filter_cons, hpk, decide_false,
          Bool.false_eq_true, if_false]

theorem meanAt_perm {l₁ l₂ : List Pt} (h : l₁.Perm l₂) (k : ℝ) : meanAt l₁ k = meanAt l₂ k ∧ errAt l₁ k = errAt l₂ k := by
  have hf := h.filter (fun t => decide (t.1 = k))
  have hs : ((l₁.filter (fun t => decide (t.1 = k))).map (·.2.1)).sum = ((l₂.filter (fun t => decide (t.1 = k))).map (·.2.1)).sum :=
    (hf.map (·.2.1)).sum_eq
  have he : ((l₁.filter (fun t => decide (t.1 = k))).map (fun t => t.2.2 * t.2.2)).sum
      = ((l₂.filter (fun t => decide (t.1 = k))).map (fun t => t.2.2 * t.2.2)).sum := (hf.map _).sum_eq
  simp only [meanAt, errAt, hs, he, hf.length_eq, and_self]

/-- the specification does not depend on the order of the stored points -/
theorem mergeSpec_perm {l₁ l₂ : List Pt} (h : l₁.Perm l₂) : mergeSpec l₁ = mergeSpec l₂ := by
  have hk : (l₁.map (·.1)).toFinset = (l₂.map (·.1)).toFinset := List.toFinset_eq_of_perm _ _ (h.map _)
  simp only [mergeSpec, hk]
  apply List.map_congr_left
  intro k _
  rw [(meanAt_perm h k).1, (meanAt_perm h k).2]

theorem sortPts_sorted (pts : List Pt) : (Stog.sortPts pts).Pairwise (fun a b => a.1 ≤ b.1) := by
  have := List.pairwise_mergeSort (le := fun (a b : Pt) => decide (a.1 ≤ b.1))
    (fun a b c hab hbc => by simp only [decide_eq_true_eq] at *; exact le_trans hab hbc)
    (fun a b => by simp only [Bool.or_eq_true, decide_eq_true_eq]; exact le_total a.1 b.1) pts
  exact this.imp (fun h => by simpa using h)

/-- the model's merge (stable sort, run-length fold) is the group-by-Q specification -/
theorem mergePts_eq_spec (pts : List Pt) : Stog.mergePts pts = mergeSpec pts := by
  unfold Stog.mergePts
  rw [mergeSorted_eq_runs, mergeRuns_eq_spec _ _ rfl (sortPts_sorted pts)]
  exact mergeSpec_perm (List.mergeSort_perm pts _)

end MergeSpec
end
