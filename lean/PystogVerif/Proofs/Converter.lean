import PystogVerif.Spec.Conv
import PystogVerif.Proofs.Pointwise
import PystogVerif.Gen.Converter
import Mathlib.Tactic.Ring
import Mathlib.Tactic.FieldSimp
import Mathlib.Tactic.Linarith

/-!
# Refinement: the generated `Converter` functions are the pointwise specifications

`GenTable.rconv X Y` / `GenTable.gconv X Y` select the *generated* conversion from function kind `X`
to kind `Y`, so that the statements below quantify over all ordered pairs at once.
All lemmas are list equalities and hold for all lengths (both sides zip the same lists).
-/

attribute [conv_unfold] Converter._safe_divide
  Converter.F_to_S Converter.F_to_FK Converter.F_to_DCS Converter.S_to_F Converter.S_to_FK Converter.S_to_DCS
  Converter.FK_to_F Converter.FK_to_S Converter.FK_to_DCS Converter.DCS_to_F Converter.DCS_to_S Converter.DCS_to_FK
  Converter.G_to_GK Converter.G_to_g Converter.GK_to_G Converter.GK_to_g Converter.g_to_G Converter.g_to_GK

namespace GenTable

/-- identity "conversion", restricted to the common length like every other conversion -/
def ident (q y : Vec ℝ) (dy : Option (Vec ℝ)) : Vec ℝ × Vec ℝ :=
  (List.zipWith (fun _ v => v) q y, List.zipWith (fun _ e => e) q (dy.getD (Vec.zerosLike y)))

noncomputable def rconv : RFn → RFn → Kw ℝ → Junk ℝ → Vec ℝ → Vec ℝ → Option (Vec ℝ) → Vec ℝ × Vec ℝ
  | .S, .S => fun _ _ => ident
  | .S, .F => Converter.S_to_F
  | .S, .FK => Converter.S_to_FK
  | .S, .DCS => Converter.S_to_DCS
  | .F, .S => Converter.F_to_S
  | .F, .F => fun _ _ => ident
  | .F, .FK => Converter.F_to_FK
  | .F, .DCS => Converter.F_to_DCS
  | .FK, .S => Converter.FK_to_S
  | .FK, .F => Converter.FK_to_F
  | .FK, .FK => fun _ _ => ident
  | .FK, .DCS => Converter.FK_to_DCS
  | .DCS, .S => Converter.DCS_to_S
  | .DCS, .F => Converter.DCS_to_F
  | .DCS, .FK => Converter.DCS_to_FK
  | .DCS, .DCS => fun _ _ => ident

noncomputable def gconv : GFn → GFn → Kw ℝ → Junk ℝ → Vec ℝ → Vec ℝ → Option (Vec ℝ) → Vec ℝ × Vec ℝ
  | .g, .g => fun _ _ => ident
  | .g, .G => Converter.g_to_G
  | .g, .GK => Converter.g_to_GK
  | .G, .g => Converter.G_to_g
  | .G, .G => fun _ _ => ident
  | .G, .GK => Converter.G_to_GK
  | .GK, .g => Converter.GK_to_g
  | .GK, .G => Converter.GK_to_G
  | .GK, .GK => fun _ _ => ident

end GenTable

section
variable (kw : Kw ℝ) (junk : Junk ℝ)

theorem rconv_val (X Y : RFn) (hb : kw.bcoh ≠ 0) (q y : Vec ℝ) (dy : Option (Vec ℝ)) (hlen : q.length = y.length) :
    (GenTable.rconv X Y kw junk q y dy).1 = List.zipWith (Spec.rconv kw X Y) q y := by
  cases X <;> cases Y <;> simp only [GenTable.rconv, GenTable.ident] <;>
    first
    | rfl
    | (pointwise2 q y hlen [Spec.rconv]
       try conv_close)

/-- uncertainties: `dY = (∂Y/∂X)·dX`, with zeros when no uncertainty is supplied -/
theorem rconv_unc (X Y : RFn) (hb : kw.bcoh ≠ 0) (q y : Vec ℝ) (dy : Option (Vec ℝ)) (hlen : q.length = y.length)
    (hd : ∀ d, dy = some d → q.length = d.length) :
    (GenTable.rconv X Y kw junk q y dy).2
      = List.zipWith (fun q e => Spec.rslope kw X Y q * e) q (dy.getD (Vec.zerosLike y)) := by
  rcases dy with _ | d
  · cases X <;> cases Y <;> simp only [GenTable.rconv, GenTable.ident, Option.getD] <;>
      (pointwise2 q y hlen [Spec.rslope]
       try conv_close)
  · have hlen' := hd d rfl
    cases X <;> cases Y <;> simp only [GenTable.rconv, GenTable.ident, Option.getD] <;>
      (pointwise2 q d hlen' [Spec.rslope]
       try conv_close)

theorem gconv_val (X Y : GFn) (hb : kw.bcoh ≠ 0) (hrho : 0 < kw.rho) (r y : Vec ℝ) (dy : Option (Vec ℝ))
    (hlen : r.length = y.length) :
    (GenTable.gconv X Y kw junk r y dy).1 = List.zipWith (Spec.gconv kw X Y) r y := by
  have hpi := Real.pi_pos
  cases X <;> cases Y <;> simp only [GenTable.gconv, GenTable.ident] <;>
    first
    | rfl
    | (pointwise2 r y hlen [Spec.gconv]
       try (simp (disch := positivity) only [mul_pos_iff_of_pos_left, mul_pos_iff_of_pos_right])
       try conv_close)

theorem gconv_unc (X Y : GFn) (hb : kw.bcoh ≠ 0) (hrho : 0 < kw.rho) (r y : Vec ℝ) (dy : Option (Vec ℝ))
    (hlen : r.length = y.length) (hd : ∀ d, dy = some d → r.length = d.length) :
    (GenTable.gconv X Y kw junk r y dy).2
      = List.zipWith (fun r e => Spec.gslope kw X Y r * e) r (dy.getD (Vec.zerosLike y)) := by
  have hpi := Real.pi_pos
  rcases dy with _ | d
  · cases X <;> cases Y <;> simp only [GenTable.gconv, GenTable.ident, Option.getD] <;>
      (pointwise2 r y hlen [Spec.gslope]
       try (simp (disch := positivity) only [mul_pos_iff_of_pos_left, mul_pos_iff_of_pos_right])
       try conv_close)
  · have hlen' := hd d rfl
    cases X <;> cases Y <;> simp only [GenTable.gconv, GenTable.ident, Option.getD] <;>
      (pointwise2 r d hlen' [Spec.gslope]
       try (simp (disch := positivity) only [mul_pos_iff_of_pos_left, mul_pos_iff_of_pos_right])
       try conv_close)

end

section
variable (kw : Kw ℝ) (junk : Junk ℝ)

/-! The S(Q) ↔ Q[S(Q)−1] and g(r) ↔ G(r) pairs do not involve ⟨b_coh⟩²: the same refinements without `kw.bcoh ≠ 0` -/

theorem rconv_val_SF (X Y : RFn) (hX : X = .S ∨ X = .F) (hY : Y = .S ∨ Y = .F) (q y : Vec ℝ) (dy : Option (Vec ℝ))
    (hlen : q.length = y.length) :
    (GenTable.rconv X Y kw junk q y dy).1 = List.zipWith (Spec.rconv kw X Y) q y := by
  rcases hX with rfl | rfl <;> rcases hY with rfl | rfl <;> simp only [GenTable.rconv, GenTable.ident] <;>
    first
    | rfl
    | (pointwise2 q y hlen [Spec.rconv]
       try conv_close)

theorem gconv_val_gG (X Y : GFn) (hX : X = .g ∨ X = .G) (hY : Y = .g ∨ Y = .G) (hrho : 0 < kw.rho) (r y : Vec ℝ)
    (dy : Option (Vec ℝ)) (hlen : r.length = y.length) :
    (GenTable.gconv X Y kw junk r y dy).1 = List.zipWith (Spec.gconv kw X Y) r y := by
  have hpi := Real.pi_pos
  rcases hX with rfl | rfl <;> rcases hY with rfl | rfl <;> simp only [GenTable.gconv, GenTable.ident] <;>
    first
    | rfl
    | (pointwise2 r y hlen [Spec.gconv]
       try (simp (disch := positivity) only [mul_pos_iff_of_pos_left])
       try conv_close)

theorem rconv_unc_SF (X Y : RFn) (hX : X = .S ∨ X = .F) (hY : Y = .S ∨ Y = .F) (q y : Vec ℝ) (dy : Option (Vec ℝ))
    (hlen : q.length = y.length) (hd : ∀ d, dy = some d → q.length = d.length) :
    (GenTable.rconv X Y kw junk q y dy).2
      = List.zipWith (fun q e => Spec.rslope kw X Y q * e) q (dy.getD (Vec.zerosLike y)) := by
  rcases dy with _ | d
  · rcases hX with rfl | rfl <;> rcases hY with rfl | rfl <;> simp only [GenTable.rconv, GenTable.ident, Option.getD] <;>
      (pointwise2 q y hlen [Spec.rslope]
       try conv_close)
  · have hlen' := hd d rfl
    rcases hX with rfl | rfl <;> rcases hY with rfl | rfl <;> simp only [GenTable.rconv, GenTable.ident, Option.getD] <;>
      (pointwise2 q d hlen' [Spec.rslope]
       try conv_close)

theorem gconv_unc_gG (X Y : GFn) (hX : X = .g ∨ X = .G) (hY : Y = .g ∨ Y = .G) (hrho : 0 < kw.rho) (r y : Vec ℝ)
    (dy : Option (Vec ℝ)) (hlen : r.length = y.length) (hd : ∀ d, dy = some d → r.length = d.length) :
    (GenTable.gconv X Y kw junk r y dy).2
      = List.zipWith (fun r e => Spec.gslope kw X Y r * e) r (dy.getD (Vec.zerosLike y)) := by
  have hpi := Real.pi_pos
  rcases dy with _ | d
  · rcases hX with rfl | rfl <;> rcases hY with rfl | rfl <;> simp only [GenTable.gconv, GenTable.ident, Option.getD] <;>
      (pointwise2 r y hlen [Spec.gslope]
       try (simp (disch := positivity) only [mul_pos_iff_of_pos_left])
       try conv_close)
  · have hlen' := hd d rfl
    rcases hX with rfl | rfl <;> rcases hY with rfl | rfl <;> simp only [GenTable.gconv, GenTable.ident, Option.getD] <;>
      (pointwise2 r d hlen' [Spec.gslope]
       try (simp (disch := positivity) only [mul_pos_iff_of_pos_left])
       try conv_close)
end

