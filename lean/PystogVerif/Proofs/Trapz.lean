import PystogVerif.Proofs.Transform
import Mathlib.Tactic.Positivity

/-! # Algebra of the trapezoid rule -/
open Spec

theorem trapzRec_map_mul (c : ℝ) : ∀ (x k : List ℝ), trapzRec x (k.map (c * ·)) = c * trapzRec x k
  | x0 :: x1 :: xs, k0 :: k1 :: ks => by
      have ih := trapzRec_map_mul c (x1 :: xs) (k1 :: ks)
      simp only [List.map_cons, trapzRec] at ih ⊢
      rw [ih]; ring
  | [], _ => by simp [trapzRec]
  | [_], _ => by simp [trapzRec]
  | _ :: _ :: _, [] => by simp [trapzRec]
  | _ :: _ :: _, [_] => by simp [trapzRec]

theorem trapzRec_zipWith_add : ∀ (x k l : List ℝ), k.length = l.length →
    trapzRec x (List.zipWith (· + ·) k l) = trapzRec x k + trapzRec x l
  | x0 :: x1 :: xs, k0 :: k1 :: ks, l0 :: l1 :: ls, h => by
      have ih := trapzRec_zipWith_add (x1 :: xs) (k1 :: ks) (l1 :: ls) (by simpa using h)
      simp only [List.zipWith_cons_cons, trapzRec] at ih ⊢
      rw [ih]; ring
  | [], _, _, _ => by simp [trapzRec]
  | [_], _, _, _ => by simp [trapzRec]
  | _ :: _ :: _, [], l, h => by
      cases l with
      | nil => simp [trapzRec]
      | cons _ _ => simp at h
  | _ :: _ :: _, [_], [], h => by simp at h
  | _ :: _ :: _, [_], [_], _ => by simp [trapzRec]
  | _ :: _ :: _, [_], _ :: _ :: _, h => by simp at h
  | _ :: _ :: _, _ :: _ :: _, [], h => by simp at h
  | _ :: _ :: _, _ :: _ :: _, [_], h => by simp at h

theorem trapzRec_zeros : ∀ (x k : List ℝ), (∀ a ∈ k, a = 0) → trapzRec x k = 0
  | x0 :: x1 :: xs, k0 :: k1 :: ks, h => by
      have h0 : k0 = 0 := h k0 (by simp)
      have h1 : k1 = 0 := h k1 (by simp)
      have ih := trapzRec_zeros (x1 :: xs) (k1 :: ks) (fun a ha => h a (by simp [List.mem_cons] at ha ⊢; tauto))
      subst h0 h1
      simp only [trapzRec, ih]; ring
  | [], _, _ => by simp [trapzRec]
  | [_], _, _ => by simp [trapzRec]
  | _ :: _ :: _, [], _ => by simp [trapzRec]
  | _ :: _ :: _, [_], _ => by simp [trapzRec]

/-- explicit quadrature weights: w_0 = d_0/2, w_j = (d_{j-1}+d_j)/2, w_{n-1} = d_{n-2}/2,
    written with the carried previous width `p` -/
noncomputable def wSum : ℝ → List ℝ → List ℝ → ℝ
  | p, x0 :: x1 :: xs, k0 :: ks => (p + (x1 - x0)) / 2 * k0 + wSum (x1 - x0) (x1 :: xs) ks
  | p, [_], [k] => p / 2 * k
  | _, _, _ => 0

theorem trapzRec_eq_wSum : ∀ (p : ℝ) (x k : List ℝ), x.length = k.length →
    wSum p x k = p / 2 * k.headD 0 + trapzRec x k
  | p, x0 :: x1 :: xs, k0 :: k1 :: ks, h => by
      have ih := trapzRec_eq_wSum (x1 - x0) (x1 :: xs) (k1 :: ks) (by simpa using h)
      simp only [wSum, trapzRec, List.headD_cons] at ih ⊢
      rw [ih]; ring
  | p, [_], [k], _ => by simp [wSum, trapzRec]
  | p, [], [], _ => by simp [wSum, trapzRec]
  | _, [], _ :: _, h => by simp at h
  | _, _ :: _, [], h => by simp at h
  | _, [_], _ :: _ :: _, h => by simp at h
  | _, _ :: _ :: _, [_], h => by simp at h

/-- the trapezoid rule as the weighted sum with the end-point and interior weights -/
theorem trapzRec_weights (x k : List ℝ) (h : x.length = k.length) : trapzRec x k = wSum 0 x k := by
  rw [trapzRec_eq_wSum 0 x k h]; ring
