import PystogVerif.Spec.Transform
import PystogVerif.VecAttr
import PystogVerif.Gen.Transformer
import PystogVerif.Proofs.Pointwise
import Mathlib.Tactic.Ring
import Mathlib.Tactic.Linarith

/-! # Lemmas about the numpy primitives and the generated core transform -/

/-! ### fold min / max -/
theorem foldl_min_le (xs : List ℝ) : ∀ (m : ℝ),
    (xs.foldl (fun m y => if y < m then y else m) m ≤ m) ∧
    (∀ a ∈ xs, xs.foldl (fun m y => if y < m then y else m) m ≤ a) := by
  induction xs with
  | nil => intro m; simp
  | cons x xs ih =>
    intro m
    simp only [List.foldl_cons, List.mem_cons, forall_eq_or_imp]
    by_cases h : x < m
    · simp only [h, if_true]
      have := ih x
      exact ⟨le_trans this.1 h.le, this.1, this.2⟩
    · simp only [h, if_false]
      have := ih m
      exact ⟨this.1, le_trans this.1 (not_lt.mp h), this.2⟩

theorem foldl_max_ge (xs : List ℝ) : ∀ (m : ℝ),
    (m ≤ xs.foldl (fun m y => if m < y then y else m) m) ∧
    (∀ a ∈ xs, a ≤ xs.foldl (fun m y => if m < y then y else m) m) := by
  induction xs with
  | nil => intro m; simp
  | cons x xs ih =>
    intro m
    simp only [List.foldl_cons, List.mem_cons, forall_eq_or_imp]
    by_cases h : m < x
    · simp only [h, if_true]
      have := ih x
      exact ⟨le_trans h.le this.1, this.1, this.2⟩
    · simp only [h, if_false]
      have := ih m
      exact ⟨this.1, le_trans (not_lt.mp h) this.1, this.2⟩

theorem vec_min_le (x : List ℝ) : ∀ a ∈ x, Vec.min x ≤ a := by
  cases x with
  | nil => simp
  | cons h t =>
    intro a ha
    simp only [Vec.min]
    rcases List.mem_cons.mp ha with rfl | ha
    · exact (foldl_min_le t a).1
    · exact (foldl_min_le t h).2 a ha

theorem vec_le_max (x : List ℝ) : ∀ a ∈ x, a ≤ Vec.max x := by
  cases x with
  | nil => simp
  | cons h t =>
    intro a ha
    simp only [Vec.max]
    rcases List.mem_cons.mp ha with rfl | ha
    · exact (foldl_max_ge t a).1
    · exact (foldl_max_ge t h).2 a ha

/-! ### boolean-mask indexing -/
theorem compress_map (p : ℝ → Bool) (x y : List ℝ) (h : x.length = y.length) :
    Vec.compress (x.map p) y = ((x.zip y).filter (fun t => p t.1)).map (·.2) := by
  induction x generalizing y with
  | nil => simp [Vec.compress]
  | cons a t ih =>
    cases y with
    | nil => simp at h
    | cons b u =>
      have := ih u (by simpa using h)
      simp only [Vec.compress, List.map_cons, List.zip_cons_cons, List.filter_cons] at this ⊢
      cases hp : p a <;> simp [this]

theorem window_mask (x : List ℝ) (lo hi : ℝ) :
    Mask.and (Vec.geS x lo) (Vec.leS x hi) = x.map (fun a => decide (lo ≤ a) && decide (a ≤ hi)) := by
  simp [Mask.and, Vec.geS, Vec.leS, List.zipWith_map_left, List.zipWith_map_right, List.zipWith_self]

theorem cropL_length (lo hi : ℝ) (x v w : List ℝ) (hv : x.length = v.length) (hw : x.length = w.length) :
    (Spec.cropL lo hi x v).length = (Spec.cropL lo hi x w).length := by
  induction x generalizing v w with
  | nil => simp [Spec.cropL]
  | cons a t ih =>
    cases v with
    | nil => simp at hv
    | cons b u =>
      cases w with
      | nil => simp at hw
      | cons c s =>
        have := ih u s (by simpa using hv) (by simpa using hw)
        simp only [Spec.cropL, List.zip_cons_cons, List.filter_cons, List.length_map] at this ⊢
        split <;> simp [this]

theorem cropL_all (lo hi : ℝ) (x v : List ℝ) (hv : x.length = v.length)
    (h : ∀ a ∈ x, lo ≤ a ∧ a ≤ hi) : Spec.cropL lo hi x v = v := by
  induction x generalizing v with
  | nil => cases v <;> simp_all [Spec.cropL]
  | cons a t ih =>
    cases v with
    | nil => simp at hv
    | cons b u =>
      have ha := h a (by simp)
      have := ih u (by simpa using hv) (fun c hc => h c (by simp [hc]))
      simp only [Spec.cropL, List.zip_cons_cons, List.filter_cons] at this ⊢
      simp [ha.1, ha.2, this]

/-- pointwise maps of the abscissa commute with the window -/
theorem cropL_zipWith (lo hi : ℝ) (g : ℝ → ℝ → ℝ) (x v : List ℝ) (hv : x.length = v.length) :
    Spec.cropL lo hi x (List.zipWith g x v) = List.zipWith g (Spec.cropL lo hi x x) (Spec.cropL lo hi x v) := by
  induction x generalizing v with
  | nil => simp [Spec.cropL]
  | cons a t ih =>
    cases v with
    | nil => simp at hv
    | cons b u =>
      have := ih u (by simpa using hv)
      simp only [Spec.cropL, List.zipWith_cons_cons, List.zip_cons_cons, List.filter_cons] at this ⊢
      split <;> simp [this]

theorem mem_zip_self {α : Type} : ∀ (x : List α) (p : α × α), p ∈ x.zip x → p.1 = p.2
  | [], _, h => by simp at h
  | b :: t, p, h => by
      simp only [List.zip_cons_cons, List.mem_cons] at h
      rcases h with rfl | h
      · rfl
      · exact mem_zip_self t p h

/-- the window is idempotent -/
theorem cropL_idem (lo hi : ℝ) (x v : List ℝ) (hv : x.length = v.length) :
    Spec.cropL lo hi (Spec.cropL lo hi x x) (Spec.cropL lo hi x v) = Spec.cropL lo hi x v := by
  apply cropL_all
  · exact cropL_length lo hi x x v rfl hv
  · intro a ha
    simp only [Spec.cropL, List.mem_map, List.mem_filter] at ha
    obtain ⟨p, ⟨hp, hc⟩, rfl⟩ := ha
    have := mem_zip_self x p hp
    simp only [Bool.and_eq_true, decide_eq_true_eq] at hc
    rw [← this]; exact hc

/-- R (C13): the generated cropping utility is the closed-interval filter on all three columns -/
theorem apply_cropping_spec (kw : Kw ℝ) (junk : Junk ℝ) (x y : List ℝ) (lo hi : ℝ) (dy : Option (List ℝ))
    (hy : x.length = y.length) (hd : ∀ d, dy = some d → x.length = d.length) :
    Transformer.apply_cropping kw junk x y lo hi dy
      = (Spec.cropL lo hi x x, Spec.cropL lo hi x y, Spec.cropL lo hi x (dy.getD (Vec.zerosLike y))) := by
  simp only [Transformer.apply_cropping, window_mask]
  rcases dy with _ | d
  · rw [compress_map _ x x rfl, compress_map _ x y hy, compress_map _ x (Vec.zerosLike y) (by simp [Vec.zerosLike, hy])]
    rfl
  · rw [compress_map _ x x rfl, compress_map _ x y hy, compress_map _ x d (hd d rfl)]
    rfl

/-! ### trapezoid -/
theorem trapezoid_eq : ∀ (x y : List ℝ), x.length = y.length → Numpy.trapezoid y x = Spec.trapzRec x y
  | [], [], _ => by simp [Numpy.trapezoid, Numpy.diff, Vec.sum_eq, Vec.divS, Vec.mul, Vec.add, Vec.tail1, Vec.init1, Spec.trapzRec]
  | [_], [_], _ => by simp [Numpy.trapezoid, Numpy.diff, Vec.sum_eq, Vec.divS, Vec.mul, Vec.add, Vec.tail1, Vec.init1, Spec.trapzRec]
  | x0 :: x1 :: xs, y0 :: y1 :: ys, h => by
      have ih := trapezoid_eq (x1 :: xs) (y1 :: ys) (by simpa using h)
      simp only [Numpy.trapezoid, Numpy.diff, Vec.sum_eq, Vec.divS, Vec.mul, Vec.add, Vec.tail1, Vec.init1, Spec.trapzRec] at ih ⊢
      rw [← ih]
      simp [List.dropLast]
  | [], _ :: _, h => by simp at h
  | _ :: _, [], h => by simp at h
  | [_], _ :: _ :: _, h => by simp at h
  | _ :: _ :: _, [_], h => by simp at h

/-- the uncertainty sum of the code, as a recursion along the grid -/
theorem codeVar_eq : ∀ (x s : List ℝ), x.length = s.length →
    Vec.sum (Vec.divS (Vec.mul (Vec.mul (Numpy.diff x) (Numpy.diff x)) (Vec.add (Vec.tail1 (Vec.mul s s)) (Vec.init1 (Vec.mul s s)))) ((2:Nat):ℝ))
      = Spec.codeVarSum x s
  | [], [], _ => by simp [Numpy.diff, Vec.sum_eq, Vec.divS, Vec.mul, Vec.add, Vec.tail1, Vec.init1, Spec.codeVarSum]
  | [_], [_], _ => by simp [Numpy.diff, Vec.sum_eq, Vec.divS, Vec.mul, Vec.add, Vec.tail1, Vec.init1, Spec.codeVarSum]
  | x0 :: x1 :: xs, s0 :: s1 :: ss, h => by
      have ih := codeVar_eq (x1 :: xs) (s1 :: ss) (by simpa using h)
      simp only [Numpy.diff, Vec.sum_eq, Vec.divS, Vec.mul, Vec.add, Vec.tail1, Vec.init1, Spec.codeVarSum] at ih ⊢
      rw [← ih]
      simp [List.dropLast]
      ring
  | [], _ :: _, h => by simp at h
  | _ :: _, [], h => by simp at h
  | [_], _ :: _ :: _, h => by simp at h
  | _ :: _ :: _, [_], h => by simp at h

/-! ### the generated core transform in terms of the specification vocabulary -/
section
variable (kw : Kw ℝ) (junk : Junk ℝ)

/-- the kernel the code integrates, entry by entry -/
theorem kernel_eq (lorch : Bool) (hi t : ℝ) (x' y' : List ℝ) (hl : x'.length = y'.length) :
    Vec.mul (Vec.mul (if lorch = true then
        Vec.divideWhere (Vec.sin (Vec.smul (Transc.pi / hi) x')) (Vec.smul (Transc.pi / hi) x')
          (Vec.neS (Vec.smul (Transc.pi / hi) x') ((0:Nat):ℝ)) (Vec.onesLike (Vec.sin (Vec.smul (Transc.pi / hi) x')))
      else Vec.onesLike y') y') (Vec.sin (Vec.mulS x' t))
    = List.zipWith (fun a b => Spec.weight lorch hi a * b * Real.sin (a * t)) x' y' := by
  cases lorch
  · simp only [Bool.false_eq_true, if_false]
    pointwise2 x' y' hl [Spec.weight]
  · simp only [if_true]
    pointwise2 x' y' hl [Spec.weight, Spec.lorchW]

theorem ones_congr (a b : List ℝ) (h : a.length = b.length) : Vec.onesLike a = Vec.onesLike b := by
  simp [Vec.onesLike, h]

/-- window limits the code uses: the given ones, else the data range -/
noncomputable def winLo (x : List ℝ) (xmin : Option ℝ) : ℝ := xmin.getD (Vec.min x)
noncomputable def winHi (x : List ℝ) (xmax : Option ℝ) : ℝ := xmax.getD (Vec.max x)

/-- R (C02/C13/C14 keystone, values): without the omitted-range correction the generated transform returns, at every
    output point, the trapezoid integral of weight·data·sin over the in-window points -/
theorem ft_val (ho : kw.omitted = false) (x y xo : List ℝ) (xmin xmax : Option ℝ) (dy : Option (List ℝ))
    (hy : x.length = y.length) (hd : ∀ d, dy = some d → x.length = d.length) :
    (Transformer.fourier_transform kw junk x y xo xmin xmax dy).2.1
      = xo.map (fun t => Spec.trapzRec (Spec.cropL (winLo x xmin) (winHi x xmax) x x)
          (List.zipWith (fun a b => Spec.weight kw.lorch (winHi x xmax) a * b * Real.sin (a * t))
            (Spec.cropL (winLo x xmin) (winHi x xmax) x x) (Spec.cropL (winLo x xmin) (winHi x xmax) x y))) := by
  rcases xmin with _ | lo <;> rcases xmax with _ | hi <;>
  · simp only [winLo, winHi, Option.getD]
    simp only [Transformer.fourier_transform, Kw.dropWindow, ho, apply_cropping_spec _ junk x y _ _ dy hy hd,
      Bool.false_eq_true, if_false]
    apply List.map_congr_left
    intro t _
    rw [kernel_eq kw.lorch _ t _ _ (cropL_length _ _ x x y rfl hy), trapezoid_eq]
    simp [cropL_length _ _ x x y rfl hy]

/-- R (C07 keystone, uncertainties) -/
theorem ft_unc (x y xo : List ℝ) (xmin xmax : Option ℝ) (dy : Option (List ℝ))
    (hy : x.length = y.length) (hd : ∀ d, dy = some d → x.length = d.length) :
    (Transformer.fourier_transform kw junk x y xo xmin xmax dy).2.2
      = xo.map (fun t => Real.sqrt (Spec.codeVarSum (Spec.cropL (winLo x xmin) (winHi x xmax) x x)
          (List.zipWith (fun a e => Spec.weight kw.lorch (winHi x xmax) a * e * Real.sin (a * t))
            (Spec.cropL (winLo x xmin) (winHi x xmax) x x)
            (Spec.cropL (winLo x xmin) (winHi x xmax) x (dy.getD (Vec.zerosLike y)))))) := by
  have hz : x.length = (dy.getD (Vec.zerosLike y)).length := by
    rcases dy with _ | d
    · simp [Vec.zerosLike, hy]
    · exact hd d rfl
  rcases xmin with _ | lo <;> rcases xmax with _ | hi <;>
  · simp only [winLo, winHi, Option.getD]
    simp only [Transformer.fourier_transform, Kw.dropWindow, apply_cropping_spec _ junk x y _ _ dy hy hd]
    apply List.map_congr_left
    intro t _
    congr 1
    have hl := fun lo hi => cropL_length lo hi x x (dy.getD (Vec.zerosLike y)) rfl hz
    have hl2 := fun lo hi => cropL_length lo hi x y (dy.getD (Vec.zerosLike y)) hy hz
    rw [ones_congr _ _ (hl2 _ _), kernel_eq kw.lorch _ t _ _ (hl _ _), codeVar_eq]
    all_goals (first | rfl | (simp only [List.length_zipWith, hl, Nat.min_self]))
end
