import PystogVerif.Props.C18

/-!
# The file as a flat text splits back into the model's lines

`Writer.fileText` is the concatenation of newline-terminated lines; none of the lines contains a newline (numbers are made of
`-.0123456789infa`, the header of digits and a blank), so splitting the text at newlines returns `Writer.fileLines`.
-/
namespace WriterText
open Writer C18

theorem digitChar_ne_nl (d : Nat) (h : d < 10) : digitChar d ≠ '\n' := by
  interval_cases d <;> decide

theorem fixedDigits_no_nl : ∀ (k n : Nat) (c : Char), c ∈ fixedDigits k n → c ≠ '\n'
  | 0, _, c, h => by simp [fixedDigits] at h
  | k + 1, n, c, h => by
      simp only [fixedDigits, List.mem_append, List.mem_singleton] at h
      rcases h with h | rfl
      · exact fixedDigits_no_nl k _ c h
      · exact digitChar_ne_nl _ (Nat.mod_lt _ (by norm_num))

theorem natDigits_no_nl (n : Nat) : ∀ c ∈ natDigits n, c ≠ '\n' := by
  induction n using Nat.strong_induction_on with
  | _ n ih =>
    intro c hc
    rw [natDigits] at hc
    split at hc
    · rename_i h; simp only [List.mem_singleton] at hc; subst hc; exact digitChar_ne_nl n h
    · rename_i h
      simp only [List.mem_append, List.mem_singleton] at hc
      rcases hc with hc | rfl
      · exact ih (n / 10) (by omega) c hc
      · exact digitChar_ne_nl _ (Nat.mod_lt _ (by norm_num))

theorem fmt12_no_nl (b : UInt64) : ∀ c ∈ fmt12 b, c ≠ '\n' := by
  intro c hc
  unfold fmt12 at hc
  split at hc
  · rename_i d _
    simp only [fmtDec, List.mem_append, List.mem_singleton] at hc
    rcases hc with ((hc | hc) | hc) | hc
    · split at hc
      · simp only [List.mem_singleton] at hc; subst hc; decide
      · simp at hc
    · exact natDigits_no_nl _ c hc
    · subst hc; decide
    · exact fixedDigits_no_nl _ _ c hc
  · rename_i neg _
    simp only [List.mem_append] at hc
    rcases hc with hc | hc
    · split at hc
      · simp only [List.mem_singleton] at hc; subst hc; decide
      · simp at hc
    · have : c = 'i' ∨ c = 'n' ∨ c = 'f' := by simpa using hc
      rcases this with rfl | rfl | rfl <;> decide
  · have : c = 'n' ∨ c = 'a' := by
      have : c ∈ ['n', 'a', 'n'] := hc
      simp only [List.mem_cons, List.not_mem_nil, or_false] at this
      tauto
    rcases this with rfl | rfl <;> decide

theorem splitNLAux_line (l : List Char) (hl : ∀ c ∈ l, c ≠ '\n') (t cur : List Char) :
    splitNLAux (l ++ '\n' :: t) cur = (cur.reverse ++ l) :: splitNLAux t [] := by
  induction l generalizing cur with
  | nil => simp [splitNLAux]
  | cons c l ih =>
    have hc : c ≠ '\n' := hl c (by simp)
    have : (c == '\n') = false := by simpa using hc
    simp only [List.cons_append, splitNLAux, this]
    rw [ih (fun x hx => hl x (by simp [hx])) (c :: cur)]
    simp

theorem splitNL_lines (ls : List (List Char)) (h : ∀ l ∈ ls, ∀ c ∈ l, c ≠ '\n') :
    splitNL (ls.flatMap (· ++ ['\n'])) = ls := by
  unfold splitNL
  induction ls with
  | nil => simp [splitNLAux]
  | cons l ls ih =>
    simp only [List.flatMap_cons, List.append_assoc, List.singleton_append]
    rw [splitNLAux_line l (h l (by simp)), ih (fun l' hl' => h l' (by simp [hl']))]
    simp

theorem mem_zipWith_exists {α β γ : Type} (f : α → β → γ) : ∀ (xs : List α) (ys : List β) (l : γ),
    l ∈ List.zipWith f xs ys → ∃ a b, l = f a b
  | [], _, l, h => by simp at h
  | _ :: _, [], l, h => by simp at h
  | a :: xs, b :: ys, l, h => by
      simp only [List.zipWith_cons_cons, List.mem_cons] at h
      rcases h with rfl | h
      · exact ⟨a, b, rfl⟩
      · exact mem_zipWith_exists f xs ys l h

theorem fileLines_no_nl (xs ys : List UInt64) : ∀ l ∈ fileLines xs ys, ∀ c ∈ l, c ≠ '\n' := by
  intro l hl c hc
  simp only [fileLines, List.mem_cons] at hl
  rcases hl with rfl | rfl | hl
  · simp only [List.mem_append, List.mem_singleton] at hc
    rcases hc with hc | rfl
    · exact natDigits_no_nl _ c hc
    · decide
  · have : c ∈ "# Comment line".toList := hc
    intro hcn; subst hcn; revert this; decide
  · obtain ⟨a, b, rfl⟩ := mem_zipWith_exists _ xs ys l hl
    simp only [List.mem_append, List.mem_singleton] at hc
    rcases hc with (hc | rfl) | hc
    · exact fmt12_no_nl _ c hc
    · decide
    · exact fmt12_no_nl _ c hc

/-- the text splits back into exactly the model's lines -/
theorem splitNL_fileText (xs ys : List UInt64) : splitNL (fileText xs ys) = fileLines xs ys :=
  splitNL_lines _ (fileLines_no_nl xs ys)

end WriterText
