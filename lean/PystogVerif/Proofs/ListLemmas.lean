import Mathlib.Data.Real.Basic
/-! List-level lifting lemmas for pointwise statements -/

theorem zipWith_zipWith_self_right {α β γ δ : Type} (f : α → γ → δ) (g : α → β → γ) :
    ∀ (x : List α) (y : List β), List.zipWith f x (List.zipWith g x y) = List.zipWith (fun a b => f a (g a b)) x y
  | [], _ => by simp
  | _ :: _, [] => by simp
  | a :: x, b :: y => by simp [zipWith_zipWith_self_right f g x y]

theorem zipWith_eq_right_of_forall {α β : Type} (h : α → β → β) (P : α → Prop) :
    ∀ (x : List α) (y : List β), x.length = y.length → (∀ a ∈ x, P a) → (∀ a b, P a → h a b = b) →
      List.zipWith h x y = y
  | [], [], _, _, _ => rfl
  | [], _ :: _, hl, _, _ => by simp at hl
  | _ :: _, [], hl, _, _ => by simp at hl
  | a :: x, b :: y, hl, hP, hh => by
      simp only [List.zipWith_cons_cons]
      rw [hh a b (hP a (by simp)), zipWith_eq_right_of_forall h P x y (by simpa using hl)
        (fun c hc => hP c (by simp [hc])) hh]

theorem zipWith_congr_of_forall {α β γ : Type} (f g : α → β → γ) (P : α → Prop) :
    ∀ (x : List α) (y : List β), (∀ a ∈ x, P a) → (∀ a b, P a → f a b = g a b) →
      List.zipWith f x y = List.zipWith g x y
  | [], _, _, _ => by simp
  | _ :: _, [], _, _ => by simp
  | a :: x, b :: y, hP, hh => by
      simp only [List.zipWith_cons_cons]
      rw [hh a b (hP a (by simp)), zipWith_congr_of_forall f g P x y (fun c hc => hP c (by simp [hc])) hh]

theorem length_zipWith_of_eq {α β γ : Type} (f : α → β → γ) (x : List α) (y : List β) (h : x.length = y.length) :
    (List.zipWith f x y).length = x.length := by simp [h]
