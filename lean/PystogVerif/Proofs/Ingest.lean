import PystogVerif.Proofs.Transform
import PystogVerif.Proofs.Merge

/-!
# The stored rows of `add_dataset` as filter ∘ map ∘ filter on the list of input points (engine of C11)
-/
noncomputable section
open Stog

/-- boolean-mask indexing of three parallel columns is filtering the list of triples -/
theorem compress3 (p : ℝ → Bool) : ∀ (x y d : List ℝ), x.length = y.length → x.length = d.length →
    zip3 ⟨Vec.compress (x.map p) x, Vec.compress (x.map p) y, Vec.compress (x.map p) d⟩
      = (zip3 ⟨x, y, d⟩).filter (fun t => p t.1)
  | [], [], [], _, _ => by simp [zip3, Vec.compress]
  | a :: x, b :: y, c :: d, hy, hd => by
      have ih := compress3 p x y d (by simpa using hy) (by simpa using hd)
      simp only [zip3, Vec.compress, List.map_cons, List.zip_cons_cons, List.filter_cons, List.zipWith_cons_cons] at ih ⊢
      cases hp : p a <;> simp [hp, ih]
  | [], _ :: _, _, h, _ => by simp at h
  | [], [], _ :: _, _, h => by simp at h
  | _ :: _, [], _, h, _ => by simp at h
  | _ :: _, _ :: _, [], _, h => by simp at h

theorem zip3_lengths (x y d : List ℝ) (hy : x.length = y.length) (hd : x.length = d.length) :
    (zip3 ⟨x, y, d⟩).length = x.length := by
  simp only [zip3, List.length_zipWith, List.length_zip]
  omega

theorem unzip3_zip3 : ∀ (x y d : List ℝ), x.length = y.length → x.length = d.length →
    unzip3 (zip3 ⟨x, y, d⟩) = ⟨x, y, d⟩
  | [], [], [], _, _ => by simp [zip3, unzip3]
  | a :: x, b :: y, c :: d, hy, hd => by
      have ih := unzip3_zip3 x y d (by simpa using hy) (by simpa using hd)
      simp only [zip3, unzip3, List.zip_cons_cons, List.zipWith_cons_cons, List.map_cons] at ih ⊢
      injection ih with h1 h2 h3
      rw [h1, h2, h3]
  | [], _ :: _, _, h, _ => by simp at h
  | [], [], _ :: _, _, h => by simp at h
  | _ :: _, [], _, h, _ => by simp at h
  | _ :: _, _ :: _, [], _, h => by simp at h

/-- lengths of the three compressed columns agree -/
theorem compress_lengths (m : List Bool) : ∀ (x y : List ℝ), x.length = y.length →
    (Vec.compress m x).length = (Vec.compress m y).length := by
  induction m with
  | nil => intro x y _; simp [Vec.compress]
  | cons b m ih =>
    intro x y h
    cases x with
    | nil => cases y with
      | nil => simp [Vec.compress]
      | cons _ _ => simp at h
    | cons a x =>
      cases y with
      | nil => simp at h
      | cons c y =>
        have := ih x y (by simpa using h)
        simp only [Vec.compress, List.zip_cons_cons, List.filter_cons, List.length_map] at this ⊢
        cases b <;> simp [this]

end
