import PystogVerif.Real
import PystogVerif.VecAttr
import Mathlib.Tactic.Ring
import Mathlib.Tactic.FieldSimp
import Mathlib.Tactic.Linarith

/-! Uniform refinement tactics (entry-wise comparison of list expressions); independent of the generated code -/

theorem getElem?_isSome_eq {α β : Type} (q : List α) (y : List β) (h : q.length = y.length) (i : Nat) :
    q[i]?.isSome = y[i]?.isSome := by
  by_cases hi : i < q.length
  · have hj : i < y.length := h ▸ hi
    simp [hi, hj]
  · have hj : ¬ i < y.length := h ▸ hi
    simp [hi, hj]

/-- uniform refinement tactic: compare two list expressions built from `zipWith`/`map` over the base
    lists `x`, `y` (of equal length, hypothesis `h`) entry by entry -/
macro "pointwise2" x:ident y:ident h:ident " [" defs:Lean.Parser.Tactic.simpLemma,* "]" : tactic =>
  `(tactic| (
    apply List.ext_getElem?
    intro i
    have hiff := getElem?_isSome_eq $x $y $h i
    simp only [conv_unfold, vec_unfold, List.zip_eq_zipWith, List.getElem?_zipWith, List.getElem?_map]
    cases hx : ($x)[i]? <;> cases hy : ($y)[i]? <;> (try simp [hx, hy] at hiff) <;> simp [$defs,*]))

/-- closes the scalar identities left by `pointwise2` (guards split, positivity of the abscissa used) -/
macro "conv_close" : tactic =>
  `(tactic| (
    try split_ifs
    all_goals first
      | rfl
      | (norm_num; done)
      | ring1
      | (left; ring1)
      | (field_simp; done)
      | (field_simp; ring)
      | (rename_i h; have := ne_of_gt h; first | (left; field_simp; done) | (field_simp; done) | (field_simp; ring) | (left; field_simp; ring))))

/-- closes a scalar identity over ℝ (field identity under the nonzero facts in context) -/
macro "scalar_close" : tactic =>
  `(tactic| (first
    | rfl | trivial | (norm_num; done) | ring1 | (field_simp; done) | (field_simp; ring1)
    | (left; ring1) | (left; field_simp; done) | (left; field_simp; ring1) | (simp; done)))

