import PystogVerif.Model.Numpy
/-!
# Runtime for the code generated from `stog.py`, `pre_proc.py`, `utils.py`, `cli.py` (tools/translate_stog.py)

Mathlib-free.  The generated functions are state transformers `GState α → Except Err (GState α × result)` over one record
that holds what `StoG.__init__` creates; dictionaries keyed by the *names* of the title attributes (`"sq_title"`, …) —
the translator emits the default titles and the theorem that they are pairwise distinct for each real-space function.
-/

namespace StogRt

/-- the exceptions the translated code can raise -/
inductive Err where
  | keyError | unboundLocal | valueError | typeError | indexError | runtimeError | noInputFiles | zeroDivision
deriving Repr, DecidableEq

/-- a Python `dict` with string keys -/
abbrev Dict (β : Type) := String → Option β

namespace Dict
def empty {β : Type} : Dict β := fun _ => none
def set {β : Type} (d : Dict β) (k : String) (v : β) : Dict β := fun k' => if k' = k then some v else d k'
def get {β : Type} (d : Dict β) (k : String) : Except Err β :=
  match d k with | some v => .ok v | none => .error Err.keyError
def contains {β : Type} (d : Dict β) (k : String) : Bool := (d k).isSome
end Dict

/-- `d["K"]` on an optional entry -/
def reqKey {β : Type} (o : Option β) : Except Err β := match o with | some v => .ok v | none => .error Err.keyError
/-- a possibly-`None` value used where numpy needs a number -/
def reqNum {β : Type} (o : Option β) : Except Err β := match o with | some v => .ok v | none => .error Err.typeError

@[simp] theorem bind_ok {ε β γ : Type} (a : β) (f : β → Except ε γ) : (Except.ok a >>= f) = f a := rfl
@[simp] theorem bind_error {ε β γ : Type} (e : ε) (f : β → Except ε γ) : ((Except.error e : Except ε β) >>= f) = Except.error e := rfl
@[simp] theorem throw_eq_error {ε β : Type} (e : ε) : (throw e : Except ε β) = Except.error e := rfl
@[simp] theorem pure_eq_ok {ε β : Type} (a : β) : (pure a : Except ε β) = Except.ok a := rfl
@[simp] theorem Dict.set_same {β : Type} (d : Dict β) (k : String) (v : β) : (d.set k v) k = some v := by simp [Dict.set]
@[simp] theorem Dict.set_other {β : Type} (d : Dict β) (k k' : String) (v : β) (h : k' ≠ k) : (d.set k v) k' = d k' := by
  simp [Dict.set, h]

/-- a 3×N storage array: Q, value, uncertainty -/
structure Rows (α : Type) where
  x : Vec α
  y : Vec α
  dy : Vec α

def Rows.empty {α : Type} : Rows α := ⟨[], [], []⟩
/-- `np.concatenate((a, np.stack((x, y, dy))), axis=1)` -/
def Rows.concat {α : Type} (a : Rows α) (x y dy : Vec α) : Rows α := ⟨a.x ++ x, a.y ++ y, a.dy ++ dy⟩

/-- `info["data"]`: two or three rows -/
structure Data (α : Type) where
  x : Vec α
  y : Vec α
  dy : Option (Vec α) := none

structure YOpts (α : Type) where
  Scale : Option α := none
  Offset : Option α := none

structure XOpts (α : Type) where
  Offset : Option α := none

/-- the `info` dictionary of one dataset (keys the code reads) -/
structure Info (α : Type) where
  data : Data α
  Qmin : Option α := none
  Qmax : Option α := none
  Y : Option (YOpts α) := none
  X : Option (XOpts α) := none
  ReciprocalFunction : Option String := none

structure FOpts (α : Type) where
  Y : Option (YOpts α) := none

/-- `merged_opts` (the "Merging" dictionary) -/
structure MergedOpts (α : Type) where
  Y : Option (YOpts α) := none
  F : Option (FOpts α) := none     -- key "Q[S(Q)-1]"

/-- a JSON value as far as the setters distinguish it -/
inductive JVal (α : Type) where
  | null
  | bool (b : Bool)
  | num (x : α)
  | str (s : String)

structure FFJ (α : Type) where
  /-- "Cutoff": absent / present with `null` / present with a number -/
  Cutoff : Option (Option α) := none

structure TransformJ (α : Type) where
  Qmin : Option α := none
  Qmax : Option α := none

/-- the "Merging" dictionary: the post-merge options plus the ingestion window -/
structure MergingJ (α : Type) where
  opts : MergedOpts α := {}
  Transform : Option (TransformJ α) := none

structure OutputsJ where
  StemName : Option String := none

/-- the keyword arguments of `StoG(**kwargs)` (the JSON configuration), keys that reach settings the translated methods read -/
structure KwargsJ (α : Type) where
  RealSpaceFunction : Option String := none
  Rmin : Option α := none
  Rmax : Option α := none
  Rdelta : Option α := none
  Rpoints : Option α := none
  NumberDensity : Option α := none
  OmittedXrangeCorrection : Option (JVal α) := none
  LorchFlag : Option (JVal α) := none
  FourierFilter : Option (FFJ α) := none
  bcoh : Option α := none
  btot : Option α := none
  Merging : Option (MergingJ α) := none
  Outputs : Option OutputsJ := none

/-- the `argparse.Namespace` that `parse_cli_args` receives (parser defaults already applied; the file list is not modelled) -/
structure ArgsNS (α : Type) where
  density : Option α := none
  Rmax : α
  Rpoints : α
  Rdelta : Option α := none
  fourier_filter_cutoff : Option α := none
  lorch_flag : Bool := false
  stem_name : String := "merged"
  merging : α × α
  bcoh_sqrd : α
  btot_sqrd : α
  real_space_function : String := "g(r)"
  low_q_correction : Bool := false

/-- one call of `_write_out_to_file(x, y, filename)` -/
structure Written (α : Type) where
  filename : String
  x : Vec α
  y : Vec α

/-- what `StoG.__init__` creates (attributes the translated methods touch) -/
structure GState (α : Type) where
  xmin : α
  xmax : α
  qmin : Option α := none
  qmax : Option α := none
  real_space_function : String := "g(r)"
  rmin : α
  rmax : α
  rdelta : α
  dr : Vec α
  density : α
  bcoh_sqrd : α
  btot_sqrd : α
  low_q_correction : Bool := false
  lorch_flag : Bool := false
  fourier_filter_cutoff : Option α := none
  merged_opts : MergedOpts α := {}
  stem_name : String := "out"
  reciprocal_individuals : Rows α := Rows.empty
  sq_individuals : Rows α := Rows.empty
  q_master : Dict (Vec α) := Dict.empty
  sq_master : Dict (Vec α) := Dict.empty
  r_master : Dict (Vec α) := Dict.empty
  gr_master : Dict (Vec α) := Dict.empty
  /-- files written so far, oldest first -/
  written : List (Written α) := []

section
variable {α : Type} [Add α] [Sub α] [Mul α] [Div α] [Neg α] [LT α] [LE α] [NatCast α]
  [DecidableLT α] [DecidableLE α] [Transc α] [Rint α]

/-- a state with nothing in it (driver use: the fields a method reads are filled in by the caller) -/
def blank : GState α :=
  { xmin := ((100:Nat):α), xmax := ((0:Nat):α), rmin := ((0:Nat):α), rmax := ((0:Nat):α), rdelta := ((1:Nat):α), dr := [],
    density := ((1:Nat):α), bcoh_sqrd := ((1:Nat):α), btot_sqrd := ((1:Nat):α) }

/-- `numpy.arange(start, stop, step)`: length ceil((stop − start)/step), values start + i·((start + step) − start) -/
def arangeLen (start stop step : α) : Nat :=
  let t := (stop - start) / step
  let f := Rint.toNat t
  if ((f : Nat) : α) < t then f + 1 else f
def arange (start stop step : α) : Vec α :=
  (List.range (arangeLen start stop step)).map (fun i : Nat => start + ((i : Nat) : α) * ((start + step) - start))

/-- `_write_out_to_file` seen from the workflow: the call is recorded (the bytes are `Model/Writer.lean`'s business) -/
def writeOut (self : GState α) (x y : Vec α) (filename : String) : GState α :=
  { self with written := self.written ++ [⟨filename, x, y⟩] }

/-- `sorted(zip(x, y, dy), key=lambda a: a[0])` then unzip: stable sort of the columns by the first row -/
def sortRows (r : Rows α) : Rows α :=
  let pts := (List.zipWith (fun a (b : α × α) => (a, b.1, b.2)) r.x (r.y.zip r.dy)).mergeSort (fun a b => decide (a.1 ≤ b.1))
  ⟨pts.map (·.1), pts.map (·.2.1), pts.map (·.2.2)⟩

/-- the columns of a 3×N array as a list of triples (`array.T`) -/
def Rows.cols (r : Rows α) : List (α × α × α) := List.zipWith (fun a (b : α × α) => (a, b.1, b.2)) r.x (r.y.zip r.dy)

def noJunk : Junk α := fun _ _ => ((0:Nat):α)

/-- `apply_cropping(x, y, lo, np.inf, dy=dy)`: the comparison with +inf holds for every number, so only `x >= lo` selects -/
def cropFrom (x y : Vec α) (lo : α) (dy : Vec α) : Vec α × Vec α × Vec α :=
  let m := Vec.geS x lo
  (Vec.compress m x, Vec.compress m y, Vec.compress m dy)
/-- `apply_cropping(x, y, -np.inf, hi, dy=dy)` -/
def cropUpTo (x y : Vec α) (hi : α) (dy : Vec α) : Vec α × Vec α × Vec α :=
  let m := Vec.leS x hi
  (Vec.compress m x, Vec.compress m y, Vec.compress m dy)

/-- `item[0] == prev` where `prev` may still be `None` -/
def eqOpt (a : α) (p : Option α) : Bool := match p with | some q => Cmp.eq a q | none => false

/-- `np.asarray(rows).T` followed by `[0]`, `[1]`, `[2]`: the three columns; IndexError when there is no row -/
def asRowsT (l : List (α × α × α)) : Except Err (Rows α) :=
  if l.isEmpty then .error Err.indexError else .ok ⟨l.map (·.1), l.map (·.2.1), l.map (·.2.2)⟩

/-- `A[k] += v` on a Python list (IndexError when k is out of range: the translator records the site) -/
def addAt (l : Vec α) (k : Nat) (v : α) : Vec α := l.mapIdx (fun i a => if i = k then a + v else a)

/-- `for i in range(n): A[i] /= B[i]` -/
def divPrefix (a b : Vec α) (n : Nat) : Vec α := a.mapIdx (fun i x => if i < n then x / List.getD b i ((0:Nat):α) else x)

/-- `sq[np.isnan(sq)] = 0` -/
def nanToZero (v : Vec α) : Vec α := v.map (fun x => if Cmp.eq x x then x else ((0:Nat):α))

end
end StogRt
