import PystogVerif.Vec
/-!
# Line-protocol plumbing for the executable (`Float`) reading of the models

Floats cross the pipe as decimal `UInt64` bit patterns, so no decimal parsing or printing of
floating-point numbers is involved and every value is exact.
-/

inductive Arg where
  | none
  | scalar (x : Float)
  | vec (v : List Float)
  | text (s : String)
deriving Inhabited

def parseBits (t : String) : Option Float := t.toNat?.map (fun n => Float.ofBits n.toUInt64)

def parseVec (s : String) : List Float :=
  (s.splitOn " ").filterMap (fun t => if t.isEmpty then Option.none else parseBits t)

def showBits (x : Float) : String := toString x.toBits.toNat
def showVec (v : List Float) : String := " ".intercalate (v.map showBits)

namespace Arg
def parse (s : String) : Arg :=
  let s := s.trimAscii.toString
  if s == "-" then Arg.none
  else if s.startsWith "s " then
    match parseBits ((s.drop 2).trimAscii.toString) with
    | some x => Arg.scalar x
    | Option.none => Arg.text s
  else if s == "v" then Arg.vec []
  else if s.startsWith "v " then Arg.vec (parseVec (s.drop 2).toString)
  else if s.startsWith "t " then Arg.text (s.drop 2).toString
  else Arg.text s

def getVec (a : Array Arg) (i : Nat) : Except String (List Float) :=
  match a[i]? with | some (Arg.vec v) => pure v | _ => throw s!"arg {i}: vector expected"
def getScalar (a : Array Arg) (i : Nat) : Except String Float :=
  match a[i]? with | some (Arg.scalar x) => pure x | _ => throw s!"arg {i}: scalar expected"
def getOVec (a : Array Arg) (i : Nat) : Except String (Option (List Float)) :=
  match a[i]? with | some (Arg.vec v) => pure (some v) | some Arg.none => pure Option.none | _ => throw s!"arg {i}: optional vector expected"
def getOScalar (a : Array Arg) (i : Nat) : Except String (Option Float) :=
  match a[i]? with | some (Arg.scalar x) => pure (some x) | some Arg.none => pure Option.none | _ => throw s!"arg {i}: optional scalar expected"
def getStr (a : Array Arg) (i : Nat) : Except String String :=
  match a[i]? with | some (Arg.text s) => pure s | _ => throw s!"arg {i}: text expected"
end Arg

namespace Out
def ofS (x : Float) : List Float := [x]
end Out

/-- `rho=<u64> bcoh=<u64> btot=<u64> lorch=0|1 omitted=0|1 xmin=<u64>|- xmax=<u64>|-` -/
def parseKw (s : String) : Kw Float := Id.run do
  let mut kw : Kw Float := { rho := 0.0, bcoh := 0.0, btot := 0.0 }
  for t in s.splitOn " " do
    match t.splitOn "=" with
    | [k, v] =>
      let f := (parseBits v).getD 0.0
      if k == "rho" then kw := { kw with rho := f }
      else if k == "bcoh" then kw := { kw with bcoh := f }
      else if k == "btot" then kw := { kw with btot := f }
      else if k == "lorch" then kw := { kw with lorch := v == "1" }
      else if k == "omitted" then kw := { kw with omitted := v == "1" }
      else if k == "xmin" then kw := { kw with xmin := parseBits v }
      else if k == "xmax" then kw := { kw with xmax := parseBits v }
    | _ => pure ()
  return kw
