import PystogVerif.Real
/-!
# Specification vocabulary for the core transform (C01, C02, C07, C13, C14)
-/
namespace Spec

/-- recursive trapezoid rule: Σ (x_{i+1} − x_i)(k_{i+1} + k_i)/2 -/
noncomputable def trapzRec : List ℝ → List ℝ → ℝ
  | x0 :: x1 :: xs, y0 :: y1 :: ys => (x1 - x0) * (y1 + y0) / 2 + trapzRec (x1 :: xs) (y1 :: ys)
  | _, _ => 0

/-- closed-interval window applied to a list `v` that runs parallel to the abscissae `x` -/
noncomputable def cropL (lo hi : ℝ) (x v : List ℝ) : List ℝ :=
  ((x.zip v).filter (fun p => decide (lo ≤ p.1) && decide (p.1 ≤ hi))).map (·.2)

/-- Lorch weight sin(a x)/(a x), equal to 1 where a x = 0 -/
noncomputable def lorchW (a x : ℝ) : ℝ := if a * x ≠ 0 then Real.sin (a * x) / (a * x) else 1

/-- weight seen by the transform: Lorch or none -/
noncomputable def weight (lorch : Bool) (hi : ℝ) (x : ℝ) : ℝ := if lorch then lorchW (Real.pi / hi) x else 1

/-- trapezoid sine quadrature T[x, y](t) = trapz(x; y_i sin(x_i t)) -/
noncomputable def T (x y : List ℝ) (t : ℝ) : ℝ :=
  trapzRec x (List.zipWith (fun a b => b * Real.sin (a * t)) x y)

/-- the squared uncertainty the code accumulates: Σ_i d_i² (s_i² + s_{i+1}²)/2 -/
noncomputable def codeVarSum : List ℝ → List ℝ → ℝ
  | x0 :: x1 :: xs, s0 :: s1 :: ss => (x1 - x0) ^ 2 * (s1 ^ 2 + s0 ^ 2) / 2 + codeVarSum (x1 :: xs) (s1 :: ss)
  | _, _ => 0

end Spec
