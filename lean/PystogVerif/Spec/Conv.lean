import PystogVerif.Real
/-!
# Specification of the conversions (what C03, C04, C06 demand)

Pointwise definitions: the documented formula where the abscissa is positive, the conventional
finite value otherwise.  `rconv X Y kw q v` converts the value `v` of function `X` at abscissa `q`
into function `Y`; `rslope X Y kw q` is `∂Y/∂X` there.
-/

/-- reciprocal-space functions: S(Q), Q[S(Q)-1], Keen's F(Q), differential cross-section -/
inductive RFn | S | F | FK | DCS
deriving DecidableEq, Repr

/-- real-space functions: g(r), G(r), Keen's G(r) -/
inductive GFn | g | G | GK
deriving DecidableEq, Repr

namespace Spec

/-- S(Q) from any reciprocal-space function (conventional value 1 where Q ≤ 0) -/
noncomputable def toS (kw : Kw ℝ) : RFn → ℝ → ℝ → ℝ
  | .S, _, s => s
  | .F, q, f => if 0 < q then f / q + 1 else 1
  | .FK, q, k => if 0 < q then k / kw.bcoh + 1 else 1
  | .DCS, q, d => if 0 < q then (d - kw.btot) / kw.bcoh + 1 else 1

/-- Keen's F(Q) = ⟨b_coh⟩² (S − 1), conventional value 0 where Q ≤ 0 and the input is S or Q[S−1] -/
noncomputable def rconv (kw : Kw ℝ) : RFn → RFn → ℝ → ℝ → ℝ
  | .S, .S, _, s => s
  | .S, .F, q, s => q * (s - 1)
  | .S, .FK, q, s => if 0 < q then kw.bcoh * (s - 1) else 0
  | .S, .DCS, q, s => (if 0 < q then kw.bcoh * (s - 1) else 0) + kw.btot
  | .F, .S, q, f => if 0 < q then f / q + 1 else 1
  | .F, .F, _, f => f
  | .F, .FK, q, f => if 0 < q then kw.bcoh * (f / q) else 0
  | .F, .DCS, q, f => (if 0 < q then kw.bcoh * (f / q) else 0) + kw.btot
  | .FK, .S, q, k => if 0 < q then k / kw.bcoh + 1 else 1
  | .FK, .F, q, k => q * k / kw.bcoh
  | .FK, .FK, _, k => k
  | .FK, .DCS, _, k => k + kw.btot
  | .DCS, .S, q, d => if 0 < q then (d - kw.btot) / kw.bcoh + 1 else 1
  | .DCS, .F, q, d => q * (d - kw.btot) / kw.bcoh
  | .DCS, .FK, _, d => d - kw.btot
  | .DCS, .DCS, _, d => d

/-- `∂Y/∂X` at abscissa `q` (zero where the conventional value is returned) -/
noncomputable def rslope (kw : Kw ℝ) : RFn → RFn → ℝ → ℝ
  | .S, .S, _ => 1
  | .S, .F, q => q
  | .S, .FK, q => if 0 < q then kw.bcoh else 0
  | .S, .DCS, q => if 0 < q then kw.bcoh else 0
  | .F, .S, q => if 0 < q then 1 / q else 0
  | .F, .F, _ => 1
  | .F, .FK, q => if 0 < q then kw.bcoh / q else 0
  | .F, .DCS, q => if 0 < q then kw.bcoh / q else 0
  | .FK, .S, q => if 0 < q then 1 / kw.bcoh else 0
  | .FK, .F, q => q / kw.bcoh
  | .FK, .FK, _ => 1
  | .FK, .DCS, _ => 1
  | .DCS, .S, q => if 0 < q then 1 / kw.bcoh else 0
  | .DCS, .F, q => q / kw.bcoh
  | .DCS, .FK, _ => 1
  | .DCS, .DCS, _ => 1

/-- real space: G = 4πρ r (g − 1), G_K = ⟨b_coh⟩² (g − 1); conventional values g = 1, G_K = 0 where r ≤ 0 -/
noncomputable def gconv (kw : Kw ℝ) : GFn → GFn → ℝ → ℝ → ℝ
  | .g, .g, _, v => v
  | .g, .G, r, v => 4 * Real.pi * kw.rho * r * (v - 1)
  | .g, .GK, r, v => if 0 < r then kw.bcoh * (v - 1) else 0
  | .G, .g, r, v => if 0 < r then v / (4 * Real.pi * kw.rho * r) + 1 else 1
  | .G, .G, _, v => v
  | .G, .GK, r, v => if 0 < r then kw.bcoh * v / (4 * Real.pi * kw.rho * r) else 0
  | .GK, .g, r, v => if 0 < r then v / kw.bcoh + 1 else 1
  | .GK, .G, r, v => 4 * Real.pi * kw.rho * r * v / kw.bcoh
  | .GK, .GK, _, v => v

noncomputable def gslope (kw : Kw ℝ) : GFn → GFn → ℝ → ℝ
  | .g, .g, _ => 1
  | .g, .G, r => 4 * Real.pi * kw.rho * r
  | .g, .GK, r => if 0 < r then kw.bcoh else 0
  | .G, .g, r => if 0 < r then 1 / (4 * Real.pi * kw.rho * r) else 0
  | .G, .G, _ => 1
  | .G, .GK, r => if 0 < r then kw.bcoh / (4 * Real.pi * kw.rho * r) else 0
  | .GK, .g, r => if 0 < r then 1 / kw.bcoh else 0
  | .GK, .G, r => 4 * Real.pi * kw.rho * r / kw.bcoh
  | .GK, .GK, _ => 1

end Spec
