import PystogVerif.Real
import PystogVerif.Model.Numpy
import Mathlib.Algebra.Order.Floor.Ring

/-! The real-number reading of `rint` / `floor` / `int()` and of float equality (no dependency on generated code) -/
noncomputable section
open Classical

/-- real-number reading of `rint`/`floor` (half-even), only needed to instantiate the model at ℝ -/
noncomputable def rintR (v : ℝ) : ℝ :=
  let f := ⌊v⌋
  if v - f < 1 / 2 then f else if v - f > 1 / 2 then f + 1 else if Even f then f else f + 1
noncomputable instance : Rint ℝ := ⟨rintR, fun v => (⌊v⌋ : ℝ), fun v => ⌊v⌋.toNat⟩


end
