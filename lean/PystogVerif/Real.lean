import PystogVerif.Vec
import Mathlib.Analysis.SpecialFunctions.Trigonometric.Basic
import Mathlib.Analysis.SpecialFunctions.Sqrt

/-! The real-number reading of the numeric interface: this is what the theorems are about. -/

noncomputable instance : Transc ℝ := ⟨Real.sin, Real.cos, Real.sqrt, Real.pi⟩
@[simp] theorem Transc.pi_real : (Transc.pi : ℝ) = Real.pi := rfl
@[simp] theorem Transc.sin_real (x : ℝ) : Transc.sin x = Real.sin x := rfl
@[simp] theorem Transc.cos_real (x : ℝ) : Transc.cos x = Real.cos x := rfl
@[simp] theorem Transc.sqrt_real (x : ℝ) : Transc.sqrt x = Real.sqrt x := rfl

theorem Vec.sum_eq (l : List ℝ) : Vec.sum l = l.sum := by
  unfold Vec.sum; rw [List.sum_eq_foldl]; simp

@[simp] theorem Cmp.eq_real (a b : ℝ) : Cmp.eq a b = decide (a = b) := by
  unfold Cmp.eq
  by_cases h : a = b
  · subst h; simp
  · have : ¬ (a ≤ b ∧ b ≤ a) := fun ⟨h1, h2⟩ => h (le_antisymm h1 h2)
    rw [← Bool.decide_and, decide_eq_false this]
    simp [h]

@[simp] theorem Cmp.ne_real (a b : ℝ) : Cmp.ne a b = decide (a ≠ b) := by
  unfold Cmp.ne
  by_cases h : a = b
  · subst h; simp
  · have : ¬ (a ≤ b ∧ b ≤ a) := fun ⟨h1, h2⟩ => h (le_antisymm h1 h2)
    rw [← Bool.decide_and, decide_eq_false this]
    simp [h]
