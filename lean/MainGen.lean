import PystogVerif.Gen.Dispatch
/-! Driver for the generated code: `<id>;<entry>;<kw spec>;<junk fill bits>;<arg>;…` → `<id> ok <v>|<v>|…` / `<id> err <message>` -/

def handle (line : String) : String :=
  match line.splitOn ";" with
  | id :: entry :: kws :: jf :: args =>
    let kw := parseKw kws
    let fill := (parseBits jf.trimAscii.toString).getD 0.0
    let junk : Junk Float := fun _ _ => fill
    let a := (args.map Arg.parse).toArray
    match Gen.dispatch entry.trimAscii.toString kw junk a with
    | .ok vs => s!"{id} ok " ++ "|".intercalate (vs.map showVec)
    | .error e => s!"{id} err {e}"
  | _ => "? err malformed-request"

partial def loop (handle : String → String) (h : IO.FS.Stream) (out : IO.FS.Stream) : IO Unit := do
  let line ← h.getLine
  if line.isEmpty then return ()
  let l := line.trimAscii.toString
  if !l.isEmpty then
    out.putStrLn (handle l)
  loop handle h out

def main : IO Unit := do
  let out ← IO.getStdout
  loop handle (← IO.getStdin) out
  out.flush
