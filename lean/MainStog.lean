import PystogVerif.Gen.StogDispatch
/-! Driver for the Float reading of the code generated from stog.py / pre_proc.py (same line protocol; kw and junk fields ignored) -/

def handle (line : String) : String :=
  match line.splitOn ";" with
  | id :: entry :: _ :: _ :: args =>
    let a := (args.map Arg.parse).toArray
    match GenStogDispatch.dispatch entry.trimAscii.toString a with
    | .ok vs => s!"{id} ok " ++ "|".intercalate (vs.map showVec)
    | .error e => s!"{id} err {e}"
  | _ => "? err malformed-request"

partial def loop (handle : String → String) (h : IO.FS.Stream) (out : IO.FS.Stream) : IO Unit := do
  let line ← h.getLine
  if line.isEmpty then return ()
  let l := line.trimAscii.toString
  if !l.isEmpty then
    out.putStrLn (handle l)
  loop handle h out

def main : IO Unit := do
  let out ← IO.getStdout
  loop handle (← IO.getStdin) out
  out.flush
