import PystogVerif.Vec
import PystogVerif.Gen.Dispatch
import PystogVerif.Props.C03
import PystogVerif.Props.C04
import PystogVerif.Props.C06
