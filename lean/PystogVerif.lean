import PystogVerif.Vec
import PystogVerif.Gen.Dispatch
