import PystogVerif.Gen.Dispatch
import PystogVerif.Model.Dispatch
/-!
Driver: one request per line on stdin, one response per line on stdout.

request : `<id>;<entry>;<kw spec>;<junk fill bits>;<arg>;<arg>;…`
response: `<id> ok <v>|<v>|…`  or  `<id> err <message>`
-/

def handle (line : String) : String :=
  match line.splitOn ";" with
  | id :: entry :: kws :: jf :: args =>
    let kw := parseKw kws
    let fill := (parseBits jf.trimAscii.toString).getD 0.0
    let junk : Junk Float := fun _ _ => fill
    let a := (args.map Arg.parse).toArray
    let e := entry.trimAscii.toString
    match (if e.startsWith "Stog." || e.startsWith "Model." || e.startsWith "Wf." || e.startsWith "Cfg." then Model.dispatch e a else Gen.dispatch e kw junk a) with
    | .ok vs => s!"{id} ok " ++ "|".intercalate (vs.map showVec)
    | .error e => s!"{id} err {e}"
  | _ => "? err malformed-request"

partial def loop (h : IO.FS.Stream) (out : IO.FS.Stream) : IO Unit := do
  let line ← h.getLine
  if line.isEmpty then return ()
  let l := line.trimAscii.toString
  if !l.isEmpty then
    out.putStrLn (handle l)
  loop h out

def main : IO Unit := do
  let out ← IO.getStdout
  loop (← IO.getStdin) out
  out.flush
