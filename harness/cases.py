"""Case generation for the entry points of converter.py / transformer.py / fourier_filter.py."""
import numpy as np
from gen import grid, data, unc, material

RECIP = {"S": 1.0, "F": 0.0, "FK": 0.0, "DCS": 0.0}
REAL = {"g": 1.0, "G": 0.0, "GK": 0.0}


def options(rng, x=None, allow_window=True):
    kw = {}
    if rng.random() < 0.4:
        kw["lorch"] = True
    if rng.random() < 0.3:
        kw["OmittedXrangeCorrection"] = True
    if allow_window and x is not None and rng.random() < 0.35:
        lo, hi = float(x[0]), float(x[-1])
        r = rng.random()
        if r < 0.4 and len(x) > 3:  # hits grid points exactly
            i, j = sorted(rng.choice(len(x), 2, replace=False))
            if j - i >= 1:
                kw["xmin"], kw["xmax"] = float(x[i]), float(x[j])
        elif r < 0.8:
            a, b = sorted(rng.uniform(lo - 0.1 * (hi - lo), hi + 0.1 * (hi - lo), 2))
            if np.sum((x >= a) & (x <= b)) >= 2:
                kw["xmin"], kw["xmax"] = float(a), float(b)
        else:
            kw["xmax"] = float(hi + rng.uniform(0, 3))
    return kw


def make_case(rng, entry, maxn=60):
    """returns dict(entry, args, kw, meta) — args positional in signature order"""
    cls, name = entry.split(".")
    kw = material(rng)
    meta = {}
    if cls == "Converter":
        if name == "_safe_divide":
            x, gk = grid(rng, n=int(rng.integers(1, maxn)) + 1)
            num, dk = data(rng, x)
            den = x.copy()
            if rng.random() < 0.5:
                den[rng.integers(0, len(den))] = 0.0
            if rng.random() < 0.3:
                den[rng.integers(0, len(den))] = -1.0
            return dict(entry=entry, args=[num, den], kw={}, meta={"grid": gk, "data": dk, "n": len(x)})
        src = name.split("_to_")[0]
        base = RECIP.get(src, REAL.get(src, 0.0))
        x, gk = grid(rng, n=int(rng.integers(1, maxn)) + 1)
        y, dk = data(rng, x, base=base)
        dy = unc(rng, x)
        meta = {"grid": gk, "data": dk, "n": len(x), "zero": bool(x[0] == 0.0), "unc": dy is not None}
        return dict(entry=entry, args=[x, y, dy], kw=kw, meta=meta)
    if cls == "Transformer":
        if name == "apply_cropping":
            x, gk = grid(rng, n=int(rng.integers(2, maxn)))
            y, dk = data(rng, x)
            dy = unc(rng, x)
            if rng.random() < 0.5 and len(x) > 2:
                i, j = sorted(rng.choice(len(x), 2, replace=False))
                a, b = float(x[i]), float(x[j])
            else:
                a, b = sorted(rng.uniform(x[0] - 1, x[-1] + 1, 2))
            return dict(entry=entry, args=[x, y, float(a), float(b), dy], kw={}, meta={"grid": gk, "n": len(x)})
        if name == "_low_x_correction":
            x, gk = grid(rng, n=int(rng.integers(2, maxn)))
            y, dk = data(rng, x)
            xo, ok = grid(rng, n=int(rng.integers(1, maxn)) + 1)
            yo, _ = data(rng, xo)
            k = {}
            if rng.random() < 0.5:
                k["lorch"] = True
            return dict(entry=entry, args=[x, y, xo, yo], kw=k, meta={"grid": gk, "n": len(x), "lorch": bool(k)})
        x, gk = grid(rng, n=int(rng.integers(2, maxn)), extra=0.12, extra_kinds=["crossing", "negative"])
        xo, ok = grid(rng, n=int(rng.integers(1, maxn)) + 1)
        if rng.random() < 0.2:
            xo = np.concatenate([[-xo[-1] / 2], xo])  # negative output abscissa
        if name == "fourier_transform":
            y, dk = data(rng, x)
            dy = unc(rng, x)
            opt = options(rng, x)
            xmin, xmax = opt.pop("xmin", None), opt.pop("xmax", None)
            kw.update(opt)
            meta = {"grid": gk, "out": ok, "n": len(x), "m": len(xo), "zero": bool(x[0] == 0.0), "unc": dy is not None,
                    "lorch": bool(opt.get("lorch")), "omitted": bool(opt.get("OmittedXrangeCorrection")),
                    "window": xmin is not None or xmax is not None}
            return dict(entry=entry, args=[x, y, xo, xmin, xmax, dy], kw=kw, meta=meta)
        src = name.split("_to_")[0]
        base = RECIP.get(src, REAL.get(src, 0.0))
        y, dk = data(rng, x, base=base)
        dy = unc(rng, x)
        opt = options(rng, x)
        kw.update(opt)
        meta = {"grid": gk, "out": ok, "n": len(x), "m": len(xo), "zero": bool(x[0] == 0.0), "unc": dy is not None,
                "lorch": bool(opt.get("lorch")), "omitted": bool(opt.get("OmittedXrangeCorrection")),
                "window": "xmin" in opt or "xmax" in opt}
        return dict(entry=entry, args=[x, y, xo, dy], kw=kw, meta=meta)
    if cls == "FourierFilter":
        rsp, qsp = name.split("_using_")
        r, rk = grid(rng, n=int(rng.integers(4, maxn)), hi=float(rng.uniform(4, 20)))
        q, qk = grid(rng, n=int(rng.integers(4, maxn)), hi=float(rng.uniform(5, 30)))
        gr, _ = data(rng, r, base=REAL[rsp])
        fq, _ = data(rng, q, base=RECIP[qsp])
        cutoff = float(rng.uniform(r[1], max(r[-1] * 0.7, r[2]))) if rng.random() < 0.8 else float(r[int(rng.integers(1, len(r) - 1))])
        if rng.random() < 0.25 and len(r) > 4:
            # a hair below / above a grid point: the closed interval [0, cutoff] is exact, no tolerance may pull the point in or out
            k = int(rng.integers(2, len(r) - 1))
            cutoff = float(rng.choice([np.nextafter(r[k], 0.0), r[k] * (1 - 2e-6), r[k] * (1 - 1e-9), np.nextafter(r[k], np.inf), r[k] * (1 + 2e-6)]))
        if np.sum(r <= cutoff) < 2:
            cutoff = float(r[2])
        if rng.random() < 0.08:
            cutoff = float(r[-1] + (rng.uniform(0, 2) if rng.random() < 0.5 else 0.0))   # the whole r grid lies inside [0, cutoff]
        dgr = unc(rng, r)
        dfq = unc(rng, q)
        opt = options(rng, None, allow_window=False)
        kw.update(opt)
        meta = {"rgrid": rk, "qgrid": qk, "n": len(r), "m": len(q), "unc": (dgr is not None, dfq is not None),
                "lorch": bool(opt.get("lorch")), "omitted": bool(opt.get("OmittedXrangeCorrection")),
                "zero": (bool(r[0] == 0.0), bool(q[0] == 0.0))}
        return dict(entry=entry, args=[r, gr, q, fq, cutoff, dgr, dfq], kw=kw, meta=meta)
    raise ValueError(entry)
