"""Dataset-list generators and an independent ingestion specification for StoG (C10, C11, C17)."""
import copy
import numpy as np

KINDS = ["S(Q)", "Q[S(Q)-1]", "FK(Q)", "DCS(Q)"]


def mk_dataset(rng, kind=None, maxn=40):
    kind = kind or str(rng.choice(KINDS))
    n = int(rng.integers(3, maxn))
    q0 = int(rng.integers(5, 300)) / 100 if rng.random() > 0.1 else 0.0   # 10%: the first bin is Q = 0
    dq = float(rng.choice([0.01, 0.02, 0.05, 0.01, 0.02, 0.05, 0.004, 0.005]))   # 25%: finer than the lattice
    q = np.round(q0 + np.arange(n) * dq, 2)
    if rng.random() < 0.3:
        q = q + rng.uniform(-0.004, 0.004, n)  # raw abscissae not yet on the 0.01 lattice
    base = {"S(Q)": 1.0, "Q[S(Q)-1]": 0.0, "FK(Q)": 0.0, "DCS(Q)": 1.0}[kind]
    y = base + rng.normal(size=n) * 0.3
    if rng.random() < 0.06:
        y[0] = float(rng.choice([3e12, -8e13, 5e14]))   # direct-beam leakage / a small-angle upturn in the lowest bin: a number like any other
    int_y = bool(rng.random() < 0.06)
    if int_y:
        y = np.rint(y * 4)          # whole-number ordinates (counts), handed over in integer arrays: the same numbers
    info = {"x": [float(v) for v in q], "y": [float(v) for v in y], "ReciprocalFunction": kind}
    if int_y:
        info["int_y"] = True
    if rng.random() < 0.8:
        info["dy"] = [float(v) for v in (rng.integers(0, 4, n) if int_y else rng.uniform(0, 0.05, n))]
    if rng.random() < 0.6:
        info["Qmin"] = float(np.round(q[int(rng.integers(0, max(n // 2, 1)))], 2))
    if rng.random() < 0.6:
        info["Qmax"] = float(np.round(q[int(rng.integers(n // 2, n))], 2))
    if rng.random() < 0.55:
        info["Y"] = {}
        if rng.random() < 0.8:
            # "all scale settings": a sign flip (difference measurements, a file stored as -S) in one case out of eight
            info["Y"]["Scale"] = float(rng.uniform(0.5, 2)) * (-1.0 if rng.random() < 0.125 else 1.0)
        if rng.random() < 0.8:
            info["Y"]["Offset"] = float(rng.uniform(-1, 1))
    if rng.random() < 0.5:
        info["X"] = {"Offset": float(rng.choice([0.0, 0.2, -0.3, 0.01, 0.1, 1.0, -1.5, 0.07]))}
    if rng.random() < 0.15:
        info.pop("ReciprocalFunction") if kind == "S(Q)" else None
    # rows need not be in ascending Q: descending files, or detector banks concatenated with the high-Q bank first
    r = rng.random()
    if r < 0.08:
        order = np.arange(n)[::-1]
    elif r < 0.16:
        k = int(rng.integers(1, n))
        order = np.concatenate([np.arange(k, n), np.arange(0, k)])
    elif r < 0.2:
        order = rng.permutation(n)
    else:
        order = None
    if order is not None:
        for key in ("x", "y", "dy"):
            if key in info:
                info[key] = [info[key][int(j)] for j in order]
        info["unsorted"] = True
    return info


def decoy_instances():
    """other StoG objects living in the same process: one whose default post-merge options are edited in place, one with other scattering
    lengths.  Nothing they do may reach the object under test (state kept on the class or in the module, shared default dictionaries)."""
    from pystog import StoG
    a = StoG()
    try:
        a.merged_opts["Y"]["Scale"] = 2.0
        a.merged_opts["Y"]["Offset"] = 0.25
    except (KeyError, TypeError):
        pass
    b = StoG(**{"<b_coh>^2": 7.7, "<b_tot^2>": 9.9, "NumberDensity": 0.123})
    b.bcoh_sqrd, b.btot_sqrd = 7.7, 9.9
    return a, b


def lone_origin_point(rng, kind=None):
    """a dataset that consists of the single point Q = 0 (an extrapolated S(0), a transmission normalisation point)"""
    kind = kind or str(rng.choice(["S(Q)", "DCS(Q)"]))
    info = {"x": [0.0], "y": [float(rng.uniform(0.2, 3.0))], "ReciprocalFunction": kind}
    if rng.random() < 0.5:
        info["dy"] = [float(rng.uniform(0, 0.05))]
    return info


def edge_window(rng, ds):
    """a global Q window whose bounds coincide with *offset* Q values of one dataset (the bin the user reads off the shifted curve).
    In floating point x + offset is often one ulp off the 0.01 lattice value (0.4 + 0.2 = 0.6000000000000001): the point is on the
    edge, hence inside.  Returns (qmin, qmax) with either possibly None, or None when no dataset qualifies."""
    d = ds[int(rng.integers(0, len(ds)))]
    if not d.get("X", {}).get("Offset"):
        d["X"] = {"Offset": float(rng.choice([0.2, -0.1, 0.1, 0.3, 0.7, -0.3]))}
    off = d["X"]["Offset"]
    x = np.around(np.array(d["x"], dtype=float), 2)
    lo, hi = d.get("Qmin", x.min()), d.get("Qmax", x.max())
    inside = np.sort(x[(x >= lo) & (x <= hi)])
    if len(inside) < 3:
        return None
    lat = np.around(inside + off, 2)
    below = [k for k in range(len(inside) // 2 + 1) if inside[k] + off < lat[k]]          # float sum just below the lattice value
    above = [k for k in range(len(inside) // 2, len(inside)) if inside[k] + off > lat[k]]  # just above
    kmin = int(rng.choice(below)) if below and rng.random() < 0.8 else int(rng.integers(0, len(inside) // 2 + 1))
    kmax = int(rng.choice(above)) if above and rng.random() < 0.8 else int(rng.integers(len(inside) // 2, len(inside)))
    r = rng.random()
    qmin = float(lat[kmin]) if r < 0.7 else None
    qmax = float(lat[kmax]) if r > 0.3 else None
    return qmin, qmax


def to_info(d):
    """the dict handed to StoG.add_dataset (fresh arrays every time: add_dataset stores into the dict)"""
    info = {k: copy.deepcopy(v) for k, v in d.items() if k not in ("x", "y", "dy", "unsorted", "int_y", "mem", "again", "twin_of_prev")}
    vt = np.int64 if d.get("int_y") else float
    data = [np.array(d["x"], dtype=float), np.array(d["y"], dtype=float).astype(vt)]
    if "dy" in d:
        data.append(np.array(d["dy"], dtype=float).astype(vt))
    info["data"] = data
    return info


def write_columns(path, cols):
    """a text file as StoG.read_dataset expects it (two header lines, whitespace-separated columns); repr() keeps every double exactly"""
    with open(path, "w") as fh:
        fh.write(f"{len(cols[0])}\n# columns\n")
        for row in zip(*cols):
            fh.write(" ".join(repr(float(v)) for v in row) + "\n")


def file_info(d, path):
    """the description dictionary of a dataset that lives in a file"""
    info = to_info(d)
    info.pop("data")
    info["Filename"] = path
    return info


def spec_ingest(d, qmin, qmax, bcoh, btot, conv):
    """what C11 says must be stored for one dataset: (raw row 3xn, S(Q) row 3xn)"""
    x = np.around(np.array(d["x"], dtype=float), 2)
    y = np.around(np.array(d["y"], dtype=float), 16)
    dy = np.around(np.array(d["dy"], dtype=float), 16) if "dy" in d else np.zeros_like(y)
    lo = d.get("Qmin", x.min())
    hi = d.get("Qmax", x.max())
    m = (x >= lo) & (x <= hi)
    x, y, dy = x[m], y[m], dy[m]
    if "Y" in d or "X" in d:
        sc = d.get("Y", {}).get("Scale", 1.0)
        of = d.get("Y", {}).get("Offset", 0.0)
        xo = d.get("X", {}).get("Offset", 0.0)
        y = y * sc + of
        dy = dy * sc
        # the offset Q values are put back on the 0.01 lattice of every other dataset before the global window is applied (the window is
        # a statement about the stored Q: an offset Q of 2.50198 is stored as 2.50 and lies inside Qmax = 2.5)
        x = np.around(x + xo, 2)
    m = np.ones(len(x), bool)
    if qmin is not None:
        m &= x >= qmin - 1e-9
    if qmax is not None:
        m &= x <= qmax + 1e-9
    x, y, dy = x[m], y[m], dy[m]
    kw = {"<b_coh>^2": bcoh, "<b_tot^2>": btot}
    k = d.get("ReciprocalFunction", "S(Q)")
    if k == "S(Q)":
        s, ds = y, dy
    elif k == "Q[S(Q)-1]":
        s, ds = conv.F_to_S(x, y, dy)
    elif k == "FK(Q)":
        s, ds = conv.FK_to_S(x, y, dy, **kw)
    else:
        s, ds = conv.DCS_to_S(x, y, dy, **kw)
    return np.stack([x, y, dy]), np.stack([x, np.asarray(s, dtype=float), np.asarray(ds, dtype=float)])
