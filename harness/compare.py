import numpy as np


def in_scale(arrs, xs=()):
    """scale of the inputs: largest data magnitude times (1 + largest abscissa magnitude squared-ish)"""
    m = 0.0
    for a in arrs:
        if a is None:
            continue
        a = np.asarray(a, dtype=float)
        a = a[np.isfinite(a)]
        if a.size:
            m = max(m, float(np.abs(a).max()))
    s = 1.0
    for x in xs:
        if x is None:
            continue
        x = np.asarray(x, dtype=float)
        x = x[np.isfinite(x)]
        if x.size:
            s = max(s, float(np.abs(x).max()))
    return m * s * s + 1e-300


def close(a, b, rtol=1e-9, atol=0.0):
    """elementwise |a-b| <= rtol*max(|a|,|b|) + atol, NaN==NaN, inf==inf (same sign). returns (ok, worst, index)"""
    a = np.asarray(a, dtype=float).ravel()
    b = np.asarray(b, dtype=float).ravel()
    if a.shape != b.shape:
        return False, float("inf"), -1
    if a.size == 0:
        return True, 0.0, -1
    nan_a, nan_b = np.isnan(a), np.isnan(b)
    if (nan_a != nan_b).any():
        return False, float("inf"), int(np.argmax(nan_a != nan_b))
    inf_a, inf_b = np.isinf(a), np.isinf(b)
    if (inf_a != inf_b).any() or (a[inf_a] != b[inf_a]).any():
        return False, float("inf"), int(np.argmax(inf_a != inf_b))
    fin = ~(nan_a | inf_a)
    if not fin.any():
        return True, 0.0, -1
    d = np.zeros_like(a)
    d[fin] = np.abs(a[fin] - b[fin])
    lim = np.full_like(a, np.inf)
    lim[fin] = rtol * np.maximum(np.abs(a[fin]), np.abs(b[fin])) + atol
    ratio = np.zeros_like(a)
    with np.errstate(all="ignore"):
        ratio[fin] = np.where(lim[fin] > 0, d[fin] / lim[fin], np.where(d[fin] > 0, np.inf, 0.0))
    i = int(np.argmax(ratio))
    return bool(ratio[i] <= 1.0), float(ratio[i]), i


def ulp_dist(a, b):
    a = np.asarray(a, dtype=np.float64).ravel()
    b = np.asarray(b, dtype=np.float64).ravel()
    if a.shape != b.shape or a.size == 0:
        return 0
    fin = np.isfinite(a) & np.isfinite(b)
    if not fin.any():
        return 0
    ia = a[fin].view(np.int64).copy()
    ib = b[fin].view(np.int64).copy()
    ia[ia < 0] = np.int64(-2**63) - ia[ia < 0]
    ib[ib < 0] = np.int64(-2**63) - ib[ib < 0]
    return int(np.abs(ia.astype(object) - ib.astype(object)).max())
