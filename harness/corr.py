"""Correspondence: implementation vs executable (Float) reading of the Lean model on the same inputs."""
import json, os, copy
import numpy as np
import proto, impl, compare, cases
from gen import rng_for


def load_report():
    return json.load(open(os.path.join(proto.LEAN_DIR, "PystogVerif", "Gen", "report.json")))


def model_kw(entry, kw, sig):
    return kw


def run(entries, n_per_entry, seed, tag="corr", maxn=60, rtol=1e-9, junk_fill=0.0):
    """returns dict(evaluations, disagreements=[…], worst, dist, samples)"""
    rep = load_report()
    sigs = rep["signatures"]
    lines, allcases = [], {}
    for entry in entries:
        if entry not in sigs:
            continue
        for i in range(n_per_entry):
            rng = rng_for(seed, tag, entry, i)
            c = cases.make_case(rng, entry, maxn=maxn)
            rid = f"{entry}#{i}"
            c["id"] = rid
            allcases[rid] = c
            lines.append(proto.request(rid, entry, c["kw"], c["args"], junk_fill))
    res = proto.run_model(lines) if lines else {}
    dis, worst, dist, samples = [], 0.0, {}, []
    worst_ulp = 0
    for rid, c in allcases.items():
        args0 = [None if a is None else (np.array(a, copy=True) if not np.isscalar(a) else a) for a in c["args"]]
        st_i, out_i = impl.call(c["entry"], c["args"], c["kw"])
        st_m, out_m = res.get(rid, ("err", "no-response"))
        for k, v in c["meta"].items():
            dist.setdefault(k, {})
            dist[k][str(v)] = dist[k].get(str(v), 0) + 1
        dist.setdefault("status", {})
        dist["status"][st_i] = dist["status"].get(st_i, 0) + 1
        if st_i != st_m:
            dis.append(dict(id=rid, kind="status", impl=(st_i, str(out_i)[:200]), model=(st_m, str(out_m)[:200])))
            continue
        if st_i == "err":
            continue
        if len(out_i) != len(out_m):
            dis.append(dict(id=rid, kind="arity", impl=len(out_i), model=len(out_m)))
            continue
        data_in = [a for a in c["args"] if a is not None and not np.isscalar(a)]
        atol = 1e-10 * compare.in_scale(data_in[1:] if len(data_in) > 1 else data_in, [data_in[0]] if data_in else [])
        for k, (a, b) in enumerate(zip(out_i, out_m)):
            if a is None:
                dis.append(dict(id=rid, kind="impl-returned-None", output=k))
                break
            ok, w, idx = compare.close(a, b, rtol=rtol, atol=atol)
            worst = max(worst, w if np.isfinite(w) else 1e300)
            worst_ulp = max(worst_ulp, compare.ulp_dist(a, b)) if c["entry"].startswith("Converter") else worst_ulp
            if not ok:
                dis.append(dict(id=rid, kind="value", output=k, index=idx, ratio=w,
                                impl=float(np.asarray(a, dtype=float).ravel()[idx]) if idx >= 0 else None,
                                model=float(np.asarray(b).ravel()[idx]) if idx >= 0 and idx < len(b) else None,
                                shapes=(int(np.size(a)), int(np.size(b)))))
                break
        # purity (C16): arguments bit-identical after the call
        sig = sigs[c["entry"]]
        allowed = {i for i, (pn, _) in enumerate(sig["params"]) if pn in sig.get("mutates", [])}
        for k, (a0, a1) in enumerate(zip(args0, c["args"])):
            if k in allowed:
                continue  # documented in-place helper (private; every caller passes a freshly allocated buffer: checked by the translator)
            if a0 is not None and not np.isscalar(a0) and not np.array_equal(a0, a1, equal_nan=True):
                dis.append(dict(id=rid, kind="argument-mutated"))
        if len(samples) < 3:
            samples.append(dict(id=rid, kw={k: (v if not isinstance(v, float) else round(v, 6)) for k, v in c["kw"].items()},
                                meta=c["meta"], arg0_head=[float(t) for t in np.asarray(c["args"][0]).ravel()[:4]]))
    return dict(evaluations=len(allcases), disagreements=dis, worst_ratio=worst, worst_ulp_converter=worst_ulp,
                distribution=dist, samples=samples, cases=allcases)
