"""Correspondence for the hand-written StoG ingestion/merge model (lean/PystogVerif/Model/Stog.lean):
real StoG operation sequences vs the Float reading of the model, compared after every step."""
import numpy as np
import proto, compare
import stogcases as sc
from gen import rng_for
from pystog import StoG

KIND = {"S(Q)": 0, "Q[S(Q)-1]": 1, "FK(Q)": 2, "DCS(Q)": 3}


def req_dataset(rid, case, d, entry="Stog.datasetRows"):
    args = [case["qmin"], case["qmax"], case["bcoh"], case["btot"], d["x"], d["y"], d.get("dy"), d.get("Qmin"), d.get("Qmax"),
            1.0 if "Y" in d else 0.0, 1.0 if "X" in d else 0.0, d.get("Y", {}).get("Scale"), d.get("Y", {}).get("Offset"),
            d.get("X", {}).get("Offset"), float(KIND[d.get("ReciprocalFunction", "S(Q)")])]
    args = [np.asarray(a, dtype=float) if isinstance(a, list) else a for a in args]
    return proto.request(rid, entry, {}, args)


def req_merge(rid, opts, sq, entry="Stog.mergeData"):
    args = [opts.get("aS"), opts.get("bS"), opts.get("cF"), opts.get("dF"), sq[0], sq[1], sq[2]]
    return proto.request(rid, entry, {}, args)


def run(seed, tier, gen, merged_opts_of=None, n=None, tag="stogcorr"):
    n = n or (60 if tier == "quick" else 600)
    lines, expect = [], {}
    gen_ok = set(proto.gen_entries())     # twin requests to the Float reading of the code generated from stog.py
    dist = {"datasets": 0, "merges": 0, "kinds": {}, "generated_code_twins": 0}
    samples = []
    for i in range(n):
        case = gen(rng_for(seed, tag, i), i, tier)
        mo = merged_opts_of(case) if merged_opts_of else None
        kw = {"<b_coh>^2": case.get("bcoh", 1.0), "<b_tot^2>": case.get("btot", 1.0)}
        if mo is not None and mo[0] is not None:
            kw["Merging"] = mo[0]
        try:
            s = StoG(**kw)
            s.qmin, s.qmax = case.get("qmin"), case.get("qmax")
            case.setdefault("qmin", None), case.setdefault("qmax", None), case.setdefault("bcoh", 1.0), case.setdefault("btot", 1.0)
            for k, d in enumerate(case["datasets"]):
                n0 = s.reciprocal_individuals.shape[1]
                with np.errstate(all="ignore"):
                    s.add_dataset(sc.to_info(d))
                rid = f"ds{i}.{k}"
                lines.append(req_dataset(rid, case, d))
                expect[rid] = [s.reciprocal_individuals[j][n0:].copy() for j in range(3)] + [s.sq_individuals[j][n0:].copy() for j in range(3)]
                if "GenStog.datasetRows" in gen_ok:
                    lines.append(req_dataset("g" + rid, case, d, entry="GenStog.datasetRows"))
                    expect["g" + rid] = expect[rid]
                    dist["generated_code_twins"] += 1
                dist["datasets"] += 1
                kd = d.get("ReciprocalFunction", "S(Q)")
                dist["kinds"][kd] = dist["kinds"].get(kd, 0) + 1
            if s.sq_individuals.shape[1] > 0 and (s.sq_individuals[0] > 0).all():
                before = s.sq_individuals.copy()
                with np.errstate(all="ignore"):
                    s.merge_data()
                rid = f"mg{i}"
                lines.append(req_merge(rid, mo[1] if mo else {}, before))
                expect[rid] = [s.sq_individuals[0], s.sq_individuals[1], s.sq_individuals[2], s.q_master[s.sq_title],
                               s.sq_master[s.sq_title], s.sq_master[s.qsq_minus_one_title]]
                if "GenStog.mergeData" in gen_ok:
                    lines.append(req_merge("g" + rid, mo[1] if mo else {}, before, entry="GenStog.mergeData"))
                    expect["g" + rid] = expect[rid]
                    dist["generated_code_twins"] += 1
                dist["merges"] += 1
        except KeyError:
            continue
        if len(samples) < 2:
            samples.append({"datasets": [{k: v for k, v in d.items() if k not in ("x", "y", "dy")} | {"n": len(d["x"])} for d in case["datasets"]],
                            "qmin": case["qmin"], "qmax": case["qmax"]})
    res = proto.run_model(lines) if lines else {}
    dis, worst = [], 0.0
    for rid, exp in expect.items():
        st, out = res.get(rid, ("err", "no-response"))
        if st != "ok":
            dis.append(dict(id=rid, kind="status", model=(st, str(out)[:200])))
            continue
        for k, (a, b) in enumerate(zip(exp, out)):
            ok, w, idx = compare.close(a, b, rtol=1e-12, atol=1e-15)
            worst = max(worst, w if np.isfinite(w) else 1e300)
            if not ok:
                dis.append(dict(id=rid, kind="value", output=k, index=idx, shapes=(int(np.size(a)), int(np.size(b))),
                                impl=None if idx < 0 else float(np.asarray(a).ravel()[idx]),
                                model=None if idx < 0 or idx >= len(b) else float(np.asarray(b).ravel()[idx])))
                break
    return dict(evaluations=len(expect), disagreements=dis, worst_ratio=worst, distribution=dist, samples=samples, cases={})
