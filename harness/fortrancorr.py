"""Correspondence for lean/PystogVerif/Model/Fortran.lean: the compiled `stog_bit` (gfortran) vs the Float reading of the model."""
import numpy as np
import proto, compare, fortran
from gen import rng_for


def run(seed, tier, lorch_only=None, tag="fortrancorr"):
    n = 25 if tier == "quick" else 250
    lines, expect = [], {}
    if fortran.build() is None:
        return dict(evaluations=0, disagreements=[], worst_ratio=0.0, distribution={"fortran": "unavailable: " + fortran._state.get("why", "")})
    for i in range(n):
        rng = rng_for(seed, tag, i)
        m = int(rng.integers(3, 60 if tier == "quick" else 400))
        q = float(rng.uniform(0.1, 1)) + float(rng.uniform(0.02, 0.3)) * np.arange(m)
        s = 1 + np.sin(q * rng.uniform(0.5, 3)) * np.exp(-0.05 * q) + rng.normal(size=m) * 0.05
        nr, delr, rho = int(rng.integers(2, 25)), float(rng.uniform(0.02, 0.4)), float(10 ** rng.uniform(-2, 0))
        lm = bool(i % 2) if lorch_only is None else lorch_only
        ref = fortran.stog_bit(q, s, nr, delr, rho, lm)
        if ref is None:
            continue
        expect[f"fo{i}"] = ref
        lines.append(proto.request(f"fo{i}", "Model.stogBit", {}, [q, s, float(nr), delr, rho, 1.0 if lm else 0.0]))
    res = proto.run_model(lines) if lines else {}
    dis, worst = [], 0.0
    for rid, (r, g) in expect.items():
        st, out = res.get(rid, ("err", "no-response"))
        if st != "ok":
            dis.append(dict(id=rid, kind="status", model=str(out)[:200]))
            continue
        for k, (a, b) in enumerate(zip((r, g), out)):
            ok, w, idx = compare.close(a, b, rtol=1e-12, atol=1e-13)
            worst = max(worst, w if np.isfinite(w) else 1e300)
            if not ok:
                dis.append(dict(id=rid, kind="fortran-vs-model", output=k, index=idx))
                break
    return dict(evaluations=len(expect), disagreements=dis, worst_ratio=worst,
                distribution={"fortran_cases": len(expect), "routine_sha256": fortran._state.get("sha")})
