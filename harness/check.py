#!/venv/bin/python
"""./check Cnn [--tier quick|thorough] [--replay file]

Decides one property: regenerate the model from /repo, build and audit the property's theorems,
run the correspondence (implementation vs Float reading of the model) and the property oracle on the
implementation, and report.  See DESIGN.md section 7.
exit 0 = held on everything explored; exit 1 + "VIOLATION property=<id> replay=<path>"; exit 2 = infrastructure failure.
"""
import argparse, fcntl, hashlib, importlib, json, os, re, subprocess, sys, time, traceback

HERE = os.path.dirname(os.path.abspath(__file__))
VERIF = os.path.dirname(HERE)
LEAN_DIR = os.path.join(VERIF, "lean")
REPO = os.environ.get("VERIF_REPO", "/repo")
sys.path.insert(0, HERE)

ALLOWED_AXIOMS = {"propext", "Classical.choice", "Quot.sound"}
FORBIDDEN = re.compile(r"\bsorry\b|\badmit\b|^\s*axiom\s|native_decide|bv_decide|implemented_by|\bunsafe\s|maxHeartbeats\s+0\b", re.M)

TRUSTED_BASE = [
    "Lean 4.33.0 kernel; Mathlib v4.33.0 as installed",
    "axioms accepted: propext, Classical.choice, Quot.sound (audited with #print axioms on every run)",
    "theorems are about the real-number (α := ℝ) reading of the model; rounding error is not modelled",
    "tools/translate.py (Python subset semantics, call binding, freshness and dtype analyses) — validated each run by the correspondence",
    "PystogVerif/Vec.lean models of numpy primitives (zipWith truncation vs numpy shape errors; trapezoid; where=/out=)",
    "harness/*.py (generators, tolerances 1e-9 relative to computed scales, oracles)",
]


def sh(cmd, cwd=None, timeout=3600, env=None):
    p = subprocess.run(cmd, cwd=cwd, capture_output=True, text=True, timeout=timeout, env=env)
    return p.returncode, p.stdout + p.stderr


def strip_comments(src):
    src = re.sub(r"/-.*?-/", "", src, flags=re.S)
    return re.sub(r"--.*", "", src)


class Lock:
    def __enter__(self):
        self.f = open(os.path.join(LEAN_DIR, ".verif.lock"), "w")
        fcntl.flock(self.f, fcntl.LOCK_EX)
        return self

    def __exit__(self, *a):
        fcntl.flock(self.f, fcntl.LOCK_UN)
        self.f.close()


def theorem_names(lean_module):
    path = os.path.join(LEAN_DIR, *lean_module.split(".")) + ".lean"
    src = strip_comments(open(path).read())
    ns = None
    names = []
    for line in src.splitlines():
        m = re.match(r"\s*namespace\s+(\S+)", line)
        if m:
            ns = m.group(1)
        m = re.match(r"\s*end\s+(\S+)", line)
        if m and ns == m.group(1):
            ns = None
        m = re.match(r"\s*(?:@\[[^\]]*\]\s*)?(?:private\s+|protected\s+)?theorem\s+([^\s:({\[]+)", line)
        if m:
            names.append((ns + "." if ns else "") + m.group(1))
    return names, path


def gen_cone_methods(gen_mod, srep):
    """Python names of the functions translated by tools/translate_stog.py that are mentioned (as whole words) in `gen_mod` or in the
    Refine/*Gen modules it imports, transitively"""
    seen, todo, text = set(), [gen_mod], ""
    while todo:
        m = todo.pop()
        if m in seen:
            continue
        seen.add(m)
        path = os.path.join(LEAN_DIR, *m.split(".")) + ".lean"
        try:
            src = open(path).read()
        except OSError:
            continue
        text += src
        for imp in re.findall(r"^import (PystogVerif\.(?:Refine\.\w+|Props\.C\d+Gen))\s*$", src, flags=re.M):
            todo.append(imp)
    out = []
    for py in srep:
        ln = py[2:] if py.startswith("__") else py
        ln = {"init__": "init_state"}.get(ln, ln)
        names = [ln] + (["construct", "init_state"] if py == "__init__" else []) + (["write_out_to_file_text"] if py == "_write_out_to_file" else [])
        if any(re.search(r"(?<![\w.])(?:GenStog\.)?" + re.escape(n) + r"(?![\w])", text) for n in names):
            out.append(py)
    return out


def lean_stage(mod, tier, log):
    """regenerate, build, audit. returns a dict."""
    res = dict(build_ok=False, obligations=[], discharged=[], failed=[], refused=[], axioms={}, grep=[], messages="")
    with Lock():
        t0 = time.time()
        rc, out = sh([sys.executable.replace("/venv/bin/python", "python3") if False else "python3",
                      os.path.join(VERIF, "tools", "translate.py"), os.path.join(REPO, "src", "pystog"),
                      os.path.join(LEAN_DIR, "PystogVerif", "Gen")])
        log.append("translate: " + out.strip().splitlines()[0] if out.strip() else "translate: (no output)")
        if rc != 0:
            res["messages"] = "translator failed:\n" + out[-3000:]
            res["translator_failed"] = True
        try:
            rep = json.load(open(os.path.join(LEAN_DIR, "PystogVerif", "Gen", "report.json")))
            res["refused"] = sorted(k for k, v in rep["functions"].items() if v != "ok")
            res["report"] = rep
        except Exception:  # noqa: BLE001
            res["report"] = {}
        # second translator: the stateful glue (stog.py, utils.py, cli.py) -> Gen/Stog.lean; a method it refuses falls back to
        # the hand model + correspondence (the other admissible tie), recorded in the evidence; it is not a violation
        res["stog_tie"] = None
        gen_mod = getattr(mod, "LEAN_GEN", None)
        if gen_mod:
            rc_s, out_s = sh(["python3", os.path.join(VERIF, "tools", "translate_stog.py"), os.path.join(REPO, "src", "pystog"),
                              os.path.join(LEAN_DIR, "PystogVerif", "Gen")])
            log.append("translate_stog: " + (out_s.strip().splitlines()[0] if out_s.strip() else "(no output)"))
            try:
                srep = json.load(open(os.path.join(LEAN_DIR, "PystogVerif", "Gen", "stog_report.json")))["functions"] if rc_s == 0 else {}
            except Exception:  # noqa: BLE001
                srep = {}
            need = list(getattr(mod, "STOG_METHODS", []))
            # ... plus every generated function that the module about generated code, or a refinement file it imports, mentions: a
            # refusal anywhere in that cone means "this tie is not available on this tree", not a broken proof
            for m in gen_cone_methods(gen_mod, srep):
                if m not in need:
                    need.append(m)
            bad = {m: srep.get(m, "translator failed: " + out_s[-300:]) for m in need if srep.get(m) != "ok"}
            if bad:
                res["stog_tie"] = dict(tie="correspondence only", refused=bad)
                log.append("stog translator refused " + ", ".join(f"{k} ({v})" for k, v in bad.items()) +
                           ": theorems on generated code skipped, hand model + correspondence decide")
            else:
                res["stog_tie"] = dict(tie="translator + correspondence", module=gen_mod, methods=need)
            # the Float reading of the generated glue, compared with the real code next to the hand model (twin requests)
            rc_g, out_g = sh(["lake", "build", "drvs"], cwd=LEAN_DIR)
            if rc_g != 0:
                try:
                    os.remove(os.path.join(LEAN_DIR, ".lake", "build", "bin", "drvs"))
                except OSError:
                    pass
                log.append("driver of the generated glue (drvs) does not build: generated-code correspondence skipped")
            res["stog_tie"]["generated_code_driver"] = "built" if rc_g == 0 else "not built"
        # driver first (needed by the correspondence even when the proofs break)
        # only the drivers this property's correspondence uses (drv: generated code; drvm: hand models on generated code;
        # drvp: hand models independent of generated code), so that an unrelated module cannot break it
        drivers = list(getattr(mod, "DRIVERS", ["drv"] if getattr(mod, "ENTRIES", None) else []))
        if getattr(mod, "correspond_extra", None) and "drvp" not in drivers:
            drivers.append("drvp")
        res["driver_ok"] = True
        for drvname in drivers:
            # a stale binary must not be used when the build fails
            rc_d, out_d = sh(["lake", "build", drvname], cwd=LEAN_DIR)
            if rc_d != 0:
                res["driver_ok"] = False
                res["driver_messages"] = out_d[-3000:]
                try:
                    os.remove(os.path.join(LEAN_DIR, ".lake", "build", "bin", drvname))
                except OSError:
                    pass
        names, path = theorem_names(mod.LEAN)
        extra_mods = list(getattr(mod, "LEAN_EXTRA", []))
        if res["stog_tie"] and res["stog_tie"].get("module"):
            extra_mods.append(res["stog_tie"]["module"])
        for em in extra_mods:
            try:
                names += theorem_names(em)[0]
            except OSError:
                names.append(f"({em} missing)")
        res["obligations"] = names
        rc, out = sh(["lake", "build", mod.LEAN] + extra_mods, cwd=LEAN_DIR)
        res["build_s"] = round(time.time() - t0, 1)
        if rc != 0:
            res["messages"] += out[-6000:]
            # name the theorems whose source ranges contain an error
            bad, thms = set(), []
            for m in re.finditer(r"error: (\S+\.lean):(\d+):\d+: (.*)", out):
                f, ln, msg = m.group(1), int(m.group(2)), m.group(3)
                bad.add(f"{f}:{ln}: {msg[:160]}")
                # the theorem (or definition) whose source range contains the error
                try:
                    src_lines = open(os.path.join(LEAN_DIR, f)).read().splitlines()
                    for k in range(min(ln, len(src_lines)) - 1, -1, -1):
                        mm = re.match(r"\s*(?:@\[[^\]]*\]\s*)?(?:private\s+|protected\s+|noncomputable\s+)*(theorem|lemma|def|example|instance)\s+([^\s:({\[]+)?", src_lines[k])
                        if mm:
                            nm = f"{f.split('/')[-1][:-5]}.{mm.group(2) or mm.group(1)}"
                            if nm not in thms:
                                thms.append(nm)
                            break
                except OSError:
                    pass
            res["failed"] = [dict(name="(build of %s)" % mod.LEAN, theorems_with_errors=thms[:40], lean_message=sorted(bad)[:12] or out[-800:])]
            return res
        res["build_ok"] = True
        # audit
        os.makedirs(os.path.join(LEAN_DIR, "Audit"), exist_ok=True)
        ap = os.path.join(LEAN_DIR, "Audit", mod.LEAN.split(".")[-1] + ".lean")
        with open(ap, "w") as fh:
            fh.write(f"import {mod.LEAN}\n" + "".join(f"import {em}\n" for em in extra_mods) + "".join(f"#print axioms {n}\n" for n in names))
        rc, out = sh(["lake", "env", "lean", ap], cwd=LEAN_DIR)
        res["audit_cmd"] = f"cd lean && lake build {mod.LEAN} && lake env lean Audit/{os.path.basename(ap)}"
        for n in names:
            m = re.search(r"'" + re.escape(n) + r"' (does not depend on any axioms|depends on axioms: \[([^\]]*)\])", out.replace("\n", " "))
            if not m:
                res["failed"].append(dict(name=n, lean_message="no #print axioms output: " + out[-300:]))
                continue
            ax = set() if m.group(2) is None else {a.strip() for a in m.group(2).split(",") if a.strip()}
            res["axioms"][n] = sorted(ax)
            if ax <= ALLOWED_AXIOMS:
                res["discharged"].append(n)
            else:
                res["failed"].append(dict(name=n, lean_message="axioms outside the accepted set: " + ", ".join(sorted(ax - ALLOWED_AXIOMS))))
        # forbidden tokens anywhere in the library
        for root, _, files in os.walk(os.path.join(LEAN_DIR, "PystogVerif")):
            for f in files:
                if f.endswith(".lean"):
                    src = strip_comments(open(os.path.join(root, f)).read())
                    for m in FORBIDDEN.finditer(src):
                        res["grep"].append(f"{os.path.relpath(os.path.join(root, f), LEAN_DIR)}: {m.group(0).strip()}")
        if res["grep"]:
            res["failed"].append(dict(name="(source grep)", lean_message="; ".join(res["grep"][:10])))
        if tier == "thorough" and os.environ.get("VERIF_NO_LEANCHECKER") != "1":
            # the independent re-checker replays the compiled declarations of the property module, of the modules with its further
            # theorems (closed-form / quadrature / all-variant files, the module about generated glue) and of everything they import
            rc, out = sh(["lake", "env", "leanchecker", mod.LEAN] + extra_mods, cwd=LEAN_DIR, timeout=3000)
            res["leanchecker"] = "ok" if rc == 0 else out[-500:]
            if rc != 0:
                res["failed"].append(dict(name="(leanchecker)", lean_message=out[-500:]))
    return res


def load_known():
    p = os.path.join(VERIF, "known_findings.json")
    if not os.path.exists(p):
        return dict(findings=[], fixed=[])
    return json.load(open(p))


def match_known(prop, failure_text, known):
    for k in known.get("findings", []):
        if k["property"] == prop and re.search(k["match"], failure_text):
            return k
    return None


def case_hash(c):
    return hashlib.sha256(json.dumps(c, sort_keys=True, default=str).encode()).hexdigest()[:16]


def shrink(mod, case, fails):
    fields = getattr(mod, "SHRINK", None)
    if not fields:
        return case, fails, False
    import copy
    cur, cur_f = case, fails
    key = cur_f[0].split(":")[0]
    changed = True
    rounds = 0
    while changed and rounds < 40:
        changed = False
        rounds += 1
        n = len(cur[fields[0]])
        cands = []
        if n > 2:
            cands += [slice(0, n // 2 + 1), slice(n // 2, n), slice(0, n - 1), slice(1, n)]
        for sl in cands:
            c2 = copy.deepcopy(cur)
            for f in fields:
                if c2.get(f) is not None:
                    c2[f] = c2[f][sl]
            if len(c2[fields[0]]) < 1:
                continue
            try:
                f2 = mod.evaluate(c2)
            except Exception:  # noqa: BLE001
                continue
            if f2 and any(x.split(":")[0] == key for x in f2):
                cur, cur_f, changed = c2, f2, True
                break
    return cur, cur_f, cur is not case


def oracle_stage(mod, n, seed, tier, tag="oracle"):
    from gen import rng_for
    fails, seen, nontriv, samples, evals = [], set(), 0, [], 0
    dist = {}
    # corpus first
    cdir = os.path.join(VERIF, "corpus", mod.__name__.split(".")[-1].upper())
    corpus = []
    if os.path.isdir(cdir):
        for f in sorted(os.listdir(cdir)):
            if f.endswith(".json"):
                corpus.append(json.load(open(os.path.join(cdir, f)))["case"])
    for i in range(-len(corpus), n):
        if i < 0:
            c = corpus[i + len(corpus)]
        else:
            c = mod.gen(rng_for(seed, tag, mod.__name__, i), i, tier)
        evals += 1
        h = case_hash(c)
        if h not in seen:
            seen.add(h)
            if mod.nontrivial(c):
                nontriv += 1
        try:
            f = mod.evaluate(c)
        except Exception as ex:  # noqa: BLE001
            f = [f"oracle-exception: {type(ex).__name__}: {ex}"]
        for k in getattr(mod, "DIST", []):
            dist.setdefault(k, {})
            dist[k][str(c.get(k))] = dist[k].get(str(c.get(k)), 0) + 1
        if f:
            fails.append((c, f))
        if len(samples) < 3 and i >= 0:
            samples.append({k: (v if not isinstance(v, list) or len(v) <= 6 else v[:6] + ["…(%d values)" % len(v)]) for k, v in c.items()})
    return dict(evaluations=evals, distinct_nontrivial=nontriv, failures=fails, samples=samples, distribution=dist)


def write_replay(prop, kind, payload, seed, n):
    d = os.path.join(VERIF, "evidence", "replay")
    os.makedirs(d, exist_ok=True)
    p = os.path.join(d, f"{prop}-{seed}-{n}.json")
    try:
        head = subprocess.run(["git", "-C", REPO, "rev-parse", "HEAD"], capture_output=True, text=True).stdout.strip()
    except Exception:  # noqa: BLE001
        head = ""
    payload = dict(property=prop, kind=kind, seed=seed, repo_head=head, **payload)
    json.dump(payload, open(p, "w"), indent=1, default=str)
    return p


def main():
    ap = argparse.ArgumentParser()
    ap.add_argument("prop")
    ap.add_argument("--tier", default=os.environ.get("VERIF_TIER", "quick"))
    ap.add_argument("--replay")
    a = ap.parse_args()
    prop = a.prop.upper()
    tier = a.tier if a.tier in ("quick", "thorough") else "quick"
    seed = int(os.environ.get("VERIF_SEED", "0") or 0)
    t0 = time.time()
    mod = importlib.import_module(f"props.{prop.lower()}")
    import impl  # noqa: F401  (asserts that the working tree is what is imported)
    if a.replay:
        r = json.load(open(a.replay))
        if "case" not in r:
            print("replay file names broken obligations / correspondence only:", json.dumps(r.get("obligations_failed", r.get("correspondence")), indent=1)[:3000])
            return 0
        f = mod.evaluate(r["case"])
        print("REPLAY", prop, "failures:" if f else "no failure on the current tree", *f, sep="\n  ")
        return 1 if f else 0
    log = []
    known = load_known()
    try:
        lean = lean_stage(mod, tier, log)
    except subprocess.TimeoutExpired:
        print("timeout in lean stage")
        return 2
    lean_ok = lean["build_ok"] and not lean["failed"] and len(lean["discharged"]) == len(lean["obligations"]) and lean["obligations"]
    import cover
    cov = cover.Cover(os.path.join(REPO, "src", "pystog"))
    cov.start()
    # correspondence
    import corr
    ncorr = getattr(mod, "NCORR", {"quick": 12, "thorough": 120})[tier]
    corr_res = None
    corr_err = None
    entries = list(getattr(mod, "ENTRIES", []))
    try:
        if getattr(mod, "correspond", None):
            corr_res = mod.correspond(seed, tier)
        elif entries:
            if not lean.get("driver_ok"):
                raise RuntimeError("model driver does not build: " + lean.get("driver_messages", "")[-800:])
            missing = [e for e in entries if e not in lean.get("report", {}).get("signatures", {})]
            corr_res = corr.run([e for e in entries if e not in missing], ncorr, seed, maxn=60 if tier == "quick" else 600)
            if getattr(mod, "correspond_extra", None):
                extra = mod.correspond_extra(seed, tier)
                corr_res["evaluations"] += extra["evaluations"]
                corr_res["disagreements"] += extra["disagreements"]
                corr_res["extra"] = dict(distribution=extra.get("distribution"), worst_ratio=extra.get("worst_ratio"))
            if missing:
                corr_res["disagreements"].insert(0, dict(id="(translator)", kind="refused", entries=missing,
                                                         reasons={e: lean["report"]["functions"].get(e) for e in missing}))
        else:
            corr_res = dict(evaluations=0, disagreements=[], distribution={}, samples=[], worst_ratio=0.0)
    except Exception as ex:  # noqa: BLE001
        corr_err = f"{type(ex).__name__}: {ex}"
        corr_res = dict(evaluations=0, disagreements=[dict(id="(driver)", kind="error", message=corr_err)], distribution={}, samples=[], worst_ratio=0.0)
    corr_ok = not corr_res["disagreements"]
    # oracle
    norc = getattr(mod, "NORACLE", {"quick": 150, "thorough": 3000})[tier]
    orc = oracle_stage(mod, norc, seed, tier)
    broken = not lean_ok or not corr_ok
    deep = os.environ.get("VERIF_DEEP") == "1"     # self-test: run the extended search on a tree where nothing is broken
    if (broken or deep) and not orc["failures"]:
        log.append("proof or correspondence broken: extended failing-input search" if broken else "VERIF_DEEP=1: extended search forced")
        more = oracle_stage(mod, norc * 10, seed + 1000003, tier, tag="search")
        orc["evaluations"] += more["evaluations"]
        orc["distinct_nontrivial"] += more["distinct_nontrivial"]
        orc["failures"] += more["failures"]
        # disagreeing correspondence cases are candidate inputs for the property oracle too
        if getattr(mod, "from_corr_case", None):
            for d in corr_res["disagreements"][:50]:
                c = corr_res.get("cases", {}).get(d.get("id"))
                if c is None:
                    continue
                try:
                    pc = mod.from_corr_case(c)
                    f = mod.evaluate(pc) if pc else []
                except Exception:  # noqa: BLE001
                    f = []
                if f:
                    orc["failures"].append((pc, f))
    cov.stop()
    try:
        anchors = [json.loads(l) for l in open(os.path.join(VERIF, "properties.jsonl")) if json.loads(l)["id"] == prop][0]["anchors"]["files"]
        impl_cov = cov.report(anchors)
    except Exception as ex:  # noqa: BLE001
        impl_cov = {"error": str(ex)}
    # decide
    violations, known_hits = [], []
    nrep = 0
    for c, f in orc["failures"]:
        unknown = []
        for msg in f:
            k = match_known(prop, msg, known)
            if k:
                if k["id"] not in [x["id"] for x in known_hits]:
                    known_hits.append(k)
            else:
                unknown.append(msg)
        if unknown and not violations:
            c2, f2, did = shrink(mod, c, unknown)
            p = write_replay(prop, "failing-input", dict(case=c2, failures=f2, shrunk=did, original_failures=unknown,
                                                        obligations_failed=lean["failed"],
                                                        correspondence=corr_res["disagreements"][:5]), seed, nrep)
            nrep += 1
            violations.append((p, False))
    if broken and not violations and not any(True for _ in []):
        # known findings may explain a broken obligation only if the module says so explicitly
        p = write_replay(prop, "broken-obligation" if not lean_ok else "broken-correspondence",
                         dict(obligations_failed=lean["failed"] or [dict(name="(none discharged)", lean_message=lean["messages"][-2000:])],
                              lean_messages=lean["messages"][-4000:], refused=lean["refused"],
                              correspondence=[{k: v for k, v in d.items()} for d in corr_res["disagreements"][:10]],
                              searched=orc["evaluations"]), seed, nrep)
        violations.append((p, True))
    wall = time.time() - t0
    ev = dict(property_id=prop, tier=tier, seed=seed, level="proof",
              coverage=dict(obligations=len(lean["obligations"]), discharged=len(lean["discharged"]),
                            checker_cmd=lean.get("audit_cmd", f"cd lean && lake build {mod.LEAN}"),
                            trusted_base=TRUSTED_BASE + list(getattr(mod, "TRUSTED", [])),
                            obligation_names=lean["obligations"], axioms=lean["axioms"], obligations_failed=lean["failed"],
                            refused_functions=lean["refused"], leanchecker=lean.get("leanchecker"), stog_translator=lean.get("stog_tie"),
                            evaluations=orc["evaluations"] + corr_res["evaluations"],
                            distinct_nontrivial=orc["distinct_nontrivial"],
                            rule=getattr(mod, "RULE", ""), samples=orc["samples"] or corr_res.get("samples", []),
                            correspondence=dict(entries=entries, evaluations=corr_res["evaluations"],
                                                disagreements=len(corr_res["disagreements"]),
                                                worst_tolerance_ratio=corr_res.get("worst_ratio"),
                                                worst_ulp_converter=corr_res.get("worst_ulp_converter"),
                                                distribution=corr_res.get("distribution"), samples=corr_res.get("samples", []),
                                                extra=corr_res.get("extra")),
                            oracle=dict(evaluations=orc["evaluations"], failures=len(orc["failures"]), distribution=orc["distribution"]),
                            impl_line_coverage=impl_cov,
                            known_findings_hit=[k["id"] for k in known_hits], log=log, build_s=lean.get("build_s")),
              assumptions=list(getattr(mod, "ASSUMPTIONS", [])) + ["see DESIGN.md section 10 (trusted base)"],
              wall_s=round(wall, 2), violations=len(violations))
    os.makedirs(os.path.join(VERIF, "evidence"), exist_ok=True)
    json.dump(ev, open(os.path.join(VERIF, "evidence", f"{prop}.json"), "w"), indent=1, default=str)
    for k in known_hits:
        print(f"KNOWN-FINDING: property={prop} {k['what']}")
    for p, nofail in violations:
        print(f"VIOLATION property={prop} replay={os.path.relpath(p, VERIF)}" + (" no-failing-input-found" if nofail else ""))
    print(f"{prop} {tier}: obligations {len(lean['discharged'])}/{len(lean['obligations'])}, correspondence "
          f"{corr_res['evaluations']} cases / {len(corr_res['disagreements'])} disagreements, oracle {orc['evaluations']} cases / "
          f"{len(orc['failures'])} failing, {wall:.1f}s")
    return 1 if violations else 0


if __name__ == "__main__":
    try:
        sys.exit(main())
    except subprocess.TimeoutExpired:
        print("timeout")
        sys.exit(2)
    except Exception:  # noqa: BLE001
        traceback.print_exc()
        sys.exit(2)
