"""Calling the real PyStoG (working tree of /repo) in-process."""
import os, sys, warnings
import numpy as np

REPO = os.environ.get("VERIF_REPO", "/repo")
sys.path.insert(0, os.path.join(REPO, "src"))
warnings.simplefilter("ignore")

import pystog  # noqa: E402
from pystog import Converter, Transformer, FourierFilter, Pre_Proc  # noqa: E402

assert os.path.realpath(pystog.__file__).startswith(os.path.realpath(REPO)), pystog.__file__

_OBJ = {}


def obj(cls):
    if cls not in _OBJ:
        _OBJ[cls] = {"Converter": Converter, "Transformer": Transformer, "FourierFilter": FourierFilter, "Pre_Proc": Pre_Proc}[cls]()
    return _OBJ[cls]


ERR = {"KeyError": "KeyError", "ValueError": "ValueError", "TypeError": "TypeError", "IndexError": "IndexError",
       "RuntimeError": "RuntimeError", "ZeroDivisionError": "ZeroDivisionError", "AttributeError": "AttributeError",
       "UFuncTypeError": "TypeError", "_UFuncOutputCastingError": "TypeError", "UFuncOutputCastingError": "TypeError"}


def err_kind(ex):
    return ERR.get(type(ex).__name__, "Other:" + type(ex).__name__)


def call(entry, args, kw):
    """returns ('ok', [arrays]) or ('err', kind). Arguments are passed positionally (None for absent)."""
    cls, name = entry.split(".")
    fn = getattr(obj(cls), name)
    try:
        with np.errstate(all="ignore"):
            r = fn(*args, **kw)
    except Exception as ex:  # noqa: BLE001
        return ("err", err_kind(ex))
    if not isinstance(r, tuple):
        r = (r,)
    out = []
    for c in r:
        if c is None:
            out.append(None)
        else:
            out.append(np.atleast_1d(np.asarray(c)))
    return ("ok", out)
