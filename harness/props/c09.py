"""C09 — all 12 filter variants are conversions of one another (real code)."""
import numpy as np
import impl, cases
from gen import grid, data, unc, material
from .common import tolist, Unchanged, keyword_call_differs, exceeds, confusable

LEAN = "PystogVerif.Props.C09"
LEAN_EXTRA = ["PystogVerif.Props.C09All"]
RSP, QSP = ["g", "G", "GK"], ["F", "S", "FK", "DCS"]
ENTRIES = [f"FourierFilter.{a}_using_{b}" for a in RSP for b in QSP]
RULE = ("random physical data (g(r) with r>0, Q[S-1] with Q>0), non-zero uncertainties in 75% of cases, cutoff, material; "
        "every one of the 12 variants is run on the converted inputs and all nine outputs are converted back to (g, Q[S-1]) "
        "and compared with g_using_F; non-trivial = both uncertainties supplied and non-zero")
DIST = ["lorch", "omitted", "unc", "qdesc", "intgrid"]
SHRINK = None


def gen(rng, i, tier):
    n, m = int(rng.integers(5, 30 if tier == "quick" else 200)), int(rng.integers(5, 30 if tier == "quick" else 200))
    r, _ = grid(rng, n=n, zero=False, hi=float(rng.uniform(4, 15)))
    q, _ = grid(rng, n=m, zero=False, hi=float(rng.uniform(5, 25)))
    g, _ = data(rng, r, kind=str(rng.choice(["noise", "smooth"])), base=1.0)
    f, _ = data(rng, q, kind=str(rng.choice(["noise", "smooth"])))
    dg, df = unc(rng, r), unc(rng, q)
    cutoff = float(rng.uniform(r[1], max(r[-1] * 0.6, r[2])))
    if rng.random() < 0.12:
        # a clean g(r): exactly 0 below the first peak, i.e. on the whole [0, cutoff] window — its uncertainties are not
        g = g.copy()
        g[r <= cutoff] = 0.0
        if dg is None or not np.any(dg):
            dg = np.full(len(r), 0.05)
    desc = bool(rng.random() < 0.15)
    if desc:
        # the same physical data listed from high Q to low Q (time-of-flight order): every variant must still agree
        q, f = q[::-1].copy(), f[::-1].copy()
        df = None if df is None else df[::-1].copy()
    intgrid = None
    if rng.random() < 0.15:
        # abscissae that are runs of whole numbers, stored with an integer dtype (bin numbers, Q in units of the bin width)
        intgrid = str(rng.choice(["q", "r", "both"]))
        if intgrid in ("q", "both"):
            q = np.arange(1, m + 1, dtype=float)
            if desc:
                q = q[::-1].copy()
        if intgrid in ("r", "both"):
            r = np.arange(1, n + 1, dtype=float)
            cutoff = float(rng.uniform(r[1], max(r[-1] * 0.6, r[2])))
    kw = material(rng)
    if rng.random() < 0.3:
        kw["lorch"] = True
    if rng.random() < 0.25:
        kw["OmittedXrangeCorrection"] = True
    return dict(r=tolist(r), g=tolist(g), q=tolist(q), f=tolist(f), dg=tolist(dg), df=tolist(df), cutoff=cutoff, kw=kw,
                lorch=bool(kw.get("lorch")), omitted=bool(kw.get("OmittedXrangeCorrection")),
                unc=(dg is not None and max(dg) > 0 and df is not None and max(df) > 0), qdesc=desc, intgrid=intgrid)


def evaluate(case):
    ff, cv = impl.obj("FourierFilter"), impl.obj("Converter")
    kw = case["kw"]
    r, g, q, f = (np.asarray(case[k], dtype=float) for k in ("r", "g", "q", "f"))
    dg = None if case["dg"] is None else np.asarray(case["dg"], dtype=float)
    df = None if case["df"] is None else np.asarray(case["df"], dtype=float)
    cutoff = case["cutoff"]
    if case.get("intgrid") in ("q", "both"):
        q = q.astype(np.int64)
    if case.get("intgrid") in ("r", "both"):
        r = r.astype(np.int64)
    fails = []
    with np.errstate(all="ignore"):
        # another FourierFilter in the same process that just filtered with other switches: nothing of it reaches this one
        try:
            dkw = dict(kw, lorch=not kw.get("lorch", False), OmittedXrangeCorrection=not kw.get("OmittedXrangeCorrection", False))
            type(ff)().g_using_FK(r, g, q, f, cutoff, dg, df, **dkw)
            type(ff)().G_using_DCS(r, g, q, f + kw["<b_tot^2>"], cutoff, dg, df, **dkw)
        except Exception:  # noqa: BLE001
            pass
        # ... and nothing of what this one was asked before: the same object first filters, through the G(r) and G_K(r) variants, a data set
        # on look-alike grids (same number of points, same first and last point, other points in between)
        r2c, q2c = confusable(r), confusable(q)
        if (r2c is not None or q2c is not None) and len(r) <= 300 and len(q) <= 300:
            for prim in ("G_using_F", "GK_using_S", "g_using_DCS"):
                try:
                    getattr(ff, prim)(r if r2c is None else r2c, g, q if q2c is None else q2c, f, cutoff, dg, df, **kw)
                except Exception:  # noqa: BLE001
                    pass
        guard = Unchanged(r, g, q, f, dg, df)
        ref = [np.asarray(o, dtype=float) for o in ff.g_using_F(r, g, q, f, cutoff, dg, df, **kw)]
        if guard.violated():
            return ["g_using_F: modifies an input array in place, so a later variant fed the same arrays sees already-filtered data"]
        for X in RSP:
            for Y in QSP:
                if (X, Y) == ("g", "F"):
                    continue
                gi, dgi = (g, dg) if X == "g" else getattr(cv, f"g_to_{X}")(r, g, dg, **kw)
                fi, dfi = (f, df) if Y == "F" else getattr(cv, f"F_to_{Y}")(q, f, df, **kw)
                if dg is None:
                    dgi = None
                if df is None:
                    dfi = None
                o = getattr(ff, f"{X}_using_{Y}")(r, gi, q, fi, cutoff, dgi, dfi, **kw)
                kf = keyword_call_differs(ff, f"FourierFilter.{X}_using_{Y}", [r, gi, q, fi, cutoff, dgi, dfi], kw, o)
                if kf:
                    fails.append(kf)
                if guard.violated():
                    return [f"{X}_using_{Y}: modifies an input array in place, so a later variant fed the same arrays sees already-filtered data"]
                q_ft, rem, qc, cor, ro, go, drem, dcor, dgo = o
                if Y != "F":
                    rem, drem = getattr(cv, f"{Y}_to_F")(q_ft, rem, drem, **kw)
                    cor, dcor = getattr(cv, f"{Y}_to_F")(qc, cor, dcor, **kw)
                if X != "g":
                    go, dgo = getattr(cv, f"{X}_to_g")(ro, go, dgo, **kw)
                back = [q_ft, rem, qc, cor, ro, go, drem, dcor, dgo]
                names = ["q_ft", "removed", "q", "corrected", "r", "filtered", "d_removed", "d_corrected", "d_filtered"]
                for k, (a, b) in enumerate(zip(ref, back)):
                    b = np.asarray(b, dtype=float)
                    sc = max(1.0, float(np.abs(a).max()))
                    if a.shape != b.shape or exceeds(np.abs(a - b).max(), 1e-8 * sc):
                        fails.append(f"{X}_using_{Y}: output '{names[k]}' is not the conversion of g_using_F's "
                                     f"(max diff {np.abs(a - b).max() if a.shape == b.shape else 'shape'!s:.12})")
                        break
    # a masked bin (NaN uncertainty) is masked for every variant alike: no variant repairs what the others hand on
    if df is not None and len(df) >= 3 and not fails:
        dfn = df.copy()
        dfn[len(dfn) // 2] = np.nan
        with np.errstate(all="ignore"):
            refn = np.asarray(ff.g_using_F(r, g, q, f, cutoff, dg, dfn, **kw)[7], dtype=float)
            for Y in QSP[1:]:
                fi, dfi = getattr(cv, f"F_to_{Y}")(q, f, dfn, **kw)
                o = getattr(ff, f"g_using_{Y}")(r, g, q, fi, cutoff, dg, dfi, **kw)
                dc = np.asarray(getattr(cv, f"{Y}_to_F")(o[2], o[3], o[7], **kw)[1], dtype=float)
                if not np.array_equal(np.isnan(dc), np.isnan(refn)):
                    fails.append(f"g_using_{Y}: with a NaN uncertainty in one Q bin the corrected function's uncertainty is NaN in {int(np.isnan(dc).sum())} bins, "
                                 f"g_using_F's in {int(np.isnan(refn).sum())}")
                    break
    return fails


def nontrivial(c):
    return bool(c["unc"])
