"""C15 — omitted low-Q correction = transform of the linear-to-zero S(Q) model (real code)."""
import numpy as np
import impl
from gen import grid, data, material, special
from .common import tolist, exceeds, history_differs

LEAN = "PystogVerif.Props.C15"
ENTRIES = ["Transformer._low_x_correction", "Transformer.fourier_transform", "Transformer.S_to_G", "Transformer.F_to_g"]
RULE = ("random Q grid starting at Qmin>0 (or exactly 0 in 15%), S(Q) data, r grid (with r=0 in 40%), Lorch on/off, density; the "
        "added term (with minus without OmittedXrangeCorrection) is compared with (2/pi) int_0^Qmin Q[S_lin(Q)-1] w(Q) sin(Qr) dQ "
        "by 400-point Gauss-Legendre quadrature, for all four input and three output functions; non-trivial = Qmin>0 and >= 3 Q points")
DIST = ["lorch", "qmin0", "out", "inp", "uniform", "smin_is_1", "pole", "foreign"]
SHRINK = None
_GL = np.polynomial.legendre.leggauss(400)


def gen(rng, i, tier):
    n = int(rng.integers(3, 40 if tier == "quick" else 300))
    qmin0 = bool(rng.random() < 0.15)
    q, _ = grid(rng, n=n, zero=qmin0, lo=float(rng.uniform(0.2, 1.5)), hi=float(rng.uniform(8, 30)))
    s, _ = data(rng, q, kind=str(rng.choice(["noise", "smooth", "const"])), base=1.0)
    s = special(rng, s, base=1.0, p=0.3)   # S exactly 1 at some points, often at Qmin: Q[S-1], F_K, DCS-<b_tot^2> exactly 0 there
    r, _ = grid(rng, n=int(rng.integers(2, 12)), zero=bool(rng.random() < 0.4), hi=float(rng.uniform(2, 12)))
    pole = False
    if rng.random() < 0.3:
        # output points at and next to r = pi/Qmax, where the Lorch-damped closed form of the original StoG is 0/0
        # (e.g. the first point of a sine-transform-matched grid: Q_max = pi/dr)
        a = np.pi / float(q[-1])
        r = np.unique(np.concatenate([r, [a, a * (1 + 1e-12), a - 1e-9, a + 1e-7, a - 1e-6, a + 1e-5, a * (1 - 1e-4)]]))
        pole = True
    uniform = bool(rng.random() < 0.35) and not qmin0
    if uniform:
        q = np.linspace(q[0], q[-1], len(q))
    win = None
    if not qmin0 and not uniform and len(q) > 6 and rng.random() < 0.3:
        k = int(rng.integers(1, len(q) // 2))
        win = float(q[k] - rng.uniform(0.1, 0.9) * (q[k] - q[k - 1]))  # strictly between two grid points
    return dict(foreign=bool(rng.random() < 0.15), q=tolist(q), s=tolist(s), r=tolist(r), lorch=bool(rng.random() < 0.5), qmin0=qmin0, kw=material(rng), uniform=uniform, xmin=win, smin_is_1=bool(s[0] == 1.0), pole=pole,
                nr=int(rng.integers(2, 30)), delr=float(rng.uniform(0.02, 0.4)),
                out=str(rng.choice(["G", "g", "GK"])), inp=str(rng.choice(["S", "F", "FK", "DCS"])), s2scale=float(rng.uniform(0.5, 2)))


def model_term(qmin, smin, qmax, r, lorch):
    """(2/pi) int_0^qmin Q [S_lin(Q) - 1] w(Q) sin(Q r) dQ,  S_lin(Q) = smin*Q/qmin"""
    x, w = _GL
    Q = 0.5 * qmin * (x + 1.0)
    W = 0.5 * qmin * w
    if lorch:
        a = np.pi / qmax
        lw = np.where(Q > 0, np.sin(a * Q) / np.where(Q > 0, a * Q, 1.0), 1.0)
    else:
        lw = np.ones_like(Q)
    f = Q * (smin * Q / qmin - 1.0) * lw
    return np.array([(2 / np.pi) * np.sum(W * f * np.sin(Q * ri)) for ri in r])


def evaluate(case):
    tr, cv = impl.obj("Transformer"), impl.obj("Converter")
    q, s, r = (np.asarray(case[k], dtype=float) for k in ("q", "s", "r"))
    kw = dict(case["kw"])
    if case["lorch"]:
        kw["lorch"] = True
    fails = []
    inp, out = case["inp"], case["out"]
    if case.get("xmin") is not None:
        # an explicit lower window limit: the data entering the transform start at the first grid point >= xmin, and
        # that point (not the limit itself) is the Qmin of the linear-to-zero model
        kw["xmin"] = case["xmin"]
        keep = q >= case["xmin"]
        q_eff, s_eff = q[keep], s[keep]
    else:
        q_eff, s_eff = q, s
    y = s if inp == "S" else getattr(cv, f"S_to_{inp}")(q, s, **kw)[0]
    fn = getattr(tr, f"{inp}_to_{out}")
    lorch_eff = bool(case["lorch"])
    if case.get("foreign"):
        # a StoG / CLI configuration dictionary handed to the Transformer: keys spelled for another class ("LorchFlag", "Rmax", ...).
        # Whether the Lorch window is on is read off the uncorrected transform itself; the added term must be damped accordingly
        base_kw = dict(kw)
        kw.update({"LorchFlag": True, "Rmax": 30.0, "NumberDensity": kw["rho"], "RealSpaceFunction": "g(r)"})
        with np.errstate(all="ignore"):
            ref_p = np.asarray(fn(q, y, r, **{k: v for k, v in base_kw.items() if k != "lorch"})[1], dtype=float)
            ref_l = np.asarray(fn(q, y, r, **dict(base_kw, lorch=True))[1], dtype=float)
            got_o = np.asarray(fn(q, y, r, **kw)[1], dtype=float)
        if not np.array_equal(ref_p, ref_l, equal_nan=True):
            lorch_eff = bool(np.abs(got_o - ref_l).max(initial=0.0) < np.abs(got_o - ref_p).max(initial=0.0))
    with np.errstate(all="ignore"):
        _, w_on, _ = fn(q, y, r, OmittedXrangeCorrection=True, **kw)
        _, w_off, _ = fn(q, y, r, **kw)
        # express the difference as a difference in G(r)
        Gon = w_on if out == "G" else getattr(cv, f"{out}_to_G")(r, w_on, **kw)[0]
        Goff = w_off if out == "G" else getattr(cv, f"{out}_to_G")(r, w_off, **kw)[0]
    added = np.asarray(Gon, dtype=float) - np.asarray(Goff, dtype=float)
    # the term is built from S(Qmin), not from its error bar: supplying uncertainties with the data (first bin included) changes no value
    if len(q) >= 2:
        dq_ = 0.02 + 0.03 * np.abs(np.sin(np.arange(len(q)) + 1.0))
        try:
            with np.errstate(all="ignore"):
                w_unc = fn(q, y, r, dq_, OmittedXrangeCorrection=True, **kw)[1]
            if not np.array_equal(np.asarray(w_unc, dtype=float), np.asarray(w_on, dtype=float), equal_nan=True):
                fails.append(f"{inp}_to_{out} with OmittedXrangeCorrection: the values change by {np.abs(np.asarray(w_unc, dtype=float) - np.asarray(w_on, dtype=float)).max():.3g} "
                             "when uncertainties are supplied with the data (the low-Q term was built from S(Qmin) shifted by its error bar)")
                return fails
        except TypeError:
            pass
    pos = r > 0
    qmin, qmax, smin = float(q_eff[0]), float(q_eff[-1]), float(s_eff[0])
    if qmin == 0.0:
        if exceeds(np.abs(added).max(), 1e-12 * max(1.0, float(np.abs(Goff).max()))):
            fails.append("added term is not zero although Qmin = 0")
        return fails
    exp = model_term(qmin, smin, qmax, r, lorch_eff)
    sc = max(float(np.abs(exp).max()), float(np.abs(Goff).max()) * 1e-3, 1e-300)
    if not np.isfinite(added[pos]).all():
        k = int(np.argmax(~np.isfinite(added) & pos))
        fails.append(f"{inp}_to_{out}: the corrected transform is not finite at r={r[k]!r} (Qmax={qmax!r}, pi/Qmax={np.pi / qmax!r}); "
                     f"the transform of the linear-to-zero model there is {exp[k]!r}")
    elif exceeds(np.abs(added - exp)[pos].max(initial=0.0), 1e-7 * sc + 1e-9 * float(np.abs(Goff).max())):
        k = int(np.argmax(np.abs(added - exp) * pos))
        fails.append(f"{inp}_to_{out}: added term {added[k]!r} at r={r[k]!r} differs from the transform of the linear-to-zero model {exp[k]!r}")
    if (~pos).any() and out == "G" and exceeds(np.abs(added[~pos]).max(), 1e-12 * max(1.0, sc)):
        fails.append("added term does not vanish at r = 0")
    # the same Transformer served, just before, data with the same Qmin and r grid but another Qmax / other options
    if len(q) > 5 and len(q) <= 120:
        on = dict(OmittedXrangeCorrection=True, **kw)
        meth = f"{inp}_to_{out}"
        prim = [(meth, (q[:-2], y[:-2], r), on), (meth, (q[:-2], y[:-2], r), dict(on, lorch=not case["lorch"])),
                (meth, (q, y, r), dict(on, lorch=not case["lorch"]))]
        with np.errstate(all="ignore"):
            if history_differs("Transformer", meth, (q, y, r), on, prim):
                fails.append(f"{meth} with the omitted-range correction: the result depends on calls the same Transformer served before "
                             "(same Qmin and r grid, other Qmax or Lorch setting)")
    # depends on the data only through Qmin, S(Qmin) (and Qmax with Lorch)
    s2 = s.copy()
    first = int(np.argmax(q >= case["xmin"])) if case.get("xmin") is not None else 0
    s2[first + 1:-1] = 1 + (s2[first + 1:-1] - 1) * case["s2scale"] + 0.1   # interior of the data that enter the transform
    y2 = s2 if inp == "S" else getattr(cv, f"S_to_{inp}")(q, s2, **kw)[0]
    with np.errstate(all="ignore"):
        _, v_on, _ = fn(q, y2, r, OmittedXrangeCorrection=True, **kw)
        _, v_off, _ = fn(q, y2, r, **kw)
        Gon2 = v_on if out == "G" else getattr(cv, f"{out}_to_G")(r, v_on, **kw)[0]
        Goff2 = v_off if out == "G" else getattr(cv, f"{out}_to_G")(r, v_off, **kw)[0]
    added2 = np.asarray(Gon2, dtype=float) - np.asarray(Goff2, dtype=float)
    if exceeds(np.abs(added2 - added)[pos].max(initial=0.0), 1e-9 * max(float(np.abs(Goff).max()), float(np.abs(Goff2).max()), sc)):
        fails.append("added term changes when interior data change (must depend on Qmin, S(Qmin), Qmax only)")
    # the model term is odd in r: on the mirrored grid -r the added term is the negative
    if pos.any():
        rn = -r[pos][::-1]
        with np.errstate(all="ignore"):
            n_on = np.asarray(fn(q, y, rn, OmittedXrangeCorrection=True, **kw)[1], dtype=float)
            n_off = np.asarray(fn(q, y, rn, **kw)[1], dtype=float)
            d_pos = (np.asarray(w_on, dtype=float) - np.asarray(w_off, dtype=float))[pos][::-1]
        if out == "G":
            d_neg = n_on - n_off
            okn = np.isfinite(d_neg) & np.isfinite(d_pos)
            if okn.any() and exceeds(np.abs(d_neg + d_pos)[okn].max(), 1e-9 * max(float(np.abs(d_pos[okn]).max()), 1e-300) + 1e-12 * float(np.abs(Goff).max())):
                j = int(np.argmax(np.abs(d_neg + d_pos) * okn))
                fails.append(f"{inp}_to_G: the added term at r={rn[j]!r} is {d_neg[j]!r}, minus the term at r={-rn[j]!r} is {-d_pos[j]!r} (the transform of the linear-to-zero model is odd in r)")
    # the added term at an output point does not depend on where that point stands in the r grid (descending, or 0 in the middle)
    if len(r) >= 3:
        perm = np.concatenate([np.arange(1, len(r))[::-1], [0]]) if len(r) % 2 else np.roll(np.arange(len(r)), len(r) // 2)
        with np.errstate(all="ignore"):
            p_on = np.asarray(fn(q, y, r[perm], OmittedXrangeCorrection=True, **kw)[1], dtype=float)
            p_off = np.asarray(fn(q, y, r[perm], **kw)[1], dtype=float)
            d_on = np.asarray(w_on, dtype=float) - np.asarray(w_off, dtype=float)
        d_p = p_on - p_off
        okp = np.isfinite(d_on[perm]) & np.isfinite(d_p)
        if okp.any() and exceeds(np.abs(d_p - d_on[perm])[okp].max(), 1e-9 * max(float(np.abs(d_on[np.isfinite(d_on)]).max(initial=0.0)), 1e-300) + 1e-12 * float(np.abs(Goff).max())):
            j = int(np.argmax(np.abs(d_p - d_on[perm]) * okp))
            fails.append(f"{inp}_to_{out}: the added term at r={r[perm][j]!r} is {d_p[j]!r} when the r grid is listed in another order, {d_on[perm][j]!r} in ascending order")
    # the r grid as whole numbers held in an integer array: the same added term as for the same grid held as floats
    rw = np.arange(1, 2 + len(r) % 4, dtype=np.int64)
    with np.errstate(all="ignore"):
        try:
            a_i = np.asarray(fn(q, y, rw, OmittedXrangeCorrection=True, **kw)[1], dtype=float) - np.asarray(fn(q, y, rw, **kw)[1], dtype=float)
            rf = rw.astype(float)
            a_f = np.asarray(fn(q, y, rf, OmittedXrangeCorrection=True, **kw)[1], dtype=float) - np.asarray(fn(q, y, rf, **kw)[1], dtype=float)
            if a_i.shape != a_f.shape or exceeds(np.abs(a_i - a_f).max(initial=0.0), 1e-9 * max(float(np.abs(a_f).max(initial=0.0)), 1e-300) + 1e-12 * float(np.abs(Goff).max())):
                fails.append(f"{inp}_to_{out}: on the integer-typed r grid {rw.tolist()} the added term is {a_i.tolist()[:3]}, on the same grid as floats {a_f.tolist()[:3]}")
        except Exception as ex:  # noqa: BLE001
            fails.append(f"{inp}_to_{out}: an integer-typed r grid raises {type(ex).__name__} with the omitted-range correction")
    # compiled reference routine (uniform grids; its r grid is n*delr, never 0)
    if case.get("uniform"):
        import fortran
        ref = fortran.stog_bit(q, s, case["nr"], case["delr"], kw["rho"], case["lorch"])
        if ref is not None:
            rF, gF = ref
            with np.errstate(all="ignore"):
                _, gP, _ = tr.S_to_g(q, s, rF, OmittedXrangeCorrection=True, **kw)
            scg = max(1.0, float(np.abs(gF - 1).max()))
            cond = fortran.lowq_conditioning(float(q[0]), float(s[0]), float(q[-1]), rF, case["lorch"], kw["rho"])
            if not np.all(np.abs(np.asarray(gP) - gF) <= 1e-9 * scg + cond):
                fails.append(f"S_to_g with the omitted-range correction differs from the compiled Fortran stog_bit by {np.abs(np.asarray(gP) - gF).max():.3g}")
    return fails


def nontrivial(c):
    return (not c["qmin0"]) and len(c["q"]) >= 3

TRUSTED = ["gfortran build of subroutine stog_bit extracted from /repo/fortran/stog_new3.f90 (third party to the comparison)",
           "400-point Gauss-Legendre quadrature of the linear-to-zero model as the independent reference for the added term"]


LEAN_EXTRA = ["PystogVerif.Props.C15Fortran"]


def correspond_extra(seed, tier):
    import fortrancorr
    return fortrancorr.run(seed, tier, lorch_only=None, tag="fortrancorr-c15")
