"""C01 — sine-Fourier partners: matched-grid round trips, discrete basis partners, closed-form Gaussian family (real code)."""
import numpy as np
import impl
from gen import data, material
from .common import tolist, history_differs, transform_primers, exceeds

LEAN = "PystogVerif.Props.C01"
LEAN_EXTRA = ["PystogVerif.Props.C01Sg", "PystogVerif.Props.C01Gauss", "PystogVerif.Props.C01Quad"]
ENTRIES = ["Transformer.F_to_G", "Transformer.G_to_F", "Transformer.S_to_g", "Transformer.g_to_S"]
RULE = ("three kinds of case: (a) matched DST grids r_j=j dr, Q_k=k pi/(N dr) with N in 2..400 (thorough 2000), random data vanishing "
        "at both ends: F->G->F, G->F->G, S->g->S, g->S->g and basis-vector partners; (b) closed-form family G(r)=sum A r exp(-a r^2) "
        "<-> F(Q)=sum A sqrt(pi) Q/(4 a^1.5) exp(-Q^2/4a) on fine grids (step<=0.05/sqrt(a), range>=12/sqrt(a)), both directions, "
        "compared with the closed form; non-trivial = N>=3 or at least one family member with A != 0")
DIST = ["kind", "with_unc", "intgrid", "window", "units"]
SHRINK = None


def gen(rng, i, tier):
    c = _gen(rng, i, tier)
    # half of the cases accompany every function with uncertainties proportional to its reduced value (exactly zero where the
    # reduced function is zero, e.g. at the two end points and at Q = 0 / r = 0): the partner values may not depend on them
    c["unc"] = float(10 ** rng.uniform(-3, -1)) if rng.random() < 0.5 else None
    c["with_unc"] = c["unc"] is not None
    # a quarter of the cases spell the integration window out: xmin / xmax equal to the first / last point of the input grid,
    # which is what omitting them means
    c["window"] = str(rng.choice(["xmax", "xmin", "both"])) if rng.random() < 0.25 else None
    return c


def _gen(rng, i, tier):
    if rng.random() < 0.6:
        N = int(rng.integers(2, 120 if tier == "quick" else 2000))
        if rng.random() < 0.03:
            N = int(rng.integers(2900, 4200))   # (N+1)^2 beyond 2^23: block-wise / chunked evaluations show their seams
        dr = float(10 ** rng.uniform(-2, 0))
        intgrid = None
        if rng.random() < 0.15:
            # matched grids on which one of the two abscissa vectors is a run of whole numbers, stored with an integer dtype:
            # dr = 1 (r_j = j) or dr = pi/N (Q_k = k)
            intgrid = str(rng.choice(["r", "q"]))
            dr = 1.0 if intgrid == "r" else float(np.pi / N)
        f, _ = data(rng, np.arange(N + 1, dtype=float), kind=str(rng.choice(["noise", "smooth", "spike", "big"])))
        f[0] = f[-1] = 0.0
        m = int(rng.integers(1, N)) if N > 1 else 1
        kwm = material(rng)
        units = None
        if intgrid is None and rng.random() < 0.1:
            # the same matched grids with lengths in metres instead of Angstrom: r 1e-10 times smaller, number density 1e30 times larger
            dr *= 1e-10
            kwm["rho"] = float(kwm["rho"]) * 1e30
            units = "metres"
        return dict(kind="matched", N=N, dr=dr, f=tolist(f), m=m, kw=kwm, intgrid=intgrid, units=units)
    k = int(rng.integers(1, 4))
    a = [float(10 ** rng.uniform(-1, 1)) for _ in range(k)]
    A = [float(rng.normal() * 3) for _ in range(k)]
    if rng.random() < 0.4:
        return dict(kind="closed-nonuniform", a=a[:1], A=[A[0] if abs(A[0]) > 0.1 else 1.0], brk=float(rng.uniform(0.05, 0.15)),
                    coarse=int(rng.integers(2, 5)), kw=material(rng))
    return dict(kind="closed", a=a, A=A, kw=material(rng))


_UNC = {"F_to_G": ("dfq", 0.0), "G_to_F": ("dgr", 0.0), "S_to_g": ("dsq", 1.0), "g_to_S": ("dgr", 1.0)}


class _T:
    """the four transforms of this property; when the case carries uncertainties every call is accompanied by
    c*|reduced value| under the method's documented keyword"""

    def __init__(self, c, window=None):
        self.c = c
        self.window = window
        self.tr = impl.obj("Transformer")

    def __getattr__(self, name):
        fn = getattr(self.tr, name)
        if self.c is None and self.window is None:
            return fn
        key, base = _UNC[name]

        def call(x, y, xo, **kw):
            extra = {}
            if self.c is not None:
                extra[key] = self.c * np.abs(np.asarray(y, dtype=float) - base)
            if self.window in ("xmax", "both"):
                extra["xmax"] = float(np.max(x))
            if self.window in ("xmin", "both"):
                extra["xmin"] = float(np.min(x))
            return fn(x, y, xo, **extra, **kw)
        return call


def evaluate(case):
    tr = _T(case.get("unc"), case.get("window"))
    kw = case["kw"]
    fails = []
    if case["kind"] == "matched":
        N, dr = case["N"], case["dr"]
        f = np.asarray(case["f"], dtype=float)
        r = np.arange(N + 1) * dr
        q = np.arange(N + 1) * (np.pi / (N * dr))
        if case.get("intgrid") == "r":
            r = np.arange(N + 1)            # the same numbers, integer dtype
        elif case.get("intgrid") == "q":
            q = np.arange(N + 1)
        sc = max(float(np.abs(f).max()), 1e-300)
        _, G, _ = tr.F_to_G(q, f, r)
        # the partner handed back by an earlier call is the caller's: transforming other data between the same grid objects leaves it alone
        G_held, G_snap = G, np.array(G, copy=True)
        _, G_other, _ = tr.F_to_G(q, f[::-1].copy() * 0.5, r)
        if not np.array_equal(np.asarray(G_held), G_snap, equal_nan=True):
            fails.append(f"F_to_G on matched grids (N={N}): the array returned by an earlier call changed when the same Transformer transformed "
                         "other data onto the same grid (it is a buffer of the object)")
            return fails
        # every output point is its own integral: the same points asked for in another order (two ranges concatenated the other way round)
        # come back with the same values, each next to its abscissa
        if N >= 3:
            k = N // 3 + 1
            rrot = np.concatenate([np.asarray(r)[k:], np.asarray(r)[:k]])
            rr_out, G_rot, _ = tr.F_to_G(q, f, rrot)
            if not (np.array_equal(np.asarray(rr_out), rrot) and np.array_equal(np.asarray(G_rot), np.concatenate([G_snap[k:], G_snap[:k]]), equal_nan=True)):
                fails.append(f"F_to_G on matched grids (N={N}): asking for the output points in another order (r[{k}:] followed by r[:{k}]) does not "
                             "return the same value for each point")
                return fails
        # an option switched off by a comparison result (numpy.False_), by 0 or by None is switched off
        for off in ((np.bool_(False), 0, None) if N <= 400 else (np.bool_(False),)):
            _, G_off, _ = tr.F_to_G(q, f, r, lorch=off)
            if not np.array_equal(np.asarray(G_off), G_snap, equal_nan=True):
                fails.append(f"F_to_G(lorch={off!r}) on matched grids differs from the transform without the option: a falsy switch is treated as on")
                return fails
        _, f2, _ = tr.G_to_F(r, G, q)
        if exceeds(np.abs(np.asarray(f2) - f).max(), 1e-9 * sc * max(1.0, np.sqrt(N))):
            fails.append(f"F->G->F on matched grids (N={N}) does not return the input: {np.abs(np.asarray(f2) - f).max():.3g}")
        _, F, _ = tr.G_to_F(r, f, q)
        _, g2, _ = tr.F_to_G(q, F, r)
        if exceeds(np.abs(np.asarray(g2) - f).max(), 1e-9 * sc * max(1.0, np.sqrt(N))):
            fails.append(f"G->F->G on matched grids (N={N}) does not return the input: {np.abs(np.asarray(g2) - f).max():.3g}")
        # S <-> g (S_N = 1, S_0 arbitrary -> comes back as 1 at Q=0)
        S = 1.0 + np.where(q > 0, f / np.where(q > 0, q, 1.0), 0.0)
        _, g, _ = tr.S_to_g(q, S, r, **kw)
        _, S2, _ = tr.g_to_S(r, g, q, **kw)
        scS = max(1.0, float(np.abs(S).max()))
        if exceeds(np.abs(np.asarray(S2)[1:] - S[1:]).max(), 1e-8 * scS * N) or np.asarray(S2)[0] != 1.0:
            fails.append(f"S->g->S on matched grids (N={N}) does not return the input")
        # partners do not depend on what the Transformer did before (e.g. a Lorch-damped transform between the same grids)
        if N <= 150:
            for meth, a in (("F_to_G", (q, f, r)), ("G_to_F", (r, f, q))):
                if history_differs("Transformer", meth, a, {}, transform_primers(meth, *a)):
                    fails.append(f"{meth} on matched grids: the result depends on calls the same Transformer served before")
            for meth, a in (("S_to_g", (q, S, r)), ("g_to_S", (r, np.asarray(g, dtype=float), q))):
                if history_differs("Transformer", meth, a, dict(kw), transform_primers(meth, *a, kw=kw)):
                    fails.append(f"{meth} on matched grids: the result depends on calls the same Transformer served before")
        # basis partners: sin(Q_k r_m) <-> delta_m / dr  (pins the 2/pi to Q->r and the bare kernel to r->Q)
        m = case["m"]
        if 0 < m < N:
            mode = np.sin(q * r[m])
            mode[-1] = 0.0
            _, Gm, _ = tr.F_to_G(q, mode, r)
            exp = np.zeros(N + 1)
            exp[m] = 1.0 / dr
            if exceeds(np.abs(np.asarray(Gm) - exp).max(), 1e-9 * max(1.0, np.sqrt(N)) / dr):
                fails.append(f"F_to_G(sin(Q r_m)) is not delta_m/dr (N={N}, m={m}): {np.abs(np.asarray(Gm) - exp).max() * dr:.3g}")
            _, Fm, _ = tr.G_to_F(r, exp, q)
            if exceeds(np.abs(np.asarray(Fm) - np.sin(q * r[m])).max(), 1e-9):
                fails.append(f"G_to_F(delta_m/dr) is not sin(Q r_m) (N={N}, m={m})")
        return fails
    a, A = np.asarray(case["a"]), np.asarray(case["A"])
    amin, amax = float(a.min()), float(a.max())
    if case["kind"] == "closed-nonuniform":
        # smooth data on a grid that is fine below a break point and `coarse` times coarser above: the trapezoid rule still
        # converges (second order); tolerance 2e-3 of scale, the unchanged code is at <= 2e-4
        a0, A0 = float(a[0]), float(A[0])
        for direction in ("r->Q", "Q->r"):
            scale_len = 1 / np.sqrt(a0) if direction == "r->Q" else 2 * np.sqrt(a0)
            h, R = 0.01 * scale_len, 10.0 * scale_len
            b = case["brk"] * R
            g = np.concatenate([np.arange(0.0, b, h), np.arange(b, R + h, h * case["coarse"])])
            Gf = lambda t: A0 * t * np.exp(-a0 * t * t)  # noqa: E731
            Ff = lambda t: A0 * np.sqrt(np.pi) * t / (4 * a0 ** 1.5) * np.exp(-t * t / (4 * a0))  # noqa: E731
            if direction == "r->Q":
                out = np.linspace(0.0, 5 * np.sqrt(a0), 6)
                _, num, _ = tr.G_to_F(g, Gf(g), out)
                ref = Ff(out)
            else:
                out = np.linspace(0.0, 2.5 / np.sqrt(a0), 6)
                _, num, _ = tr.F_to_G(g, Ff(g), out)
                ref = Gf(out)
            scl = max(float(np.abs(ref).max()), 1e-300)
            if exceeds(np.abs(np.asarray(num) - ref).max(), 2e-3 * scl):
                fails.append(f"{direction} transform of the smooth closed-form partner on a non-uniform (two-step) grid is off by "
                             f"{np.abs(np.asarray(num) - ref).max() / scl:.3g} of scale (discretisation accuracy is ~1e-4)")
        return fails
    hr, Rr = 0.05 / np.sqrt(amax), 12.0 / np.sqrt(amin)
    hq, Rq = 0.05 * 2 * np.sqrt(amin), 12.0 * 2 * np.sqrt(amax)
    r = np.arange(0.0, Rr + hr, hr)
    q = np.arange(0.0, Rq + hq, hq)
    if len(r) > 40000 or len(q) > 40000:
        return fails
    qs = np.linspace(0.0, min(Rq, 6 * np.sqrt(amax)), 7)
    rs = np.linspace(0.0, min(Rr, 3 / np.sqrt(amin)), 7)

    def Gc(x):
        return sum(Ai * x * np.exp(-ai * x * x) for Ai, ai in zip(A, a))

    def Fc(x):
        return sum(Ai * np.sqrt(np.pi) * x / (4 * ai ** 1.5) * np.exp(-x * x / (4 * ai)) for Ai, ai in zip(A, a))
    scF = max(float(np.abs(Fc(q)).max()), 1e-300)
    scG = max(float(np.abs(Gc(r)).max()), 1e-300)
    _, Fn, _ = tr.G_to_F(r, Gc(r), qs)
    if exceeds(np.abs(np.asarray(Fn) - Fc(qs)).max(), 1e-9 * scF):
        fails.append(f"G_to_F of sum A r exp(-a r^2) differs from the closed-form partner by {np.abs(np.asarray(Fn) - Fc(qs)).max() / scF:.3g} (relative)")
    _, Gn, _ = tr.F_to_G(q, Fc(q), rs)
    if exceeds(np.abs(np.asarray(Gn) - Gc(rs)).max(), 1e-9 * scG):
        fails.append(f"F_to_G of the closed-form F(Q) differs from A r exp(-a r^2) by {np.abs(np.asarray(Gn) - Gc(rs)).max() / scG:.3g} (relative)")
    # S/g pair through the same partners (S(0) is irrelevant: Q[S-1] vanishes there)
    rho = case["kw"]["rho"]
    rr = rs[1:]
    Sq = np.ones_like(q)
    Sq[1:] = 1 + Fc(q[1:]) / q[1:]
    _, gn, _ = tr.S_to_g(q, Sq, rr, **case["kw"])
    gexp = 1 + Gc(rr) / (4 * np.pi * rho * rr)
    if exceeds(np.abs(np.asarray(gn) - gexp).max(), 1e-9 * max(1.0, scG / (4 * np.pi * rho * float(rr.min())))):
        fails.append("S_to_g of the closed-form S(Q) differs from the closed-form g(r)")
    return fails


def nontrivial(c):
    return (c["kind"] == "matched" and c["N"] >= 3) or (c["kind"].startswith("closed") and any(abs(x) > 0 for x in c["A"]))
