"""C14 — Lorch damping (real code): premultiplied equivalence, weight 1 at x=0, finite & reproducible under heap poisoning."""
import numpy as np
import impl
from gen import grid, data, unc
from .common import arr, tolist, relerr, confusable, history_differs, exceeds
from .c16 import groom

LEAN = "PystogVerif.Props.C14"
ENTRIES = ["Transformer.fourier_transform"]
RULE = ("random grid (<=100 points; contains x=0 in ~55% of cases), data, uncertainty, output grid, optional window; "
        "non-trivial = at least 3 points inside the window")
DIST = ["zero", "window", "grid", "has_fortran"]
SHRINK = None


def gen(rng, i, tier):
    n = int(rng.integers(3, 60 if tier == "quick" else 100))
    x, gk = grid(rng, n=n, zero=bool(rng.random() < 0.55), extra=0.2, extra_kinds=["crossing", "negative", "tiny"])
    y, dk = data(rng, x)
    dy = unc(rng, x)
    xo, _ = grid(rng, n=int(rng.integers(1, 12)) + 1)
    xmax = None
    if rng.random() < 0.4:
        xmax = float(x[-1] + rng.uniform(0, 2)) if rng.random() < 0.5 else float(x[int(rng.integers(len(x) // 2, len(x)))])
        if xmax == 0.0:
            xmax = None     # pi/xmax is undefined for a window ending exactly at 0 (the real code raises ZeroDivisionError): outside the property
    fort = None
    if rng.random() < 0.25:
        nq = int(rng.integers(3, 60))
        q0, dq = float(rng.uniform(0.1, 1.0)), float(rng.uniform(0.02, 0.3))
        fort = dict(q=tolist(q0 + dq * np.arange(nq)), s=tolist(1 + data(rng, np.arange(nq, dtype=float), kind="smooth")[0]),
                    nr=int(rng.integers(2, 25)), delr=float(rng.uniform(0.02, 0.4)), rho=float(10 ** rng.uniform(-2, 0)))
    return dict(x=tolist(x), y=tolist(y), dy=tolist(dy), xo=tolist(xo), xmax=xmax, zero=bool(x[0] == 0.0),
                window=xmax is not None, grid=gk, fort=fort, has_fortran=fort is not None)


def weight(x, a):
    ax = a * x
    out = np.ones_like(x)
    nz = ax != 0
    out[nz] = np.sin(ax[nz]) / ax[nz]
    return out


def evaluate(case):
    t = impl.obj("Transformer")
    x, y, dy, xo, xmax = arr(case["x"]), arr(case["y"]), arr(case["dy"]), arr(case["xo"]), case["xmax"]
    fails = []
    res = []
    for fill in (np.nan, np.inf, 1e308, -7.0):
        groom(len(x), fill)
        _, v, e = t.fourier_transform(x.copy(), y.copy(), xo.copy(), xmax=xmax, dy_in=None if dy is None else dy.copy(), lorch=True)
        res.append((v.copy(), e.copy()))
    v0, e0 = res[0]
    if float(np.abs(y).max(initial=0.0)) < 1e100:
        # "for every finite input": also in a process that turned floating-point warnings into errors (np.seterr(all="raise")) —
        # the weight at x = 0 is 1 by definition, no 0/0 is to be evaluated and silenced
        try:
            with np.errstate(all="raise"):
                _, vr, er = t.fourier_transform(x.copy(), y.copy(), xo.copy(), xmax=xmax, dy_in=None if dy is None else dy.copy(), lorch=True)
            if not (np.array_equal(vr, v0, equal_nan=True) and np.array_equal(er, e0, equal_nan=True)):
                fails.append("fourier_transform(lorch=True): result changes with the process's floating-point error state")
        except FloatingPointError as ex:
            fails.append(f"fourier_transform(lorch=True): raises FloatingPointError ({str(ex)[:60]}) for finite input when numpy errors are set to 'raise'"
                         + (" (grid contains x=0)" if case["zero"] else ""))
    if not (np.isfinite(v0).all() and np.isfinite(e0).all()):
        fails.append("fourier_transform(lorch=True): non-finite result for finite input"
                     + (" (grid contains x=0; freed memory poisoned with NaN)" if case["zero"] else ""))
    for v, e in res[1:]:
        if not (np.array_equal(v, v0, equal_nan=True) and np.array_equal(e, e0, equal_nan=True)):
            fails.append("fourier_transform(lorch=True): result depends on the contents of freed memory")
            break
    if fails:
        return fails
    # "with the Lorch option": the option belongs to the call — the same object, asked next without it, returns the plain transform
    import impl as _impl
    _, vplain, eplain = t.fourier_transform(x, y, xo, xmax=xmax, dy_in=dy)
    _, vfresh, efresh = type(t)().fourier_transform(x, y, xo, xmax=xmax, dy_in=dy)
    if not (np.array_equal(vplain, vfresh, equal_nan=True) and np.array_equal(eplain, efresh, equal_nan=True)):
        fails.append("fourier_transform without the Lorch option, on an object that just served lorch=True calls, differs from a new object's "
                     "plain transform (the option stuck to the object)")
    hi = xmax if xmax is not None else float(x.max())
    w = weight(x, np.pi / hi)
    _, vp, ep = t.fourier_transform(x, w * y, xo, xmax=xmax, dy_in=None if dy is None else w * dy)
    sc = float(np.abs(y).max()) * float(hi - x.min()) + 1e-300
    if relerr(v0, vp, scale=sc) > 1e-9:
        fails.append(f"lorch transform differs from plain transform of pre-multiplied data by {relerr(v0, vp, scale=sc):.3g}")
    if dy is not None and relerr(e0, ep, scale=float(np.abs(dy).max()) * float(hi - x.min()) + 1e-300) > 1e-9:
        fails.append("lorch uncertainty differs from plain uncertainty of pre-multiplied input uncertainty")
    # "xmax the largest abscissa entering the transform": the same rows stored from high x to low x are damped with the same window
    # (the trapezoid sum over reversed rows is the negative of the original; the uncertainties are the same)
    if xmax is None and len(x) >= 2:
        _, vd, ed = t.fourier_transform(x[::-1].copy(), y[::-1].copy(), xo, dy_in=None if dy is None else dy[::-1].copy(), lorch=True)
        scd = float(np.abs(y).max()) * float(x.max() - x.min()) + 1e-300
        if relerr(-np.asarray(vd), v0, scale=scd) > 1e-9 or (dy is not None and relerr(np.asarray(ed), e0, scale=float(np.abs(dy).max()) * float(x.max() - x.min()) + 1e-300) > 1e-9):
            fails.append("fourier_transform(lorch=True) on the same rows stored in descending order is not the negative of the ascending result "
                         "with the same uncertainties: the Lorch window is not pi / (largest abscissa)")
    # "with the Lorch option": the option switched on by the result of a comparison (a numpy.bool_) or by 1 is the option switched on
    for flag in (np.bool_(True), np.float64(x.max()) < np.inf, 1):
        _, vb, eb = t.fourier_transform(x, y, xo, xmax=xmax, dy_in=dy, lorch=flag)
        if not (np.array_equal(vb, v0, equal_nan=True) and np.array_equal(eb, e0, equal_nan=True)):
            fails.append(f"fourier_transform(lorch={flag!r} of type {type(flag).__name__}): the option is "
                         + ("silently ignored (plain transform returned)" if np.array_equal(vb, t.fourier_transform(x, y, xo, xmax=xmax, dy_in=dy)[1]) else "treated differently from lorch=True"))
            break
    # "for all data": integer-typed data (counts) are damped like the same numbers stored as floats
    yi = np.rint(y * 3)
    try:
        _, vi, ei = t.fourier_transform(x, yi.astype(np.int64), xo, xmax=xmax, dy_in=dy, lorch=True)
        _, vf, ef = t.fourier_transform(x, yi, xo, xmax=xmax, dy_in=dy, lorch=True)
        if relerr(vi, vf, scale=3 * sc + 1e-300) > 1e-12 or relerr(ei, ef) > 1e-12:
            fails.append("fourier_transform(lorch=True): integer-typed data give a different (truncated window) result than the same values as floats")
    except Exception as ex:  # noqa: BLE001
        fails.append(f"fourier_transform(lorch=True): integer-typed data raise {type(ex).__name__}")
    # "regardless of what the process computed before the call": the same Transformer first damps a different grid with the
    # same length and end points (and the identical grid), then this one; a fresh Transformer must give the same bits
    x2 = confusable(x)
    if x2 is not None:
        k = dict(xmax=xmax, dy_in=dy, lorch=True)
        if history_differs("Transformer", "fourier_transform", (x, y, xo), k,
                           [("fourier_transform", (x2, y, xo), k), ("fourier_transform", (x2, w * y, xo), dict(xmax=xmax, dy_in=dy))]):
            fails.append("fourier_transform(lorch=True): result depends on an earlier call of the same Transformer "
                         "(a grid with the same length and end points was transformed before)")
    # the workflow object's Lorch step is such a transform: the window closes on the last datum handed to it, whatever transform window
    # (Qmin/Qmax of the ingestion step) the object carries
    if xmax is None and len(x) >= 3 and float(x.min()) > 0 and len(x) % 2 == 0:
        from pystog import StoG
        from .c12 import workdir
        xs = np.sort(x)
        for qm in (float(xs[-1]) + 0.37 * float(xs[-1] - xs[0]), float(xs[-2] + 0.4 * (xs[-1] - xs[-2]))):
            with workdir():
                st = StoG(**{"RealSpaceFunction": "G(r)", "Outputs": {"StemName": "c14"}})
                st.qmax = qm
                with np.errstate(all="ignore"):
                    _, gl = st.apply_lorch(x, 1.0 + y, xo)
            wq = weight(x, np.pi / float(x.max()))
            _, gref, _ = t.F_to_G(x, wq * (x * y), xo)
            scg = float(np.abs(x * y).max()) * float(x.max() - x.min()) + 1e-300
            if relerr(np.asarray(gl, dtype=float), np.asarray(gref, dtype=float), scale=scg) > 1e-9:
                fails.append(f"StoG.apply_lorch on an object with transform Qmax={qm!r} (data end at Q={float(x.max())!r}): the result differs from the plain "
                             f"transform of data damped with a = pi/(last Q) by {relerr(np.asarray(gl, dtype=float), np.asarray(gref, dtype=float), scale=scg):.3g}")
                break
    ft = case.get("fort")
    if ft:
        import fortran
        q, sq = arr(ft["q"]), arr(ft["s"])
        ref = fortran.stog_bit(q, sq, ft["nr"], ft["delr"], ft["rho"], True)
        if ref is not None:
            rF, gF = ref
            _, gP, _ = t.S_to_g(q, sq, rF, rho=ft["rho"], lorch=True, OmittedXrangeCorrection=True)
            cond = fortran.lowq_conditioning(float(q[0]), float(sq[0]), float(q[-1]), rF, True, ft["rho"])
            if not np.all(np.abs(np.asarray(gP) - gF) <= 1e-9 * max(1.0, float(np.abs(gF - 1).max())) + cond):
                fails.append(f"Lorch-damped S_to_g differs from the compiled Fortran stog_bit with its window by {np.abs(np.asarray(gP) - gF).max():.3g}")
    return fails


def nontrivial(c):
    x = np.asarray(c["x"])
    hi = c["xmax"] if c["xmax"] is not None else x.max()
    return int((x <= hi).sum()) >= 3


LEAN_EXTRA = ["PystogVerif.Props.C14Fortran"]


def correspond_extra(seed, tier):
    import fortrancorr
    return fortrancorr.run(seed, tier, lorch_only=True, tag="fortrancorr-c14")
