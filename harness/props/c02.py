"""C02 — core transform = trapezoid sine quadrature, zero at 0, odd, linear (real code)."""
import math
import numpy as np
import impl
from gen import grid, data, special, unc, unc_relative
from .common import arr, tolist, history_differs, transform_primers, exceeds

LEAN = "PystogVerif.Props.C02"
ENTRIES = ["Transformer.fourier_transform", "Transformer.G_to_F", "Transformer.F_to_G"]
RULE = ("random strictly increasing input grid (uniform / jittered / irregular / centi-lattice, 2..60 points, thorough ..600), "
        "random output grid that always contains 0, a negative point and a repeated point, data family, second data vector "
        "and coefficients for linearity; non-trivial = >= 3 input points and data not all zero")
DIST = ["grid", "data", "has_fortran", "unc"]
SHRINK = None


def gen(rng, i, tier):
    n = int(rng.integers(2, 60 if tier == "quick" else 600))
    big = bool(i >= 0 and i % 75 == 37)    # two per quick run, by position (not by chance)
    if big:
        n = int(rng.integers(150000, 260000))   # len(x)*len(x') beyond 2^23: block-wise / chunked evaluations show their seams
    x, gk = grid(rng, n=n, extra=0.3, kind="irregular" if big else None)
    y, dk = data(rng, x)
    y = special(rng, y)        # exact zeros in the data, often at the ends
    z, _ = data(rng, x)
    # "every data vector": the values may not depend on whether / which uncertainties accompany the data
    r = rng.random()
    dy = None if r < 0.4 else (unc_relative(rng, y) if r < 0.7 else unc(rng, x, allow_none=False))
    xo, _ = grid(rng, n=(int(rng.integers(90, 140)) if big else int(rng.integers(1, 10)) + 1))   # big: also more output points than fit in one 2^24-element block
    if gk.startswith("tiny"):
        xo = xo * 1e9          # conjugate units, so that x*x' stays of order one
    elif gk.startswith("huge"):
        xo = xo * 1e-5
    xo = np.concatenate([[0.0, -float(xo[-1]) / 3, float(xo[0])], xo])
    fort = None
    if rng.random() < 0.3:
        nq = int(rng.integers(3, 60))
        q0, dq = float(rng.uniform(0.1, 1.0)), float(rng.uniform(0.02, 0.3))
        fort = dict(q=tolist(q0 + dq * np.arange(nq)), s=tolist(1 + data(rng, np.arange(nq, dtype=float), kind="smooth")[0]),
                    nr=int(rng.integers(2, 25)), delr=float(rng.uniform(0.02, 0.4)), rho=float(10 ** rng.uniform(-2, 0)))
    return dict(x=tolist(x), y=tolist(y), z=tolist(z), xo=tolist(xo), a=float(rng.normal()), b=float(rng.normal() * 3), dy=tolist(dy),
                grid=gk, data=dk, fort=fort, has_fortran=fort is not None, unc="none" if dy is None else "given")


def weights(x):
    d = np.diff(x)
    w = np.zeros_like(x)
    w[:-1] += d / 2
    w[1:] += d / 2
    return w


def direct(x, y, t):
    w = weights(x)
    if len(x) > 5000:
        return float(np.sum(w * y * np.sin(x * t)))
    return math.fsum(float(wj) * float(yj) * math.sin(float(xj) * float(t)) for wj, yj, xj in zip(w, y, x))


def evaluate(case):
    tr = impl.obj("Transformer")
    x, y, z, xo = arr(case["x"]), arr(case["y"]), arr(case["z"]), arr(case["xo"])
    a, b = case["a"], case["b"]
    fails = []
    dy = arr(case.get("dy"))
    xr, v, e = tr.fourier_transform(x, y, xo, dy_in=dy)
    v = np.asarray(v, dtype=float)
    if not np.array_equal(np.asarray(xr), xo):
        fails.append("fourier_transform: output abscissae changed")
    w = weights(x)
    sc = float(np.sum(np.abs(w) * np.abs(y))) + 1e-300
    for k, t in enumerate(xo):
        ref = direct(x, y, t)
        if abs(v[k] - ref) > 1e-9 * sc:
            fails.append(f"fourier_transform: value at x'={t!r} is {v[k]!r}, trapezoid sine quadrature gives {ref!r}")
            break
    v_held, v_snap = v, v.copy()
    _, v_other, _ = tr.fourier_transform(x, z, xo)      # the same object transforms other data onto the same output grid ...
    if not np.array_equal(v_held, v_snap, equal_nan=True):
        fails.append("fourier_transform: the array returned by an earlier call changed when the same object transformed other data "
                     "(the result is a buffer of the object, not the caller's)")
        return fails
    if dy is not None:
        _, vn, _ = tr.fourier_transform(x, y, xo)
        if not np.array_equal(np.asarray(vn), v):
            fails.append("fourier_transform: the values depend on the uncertainties supplied with the data")
    # ... whatever they are: an unknown uncertainty (NaN) or an unbounded one (inf) on a bin whose datum is finite says nothing about the datum;
    # the value stays the quadrature over the whole input grid
    if len(x) >= 5:
        for bad in (np.nan, np.inf):
            dyb = np.full(len(x), 0.01) if dy is None else np.array(dy, dtype=float)
            dyb[len(x) // 2] = bad
            dyb[1] = bad
            with np.errstate(all="ignore"):
                _, vb, _ = tr.fourier_transform(x, y, xo, dy_in=dyb)
            if not np.array_equal(np.asarray(vb), v):
                fails.append(f"fourier_transform: the values change when the uncertainty of two interior bins is {bad} (data finite): "
                             "bins are dropped from the quadrature")
                break
    if v[0] != 0.0:
        fails.append(f"fourier_transform: value at x'=0 is {v[0]!r}, expected exactly 0")
    _, vm, _ = tr.fourier_transform(x, y, -xo)
    if exceeds(np.abs(np.asarray(vm) + v).max(), 1e-12 * sc):
        fails.append("fourier_transform: not odd in x'")
    _, vz, _ = tr.fourier_transform(x, z, xo)
    _, vl, _ = tr.fourier_transform(x, a * y + b * z, xo)
    scl = abs(a) * sc + abs(b) * (float(np.sum(np.abs(w) * np.abs(z))) + 1e-300)
    if exceeds(np.abs(np.asarray(vl) - (a * v + b * np.asarray(vz))).max(), 1e-9 * scl):
        fails.append("fourier_transform: not linear in the data")
    # the value is a function of the arguments only: a Transformer that has served look-alike calls (same grid with every option
    # on, a grid with the same length and end points, other data) returns the same bits as a fresh one
    if len(x) <= 200 and history_differs("Transformer", "fourier_transform", (x, y, xo), dict(dy_in=dy),
                                         transform_primers("fourier_transform", x, y, xo, "dy_in", dy)):
        fails.append("fourier_transform: the result depends on calls the same Transformer served before (cached grid / weights / options)")
    # the two named cores: bare kernel in r->Q, 2/pi in Q->r
    _, g2f, _ = tr.G_to_F(x, y, xo)
    if not np.array_equal(np.asarray(g2f), v):
        fails.append("G_to_F is not the bare core transform")
    _, f2g, _ = tr.F_to_G(x, y, xo)
    if exceeds(np.abs(np.asarray(f2g) - v * 2 / np.pi).max(), 1e-12 * sc):
        fails.append("F_to_G is not (2/pi) * core transform")
    # "every output grid, every data vector": integer-typed copies of integer-valued grids/data give the same values
    xi = np.arange(-2, max(3, int(min(x[-1], 12))) + 1)
    _, vf, _ = tr.fourier_transform(x, y, xi.astype(float))
    try:
        _, vi, _ = tr.fourier_transform(x, y, xi)
        if np.asarray(vi).shape != np.asarray(vf).shape or exceeds(np.abs(np.asarray(vi, dtype=float) - np.asarray(vf)).max(), 1e-12 * sc):
            fails.append("fourier_transform: an integer-typed output grid gives different (truncated) values than the same grid as floats")
    except Exception as ex:  # noqa: BLE001
        fails.append(f"fourier_transform: an integer-typed output grid raises {type(ex).__name__}")
    # "every output grid": a long-range output point (phase x*x' of 1e9 and more) is still the trapezoid sum of y*sin(x*x') — the sine
    # of a large argument is a well-defined number, computed by the library to an ulp
    if len(x) <= 200 and float(np.abs(x).max()) > 0:
        tbig = np.array([3.0e9, -7.1e10]) / float(np.abs(x).max())
        _, vbig, _ = tr.fourier_transform(x, y, tbig)
        for k2, t2 in enumerate(tbig):
            refb = direct(x, y, t2)
            if abs(np.asarray(vbig)[k2] - refb) > 1e-9 * sc:
                fails.append(f"fourier_transform: value at the long-range point x'={t2!r} is {np.asarray(vbig)[k2]!r}, trapezoid sine quadrature gives {refb!r}")
                break
    # the documented positional form (xin, yin, xout, xmin, xmax, dy_in) with the full data range is the plain call
    try:
        _, vpos, _ = tr.fourier_transform(x, y, xo, float(x.min()), float(x.max()), dy)
        if not np.array_equal(np.asarray(vpos), v):
            fails.append("fourier_transform(xin, yin, xout, min(xin), max(xin), dy_in) given positionally differs from the call without a window")
    except Exception as ex:  # noqa: BLE001
        fails.append(f"fourier_transform with the window given positionally raises {type(ex).__name__}")
    # an explicit window [x_k, x_m] on a grid that has points a few parts in 10^6 outside either limit (merged banks): the value is the
    # trapezoid integral over the points with x_k <= x <= x_m, nothing more
    if len(x) >= 6 and x[1] > 0:
        k, m_ = 1, len(x) - 2
        eps = 3e-6
        lo_out, hi_out = x[k] * (1 - eps), x[m_] * (1 + eps)
        if x[k - 1] < lo_out and hi_out < x[m_ + 1]:
            xw = np.concatenate([x[:k], [lo_out], x[k:m_ + 1], [hi_out], x[m_ + 1:]])
            yw = np.concatenate([y[:k], [y[k] + 1.0], y[k:m_ + 1], [y[m_] - 1.0], y[m_ + 1:]])
            _, vw, _ = tr.fourier_transform(xw, yw, xo, xmin=float(x[k]), xmax=float(x[m_]))
            scw = float(np.sum(np.abs(weights(x[k:m_ + 1])) * np.abs(y[k:m_ + 1]))) + 1e-300
            for j, t in enumerate(xo):
                ref = direct(x[k:m_ + 1], y[k:m_ + 1], t)
                if abs(np.asarray(vw)[j] - ref) > 1e-9 * scw:
                    fails.append(f"fourier_transform(xmin={float(x[k])!r}, xmax={float(x[m_])!r}): value at x'={t!r} is {np.asarray(vw)[j]!r}, the trapezoid "
                                 f"integral over the in-window points is {ref!r} (grid points {lo_out!r} and {hi_out!r} lie just outside the window)")
                    break
    # "every input grid": a grid of dyadic values (multiples of 1/64, exactly representable and exactly subtractable in single precision)
    # held in a float32 array (as read from an HDF5/NeXus file) is the same grid as its float64 copy
    xd = np.rint(x[0] * 64) / 64 + np.concatenate([[0.0], np.cumsum(np.maximum(1.0, np.rint(np.diff(x) * 64))) / 64])
    if np.abs(xd).max() < 4096:
        _, v64, _ = tr.fourier_transform(xd, y, xo)
        try:
            _, v32, _ = tr.fourier_transform(xd.astype(np.float32), y, xo)
            scd = float(np.sum(np.abs(weights(xd)) * np.abs(y))) + 1e-300
            if np.asarray(v32).shape != np.asarray(v64).shape or exceeds(np.abs(np.asarray(v32, dtype=float) - np.asarray(v64)).max(), 1e-12 * scd):
                k = int(np.argmax(np.abs(np.asarray(v32, dtype=float) - np.asarray(v64))))
                fails.append(f"fourier_transform: a dyadic input grid held in a float32 array gives {np.asarray(v32)[k]!r} at x'={xo[k]!r}, "
                             f"the same grid as float64 {np.asarray(v64)[k]!r} (trapezoid sine quadrature {direct(xd, y, xo[k])!r})")
        except Exception as ex:  # noqa: BLE001
            fails.append(f"fourier_transform: a float32 input grid raises {type(ex).__name__}")
    ft = case.get("fort")
    if ft:
        import fortran
        from .c15 import model_term
        q, sq = arr(ft["q"]), arr(ft["s"])
        ref = fortran.stog_bit(q, sq, ft["nr"], ft["delr"], ft["rho"], False)
        if ref is not None:
            rF, gF = ref
            yds = model_term(float(q[0]), float(sq[0]), float(q[-1]), rF, False)
            g_no_lowq = gF - yds / (4 * np.pi * ft["rho"] * rF)
            _, gP, _ = tr.S_to_g(q, sq, rF, rho=ft["rho"])
            scg = max(1.0, float(np.abs(g_no_lowq - 1).max()))
            # the reference's own analytic low-Q term is ill-conditioned at small r: allow for it (fortran.lowq_conditioning)
            cond = fortran.lowq_conditioning(float(q[0]), float(sq[0]), float(q[-1]), rF, False, ft["rho"])
            d = np.abs(np.asarray(gP) - g_no_lowq)
            if not np.all(d <= 1e-8 * scg + cond):
                fails.append(f"S_to_g differs from the compiled Fortran stog_bit (analytic low-Q term removed) by {float(np.nanmax(d)):.3g}")
    return fails


def nontrivial(c):
    return len(c["x"]) >= 3 and any(v != 0 for v in c["y"])


LEAN_EXTRA = ["PystogVerif.Props.C02Fortran"]


def correspond_extra(seed, tier):
    import fortrancorr
    return fortrancorr.run(seed, tier, lorch_only=False, tag="fortrancorr-c02")
