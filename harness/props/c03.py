from . import conv
LEAN = "PystogVerif.Props.C03"
ENTRIES = ["Converter._safe_divide"] + [f"Converter.{a}_to_{b}" for a in conv.RK for b in conv.RK if a != b]
gen = conv.gen_space("R", negative_bcoh=True)
evaluate = conv.evaluate_values
RULE = ("random reciprocal-space function kind X, grid (uniform/jittered/irregular/centi-lattice, with Q=0 or the smallest "
        "subnormal in 15-22% of cases), data family and material constants; every ordered pair/triple of kinds is evaluated "
        "per case; non-trivial = at least 2 points with Q>0 and data not all equal")


def nontrivial(c):
    import numpy as np
    x, y = np.asarray(c["x"]), np.asarray(c["y"])
    return int((x > 0).sum()) >= 2 and float(np.ptp(y)) > 0

SHRINK = ["x", "y", "dy"]
DIST = ["X", "grid", "data", "space"]
