from . import conv
from .c03 import nontrivial  # noqa: F401
LEAN = "PystogVerif.Props.C04"
ENTRIES = [f"Converter.{a}_to_{b}" for a in conv.GK for b in conv.GK if a != b]
gen = conv.gen_space("G")
evaluate = conv.evaluate_values
RULE = ("random real-space function kind X, grid (with r=0 in ~15%), data family, density and <b_coh>^2; all ordered "
        "pairs/triples evaluated per case; non-trivial = at least 2 points with r>0 and data not all equal")

SHRINK = ["x", "y", "dy"]
DIST = ["X", "grid", "data", "space"]
