import numpy as np
from . import conv
LEAN = "PystogVerif.Props.C06"
ENTRIES = [f"Converter.{a}_to_{b}" for a in conv.RK for b in conv.RK if a != b] + \
          [f"Converter.{a}_to_{b}" for a in conv.GK for b in conv.GK if a != b]
RULE = ("random space, kind, grid, data, material; uncertainty None (25%), zeros (10%) or random non-negative; "
        "non-trivial = uncertainty supplied and not all zero, or None (the zeros-when-absent clause)")


def gen(rng, i, tier):
    return conv.gen_space("R" if rng.random() < 0.6 else "G")(rng, i, tier)


evaluate = conv.evaluate_unc


def nontrivial(c):
    return c["dy"] is None or float(np.abs(np.asarray(c["dy"])).max()) > 0

SHRINK = ["x", "y", "dy"]
DIST = ["X", "grid", "data", "space"]
