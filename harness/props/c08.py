"""C08 — Fourier filter splits the data exactly, removes only low-r signal (real code)."""
import numpy as np
import impl, cases
from .common import tolist, Unchanged, exceeds, confusable
from .c02 import weights

LEAN = "PystogVerif.Props.C08"
LEAN_EXTRA = ["PystogVerif.Props.C08All"]
RSP, QSP = ["g", "G", "GK"], ["F", "S", "FK", "DCS"]
ENTRIES = [f"FourierFilter.{a}_using_{b}" for a in RSP for b in QSP]
RULE = ("one of the 12 variants at random, random r/Q grids (with/without 0), data, uncertainties (or None), cutoff between or on "
        "grid points, material constants; lorch/correction at random; non-trivial = >= 2 r points at or below the cutoff and >= 1 above")
DIST = ["entry", "lorch", "omitted", "qorder", "cutkind"]
SHRINK = None


def gen(rng, i, tier):
    e = ENTRIES[int(rng.integers(0, len(ENTRIES)))]
    c = cases.make_case(rng, e, maxn=40 if tier == "quick" else 300)
    args = list(c["args"])
    cutkind = "ordinary"
    if rng.random() < 0.15 and len(args[0]) >= 3:
        # a cutoff that leaves exactly one r point in [0, cutoff]: the removed signal is the transform of a single point (zero), and the
        # returned real-space function is still the transform of the returned corrected function
        r_ = np.asarray(args[0], dtype=float)
        args[4] = float(r_[0] + rng.uniform(0.0, 0.9) * (r_[1] - r_[0]))
        cutkind = "one-point"
    qorder = "ascending"
    if rng.random() < 0.18 and len(args[2]) >= 4:
        # the same reciprocal-space data listed in another order: descending (time-of-flight order), or two detector banks stored
        # high-angle bank first; the split is pointwise in Q, so nothing else changes
        n = len(args[2])
        if rng.random() < 0.5:
            order, qorder = np.arange(n)[::-1], "descending"
        else:
            k = int(rng.integers(1, n - 1))
            order, qorder = np.concatenate([np.arange(k, n), np.arange(0, k)]), "two-banks"
        for j in (2, 3, 6):
            if args[j] is not None:
                args[j] = np.asarray(args[j])[order]
    intq = bool(rng.random() < 0.1 and qorder == "ascending")
    if intq:
        args[2] = np.arange(1, len(args[2]) + 1, dtype=float)      # Q in units of the bin width, held as whole numbers (see evaluate)
    return dict(entry=e, args=[tolist(a) if not np.isscalar(a) else a for a in args], kw=c["kw"],
                lorch=c["meta"]["lorch"], omitted=c["meta"]["omitted"], pert=float(rng.normal() * 3), qorder=qorder, cutkind=cutkind, intq=intq)


def run(case, args=None):
    ff = impl.obj("FourierFilter")
    a = args if args is not None else case["args"]
    r, gr, q, fq, cutoff, dgr, dfq = [None if v is None else (np.asarray(v, dtype=float) if not np.isscalar(v) else v) for v in a]
    name = case["entry"].split(".")[1]
    with np.errstate(all="ignore"):
        return getattr(ff, name)(r, gr, q, fq, cutoff, dgr, dfq, **case["kw"]), (r, gr, q, fq, cutoff, dgr, dfq)


def evaluate(case):
    kw = case["kw"]
    name = case["entry"].split(".")[1]
    X, Y = name.split("_using_")
    try:
        out, (r, gr, q, fq, cutoff, dgr, dfq) = run(case)
    except Exception as ex:  # noqa: BLE001
        return [f"{name}: raises {type(ex).__name__} ({str(ex)[:60]}) on a Q grid stored in {case.get('qorder', 'ascending')} order "
                f"({len(case['args'][2])} Q points, {len(case['args'][0])} r points)"]
    # the caller's arrays must be what they were: otherwise removed + corrected no longer adds back to the input the caller holds,
    # and a second call on the same arrays filters already-filtered data
    ff = impl.obj("FourierFilter")
    r1, g1, q1, f1 = r.copy(), gr.copy(), q.copy(), fq.copy()
    guard = Unchanged(r1, g1, q1, f1)
    with np.errstate(all="ignore"):
        first = getattr(ff, name)(r1, g1, q1, f1, cutoff, dgr, dfq, **kw)
        again = getattr(ff, name)(r1, g1, q1, f1, cutoff, dgr, dfq, **kw)
    if guard.violated():
        return [f"{name}: the filter modifies an input array in place (removed + corrected no longer adds back to the caller's data)"]
    if not all(np.array_equal(np.asarray(a), np.asarray(b), equal_nan=True) for a, b in zip(first, again)):
        return [f"{name}: calling the filter twice on the same arrays gives different results"]
    q_ft, rem, qc, cor, ro, go, drem, dcor, dgo = [np.asarray(o, dtype=float) for o in out]
    fails = []
    if case.get("intq"):
        # the same Q grid held in an integer array: the same nine outputs
        with np.errstate(all="ignore"):
            try:
                outi = getattr(type(ff)(), name)(r.copy(), gr.copy(), q.astype(np.int64), fq.copy(), cutoff, None if dgr is None else dgr.copy(), None if dfq is None else dfq.copy(), **kw)
                for k9, (a9, b9) in enumerate(zip(out, outi)):
                    a9, b9 = np.asarray(a9, dtype=float), np.asarray(b9, dtype=float)
                    if a9.shape != b9.shape or not np.allclose(a9, b9, rtol=1e-12, atol=1e-12 * max(1.0, float(np.abs(a9[np.isfinite(a9)]).max(initial=0.0))), equal_nan=True):
                        fails.append(f"{name}: output {k9} on an integer-typed Q grid differs from the same grid as floats")
                        return fails
            except Exception as ex:  # noqa: BLE001
                return [f"{name}: an integer-typed Q grid raises {type(ex).__name__}"]
    # the same array objects, refilled in place with other data, filtered again by the same object: the answer is that of the new data
    g_new = np.asarray(gr, dtype=float) * 0.7 + 0.3 * np.roll(np.asarray(gr, dtype=float), 1)
    with np.errstate(all="ignore"):
        fresh_new = getattr(type(ff)(), name)(r.copy(), g_new.copy(), q.copy(), fq.copy(), cutoff, None if dgr is None else dgr.copy(), None if dfq is None else dfq.copy(), **kw)
        g1[:] = g_new
        same_obj_new = getattr(ff, name)(r1, g1, q1, f1, cutoff, dgr, dfq, **kw)
    if not all(np.array_equal(np.asarray(a), np.asarray(b), equal_nan=True) for a, b in zip(fresh_new, same_obj_new)):
        fails.append(f"{name}: after the g(r) array was refilled in place with other data, the same filter object returns something else than a "
                     "new object does for those data (a result of the previous call was reused)")
        return fails
    # a filter object that first served a data set on look-alike grids (same number of points, same first and last point, other points in
    # between — a non-uniform re-binning of the same range) answers the present call like a new object
    r2, q2 = confusable(r), confusable(q)
    if (r2 is not None or q2 is not None) and len(r) <= 300 and len(q) <= 300:
        with np.errstate(all="ignore"):
            used = type(ff)()
            try:
                getattr(used, name)(r if r2 is None else r2, gr.copy(), q if q2 is None else q2, fq.copy(), cutoff, dgr, dfq, **kw)
            except Exception:  # noqa: BLE001
                pass
            got = getattr(used, name)(r.copy(), gr.copy(), q.copy(), fq.copy(), cutoff, dgr, dfq, **kw)
            ref9 = getattr(type(ff)(), name)(r.copy(), gr.copy(), q.copy(), fq.copy(), cutoff, dgr, dfq, **kw)
        if not all(np.array_equal(np.asarray(a), np.asarray(b), equal_nan=True) for a, b in zip(ref9, got)):
            k9 = [i for i, (a, b) in enumerate(zip(ref9, got)) if not np.array_equal(np.asarray(a), np.asarray(b), equal_nan=True)]
            fails.append(f"{name}: outputs {k9} depend on an earlier call of the same filter object on grids with the same length and end points "
                         "but other interior points (a sine table / factor of the earlier grids was reused)")
            return fails
    t = kw["<b_tot^2>"]
    # for S, F_K, DCS the value at Q=0 is the conventional one (C03): additivity is judged where Q>0
    pos = q > 1e-100 if Y != "F" else np.ones_like(q, dtype=bool)
    sc = max(1.0, float(np.abs(fq).max()), float(np.abs(rem).max()))
    if Y in ("F", "FK"):
        total = rem + cor
    elif Y == "S":
        total = rem + cor - 1.0
    else:
        total = rem + cor - t
    if exceeds(np.abs(total - fq)[pos].max(initial=0.0), 1e-9 * sc):
        fails.append(f"{name}: removed + corrected does not add back to the input ({np.abs(total - fq)[pos].max():.3g})")
    d_in = np.zeros_like(fq) if dfq is None else dfq
    # quadrature in the function's own units (conversions scale all three uncertainties alike)
    expq = np.sqrt(d_in ** 2 + drem ** 2)
    ok = pos
    scq = max(float(np.abs(expq).max()), 1e-300)
    if exceeds(np.abs(dcor - expq)[ok].max(initial=0.0), 1e-9 * scq):
        fails.append(f"{name}: uncertainties do not combine in quadrature")
    # changing real-space data beyond the cutoff changes nothing in the removed component
    a2 = list(case["args"])
    g2 = np.array(gr, dtype=float)
    g2[r > cutoff] += case["pert"]
    a2[1] = g2
    out2, _ = run(case, a2)
    if not (np.array_equal(np.asarray(out2[1]), rem, equal_nan=True) and np.array_equal(np.asarray(out2[6]), drem, equal_nan=True)):
        fails.append(f"{name}: removed component changes when data beyond the cutoff change")
    # data vanishing in g(r) on [0,cutoff] leave the reciprocal-space function untouched
    gz = np.array(gr, dtype=float)
    zero_val = {"g": 0.0, "G": None, "GK": -kw["<b_coh>^2"]}[X]
    if zero_val is None:
        gz[r <= cutoff] = -4 * np.pi * kw["rho"] * r[r <= cutoff]
    else:
        gz[r <= cutoff] = zero_val
    if not case["lorch"] and not case["omitted"] and (X != "G" or r[0] > 0):
        a3 = list(case["args"])
        a3[1] = gz
        out3, _ = run(case, a3)
        base = {"F": 0.0, "FK": 0.0, "S": 1.0, "DCS": t}[Y]
        if exceeds(np.abs(np.asarray(out3[1]) - base)[pos].max(initial=0.0), 1e-9 * max(1.0, float(np.abs(gz).max()) * float(r.max()) ** 2 * 20 * kw["rho"])):
            fails.append(f"{name}: something is removed although g(r) vanishes on [0,cutoff]")
    # the removed component IS the sine transform of the real-space signal on [0, cutoff]: T[r<=c, 4 pi rho r g(r)](Q), nothing else
    if not case["lorch"] and not case["omitted"]:
        cvv = impl.obj("Converter")
        with np.errstate(all="ignore"):
            g_in = gr if X == "g" else np.asarray(getattr(cvv, f"{X}_to_g")(r, gr, **kw)[0], dtype=float)
            rem_f = rem if Y == "F" else np.asarray(getattr(cvv, f"{Y}_to_F")(q_ft, rem, **kw)[0], dtype=float)
        m = (r >= 0.0) & (r <= cutoff)
        rc, gc = r[m], g_in[m]
        if len(rc) >= 1 and (X == "g" or (rc > 0).all()):
            expect = np.array([np.trapezoid(4 * np.pi * kw["rho"] * rc * gc * np.sin(Qv * rc), x=rc) if len(rc) > 1 else 0.0 for Qv in q_ft])
            okq = q_ft > 1e-100 if Y != "F" else np.ones_like(q_ft, dtype=bool)
            scr = max(1.0, float(np.abs(expect).max()), float(np.abs(4 * np.pi * kw["rho"] * rc * gc).max()) * float(rc.max() - rc.min() + 1e-300))
            if rem_f.shape == expect.shape and exceeds(np.abs(rem_f - expect)[okq].max(initial=0.0), 1e-8 * scr):
                fails.append(f"{name}: the removed component is not the sine transform of the real-space signal on [0, cutoff] "
                             f"(off by {np.abs(rem_f - expect)[okq].max():.3g})")
    # filtered real-space function = transform of the corrected function
    tr = impl.obj("Transformer")
    with np.errstate(all="ignore"):
        rr, gg, dgg = getattr(tr, f"{Y}_to_{X}")(qc, cor, r, dcor, **kw)
    if not (np.array_equal(np.asarray(gg), go, equal_nan=True) and np.array_equal(np.asarray(dgg), dgo, equal_nan=True)):
        if exceeds(np.abs(np.asarray(gg) - go).max(), 1e-9 * max(1.0, float(np.abs(go).max()))):
            fails.append(f"{name}: returned real-space function is not the transform of the returned corrected function")
    return fails


def nontrivial(c):
    r = np.asarray(c["args"][0])
    return int((r <= c["args"][4]).sum()) >= 2 and int((r > c["args"][4]).sum()) >= 1
