"""C16 — purity, reproducibility, dtype-blindness of the library calls (real code)."""
import json, os
import numpy as np
import impl, cases, proto
from gen import rng_for
from .common import new_options, tolist, confusable, fresh, bits_equal, history_differs

LEAN = "PystogVerif.Props.C16"
NCORR = {"quick": 2, "thorough": 20}
NORACLE = {"quick": 250, "thorough": 4000}
RULE = ("random public entry point of Converter/Transformer/FourierFilter (58) or Pre_Proc.rebin with a random case for it "
        "(options lorch/correction/window enumerated at random); 40% of cases use integer-valued grids and data so that int and "
        "float copies can be compared; grids <= 100 points so that numpy's small-block cache hands back poisoned memory; "
        "non-trivial = result depends on at least 2 data points")
DIST = ["entry", "intvalued"]
TRUSTED = ["heap grooming relies on numpy/glibc reusing freed small blocks (verified to reproduce the pre-fix NaN for <=128 doubles)"]


def _entries():
    rep = json.load(open(os.path.join(proto.LEAN_DIR, "PystogVerif", "Gen", "report.json")))
    return sorted(e for e in rep["functions"] if not e.split(".")[1].startswith("_"))


try:
    ENTRIES = _entries()
except Exception:  # noqa: BLE001
    ENTRIES = []


def gen(rng, i, tier):
    ents = _entries()
    if rng.random() < 0.08:
        # Pre_Proc.rebin: integer-valued abscissae/data on an integer grid (step 1) so that int and float copies can be compared
        n = int(rng.integers(4, 30))
        x = np.concatenate([np.arange(n), rng.integers(0, n, 5)]).astype(float)
        y = rng.integers(-5, 6, len(x)).astype(float)
        # 40%: an output grid twice as fine as the data (every second bin receives no weight at all): whatever the call does then —
        # the pinned code raises ZeroDivisionError — it must do the same thing every time, whatever the heap held before
        step = 0.5 if rng.random() < 0.4 else 1.0
        return dict(entry="Pre_Proc.rebin", args=[tolist(x), tolist(y), 0.0, step, float(n - 1)], kw={}, intvalued=True)
    entry = ents[int(rng.integers(0, len(ents)))]
    c = cases.make_case(rng, entry, maxn=40)
    intv = bool(rng.random() < 0.4)
    args = []
    for a in c["args"]:
        if a is None or np.isscalar(a):
            args.append(a)
        elif intv:
            # integer-valued copy (grids stay strictly increasing: cumulative positive integer steps)
            a = np.asarray(a)
            if len(a) > 1 and np.all(np.diff(a) > 0):
                st = np.maximum(1, np.rint(np.diff(a) * 3)).astype(int)
                a = np.concatenate([[int(np.rint(a[0]))], int(np.rint(a[0])) + np.cumsum(st)]).astype(float)
            else:
                a = np.rint(a * 3)
            args.append(a)
        else:
            args.append(a)
    if entry.startswith("Transformer.") and "_to_" in entry and rng.random() < 0.12 and len(args) >= 3 and not np.isscalar(args[2]) and args[2] is not None:
        # every output point is computed, whatever the length of the output grid (1 point; one more than a multiple of a block size)
        m = int(rng.choice([1, 257, 513, 129]))
        hi = float(np.max(args[2])) if len(np.atleast_1d(args[2])) else 5.0
        args[2] = np.linspace(0.05, max(hi, 1.0), m) if not intv else np.arange(1, m + 1, dtype=float)
    kw = dict(c["kw"])
    if intv:
        for k in ("xmin", "xmax"):
            if k in kw:
                kw.pop(k)
        for k in range(len(args)):
            if np.isscalar(args[k]) and args[k] is not None:
                args[k] = float(np.rint(args[k])) + 0.5
    return dict(entry=entry, args=[tolist(a) for a in args], kw=kw, intvalued=intv)


def _mk(case, dtype=float):
    out = []
    for a in case["args"]:
        if a is None or np.isscalar(a):
            out.append(a)
        else:
            out.append(np.array(a, dtype=dtype))
    return out


def groom(n, fill):
    junk = [np.full(max(n, 1), fill) for _ in range(12)]
    del junk


def _unc_positions(entry, nargs):
    """positions of the uncertainty arguments in the positional signatures: Converter (x, y, dy), Transformer (x, y, xout, dy),
    FourierFilter (r, gr, q, fq, cutoff, dgr, dfq)"""
    cls = entry.split(".")[0]
    if cls == "Converter":
        return {2}
    if cls == "Transformer":
        return {3}
    if cls == "FourierFilter":
        return {5, 6}
    return set()


def _same(r1, r2):
    if r1[0] != r2[0]:
        return False
    if r1[0] == "err":
        return r1[1] == r2[1]
    if len(r1[1]) != len(r2[1]):
        return False
    for a, b in zip(r1[1], r2[1]):
        if (a is None) != (b is None):
            return False
        if a is not None and not (a.shape == b.shape and np.array_equal(np.asarray(a, dtype=float).view(np.uint64), np.asarray(b, dtype=float).view(np.uint64))):
            return False
    return True


def evaluate(case):
    fails = []
    entry, kw = case["entry"], case["kw"]
    args = _mk(case)
    snap = [None if a is None or np.isscalar(a) else a.copy() for a in args]
    base = impl.call(entry, args, kw)
    for s, a in zip(snap, args):
        if s is not None and not np.array_equal(s.view(np.uint64), a.view(np.uint64)):
            fails.append(f"{entry}: modifies an argument array")
            return fails
    # whole-number ordinates in an integer array, accompanied by ordinary (fractional) float uncertainties: the uncertainties are read as given
    up = _unc_positions(entry, len(args))
    if case["intvalued"] and base[0] == "ok" and up and entry.split(".")[0] != "Pre_Proc":
        fa, ma = _mk(case), _mk(case)
        okm = False
        for k in range(len(fa)):
            if k in up and fa[k] is not None and not np.isscalar(fa[k]):
                fa[k] = np.abs(fa[k]) * 0.37 + 0.013
                ma[k] = fa[k].copy()
                okm = True
            elif k in (1,) and ma[k] is not None and not np.isscalar(ma[k]):
                ma[k] = ma[k].astype(np.int64)          # the ordinate only
        if okm:
            rf, rm = impl.call(entry, fa, kw), impl.call(entry, ma, kw)
            if rf[0] == "ok" and rm[0] == "ok":
                for k, (a, b) in enumerate(zip(rf[1], rm[1])):
                    if a is None or b is None:
                        continue
                    a, b = np.asarray(a, dtype=float), np.asarray(b, dtype=float)
                    if a.shape != b.shape or not np.allclose(a, b, rtol=1e-12, atol=1e-12 * max(1.0, float(np.abs(a[np.isfinite(a)]).max(initial=0.0))), equal_nan=True):
                        fails.append(f"{entry}: output {k} differs between integer-typed and float-typed ordinates when the (float) uncertainties are fractional")
                        return fails
            elif rf[0] != rm[0]:
                fails.append(f"{entry}: integer-typed ordinates with float uncertainties give {rm[0]} where float ordinates give {rf[0]}")
                return fails
    # options the pinned tree does not know (none on the unchanged tree): a call that switches one on — on data holding an infinite bin, so that
    # it may fail half-way — leaves nothing behind for the next, ordinary call (same arguments, same process, NumPy's own settings included)
    if new_options() and entry.split(".")[0] in ("Transformer", "FourierFilter", "Converter"):
        import warnings
        fnobj = getattr(impl.obj(entry.split(".")[0]), entry.split(".")[1])

        def direct(a):
            with warnings.catch_warnings():
                warnings.simplefilter("ignore")
                try:
                    r = fnobj(*a, **kw)
                    return ("ok", [None if c is None else np.array(c, dtype=float, copy=True) for c in (r if isinstance(r, tuple) else (r,))])
                except Exception as ex:  # noqa: BLE001
                    return ("err", type(ex).__name__)
        poisoned = _mk(case)
        if len(poisoned) > 1 and poisoned[1] is not None and not np.isscalar(poisoned[1]) and len(poisoned[1]) >= 2:
            poisoned[1] = np.array(poisoned[1], dtype=float)
            poisoned[1][len(poisoned[1]) // 2] = np.inf
        err0 = np.geterr()
        before_d = direct([None if a is None else (a if np.isscalar(a) else a.copy()) for a in poisoned])
        for opt in new_options():
            for val in (True, 1):
                with warnings.catch_warnings():
                    warnings.simplefilter("ignore")
                    try:
                        fnobj(*[None if a is None else (a if np.isscalar(a) else a.copy()) for a in poisoned], **dict(kw, **{opt: val}))
                    except Exception:  # noqa: BLE001
                        pass
        after_d = direct([None if a is None else (a if np.isscalar(a) else a.copy()) for a in poisoned])
        err1 = np.geterr()
        np.seterr(**err0)
        same_d = before_d[0] == after_d[0] and (before_d[0] == "err" and before_d[1] == after_d[1] or before_d[0] == "ok" and all(
            (x is None and y is None) or (x is not None and y is not None and np.array_equal(x, y, equal_nan=True)) for x, y in zip(before_d[1], after_d[1])))
        if not same_d or err1 != err0:
            fails.append(f"{entry}: after calls that switched on the option(s) {new_options()} on data with an infinite bin (they may raise), the same ordinary call "
                         f"gives {after_d[0] if after_d[0] == 'ok' else after_d} where it gave {before_d[0] if before_d[0] == 'ok' else before_d} before; "
                         f"numpy error state {err1 if err1 != err0 else 'unchanged'}")
            return fails
    # what a call returned belongs to the caller: a later call on the same object, with other data of the same shapes, must not change it
    if base[0] == "ok":
        held = [None if a is None else a for a in base[1]]
        snap_out = [None if a is None else np.array(a, copy=True) for a in held]
        other_args = []
        for a in _mk(case):
            if a is None or np.isscalar(a):
                other_args.append(a)
            else:
                c2 = confusable(a)
                other_args.append(c2 if c2 is not None else a * 1.37 + 0.1)
        # arrays that are handed through unchanged (the output abscissa) may legitimately be the caller's own object: keep grids as they are
        for k in range(len(other_args)):
            a0 = _mk(case)[k]
            if a0 is not None and not np.isscalar(a0) and len(a0) > 1 and np.all(np.diff(a0) > 0):
                other_args[k] = a0
        impl.call(entry, other_args, kw)
        for k, (h, s0) in enumerate(zip(held, snap_out)):
            if h is not None and not np.array_equal(np.asarray(h, dtype=float).view(np.uint64), np.asarray(s0, dtype=float).view(np.uint64)):
                fails.append(f"{entry}: output {k} of an earlier call changed when the same object served a later call with other data "
                             "(the returned array is a buffer of the object)")
                return fails
    # ... also when an uncertainty vector holds a masked (NaN) or infinite entry: the caller's arrays are the caller's
    if entry.split(".")[0] in ("Transformer", "FourierFilter", "Converter"):
        pa = _mk(case)
        touched = False
        for k in range(len(pa)):
            if k >= 2 and pa[k] is not None and not np.isscalar(pa[k]) and len(pa[k]) >= 2 and k in _unc_positions(entry, len(pa)):
                pa[k][0], pa[k][-1] = np.nan, np.inf
                touched = True
        if touched:
            psnap = [None if a is None or np.isscalar(a) else a.copy() for a in pa]
            with np.errstate(all="ignore"):
                impl.call(entry, pa, kw)
            for k, (s0, a) in enumerate(zip(psnap, pa)):
                if s0 is not None and not np.array_equal(s0.view(np.uint64), a.view(np.uint64)):
                    fails.append(f"{entry}: modifies argument {k} (an uncertainty vector holding NaN/inf entries came back changed)")
                    return fails
    n = max([len(a) for a in args if a is not None and not np.isscalar(a)] + [1])
    # repeated call, interleaved with unrelated calls and poisoned allocations
    t = impl.obj("Transformer")
    for fill in (np.nan, np.inf, 1e308, -1.0):
        t.fourier_transform(np.linspace(0, 3, 7), np.ones(7), np.linspace(0, 1, 3), lorch=True)
        for m in {n, len(np.atleast_1d(base[1][-1])) if base[0] == "ok" and base[1][-1] is not None else n}:
            groom(m, fill)
        groom(n, fill)
        again = impl.call(entry, _mk(case), kw)
        if not _same(base, again):
            fails.append(f"{entry}: result not reproducible (differs after poisoning freed memory with {fill!r})")
            break
    # "irrespective of earlier calls": a fresh instance vs an instance that first served look-alike calls (every strictly
    # increasing array replaced by a different grid with the same length and end points, other arrays by other values of
    # the same shape) and the identical call
    if base[0] == "ok" and entry != "Pre_Proc.rebin":
        cls, name = entry.split(".")
        prim = []
        for a in _mk(case):
            if a is None or np.isscalar(a):
                prim.append(a)
            else:
                c2 = confusable(a)
                prim.append(c2 if c2 is not None else a * 1.37 + 0.1)
        try:
            primers = [(name, prim, kw), (name, _mk(case), kw)]
            if cls in ("Transformer", "FourierFilter"):
                # the same call with every transform option switched on (options / damped tables must not stick to the instance)
                primers.append((name, _mk(case), dict(kw, lorch=True, OmittedXrangeCorrection=True)))
            with np.errstate(all="ignore"):
                if history_differs(cls, name, _mk(case), kw, primers):
                    fails.append(f"{entry}: result depends on earlier calls of the same instance (look-alike grids with the same length and "
                                 "end points, or the same call with other options)")
        except Exception as ex:  # noqa: BLE001
            fails.append(f"{entry}: raises {type(ex).__name__} on a fresh instance where the shared instance succeeded")
    if base[0] == "ok":
        for k, o in enumerate(base[1]):
            if o is not None and not np.isfinite(np.asarray(o, dtype=float)).all() and not _has_zero_issue(case):
                pass  # finiteness is judged by the per-property oracles, not here
    if case["intvalued"]:
        ia = _mk(case, dtype=np.int64)
        ri = impl.call(entry, ia, kw)
        if ri[0] != base[0]:
            fails.append(f"{entry}: integer-typed inputs give {ri[0]}:{ri[1] if ri[0]=='err' else ''} where float inputs give {base[0]}")
        elif ri[0] == "ok":
            for k, (a, b) in enumerate(zip(base[1], ri[1])):
                a = np.asarray(a, dtype=float)
                b = np.asarray(b, dtype=float)
                if a.shape != b.shape or not np.allclose(a, b, rtol=1e-12, atol=1e-12 * max(1.0, float(np.abs(a[np.isfinite(a)]).max()) if np.isfinite(a).any() else 1.0), equal_nan=True):
                    fails.append(f"{entry}: output {k} differs between integer-typed and float-typed equal inputs")
                    break
    return fails


def _has_zero_issue(case):
    return True


def nontrivial(c):
    return max([len(a) for a in c["args"] if isinstance(a, list)] + [0]) >= 2

LEAN_EXTRA = ["PystogVerif.Gen.JunkFree", "PystogVerif.Props.C16Div"]
