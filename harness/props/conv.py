"""C03, C04, C06 — oracles for the conversions, evaluated on the real Converter."""
import itertools
import numpy as np
import impl
from gen import grid, data, unc, material
from .common import arr, tolist, relerr, keyword_call_differs, history_differs, confusable, inplace_history_differs, Unchanged

RK = ["S", "F", "FK", "DCS"]
GK = ["g", "G", "GK"]
BASE = {"S": 1.0, "F": 0.0, "FK": 0.0, "DCS": 0.0, "g": 1.0, "G": 0.0, "GK": 0.0}
TOL = 1e-9


def conv(X, Y, x, y, dy, kw):
    if X == Y:
        return np.array(y, dtype=float), (np.zeros_like(y, dtype=float) if dy is None else np.array(dy, dtype=float))
    c = impl.obj("Converter")
    r = getattr(c, f"{X}_to_{Y}")(x, y, dy, **kw)
    return r


def spec_toS(X, q, v, kw):
    b, t = kw["<b_coh>^2"], kw["<b_tot^2>"]
    pos = q > 0
    out = np.ones_like(q, dtype=float)
    qq = np.where(pos, q, 1.0)
    if X == "S":
        return np.array(v, dtype=float)
    if X == "F":
        out[pos] = (v / qq + 1)[pos]
    elif X == "FK":
        out[pos] = (v / b + 1)[pos]
    else:
        out[pos] = ((v - t) / b + 1)[pos]
    return out


def spec_from_S(Y, q, s, kw):
    b, t = kw["<b_coh>^2"], kw["<b_tot^2>"]
    return {"S": s, "F": q * (s - 1), "FK": b * (s - 1), "DCS": b * (s - 1) + t}[Y]


def spec_tog(X, r, v, kw):
    b, rho = kw["<b_coh>^2"], kw["rho"]
    pos = r > 0
    out = np.ones_like(r, dtype=float)
    rr = np.where(pos, r, 1.0)
    if X == "g":
        return np.array(v, dtype=float)
    if X == "G":
        out[pos] = (v / (4 * np.pi * rho * rr) + 1)[pos]
    else:
        out[pos] = (v / b + 1)[pos]
    return out


def spec_from_g(Y, r, g, kw):
    b, rho = kw["<b_coh>^2"], kw["rho"]
    return {"g": g, "G": 4 * np.pi * rho * r * (g - 1), "GK": b * (g - 1)}[Y]


def slope(X, Y, x, kw, space):
    """dY/dX for x>0 (spec), computed independently of the code"""
    b, rho = kw["<b_coh>^2"], kw["rho"]
    if space == "R":
        dS = {"S": np.ones_like(x), "F": 1 / x, "FK": np.full_like(x, 1 / b), "DCS": np.full_like(x, 1 / b)}[X]
        dY = {"S": np.ones_like(x), "F": x, "FK": np.full_like(x, b), "DCS": np.full_like(x, b)}[Y]
    else:
        dS = {"g": np.ones_like(x), "G": 1 / (4 * np.pi * rho * x), "GK": np.full_like(x, 1 / b)}[X]
        dY = {"g": np.ones_like(x), "G": 4 * np.pi * rho * x, "GK": np.full_like(x, b)}[Y]
    return dS * dY


def gen_space(space, negative_bcoh=False):
    kinds = RK if space == "R" else GK

    def gen(rng, i, tier):
        n = int(rng.integers(1, 40 if tier == "quick" else 400)) + 1
        x, gk = grid(rng, n=n)
        r = rng.random()
        if r < 0.15:
            x[0] = 0.0
        elif r < 0.22:
            x[0] = 5e-324
        elif r < 0.29 and len(x) > 1:
            x[0] = min(float(10 ** rng.uniform(-12, -8.5)), x[1] / 2)   # a positive abscissa in other units (r in metres): still x > 0
        if rng.random() < 0.15 and len(x) > 3:
            # the conversions are pointwise: the abscissae need not be ascending (stacked datasets each starting at 0, descending grids)
            x = np.concatenate([x[len(x) // 2:], x[:len(x) // 2]]) if rng.random() < 0.5 else x[::-1].copy()
            gk = gk + "-unsorted"
        X = kinds[int(rng.integers(0, len(kinds)))]
        y, dk = data(rng, x, kind="ints" if rng.random() < 0.15 else None, base=BASE[X])
        if rng.random() < 0.05:
            # the function itself identically zero (g(r) = 0 below the first neighbour distance, an empty S(Q) block): the affine
            # conversions still subtract / add their constants
            y = np.zeros_like(y)
            dk = "all-zero"
        if rng.random() < 0.3:
            # reduced function exactly zero at some points (tails decayed to the baseline, zero crossings on grid points)
            y = y.copy()
            y[rng.random(len(y)) < 0.3] = BASE[X]
        dy = unc(rng, x)
        kw = material(rng, negative_bcoh=negative_bcoh)   # C03 quantifies over all <b_coh>^2 != 0 (partial weights c_i c_j b_i b_j can be negative); C04/C06 over <b_coh>^2 > 0
        # whole-number data may arrive in an integer array, signed or unsigned (counts, 0/1/2 step models): same values, same results
        int_inputs = bool(rng.random() < 0.6 and dk == "ints")
        int_dtype = str(rng.choice(["int64", "int32", "uint8", "uint16", "uint32", "uint64"])) if int_inputs else None
        if int_dtype and int_dtype.startswith("u"):
            y = np.abs(y)
        return dict(space=space, X=X, x=tolist(x), y=tolist(y), dy=tolist(dy), kw=kw, grid=gk, data=dk,
                    int_inputs=int_inputs, int_dtype=int_dtype)
    return gen


def evaluate_values(case):
    """C03 / C04: defining formulas, round trips, paths, conventional values at 0, finiteness"""
    space, X, kw = case["space"], case["X"], case["kw"]
    kinds = RK if space == "R" else GK
    x, y = arr(case["x"]), arr(case["y"])
    fails = []
    # formula / round-trip / path checks are made where products with x neither underflow nor overflow;
    # finiteness and the conventional values are checked everywhere (incl. x = 0 and subnormal x)
    pos = x > 1e-100
    nonpos = x <= 0
    under = (spec_toS if space == "R" else spec_tog)(X, x, y, kw)
    mk = spec_from_S if space == "R" else spec_from_g
    if case.get("int_inputs"):
        xs, ys = x, y.astype(case.get("int_dtype") or "int64")
    else:
        xs, ys = x, y
    with np.errstate(all="ignore"):
        for Y in kinds:
            if Y == X:
                continue
            guard_in = Unchanged(xs, ys)
            try:
                out, _u = conv(X, Y, xs, ys, None, kw)
                if guard_in.violated():
                    fails.append(f"{X}_to_{Y}: the call changes an array the caller passed in (a later conversion of the same array sees other data)")
                    return fails
                if isinstance(out, np.ndarray) and (np.shares_memory(out, xs) or np.shares_memory(out, ys)) and Y != X:
                    fails.append(f"{X}_to_{Y}: the returned array shares memory with an input array")
                    return fails
            except Exception as ex:  # noqa: BLE001
                fails.append(f"{X}_to_{Y}: raises {type(ex).__name__} on a {len(xs)}-point grid without uncertainties ({str(ex)[:60]})")
                continue
            # the value is a function of the abscissa and the function value alone: supplying uncertainties (some of them exactly 0, on bins
            # whose function value is exactly 0 as well — empty bins of a histogram) changes no value
            try:
                ys0 = np.array(ys, copy=True)
                ys0[::3] = 0
                dz = np.full(len(x), 0.03125)
                dz[::2] = 0.0
                o_none, _ = conv(X, Y, xs, ys0, None, kw)
                o_dz, _ = conv(X, Y, xs, ys0, dz, kw)
                if not np.array_equal(np.asarray(o_none, dtype=float), np.asarray(o_dz, dtype=float), equal_nan=True):
                    j = int(np.argmax(np.asarray(o_none, dtype=float) != np.asarray(o_dz, dtype=float)))
                    fails.append(f"{X}_to_{Y}: the value at x={float(x[j])!r} (function value {float(ys0[j])!r}) changes when uncertainties are supplied "
                                 f"(uncertainty {dz[j]!r} there): {float(np.asarray(o_none, dtype=float)[j])!r} without, {float(np.asarray(o_dz, dtype=float)[j])!r} with")
                    return fails
            except Exception as ex:  # noqa: BLE001
                fails.append(f"{X}_to_{Y}: raises {type(ex).__name__} when uncertainties with exact zeros are supplied")
                return fails
            kf = keyword_call_differs(impl.obj("Converter"), f"Converter.{X}_to_{Y}", [xs, ys, None], kw, (out, _u))
            if kf:
                fails.append(kf)
            x2 = confusable(np.sort(x))
            if x2 is not None and len(x) <= 200 and np.all(np.diff(x) > 0):
                if history_differs("Converter", f"{X}_to_{Y}", (xs, ys, None), kw, [(f"{X}_to_{Y}", (x2, ys, None), kw)]):
                    fails.append(f"{X}_to_{Y}: the result depends on calls the same Converter served before (a grid with the same length and end points)")
            if len(x) <= 200 and not case.get("int_inputs"):
                # the same array object served an earlier call with other contents (bin edges shifted to bin centres in place)
                if inplace_history_differs("Converter", f"{X}_to_{Y}", (xs, ys, None), kw, 0, np.asarray(xs, dtype=float) * 0.5 + 0.25):
                    fails.append(f"{X}_to_{Y}: the result depends on what the abscissa array held during an earlier call on the same "
                                 "Converter (the array was updated in place in between)")
            out = np.asarray(out, dtype=float)
            exp = mk(Y, x, under, kw)
            # finite wherever the exact value is representable (F/Q may honestly overflow for subnormal Q), and always at x <= 0
            if not np.isfinite(out[np.isfinite(exp) | nonpos]).all():
                fails.append(f"{X}_to_{Y}: non-finite output for finite input")
                continue
            e = relerr(out[pos], exp[pos], scale=max(1.0, float(np.abs(exp[pos]).max()) if pos.any() else 1.0,
                                                   float(np.abs(y).max()) / max(float(x[pos].min()) if pos.any() else 1.0, 1e-300)
                                                   if X in ("F", "G") else 1.0))
            if e > TOL:
                fails.append(f"{X}_to_{Y}: differs from defining formula for x>0 by {e:.3g}")
            # conventional values where x <= 0
            if nonpos.any():
                if Y in ("S", "g") and not np.all(out[nonpos] == 1.0):
                    fails.append(f"{X}_to_{Y}: value at x=0 is {out[nonpos][0]!r}, expected 1")
                if Y in ("FK", "GK") and X in ("S", "F", "g", "G") and not np.all(out[nonpos] == 0.0):
                    fails.append(f"{X}_to_{Y}: value at x=0 is {out[nonpos][0]!r}, expected 0")
                if Y == "G" and not np.all(out[nonpos] == 0.0):
                    fails.append(f"{X}_to_{Y}: value at x=0 is {out[nonpos][0]!r}, expected 0")
            # one abscissa for many values (a Python number, not an array): same as the array filled with that number
            if pos.any() and len(y) >= 2 and not case.get("int_inputs"):
                x1 = float(x[pos][0])
                try:
                    o1, _ = conv(X, Y, x1, y, None, kw)
                    oa, _ = conv(X, Y, np.full_like(y, x1), y, None, kw)
                    if np.asarray(o1).shape != np.asarray(oa).shape or not np.array_equal(np.asarray(o1, dtype=float), np.asarray(oa, dtype=float), equal_nan=True):
                        fails.append(f"{X}_to_{Y}: a scalar abscissa {x1!r} gives different values than the array filled with it")
                except Exception as ex:  # noqa: BLE001
                    fails.append(f"{X}_to_{Y}: a scalar abscissa raises {type(ex).__name__}")
            # the conversions are element-wise: the same numbers arranged as a 2-D block (frames x points) give the same values
            if len(x) >= 4 and len(x) % 2 == 0 and not case.get("int_inputs"):
                try:
                    o2, _ = conv(X, Y, x.reshape(2, -1), y.reshape(2, -1), None, kw)
                    if np.asarray(o2).shape != (2, len(x) // 2) or not np.array_equal(np.asarray(o2, dtype=float).ravel(), out if isinstance(out, np.ndarray) else np.asarray(out, dtype=float), equal_nan=True):
                        fails.append(f"{X}_to_{Y}: the same abscissae and values arranged as a 2 x {len(x) // 2} block give other values than as a vector")
                except Exception as ex:  # noqa: BLE001
                    fails.append(f"{X}_to_{Y}: a 2-D block of abscissae and values raises {type(ex).__name__}")
            # the conversions between Q[S-1] and F_K, and between G and G_K, are linear: data 10^14 times smaller (another unit, a weak
            # signal) give values 10^14 times smaller, digit for digit — no constant is added and subtracted on the way
            if (X in ("F", "FK") and Y in ("F", "FK")) or (X in ("G", "GK") and Y in ("G", "GK")):
                cs = 2.0 ** -47
                small, _ = conv(X, Y, x, y * cs, None, kw)
                small = np.asarray(small, dtype=float)
                ref_s = out * cs
                okp = pos & np.isfinite(ref_s)
                if okp.any() and np.abs(small - ref_s)[okp].max() > 1e-9 * np.abs(ref_s)[okp].max() + 1e-300:
                    j = int(np.argmax(np.abs(small - ref_s) * okp))
                    fails.append(f"{X}_to_{Y}: not linear in the data: values scaled by 2^-47 give {small[j]!r} at x={x[j]!r}, 2^-47 times the "
                                 f"unscaled result is {ref_s[j]!r}")
            # there and back
            back, _ = conv(Y, X, x, out, None, kw)
            sc = max(1.0, float(np.abs(y).max()))
            if pos.any() and relerr(np.asarray(back)[pos], y[pos], scale=sc * max(1.0, float(x[pos].max()) / float(x[pos].min()))) > 1e-8:
                fails.append(f"{X}_to_{Y} then {Y}_to_{X}: does not return the input (err {relerr(np.asarray(back)[pos], y[pos], scale=sc):.3g})")
            # two-step paths
            for Z in kinds:
                if Z in (X, Y):
                    continue
                direct, _ = conv(X, Z, x, y, None, kw)
                via, _ = conv(Y, Z, x, out, None, kw)
                d, v = np.asarray(direct)[pos], np.asarray(via)[pos]
                if pos.any() and relerr(d, v, scale=max(1.0, float(np.abs(d).max())) * max(1.0, float(x[pos].max()) / float(x[pos].min()))) > 1e-8:
                    fails.append(f"{X}->{Y}->{Z} differs from {X}->{Z}")
    return fails


def evaluate_unc(case):
    """C06: dY = |dY/dX| dX, value independence, None -> zeros, non-negativity, round trip"""
    space, X, kw = case["space"], case["X"], case["kw"]
    kinds = RK if space == "R" else GK
    x, y, dy = arr(case["x"]), arr(case["y"]), arr(case["dy"])
    fails = []
    pos = x > 1e-100
    with np.errstate(all="ignore"):
        for Y in kinds:
            if Y == X:
                continue
            guard_in = Unchanged(x, y, dy)
            v0, u0 = conv(X, Y, x, y, dy, kw)
            if guard_in.violated():
                fails.append(f"{X}_to_{Y}: the call changes an array the caller passed in (values or uncertainties)")
                return fails
            kf = keyword_call_differs(impl.obj("Converter"), f"Converter.{X}_to_{Y}", [x, y, dy], kw, (v0, u0))
            if kf:
                fails.append(kf)
            if u0 is None:
                fails.append(f"{X}_to_{Y}: uncertainty output is None" + (" when no uncertainty is supplied" if dy is None else ""))
                continue
            xc2 = confusable(np.sort(x))
            if xc2 is not None and len(x) <= 200 and np.all(np.diff(x) > 0) and dy is not None:
                if history_differs("Converter", f"{X}_to_{Y}", (x, y, dy), kw, [(f"{X}_to_{Y}", (xc2, y, dy), kw)]):
                    fails.append(f"{X}_to_{Y}: the uncertainty depends on calls the same Converter served before (a grid with the same length and end points)")
            u0 = np.asarray(u0, dtype=float)
            if u0.shape != y.shape:
                fails.append(f"{X}_to_{Y}: uncertainty has shape {u0.shape}, data {y.shape}")
                continue
            if dy is None:
                if not np.all(u0 == 0.0):
                    fails.append(f"{X}_to_{Y}: uncertainty not zero when none supplied")
                # ... whatever the function values are: a masked (NaN) or saturated (inf) bin has no uncertainty to propagate either
                yb = y.copy()
                yb[0] = np.nan
                yb[-1] = np.inf
                _, ub0 = conv(X, Y, x, yb, None, kw)
                if ub0 is None or np.asarray(ub0).shape != y.shape or not np.all(np.asarray(ub0, dtype=float) == 0.0):
                    fails.append(f"{X}_to_{Y}: uncertainty not zero when none supplied and the data hold a masked (NaN) or infinite value: "
                                 f"{np.asarray(ub0, dtype=float).tolist()[:4] if ub0 is not None else None}")
                continue
            exp = np.abs(slope(X, Y, np.where(pos, x, 1.0), kw, space)) * dy
            exp_all = np.abs(slope(X, Y, np.where(x > 0, x, 1.0), kw, space)) * dy
            if not np.isfinite(u0[np.isfinite(exp_all) | (x <= 0)]).all():
                fails.append(f"{X}_to_{Y}: non-finite uncertainty")
                continue
            usc = max(float(np.abs(exp[pos]).max()), 1e-300) if pos.any() else 1.0   # first-order propagation is homogeneous in dX
            if pos.any() and relerr(u0[pos], exp[pos], scale=usc) > TOL:
                fails.append(f"{X}_to_{Y}: uncertainty differs from |dY/dX|*dX by {relerr(u0[pos], exp[pos], scale=usc):.3g} of its scale")
            if (u0 < 0).any():
                fails.append(f"{X}_to_{Y}: negative uncertainty for non-negative input")
            y2 = y * 1.7 + 0.3 + np.arange(len(y))
            _, u1 = conv(X, Y, x, y2, dy, kw)
            if not np.array_equal(np.asarray(u1), u0):
                fails.append(f"{X}_to_{Y}: uncertainty depends on the function values")
            # ... nor on the container: the docstrings allow "numpy.array or list" for every argument
            try:
                _, ul = conv(X, Y, x, y, [float(t) for t in dy], kw)
                if np.asarray(ul).shape != u0.shape or not np.array_equal(np.asarray(ul, dtype=float), u0):
                    fails.append(f"{X}_to_{Y}: an uncertainty given as a list gives {np.asarray(ul, dtype=float).tolist()[:3]}, the same numbers as an "
                                 f"array {u0.tolist()[:3]}")
            except Exception as ex:  # noqa: BLE001
                fails.append(f"{X}_to_{Y}: an uncertainty given as a list raises {type(ex).__name__}")
            # the uncertainty must not depend on how equal numbers are stored: integer-typed counts vs the same values as floats
            di = np.rint(dy * 7).astype(np.int64)
            _, uf = conv(X, Y, x, y, di.astype(float), kw)
            _, ui = conv(X, Y, x, y, di, kw)
            if np.asarray(ui).shape != np.asarray(uf).shape or not np.allclose(np.asarray(ui, dtype=float), np.asarray(uf), rtol=1e-12, atol=0):
                fails.append(f"{X}_to_{Y}: integer-typed uncertainties give different (truncated) results than the same values as floats")
            # one error bar for all points, given as a number: where the library accepts it (several conversions broadcast it, the others raise)
            # what comes back is the propagation of the constant vector — for whole-number ordinates in an integer array as for floats
            cbar = 0.3125
            _, uvec = conv(X, Y, x, y, np.full(len(x), cbar), kw)
            for yy, what in ((y, "float"), (np.rint(y).astype(np.int64), "integer-typed")):
                try:
                    _, usc_ = conv(X, Y, x, yy, cbar, kw)
                except Exception:  # noqa: BLE001
                    continue        # a scalar is not a vector: rejecting it is outside the property
                usc_ = np.asarray(usc_, dtype=float)
                if usc_.shape not in ((), np.asarray(uvec).shape) or not np.allclose(np.broadcast_to(usc_, np.asarray(uvec).shape), np.asarray(uvec, dtype=float),
                                                                                   rtol=1e-12, atol=0, equal_nan=True):
                    fails.append(f"{X}_to_{Y}: a scalar uncertainty {cbar} with {what} function values is accepted and propagated to "
                                 f"{np.broadcast_to(usc_, np.asarray(uvec).shape).tolist()[:3] if usc_.shape in ((), np.asarray(uvec).shape) else usc_.shape}, the constant vector gives {np.asarray(uvec, dtype=float).tolist()[:3]}")
                    break
            _, ub = conv(Y, X, x, v0, u0, kw)
            if pos.any() and relerr(np.asarray(ub)[pos], dy[pos], scale=max(float(np.abs(dy[pos]).max()), 1e-300)) > 1e-8:
                fails.append(f"{X}_to_{Y} then back: uncertainty not restored")
    return fails
