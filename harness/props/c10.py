"""C10 — merging averages coincident Q points onto a sorted unique grid, in any order (real StoG)."""
import itertools, math
import numpy as np
import impl
from pystog import StoG
import stogcases as sc
from . import c11

LEAN = "PystogVerif.Props.C10"
# theorems about the code generated from stog.py by tools/translate_stog.py (built when these methods translate)
LEAN_GEN = "PystogVerif.Props.C10Gen"
STOG_METHODS = ['apply_scales_and_offset', 'merge_data']
ENTRIES = []
RULE = ("1-4 datasets with overlapping Q ranges on the 0.01 lattice (30% with raw abscissae off the lattice), per-dataset crops, "
        "scales, Q offsets that are and are not multiples of 0.01, optional global window; merge; all permutations of the add order; "
        "merge repeated; stored Q kept positive; non-trivial = at least two contributed points share a Q value")
DIST = ["nd", "offset", "repeated"]
SHRINK = None


def gen(rng, i, tier):
    c = c11.gen(rng, i, tier)
    c["repeated"] = False
    if rng.random() < 0.15 and not c.get("shared_info") and c.get("reject_at") is None and not c.get("via_file"):
        # the same measurement contributed twice (a file listed twice, two identical banks) next to a third that differs: every Q of
        # it then has two identical (S, dS) contributions and one other — the mean counts each contribution once
        d0 = c["datasets"][int(rng.integers(0, len(c["datasets"])))]
        twin = {k: (dict(v) if isinstance(v, dict) else list(v) if isinstance(v, list) else v) for k, v in d0.items()}
        other = {k: (dict(v) if isinstance(v, dict) else list(v) if isinstance(v, list) else v) for k, v in d0.items()}
        other["y"] = [float(v) + (1.0 if d0.get("int_y") else 0.7) for v in d0["y"]]    # whole-number ordinates stay whole numbers
        c["datasets"] += [twin, other]
        c["nd"] = len(c["datasets"])
        c["repeated"] = True
    need = False
    for d in c["datasets"]:
        off = d.get("X", {}).get("Offset", 0.0)
        lo = min(d["x"]) + off
        if lo <= 0.02:
            need = True
            if not c.get("shared_info"):
                d.setdefault("X", {})["Offset"] = 0.2
    if need and c.get("shared_info"):
        # one shared description: every dataset carries the same options
        for d in c["datasets"]:
            d["X"] = {"Offset": 0.2 - min(0.0, min(min(e["x"]) for e in c["datasets"]))}
    return c


def keys(q):
    return np.rint(np.asarray(q) * 100).astype(np.int64)


def evaluate(case):
    fails = []
    with np.errstate(all="ignore"):
        s, _ = c11.build(case)
    stored = s.sq_individuals.copy()
    # what the inputs contribute, recomputed independently of the ingestion code (crop, scale, offset, window, conversion)
    conv = impl.obj("Converter")
    with np.errstate(all="ignore"):
        rows = [sc.spec_ingest(d, case["qmin"], case["qmax"], case["bcoh"], case["btot"], conv)[1] for d in case["datasets"]]
    spec = np.concatenate(rows, axis=1) if rows else np.zeros((3, 0))
    spec[0] = np.around(spec[0], 2)
    if set(keys(spec[0]).tolist()) != set(keys(stored[0]).tolist()) or spec.shape[1] != stored.shape[1]:
        fails.append(f"the points that reach the merge ({stored.shape[1]}) are not the in-window points of the inputs ({spec.shape[1]}): "
                     "the merged grid cannot contain each input Q value")
        return fails
    if stored.shape[1] == 0:
        return fails
    # ... and what they contribute is their S(Q): the stored S(Q) points are the conversions of the in-window input points (as a multiset per Q)
    def canon(a):
        a = np.asarray(a, dtype=float)
        return a[:, np.lexsort((a[1], keys(a[0])))]
    cs, cp = canon(stored), canon(spec)
    fin = np.isfinite(cp[1]) & np.isfinite(cs[1])
    if not np.array_equal(np.isfinite(cp[1]), np.isfinite(cs[1])) or not np.allclose(cs[1][fin], cp[1][fin], rtol=1e-12, atol=1e-15):
        j = int(np.argmax(~np.isclose(cs[1], cp[1], rtol=1e-12, atol=1e-15, equal_nan=True)))
        fails.append(f"the S(Q) point contributed at Q={cs[0][j]!r} is {cs[1][j]!r}; the conversion of the input point to S(Q) is {cp[1][j]!r}: "
                     "the mean is taken over something else than the contributed S(Q) points")
        return fails
    s.merge_data()
    q0 = np.array(s.q_master[s.sq_title], dtype=float)
    v0 = np.array(s.sq_master[s.sq_title], dtype=float)
    if not np.all(np.diff(q0) > 0):
        fails.append("merged Q grid is not strictly increasing")
    k0 = keys(q0)
    if len(np.unique(k0)) != len(k0):
        j = int(np.argmax(np.diff(np.sort(k0)) == 0))
        fails.append(f"merged Q grid holds the 0.01-resolution value {np.sort(k0)[j] / 100:.2f} more than once "
                     f"({[repr(float(t)) for t in q0[k0 == np.sort(k0)[j]]]})")
    ks = keys(stored[0])
    if set(k0.tolist()) != set(ks.tolist()):
        fails.append("merged Q grid does not contain exactly the 0.01-resolution Q values of the inputs")
    if not fails:
        for kk, qv, vv in zip(k0, q0, v0):
            contrib = stored[1][ks == kk]
            mean = math.fsum(contrib.tolist()) / len(contrib)
            if qv > 0 and abs(vv - mean) > 1e-11 * max(1.0, abs(mean)):
                fails.append(f"merged S(Q={qv!r}) = {vv!r} is not the arithmetic mean {mean!r} of its {len(contrib)} contributions")
                break
            tolr = 1e-12 * max(1.0, float(np.abs(contrib).max()))     # the write-back S = Q(S-1)/Q + 1 rounds relative to the value
            if qv > 0 and not (contrib.min() - tolr <= vv <= contrib.max() + tolr):
                fails.append("merged value outside [min, max] of its contributions")
                break
    nd = len(case["datasets"])
    perms = itertools.permutations(range(nd))
    if case.get("via_file") == "all":
        perms = [tuple(range(nd))]          # the files are read in the order StoG.files lists them
    elif nd > 4:
        perms = itertools.islice(perms, 0, None, max(1, math.factorial(nd) // 24))   # 24 add orders spread over all nd! of them
    for perm in perms:
        with np.errstate(all="ignore"):
            s2, _ = c11.build(case, perm)
        if s2.sq_individuals.shape[1] == 0:
            fails.append(f"add order {perm}: nothing stored although the original order stores {stored.shape[1]} points")
            break
        s2.merge_data()
        q2, v2 = s2.q_master[s2.sq_title], s2.sq_master[s2.sq_title]
        if len(q2) != len(q0) or not np.array_equal(q2, q0) or not np.allclose(v2, v0, rtol=1e-12, atol=1e-14):
            fails.append(f"merged result depends on the add order (order {perm} vs {tuple(range(nd))})")
            break
    s.merge_data()
    if not (np.array_equal(s.q_master[s.sq_title], q0) and np.array_equal(s.sq_master[s.sq_title], v0)):
        fails.append("merging again without new data changes the result")
    # a merge between the adds (look at the intermediate result, then add more data) may not change the final merge:
    # every value is still the mean of ALL contributed points with that Q
    if nd >= 2:
        for cut in range(1, nd):
            with np.errstate(all="ignore"):
                s3 = StoG(**{"<b_coh>^2": case["bcoh"], "<b_tot^2>": case["btot"]})
                s3.qmin, s3.qmax = case["qmin"], case["qmax"]
                for k in range(nd):
                    if k == cut and s3.sq_individuals.shape[1] > 0:
                        s3.merge_data()
                    s3.add_dataset(sc.to_info(case["datasets"][k]))
                s3.merge_data()
            q3, v3 = s3.q_master[s3.sq_title], s3.sq_master[s3.sq_title]
            if len(q3) != len(q0) or not np.array_equal(q3, q0) or not np.allclose(v3, v0, rtol=1e-12, atol=1e-14):
                fails.append(f"merging after the first {cut} dataset(s) and again after adding the rest differs from one merge of all datasets "
                             "(a merged value is no longer the mean of all contributed points)")
                break
    return fails


def nontrivial(c):
    allq = np.concatenate([np.round(np.asarray(d["x"]) + d.get("X", {}).get("Offset", 0.0), 2) for d in c["datasets"]])
    return len(np.unique(allq)) < len(allq)


def correspond(seed, tier):
    import stogcorr
    return stogcorr.run(seed, tier, gen)


TRUSTED = ["lean/PystogVerif/Model/Stog.lean is a hand-written model of StoG.add_dataset / merge_data (modelled, not verified): tied to "
           "/repo only by the step-by-step correspondence run (bit-exact so far)",
           "np.around(x,d) modelled as rint(x*10^d)/10^d; sorted() modelled as a stable merge sort"]

DRIVERS = ["drvm"]
