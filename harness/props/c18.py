"""C18 — every written curve reads back as the curve that was in memory (real StoG writers / reader)."""
import contextlib, io, os, shutil, tempfile
from fractions import Fraction
import numpy as np
import impl, proto
from pystog import StoG
from gen import rng_for
from .common import tolist, exceeds

LEAN = "PystogVerif.Props.C18"
# theorems about the code generated from stog.py / cli.py by tools/translate_stog.py (built when these methods translate)
LEAN_GEN = "PystogVerif.Props.C18Gen"
STOG_METHODS = ['write_out_merged_sq', 'write_out_merged_gr', 'write_out_ft', 'write_out_ft_sq', 'write_out_ft_gr', 'write_out_lorched_gr', 'write_out_rmc_fq', 'write_out_rmc_gr', '_write_out_to_file']
ENTRIES = []
RULE = ("one of the 8 writers (default or explicit file name, random stem), curve length 0-300, magnitudes 1e-14..1e6 of both signs, "
        "-0.0, tiny negatives that round to -0.000000000000, half-way cases k+0.5 ulp of 1e-12; a second kind of case writes a merged "
        "S(Q) on the 0.01 lattice and feeds the file back in as a dataset; non-trivial = at least 2 rows")
DIST = ["kind", "writer", "explicit", "has_prior"]
SHRINK = None
TRUSTED = ["lean/PystogVerif/Model/Writer.lean is a hand-written model of _write_out_to_file and of the reader's text handling: tied to "
           "/repo by a byte-exact comparison of the files", "np.loadtxt's final decimal->nearest-double step is outside the model",
           "Python's format(x,'.12f') is correctly rounded (half-even on the exact binary value)"]

WRITERS = [("write_out_merged_sq", "q", "sq_title", "%s.sq"), ("write_out_merged_gr", "r", "gr_title", "%s.gr"),
           ("write_out_ft", "q", "_ft_title", "ft.dat"), ("write_out_ft_sq", "q", "sq_ft_title", "%s_ft.sq"),
           ("write_out_ft_gr", "r", "gr_ft_title", "%s_ft.gr"), ("write_out_lorched_gr", "r", "gr_lorch_title", "%s_ft_lorched.gr"),
           ("write_out_rmc_fq", "q", "fq_title", "%s_rmc.fq"), ("write_out_rmc_gr", "r", "GKofR_title", "%s_rmc.gr")]


def values(rng, n):
    kinds = rng.integers(0, 7, n)
    v = np.empty(n)
    for i, k in enumerate(kinds):
        if k == 0:
            v[i] = rng.normal() * 10 ** rng.uniform(-14, 6)
        elif k == 1:
            v[i] = -abs(rng.normal()) * 1e-14
        elif k == 2:
            v[i] = (int(rng.integers(-10**6, 10**6)) + 0.5) * 1e-12
        elif k == 3:
            v[i] = float(rng.choice([0.0, -0.0, 1.0, -1.0, 4096 + 6 * 2.0 ** -40, 123456.789]))
        elif k == 4:
            v[i] = np.round(rng.uniform(0, 40), 2)
        elif k == 5:
            v[i] = rng.uniform(4096, 8192) * rng.choice([-1, 1])
        else:
            v[i] = rng.integers(-1000, 1000) / 8.0
    return v


def gen(rng, i, tier):
    if i >= 0 and i % 70 == 11:
        # a long curve (Rmax = 100 at Rdelta = 0.01; Q beyond 80 on the 0.01 grid): more rows than any internal block
        n = int(rng.choice([8193, 10001, 16385, 20000]))
        w = int(rng.integers(0, len(WRITERS)))
        xs = np.round(np.arange(n) * 0.01, 2)
        return dict(kind="write", writer=WRITERS[w][0], w=w, x=tolist(xs), y=tolist(rng.normal(size=n)), prior=None, has_prior=False,
                    explicit=False, stem="long%d" % n, rsf="g(r)")
    if rng.random() < 0.75:
        n = int(rng.choice([0, 1, 2, 3, int(rng.integers(4, 60 if tier == "quick" else 300))]))
        w = int(rng.integers(0, len(WRITERS)))
        xs = values(rng, n)
        prior = None
        if n >= 3 and rng.random() < 0.3:
            # the same object wrote other curves just before: same length, same first and last abscissa, other interior points
            # (and one curve of another length), through the same writer or another one
            alt = xs.copy()
            alt[1:-1] = values(rng, n - 2)
            prior = [dict(w=int(w if rng.random() < 0.6 else rng.integers(0, len(WRITERS))), x=tolist(alt), y=tolist(values(rng, n))),
                     dict(w=int(rng.integers(0, len(WRITERS))), x=tolist(values(rng, n + 1)), y=tolist(values(rng, n + 1)))]
            if rng.random() < 0.5:
                prior = prior[::-1]
        return dict(kind="write", writer=WRITERS[w][0], w=w, x=tolist(xs), y=tolist(values(rng, n)), prior=prior, has_prior=prior is not None,
                    explicit=bool(rng.random() < 0.4),
                    stem=str(rng.choice(["s%d" % int(rng.integers(0, 10**6)), "run_1.5K", "sample.v1.2", "a.b", "x-y_z", "out."])),
                    rsf=str(rng.choice(["g(r)", "G(r)", "GK(r)"])))
    n = 1 if rng.random() < 0.2 else int(rng.integers(2, 40))
    q = np.round(int(rng.integers(5, 300)) / 100 + np.cumsum(rng.integers(1, 6, n)) / 100, 2)
    s = 1 + rng.normal(size=n) * 0.3
    if rng.random() < 0.25:
        # a merged grid whose first bin is Q = 0 (where the merged S(Q) is the conventional 1): that row is data like any other
        q = np.concatenate([[0.0], q])
        s = np.concatenate([[1.0], s])
    return dict(kind="reingest", writer="write_out_merged_sq", w=0, x=tolist(q), y=tolist(s), explicit=False, stem="r%d" % int(rng.integers(0, 10**6)), rsf="g(r)")


def write_file(case, d):
    st = StoG(**{"RealSpaceFunction": case["rsf"], "Outputs": {"StemName": case["stem"]}})
    meth, sp, title_attr, pat = WRITERS[case["w"]]
    title = getattr(st, title_attr)
    x, y = np.asarray(case["x"], dtype=float), np.asarray(case["y"], dtype=float)
    (st.q_master if sp == "q" else st.r_master)[title] = x
    (st.sq_master if sp == "q" else st.gr_master)[title] = y
    cwd = os.getcwd()
    os.chdir(d)
    try:
        for k, pr in enumerate(case.get("prior") or []):
            pm, psp, pta, _ = WRITERS[pr["w"]]
            pt = getattr(st, pta)
            (st.q_master if psp == "q" else st.r_master)[pt] = np.asarray(pr["x"], dtype=float)
            (st.sq_master if psp == "q" else st.gr_master)[pt] = np.asarray(pr["y"], dtype=float)
            getattr(st, pm)("prior%d.tmp" % k)
            os.remove("prior%d.tmp" % k)
        (st.q_master if sp == "q" else st.r_master)[title] = x
        (st.sq_master if sp == "q" else st.gr_master)[title] = y
        if case["explicit"]:
            name = "explicit_%s.dat" % meth
            getattr(st, meth)(name)
        else:
            name = pat % case["stem"] if "%s" in pat else pat
            getattr(st, meth)()
        produced = sorted(os.listdir(d))
        if not os.path.exists(os.path.join(d, name)):
            return name, produced, None
        return name, produced, open(os.path.join(d, name), "rb").read()
    finally:
        os.chdir(cwd)


def evaluate(case):
    fails = []
    d = tempfile.mkdtemp(prefix="verif_c18_")
    try:
        name, produced, raw = write_file(case, d)
        x, y = np.asarray(case["x"], dtype=float), np.asarray(case["y"], dtype=float)
        if produced != [name]:
            fails.append(f"{case['writer']} with stem {case['stem']!r}: files produced {produced}, expected exactly ['{name}']")
        if raw is None:
            return fails
        text = raw.decode()
        L = text.split("\n")
        if not (L[0] == "%d " % len(x) and L[1].startswith("#") and L[-1] == "" and len(L) - 3 == len(x)):
            fails.append(f"{case['writer']}: layout is not count line / comment line / exactly count rows (count {L[0]!r}, rows {len(L) - 3})")
            return fails
        for row, a, b in zip(L[2:-1], x, y):
            parts = row.split(" ")
            if len(parts) != 2:
                fails.append(f"row {row!r} does not hold two numbers")
                break
            for txt, v in zip(parts, (a, b)):
                if abs(Fraction(txt) - Fraction(float(v))) > Fraction(5, 10 ** 13):
                    fails.append(f"{case['writer']}: text {txt} differs from the stored value {float(v)!r} by more than 5e-13")
                    break
            else:
                continue
            break
        if len(x) >= 1:
            try:
                back = np.loadtxt(os.path.join(d, name), skiprows=2, comments="#", unpack=True, ndmin=2)
                for col, v in zip(back, (x, y)):
                    diff = np.abs(col - v)
                    bad = diff > 5.0000001e-13  # candidates; judged exactly below
                    if bad.any():
                        # exact judgement (rationals): how far is the parsed double from the stored double?
                        ex = [abs(Fraction(float(a)) - Fraction(float(b))) for a, b in zip(col[bad], v[bad])]
                        over = [(d, float(b)) for d, b in zip(ex, v[bad]) if d > Fraction(5, 10 ** 13)]
                        if not over:
                            continue
                        k = int(np.argmax(bad))
                        if all(4096 <= abs(b) < 8192 and d <= Fraction(float(np.spacing(abs(b)))) for d, b in over):
                            fails.append("re-parsed value is one ulp (9.09e-13 > 5e-13) away from the stored one for 4096 <= |v| < 8192 "
                                         "(the 12-decimal text is within 5e-13, but its nearest double is the neighbour)")
                        elif all(d <= Fraction(5, 10 ** 13) + Fraction(float(np.spacing(abs(b)))) / 2 for d, b in over):
                            fails.append("re-parsed value exceeds 5e-13 by less than half an ulp of the stored value: the 12-decimal text is a "
                                         "(near-)tie exactly 5e-13 away and its nearest double lies on the far side "
                                         f"(e.g. stored {over[0][1]!r}, excess {float(over[0][0] - Fraction(5, 10 ** 13)):.3g})")
                        else:
                            fails.append(f"{case['writer']}: parsed value {col[k]!r} differs from the stored {v[k]!r} by {diff[k]:.3g} > 5e-13")
            except Exception as ex:  # noqa: BLE001
                fails.append(f"reading the file back raises {type(ex).__name__}: {ex}")
        if case["kind"] == "reingest":
            import stogcases as _sc
            _sc.decoy_instances()
            st2 = StoG()
            with contextlib.redirect_stdout(io.StringIO()):
                try:
                    st2.read_dataset({"Filename": os.path.join(d, name), "ReciprocalFunction": "S(Q)"})
                    st2.merge_data()
                    q2, s2 = st2.q_master[st2.sq_title], st2.sq_master[st2.sq_title]
                    if len(q2) != len(x) or exceeds(np.abs(q2 - x).max(), 1e-12) or exceeds(np.abs(s2 - y).max(), 5e-12):
                        fails.append("feeding the written S(Q) back in does not reproduce the merged grid and values")
                    elif len(x) >= 2:
                        # the same Files entry (dictionary) read again after the file it names was written anew with another curve
                        entry = {"Filename": os.path.join(d, name), "ReciprocalFunction": "S(Q)"}
                        sta = StoG()
                        sta.read_dataset(entry)
                        stw = StoG(**{"Outputs": {"StemName": case["stem"]}})
                        stw.q_master[stw.sq_title] = x
                        stw.sq_master[stw.sq_title] = y * 0.5 + 0.25
                        cwd2 = os.getcwd()
                        os.chdir(d)
                        try:
                            stw.write_out_merged_sq(name)
                        finally:
                            os.chdir(cwd2)
                        stb = StoG()
                        stb.read_dataset(entry)
                        stb.merge_data()
                        pos18 = x > 0          # at Q = 0 the merged S(Q) is the conventional 1 whatever was read
                        if len(stb.sq_master[stb.sq_title]) != len(x) or exceeds(np.abs(stb.sq_master[stb.sq_title] - (y * 0.5 + 0.25))[pos18].max(initial=0.0), 5e-12):
                            fails.append("a Files entry that was read once returns the old curve after the file it names was rewritten (the re-read does not look at the file)")
                except Exception as ex:  # noqa: BLE001
                    fails.append(f"feeding a written {len(x)}-row S(Q) file back in as a dataset raises {type(ex).__name__}: {str(ex)[:80]}")
    finally:
        shutil.rmtree(d, ignore_errors=True)
    if not fails and len(case["x"]) % 4 == 1:
        fails += refilter_writes(len(case["x"]))
    return fails


def refilter_writes(n):
    """the files of the Fourier-filter step are written by every call of the step: the same object asked to filter again under another stem name
    (same data, same options; the earlier files moved away) produces the same set of files under the new name, and they hold the stored curves"""
    import contextlib, io
    fails = []
    d = tempfile.mkdtemp(prefix="verif_c18f_")
    cwd = os.getcwd()
    os.chdir(d)
    try:
        q = np.round(np.linspace(0.4, 9.0 + (n % 7), 30 + n % 11), 2)
        sq = 1.0 + 0.3 * np.sin(q * (2.0 + 0.01 * (n % 13))) * np.exp(-0.1 * q)
        st = StoG(**{"RealSpaceFunction": ["g(r)", "G(r)", "GK(r)"][n % 3], "Rmin": 0.1, "Rmax": 5.0, "Rdelta": 0.1, "NumberDensity": 0.05,
                    "<b_coh>^2": 2.0, "<b_tot^2>": 3.0, "FourierFilter": {"Cutoff": 1.2}, "Outputs": {"StemName": "first"}})
        st.q_master[st.sq_title] = q
        st.sq_master[st.sq_title] = sq
        with contextlib.redirect_stdout(io.StringIO()), np.errstate(all="ignore"):
            st.transform_merged()
            before = set(os.listdir(d))
            st.fourier_filter()
            made1 = sorted(set(os.listdir(d)) - before)
            for f in os.listdir(d):
                os.remove(f)
            st.stem_name = "second"
            st.fourier_filter()
        made2 = sorted(os.listdir(d))
        want = sorted(f.replace("first", "second") for f in made1)
        if made2 != want:
            fails.append(f"fourier_filter() called again on the same object under stem 'second' (first call wrote {made1}; those files were removed): "
                         f"files written {made2}, expected {want}")
        else:
            for f, (xs, ys) in (("second_ft.sq", (st.q_master.get(st.sq_ft_title), st.sq_master.get(st.sq_ft_title))),
                                ("second_ft.gr", (st.r_master.get(st.gr_ft_title), st.gr_master.get(st.gr_ft_title)))):
                if f in made2 and xs is not None:
                    rows = open(f).read().split("\n")[2:-1]
                    if len(rows) != len(xs):
                        fails.append(f"{f}: {len(rows)} rows for a stored curve of {len(xs)} points")
                    elif len(rows) and exceeds(np.abs(np.array([float(t.split()[1]) for t in rows]) - np.asarray(ys, dtype=float)).max(), 1e-9):
                        fails.append(f"{f}: does not hold the stored curve")
    except Exception as ex:  # noqa: BLE001
        fails.append(f"fourier_filter() twice on one object raises {type(ex).__name__}: {str(ex)[:80]}")
    finally:
        os.chdir(cwd)
        shutil.rmtree(d, ignore_errors=True)
    return fails


def nontrivial(c):
    return len(c["x"]) >= 2


def correspond(seed, tier):
    n = 60 if tier == "quick" else 600
    lines, expect, cases = [], {}, {}
    dist = {"writers": {}, "rows": 0, "generated_code_twins": 0}
    twin = "GenStog.fileText" in proto.gen_entries()   # the text function regenerated from _write_out_to_file, at the same inputs
    for i in range(n):
        c = gen(rng_for(seed, "corr18", i), i, tier)
        m = min(len(c["x"]), len(c["y"]))
        d = tempfile.mkdtemp(prefix="verif_c18_")
        try:
            name, produced, raw = write_file(c, d)
        finally:
            shutil.rmtree(d, ignore_errors=True)
        if raw is None:
            expect[f"w{i}"] = b"<file %s not written; produced %s>" % (name.encode(), str(produced).encode())
            lines.append(proto.request(f"w{i}", "Model.fileText", {}, [np.asarray(c["x"], dtype=float), np.asarray(c["y"], dtype=float)]))
            lines.append(proto.request(f"w{i}r", "Model.readBack", {}, [np.asarray(c["x"], dtype=float), np.asarray(c["y"], dtype=float)]))
            cases[f"w{i}"] = (np.asarray(c["x"], dtype=float), np.asarray(c["y"], dtype=float))
            continue
        rid = f"w{i}"
        x, y = np.asarray(c["x"], dtype=float), np.asarray(c["y"], dtype=float)
        lines.append(proto.request(rid, "Model.fileText", {}, [x, y]))
        lines.append(proto.request(rid + "r", "Model.readBack", {}, [x, y]))
        expect[rid] = raw
        cases[rid] = (x, y)
        if twin:
            lines.append(proto.request("g" + rid, "GenStog.fileText", {}, [x, y]))
            expect["g" + rid] = raw
            dist["generated_code_twins"] += 1
        dist["writers"][c["writer"]] = dist["writers"].get(c["writer"], 0) + 1
        dist["rows"] += m
    res = proto.run_model(lines)
    dis = []
    for rid, raw in expect.items():
        st, out = res.get(rid, ("err", "no-response"))
        if st != "ok":
            dis.append(dict(id=rid, kind="status", model=str(out)[:200]))
            continue
        model_bytes = bytes(int(v) for v in out[0])
        if model_bytes != raw:
            k = next((j for j, (a, b) in enumerate(zip(model_bytes, raw)) if a != b), min(len(model_bytes), len(raw)))
            dis.append(dict(id=rid, kind="bytes", at=k, impl=raw[max(0, k - 20):k + 20].decode(errors="replace"),
                            model=model_bytes[max(0, k - 20):k + 20].decode(errors="replace")))
            continue
        if rid.startswith("g"):
            continue
        # the model's reader returns, exactly, round-half-even(|v| 1e12) for every written number
        st, out = res.get(rid + "r", ("err", "no-response"))
        x, y = cases[rid]
        if st != "ok":
            dis.append(dict(id=rid, kind="readback-status", model=str(out)[:200]))
            continue
        for col, v in zip(out, (x, y)):
            t = np.asarray(col).reshape(-1, 3) if len(col) else np.zeros((0, 3))
            for (s, ip, fp), val in zip(t, v[:len(t)]):
                got = Fraction(int(ip) * 10 ** 12 + int(fp), 10 ** 12) * (-1 if s == 1.0 else 1)
                if s < 0 or abs(got - Fraction(float(val))) > Fraction(5, 10 ** 13):
                    dis.append(dict(id=rid, kind="readback-value", value=float(val), got=str(got)))
                    break
    return dict(evaluations=len(expect), disagreements=dis, worst_ratio=0.0, distribution=dist, samples=[], cases={})

DRIVERS = ["drvp"]   # plus drvs (generated code), built by the check when the writers translate
