"""C19 — configuration reaches the workflow intact; optional keys mean their defaults; CLI = library (real code)."""
import contextlib, copy, io, os, shutil, tempfile
import numpy as np
import impl, proto, compare
from pystog import StoG
from pystog.cli import pystog_cli
from pystog.io import get_cli_parser, parse_cli_args
from gen import rng_for

LEAN = "PystogVerif.Props.C19"
# theorems about the code generated from stog.py / cli.py by tools/translate_stog.py (built when these methods translate)
LEAN_GEN = "PystogVerif.Props.C19Gen"
STOG_METHODS = ['parse_cli_args', '__init__', '__kwargs2attr', 'set_rmin', 'set_rmax', 'set_rdelta', 'set_low_q_correction', 'set_lorch_flag', 'set_real_space_function', 'create_domain', '__update_dr', 'apply_scales_and_offset', 'merge_data', 'transform_merged', 'fourier_filter', 'apply_lorch', '_add_keen_fq', '_add_keen_gr', 'cli_workflow', 'write_out_merged_sq', 'write_out_merged_gr', 'write_out_ft', 'write_out_ft_sq', 'write_out_ft_gr', 'write_out_lorched_gr', 'write_out_rmc_fq', 'write_out_rmc_gr']
ENTRIES = []
RULE = ("the present/absent subset of the 11 optional keys is enumerated by case index (2^11 subsets over the thorough tier, 150 in quick), "
        "values random (real-space function x Lorch x low-Q correction x filter cutoff x Rdelta|Rpoints x 1-2 input files); 15% of cases carry "
        "one invalid value (unknown RealSpaceFunction / ReciprocalFunction, non-bool LorchFlag or OmittedXrangeCorrection); 20% use the flag "
        "form through the real argument parser; every case runs pystog_cli in a temporary directory and compares the files byte for byte "
        "with (i) the same kwargs with every omitted optional key filled with its default and (ii) a direct library drive; "
        "non-trivial = at least one optional key absent and one present")
DIST = ["form", "invalid", "rsf", "filter", "lorch", "step"]
SHRINK = None
TRUSTED = ["lean/PystogVerif/Model/Config.lean is a hand-written model of parse_cli_args / __kwargs2attr / create_domain / cli sequencing, "
           "tied to /repo by the correspondence (attributes after construction, r grid bit for bit, list of files written by pystog_cli)"]
RSF = ["g(r)", "G(r)", "GK(r)"]
STEMS = ["out", "merged", "abc", "run7", "run_1.5K", "sample.v1.2"]
DEFAULTS = {"RealSpaceFunction": "g(r)", "Rmin": 0.0, "Rdelta": 0.01, "NumberDensity": 1.0, "OmittedXrangeCorrection": False,
            "LorchFlag": False, "<b_coh>^2": 1.0, "<b_tot^2>": 1.0, "Merging": {"Y": {"Offset": 0.0, "Scale": 1.0}},
            "Outputs": {"StemName": "out"}, "FourierFilter": {}}
OPT = list(DEFAULTS)


def gen(rng, i, tier):
    # all 2^11 subsets are enumerated over 2048 consecutive indices; the odd multiplier spreads them so that a short run
    # (quick tier: 150 indices) already mixes every key, the high bits (FourierFilter, Outputs, Merging) included
    bits = ((i * 1237 + 911) if i >= 0 else int(rng.integers(0, 2 ** 11))) % (2 ** 11)
    present = [k for j, k in enumerate(OPT) if (bits >> j) & 1]
    kw = {"Rmax": float(rng.choice([1.0, 1.5]))}
    for k in present:
        v = copy.deepcopy(DEFAULTS[k])
        if rng.random() < 0.6:
            if k == "RealSpaceFunction":
                v = str(rng.choice(RSF))
            elif k == "Rdelta":
                v = float(rng.choice([0.05, 0.1, 0.25]))
            elif isinstance(v, bool):
                v = bool(rng.random() < 0.5)
            elif k == "Rmin":
                v = float(rng.choice([0.0, 0.1, 0.25, 0.05]))
            elif isinstance(v, float):
                v = float(rng.uniform(0.05, 3))
            elif k == "Merging":
                v = {"Y": {"Offset": float(rng.uniform(-0.2, 0.2)), "Scale": float(rng.uniform(0.8, 1.2))}}
                if rng.random() < 0.5:
                    v["Transform"] = {"Qmin": 0.6, "Qmax": 5.0}
                if rng.random() < 0.4:
                    v = {"Y": {"Scale": 1.1}} if rng.random() < 0.5 else {}
            elif k == "Outputs":
                v = {"StemName": str(rng.choice(STEMS))}
            elif k == "FourierFilter":
                v = {"Cutoff": float(rng.uniform(0.3, 0.7))}
        kw[k] = v
    if "Cutoff" in kw.get("FourierFilter", {}) and kw.get("Rmin", 0.0) > 0 and rng.random() < 0.5:
        kw["FourierFilter"]["Cutoff"] = kw["Rmin"]     # the filter window holds exactly the first r point: still a filter run
    nostep = False
    if "Rdelta" not in kw:
        if rng.random() < 0.3:
            nostep = True      # neither Rdelta nor Rpoints: the step is the default 0.01 and the grid must still follow Rmin/Rmax
        else:
            kw["Rpoints" if rng.random() < 0.7 else "Rdelta"] = 10 if "Rdelta" not in kw and rng.random() < 2 else 0.1
            if "Rdelta" in kw:
                kw["Rdelta"] = 0.1
    invalid = None
    if rng.random() < 0.15:
        invalid = str(rng.choice(["rsf", "recip", "lorch", "lowq"]))
        if invalid == "rsf":
            kw["RealSpaceFunction"] = str(rng.choice(["Gk(r)", "G", "(r)", "g(r), G(r)", "", "K(r)", "g(r) "]))
        elif invalid == "lorch":
            kw["LorchFlag"] = 1
        elif invalid == "lowq":
            kw["OmittedXrangeCorrection"] = "yes"
    nfiles = int(rng.integers(1, 3))
    form = "flags" if (invalid is None and not nostep and rng.random() < 0.2) else "json"
    return dict(kw=kw, nfiles=nfiles, invalid=invalid, form=form, seed=int(rng.integers(0, 2 ** 31)),
                rsf=kw.get("RealSpaceFunction", "-"), filter="Cutoff" in kw.get("FourierFilter", {}), lorch=kw.get("LorchFlag", "-"),
                absent=[k for k in OPT if k not in kw], step="Rdelta" if "Rdelta" in kw else "Rpoints" if "Rpoints" in kw else "none")


def file_q(case, j):
    """Q grid of input file j (one case in four: the first file starts at Q = 0 exactly)"""
    if j == 0 and case["seed"] % 4 == 0:
        return np.round(np.arange(0.0, 6.0, 0.1), 2)
    return np.round(np.arange(0.4 + 0.05 * j, 6.0, 0.1), 2)


@contextlib.contextmanager
def workdir(case):
    d = tempfile.mkdtemp(prefix="verif_c19_")
    cwd = os.getcwd()
    os.chdir(d)
    r = np.random.default_rng(case["seed"])
    names = []
    for j in range(case["nfiles"]):
        q = file_q(case, j)
        with np.errstate(all="ignore"):
            s = 1 + np.sin(2.2 * q) / (2.2 * q) + r.normal(size=len(q)) * 0.01
        s[q == 0] = 0.35      # a measured (extrapolated) S(0), not the conventional 1
        if case["seed"] % 3 == 0:
            q, s = q[::-1], s[::-1]      # rows listed from high Q to low Q (time-of-flight order): the same data
        with open(f"in{j}.dat", "w") as f:
            f.write("%d\n# Q S(Q)\n" % len(q))
            for a, b in zip(q, s):
                f.write("%.6f %.8f\n" % (a, b))
        names.append(f"in{j}.dat")
    try:
        yield d, names
    finally:
        os.chdir(cwd)
        shutil.rmtree(d, ignore_errors=True)


def files_of(case, names):
    fs = [{"Filename": n, "ReciprocalFunction": "S(Q)", "Qmin": 0.5, "Qmax": 5.5} for n in names]
    if case["seed"] % 2 == 0:
        for f in fs:
            f.pop("Qmin")  # the per-dataset window is optional: the whole file is used, including its first data row
    if case["seed"] % 5 in (0, 1):
        for f in fs:
            f.pop("Qmax")  # ... and its last
    if case["seed"] % 7 in (0, 3):
        for f in fs:
            f["X"] = {"Offset": 0.3}      # a per-file Q offset: the merged curve lives on the shifted Q axis
    if case["invalid"] == "recip":
        bad = ["F(Q)", "S(Q)-1", "[S(Q)-1]", "CS(Q)", "K(Q)", "(Q)", "Q", "", "s(q)", "S(Q) ", "S(Q), Q[S(Q)-1]", "FK(Q), DCS(Q)"]
        fs[0]["ReciprocalFunction"] = bad[case["seed"] % len(bad)]
    return fs


def snapshot(d):
    return {f: open(os.path.join(d, f), "rb").read() for f in sorted(os.listdir(d)) if not f.startswith("in")}


def clear(d):
    for f in os.listdir(d):
        if not f.startswith("in"):
            os.remove(os.path.join(d, f))


def run(fn, *a):
    with contextlib.redirect_stdout(io.StringIO()), np.errstate(all="ignore"):
        try:
            fn(*a)
            return None
        except BaseException as ex:  # noqa: BLE001
            return f"{type(ex).__name__}: {str(ex)[:80]}"


def lib_drive(kw):
    st = StoG(**kw)
    st.read_all_data()
    st.merge_data()
    st.write_out_merged_sq()
    st.transform_merged()
    st.write_out_merged_gr()
    r, q, sq, g = st.r_master[st.gr_title], st.q_master[st.sq_title], st.sq_master[st.sq_title], st.gr_master[st.gr_title]
    if st.fourier_filter_cutoff is not None:
        q, sq, r, g = st.fourier_filter()
    if st.lorch_flag:
        r, g = st.apply_lorch(q, sq, r)
    st._add_keen_fq(q, sq)
    st._add_keen_gr(r, g)


def flags_of(case, names):
    kw = case["kw"]
    argv = []
    for n in names:
        argv += ["-f", n, "0.5" if case["seed"] % 2 else "0.0", "5.5", "0.0", "1.0", "0.0", "S(Q)"]
    if "NumberDensity" in kw:
        argv += ["--density", repr(kw["NumberDensity"])]
    if "Outputs" in kw:
        argv += ["--stem-name", kw["Outputs"]["StemName"]]
    if "RealSpaceFunction" in kw:
        argv += ["--real-space-function", kw["RealSpaceFunction"]]
    argv += ["--Rmax", repr(kw["Rmax"])]
    if "Rdelta" in kw:
        argv += ["--Rdelta", repr(kw["Rdelta"])]
    else:
        argv += ["--Rpoints", str(kw.get("Rpoints", 10))]
    if "Cutoff" in kw.get("FourierFilter", {}):
        argv += ["--fourier-filter-cutoff", repr(kw["FourierFilter"]["Cutoff"])]
    if kw.get("LorchFlag") is True:
        argv += ["--lorch-flag"]
    if "<b_coh>^2" in kw:
        argv += ["--bcoh_sqrd", repr(kw["<b_coh>^2"])]
    if "<b_tot^2>" in kw:
        argv += ["--btot_sqrd", repr(kw["<b_tot^2>"])]
    if kw.get("OmittedXrangeCorrection") is True:
        argv += ["--low-q-correction"]
    return argv


def flag_equivalent_kwargs(case, names):
    """the settings the flag form documents: parser defaults for what is not given"""
    kw = case["kw"]
    out = {"Files": [{"Filename": n, "Qmin": 0.5 if case["seed"] % 2 else 0.0, "Qmax": 5.5, "Y": {"Offset": 0.0, "Scale": 1.0}, "X": {"Offset": 0.0},
                      "ReciprocalFunction": "S(Q)"} for n in names],
           "Rmax": kw["Rmax"], "Outputs": {"StemName": kw.get("Outputs", {"StemName": "merged"})["StemName"]},
           "RealSpaceFunction": kw.get("RealSpaceFunction", "g(r)"), "LorchFlag": kw.get("LorchFlag") is True,
           "OmittedXrangeCorrection": kw.get("OmittedXrangeCorrection") is True,
           "<b_coh>^2": kw.get("<b_coh>^2", 1.0), "<b_tot^2>": kw.get("<b_tot^2>", 1.0),
           "Merging": {"Y": {"Offset": 0.0, "Scale": 1.0}}}
    if "NumberDensity" in kw:
        out["NumberDensity"] = kw["NumberDensity"]
    if "Rdelta" in kw:
        out["Rdelta"] = kw["Rdelta"]
    else:
        out["Rpoints"] = kw.get("Rpoints", 10)
    if "Cutoff" in kw.get("FourierFilter", {}):
        out["FourierFilter"] = {"Cutoff": kw["FourierFilter"]["Cutoff"]}
    return out


def evaluate(case):
    fails = []
    kw0 = case["kw"]
    with workdir(case) as (d, names):
        if case["form"] == "flags":
            argv = flags_of(case, names)
            kwf = parse_cli_args(get_cli_parser().parse_args(argv))
            e1 = run(pystog_cli, copy.deepcopy(kwf))
            s1 = snapshot(d)
            clear(d)
            e2 = run(lib_drive, flag_equivalent_kwargs(case, names))
            s2 = snapshot(d)
            if e1 is not None:
                fails.append(f"flag form {' '.join(a for a in argv if not a.startswith('in'))[:120]}: pystog_cli raises {e1}")
            elif e2 is None and s1 != s2:
                fails.append(f"flag form: files differ from driving the library with the same settings ({sorted(set(s1) ^ set(s2)) or 'contents'})")
            return fails
        kw = copy.deepcopy(kw0)
        kw["Files"] = files_of(case, names)
        # (a) attributes after construction
        try:
            st = StoG(**copy.deepcopy(kw))
            ctor_err = None
        except (ValueError, TypeError) as ex:
            ctor_err = type(ex).__name__
            st = None
        if case["invalid"] in ("rsf", "lorch", "lowq"):
            if ctor_err is None:
                fails.append(f"invalid {case['invalid']} value accepted silently at construction")
            return fails
        if ctor_err is not None:
            return [f"valid configuration rejected at construction: {ctor_err}"]
        exp = {"real_space_function": kw.get("RealSpaceFunction", "g(r)"), "rmin": kw.get("Rmin", 0.0), "rmax": kw["Rmax"],
               "rdelta": kw["Rdelta"] if "Rdelta" in kw else (kw["Rmax"] / kw["Rpoints"] if "Rpoints" in kw else 0.01),
               "density": kw.get("NumberDensity", 1.0), "low_q_correction": kw.get("OmittedXrangeCorrection", False),
               "lorch_flag": kw.get("LorchFlag", False), "bcoh_sqrd": kw.get("<b_coh>^2", 1.0), "btot_sqrd": kw.get("<b_tot^2>", 1.0),
               "fourier_filter_cutoff": kw.get("FourierFilter", {}).get("Cutoff"),
               "stem_name": kw.get("Outputs", {}).get("StemName", "out"),
               "qmin": kw.get("Merging", {}).get("Transform", {}).get("Qmin"), "qmax": kw.get("Merging", {}).get("Transform", {}).get("Qmax")}
        for a, v in exp.items():
            if getattr(st, a) != v:
                fails.append(f"option for '{a}' does not reach the StoG setting: {getattr(st, a)!r} instead of {v!r}")
        dr = np.asarray(st.dr, dtype=float)
        if not (dr[0] == exp["rmin"] and np.abs(np.diff(dr) - exp["rdelta"]).max(initial=0.0) < 1e-9 and dr[-1] >= exp["rmax"] - 1e-9):
            fails.append(f"r grid does not start at Rmin with step {exp['rdelta']} and cover Rmax (first {dr[0]}, last {dr[-1]})")
        if fails:
            return fails
        # (b) CLI run; (c) same with every omitted optional key filled with its default; (d) library drive
        e1 = run(pystog_cli, copy.deepcopy(kw))
        s1 = snapshot(d)
        clear(d)
        if case["invalid"] == "recip":
            if e1 is None:
                fails.append("invalid ReciprocalFunction accepted silently")
            return fails
        full = copy.deepcopy(kw)
        for k, v in DEFAULTS.items():
            if k == "Rdelta" and ("Rdelta" in full or "Rpoints" in full):
                continue
            full.setdefault(k, copy.deepcopy(v))
        # the documented defaults inside the "Merging" block: S(Q)-level and Q[S(Q)-1]-level scale 1 and offset 0
        if isinstance(full.get("Merging"), dict):
            full["Merging"].setdefault("Y", {"Offset": 0.0, "Scale": 1.0})
            full["Merging"].setdefault("Q[S(Q)-1]", {"Y": {"Offset": 0.0, "Scale": 1.0}})
            for blk in (full["Merging"]["Y"], full["Merging"]["Q[S(Q)-1]"].setdefault("Y", {})):
                blk.setdefault("Offset", 0.0)
                blk.setdefault("Scale", 1.0)
        for j, f in enumerate(full["Files"]):
            # the default of an omitted per-file window bound is the data range of that file
            qj = file_q(case, j)
            f.setdefault("Qmin", float(qj.min()))
            f.setdefault("Qmax", float(qj.max()))
        e2 = run(pystog_cli, full)
        s2 = snapshot(d)
        clear(d)
        e3 = run(lib_drive, copy.deepcopy(kw))
        s3 = snapshot(d)
        clear(d)
        # the configuration is the caller's: running it leaves it as it was, and running the very same dictionary again gives the same files
        shared = copy.deepcopy(kw)
        ea = run(pystog_cli, shared)
        sa = snapshot(d)
        clear(d)
        eb = run(pystog_cli, shared)
        sb = snapshot(d)
        clear(d)
        if ea is None and (eb is not None or sa != sb):
            fails.append("running pystog_cli twice with the same configuration dictionary gives different results the second time "
                         f"({eb or sorted(set(sa) ^ set(sb)) or 'file contents differ'}): the first run changed the caller's configuration")
        if e1 is not None and e2 is None:
            fails.append(f"omitting optional keys {case['absent']} makes pystog_cli raise {e1}; with their defaults supplied it runs")
        elif e1 is None and e2 is None and s1 != s2:
            fails.append(f"omitting optional keys {case['absent']} changes the output ({sorted(set(s1) ^ set(s2)) or 'file contents differ'})")
        # (e) "driving the library": the written real-space file is what the Transformer gives on the written merged S(Q) — every merged
        # point, with the settings of the configuration (the 12-decimal text of S(Q) limits the agreement to ~1e-9 of scale)
        stem = kw.get("Outputs", {}).get("StemName", "out")
        if e1 is None and stem + ".sq" in s1 and stem + ".gr" in s1:
            try:
                qs = np.loadtxt(io.BytesIO(s1[stem + ".sq"]), skiprows=2, ndmin=2)
                rg = np.loadtxt(io.BytesIO(s1[stem + ".gr"]), skiprows=2, ndmin=2)
                X = {"g(r)": "g", "G(r)": "G", "GK(r)": "GK"}[kw.get("RealSpaceFunction", "g(r)")]
                # the initial transform of the workflow is the plain one (C12: lorch off, no low-Q term; those belong to the later steps)
                tkw = {"rho": kw.get("NumberDensity", 1.0), "<b_coh>^2": kw.get("<b_coh>^2", 1.0), "lorch": False}
                from pystog import Transformer as _T
                with np.errstate(all="ignore"):
                    _, gref, _ = getattr(_T(), f"S_to_{X}")(qs[:, 0], qs[:, 1], rg[:, 0], **tkw)
                gref = np.asarray(gref, dtype=float)
                okf = np.isfinite(gref) & np.isfinite(rg[:, 1])
                scg = max(1.0, float(np.abs(gref[okf]).max(initial=0.0)))
                if gref.shape != rg[:, 1].shape or np.abs(gref - rg[:, 1])[okf].max(initial=0.0) > 1e-7 * scg:
                    fails.append(f"{stem}.gr is not Transformer.S_to_{X} of the merged S(Q) written to {stem}.sq with the configured settings "
                                 f"(max difference {np.abs(gref - rg[:, 1])[okf].max(initial=0.0):.3g}; {len(qs)} merged points up to Q={qs[:, 0].max():.2f})")
                # ... and the filtered curve is what FourierFilter gives on the written curves with the configured cutoff and switches
                cut = kw.get("FourierFilter", {}).get("Cutoff")
                if cut is not None and stem + "_ft.gr" in s1 and not fails:
                    from pystog import FourierFilter as _FF
                    fg = np.loadtxt(io.BytesIO(s1[stem + "_ft.gr"]), skiprows=2, ndmin=2)
                    fkw = {"rho": tkw["rho"], "<b_coh>^2": tkw["<b_coh>^2"], "lorch": False,
                           "OmittedXrangeCorrection": bool(kw.get("OmittedXrangeCorrection", False))}
                    with np.errstate(all="ignore"):
                        fo = getattr(_FF(), f"{X}_using_S")(rg[:, 0], rg[:, 1], qs[:, 0], qs[:, 1], cut, **fkw)
                    gfil = np.asarray(fo[5], dtype=float)
                    okg = np.isfinite(gfil) & np.isfinite(fg[:, 1])
                    scf = max(1.0, float(np.abs(gfil[okg]).max(initial=0.0)))
                    if gfil.shape != fg[:, 1].shape or np.abs(gfil - fg[:, 1])[okg].max(initial=0.0) > 1e-6 * scf:
                        fails.append(f"{stem}_ft.gr is not FourierFilter.{X}_using_S of the written curves with Cutoff={cut!r} and "
                                     f"OmittedXrangeCorrection={fkw['OmittedXrangeCorrection']} (max difference {np.abs(gfil - fg[:, 1])[okg].max(initial=0.0):.3g})")
            except Exception as ex:  # noqa: BLE001
                fails.append(f"could not compare {stem}.gr with the transform of {stem}.sq: {type(ex).__name__}: {str(ex)[:80]}")
        if e3 is None and e1 is not None:
            fails.append(f"pystog_cli raises {e1} where driving the library with the same settings works")
        elif e3 is None and s1 != s3:
            diff = sorted(set(s1) ^ set(s3)) or [f for f in s1 if s1[f] != s3[f]]
            fails.append(f"pystog_cli output differs from driving the library with the same settings (files {diff[:4]})")
    return fails


def nontrivial(c):
    return bool(c["absent"]) and len(c["absent"]) < len(OPT)


def pv(v):
    if v is None:
        return np.array([0.0, 0.0])
    if isinstance(v, bool):
        return np.array([1.0, 1.0 if v else 0.0])
    if isinstance(v, (int, float)):
        return np.array([2.0, float(v)])
    return np.array([3.0, 0.0])


def correspond(seed, tier):
    n = 80 if tier == "quick" else 1000
    lines, expect = [], {}
    gen_twin = set(proto.gen_entries())
    twins = []
    dist = {"errors": 0, "ok": 0, "generated_code_twins": 0}
    for i in range(n):
        c = gen(rng_for(seed, "corr19", i), i, tier)
        if c["form"] == "flags" or c["invalid"] == "recip":
            continue
        kw = c["kw"]
        rsf = kw.get("RealSpaceFunction")
        args = [float(c["nfiles"]), None if rsf is None else float(RSF.index(rsf)) if rsf in RSF else 7.0, kw.get("Rmin"), kw.get("Rmax"),
                kw.get("Rdelta"), None if "Rpoints" not in kw else float(kw["Rpoints"]),
                None if "NumberDensity" not in kw else pv(kw["NumberDensity"]),
                None if "OmittedXrangeCorrection" not in kw else pv(kw["OmittedXrangeCorrection"]),
                None if "LorchFlag" not in kw else pv(kw["LorchFlag"]),
                1.0 if "FourierFilter" in kw else 0.0,
                None if "Cutoff" not in kw.get("FourierFilter", {}) else pv(kw["FourierFilter"]["Cutoff"]),
                kw.get("<b_coh>^2"), kw.get("<b_tot^2>"),
                kw.get("Merging", {}).get("Transform", {}).get("Qmin"), kw.get("Merging", {}).get("Transform", {}).get("Qmax"),
                None if "Outputs" not in kw else float(STEMS.index(kw["Outputs"]["StemName"]))]
        rid = f"cf{i}"
        lines.append(proto.request(rid, "Cfg.settings", {}, args))
        if "GenStog.construct" in gen_twin:
            lines.append(proto.request("g" + rid, "GenStog.construct", {}, args))   # StoG(**kwargs) as regenerated from stog.py, at Float
            twins.append(rid)
        with workdir(c) as (d, names):
            k2 = copy.deepcopy(kw)
            k2["Files"] = files_of(c, names)
            try:
                st = StoG(**copy.deepcopy(k2))
                err = None
            except ValueError:
                err = 1.0
            except TypeError:
                err = 2.0
            if err is not None:
                expect[rid] = ("err", err)
                dist["errors"] += 1
                continue
            e = run(pystog_cli, k2)
            produced = sorted(snapshot(d))
            stem = st.stem_name
            table = [f"{stem}.sq", f"{stem}.gr", "ft.dat", f"{stem}_ft.sq", f"{stem}_ft.gr", f"{stem}_ft_lorched.gr", f"{stem}_rmc.fq", f"{stem}_rmc.gr"]
            expect[rid] = ("ok", st, e, produced, table)
            dist["ok"] += 1
    res = proto.run_model(lines)
    dis = []
    # the generated constructor: same error kind, same attributes, same r grid as the real StoG(**kwargs)
    for rid in twins:
        exp = expect.get(rid)
        s_, out = res.get("g" + rid, ("err", "no-response"))
        if exp is None or (s_ != "ok" and "unrepresentable" in str(out)):
            continue      # a value the typed keyword record of the generated model cannot hold (string density, boolean cutoff)
        dist["generated_code_twins"] += 1
        if s_ != "ok":
            dis.append(dict(id="g" + rid, kind="status", model=str(out)[:200]))
            continue
        if exp[0] == "err":
            if not (len(out) == 1 and out[0][0] == exp[1]):
                dis.append(dict(id="g" + rid, kind="error-kind (generated constructor)", impl=exp[1], model=[float(t) for t in out[0][:1]]))
            continue
        st = exp[1]
        if len(out) < 10:
            dis.append(dict(id="g" + rid, kind="generated constructor raises, StoG(**kwargs) does not", model=[float(t) for t in out[0]]))
            continue
        f = out[1]
        got = dict(rsf=RSF[int(f[0])], rmin=f[1], rmax=f[2], rdelta=f[3], lowq=bool(f[4]), lorch=bool(f[5]), bcoh=f[6], btot=f[7],
                   dens=float(out[2][1]), cut=None if out[3][0] == 0 else float(out[3][1]),
                   qmin=None if out[4][0] == 0 else float(out[4][1]), qmax=None if out[5][0] == 0 else float(out[5][1]))
        want = dict(rsf=st.real_space_function, rmin=st.rmin, rmax=st.rmax, rdelta=st.rdelta, lowq=st.low_q_correction, lorch=st.lorch_flag,
                    bcoh=st.bcoh_sqrd, btot=st.btot_sqrd, dens=st.density, cut=st.fourier_filter_cutoff, qmin=st.qmin, qmax=st.qmax)
        if got != want:
            dis.append(dict(id="g" + rid, kind="settings (generated constructor)", impl=str(want), model=str(got)))
        elif not np.array_equal(np.asarray(st.dr, dtype=float), out[9]):
            dis.append(dict(id="g" + rid, kind="r-grid (generated constructor)", impl=len(st.dr), model=len(out[9])))
    for rid, exp in expect.items():
        s_, out = res.get(rid, ("err", "no-response"))
        if s_ != "ok":
            dis.append(dict(id=rid, kind="status", model=str(out)[:200]))
            continue
        if exp[0] == "err":
            if not (len(out) == 1 and out[0][0] == exp[1]):
                dis.append(dict(id=rid, kind="error-kind", impl=exp[1], model=[float(t) for t in out[0][:1]]))
            continue
        _, st, e, produced, table = exp
        if len(out) < 10:
            dis.append(dict(id=rid, kind="model-error-impl-ok", model=[float(t) for t in out[0]]))
            continue
        f = out[1]
        got = dict(rsf=RSF[int(f[0])], rmin=f[1], rmax=f[2], rdelta=f[3], lowq=bool(f[4]), lorch=bool(f[5]), bcoh=f[6], btot=f[7])
        want = dict(rsf=st.real_space_function, rmin=st.rmin, rmax=st.rmax, rdelta=st.rdelta, lowq=st.low_q_correction, lorch=st.lorch_flag,
                    bcoh=st.bcoh_sqrd, btot=st.btot_sqrd)
        if got != want:
            dis.append(dict(id=rid, kind="settings", impl=str(want), model=str(got)))
            continue
        dens = None if out[2][0] == 0 else float(out[2][1])
        cut = None if out[3][0] == 0 else float(out[3][1])
        if dens != st.density or cut != st.fourier_filter_cutoff:
            dis.append(dict(id=rid, kind="settings-pyval", impl=(st.density, st.fourier_filter_cutoff), model=(dens, cut)))
            continue
        if not np.array_equal(np.asarray(st.dr, dtype=float), out[9]):
            dis.append(dict(id=rid, kind="r-grid", impl=len(st.dr), model=len(out[9])))
            continue
        model_files = sorted(table[int(t)] for t in out[8])
        if e is not None:
            dis.append(dict(id=rid, kind="cli-raised", impl=e, model=model_files))
        elif model_files != produced:
            dis.append(dict(id=rid, kind="files", impl=produced, model=model_files))
    return dict(evaluations=len(expect), disagreements=dis, worst_ratio=0.0, distribution=dist, samples=[], cases={})

DRIVERS = ["drvp"]
