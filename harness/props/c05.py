"""C05 — every named transform = conversion, core transform, conversion (real code)."""
import numpy as np
import impl, cases
from gen import rng_for
from .common import tolist, keyword_call_differs, history_differs, transform_primers, api_names, exceeds

LEAN = "PystogVerif.Props.C05"
RK, GK = ["S", "F", "FK", "DCS"], ["g", "G", "GK"]
ENTRIES = [f"Transformer.{a}_to_{b}" for a in RK for b in GK] + [f"Transformer.{a}_to_{b}" for a in GK for b in RK]
RULE = ("one of the 24 named transforms at random, random grids/data/uncertainty (or None), material constants and option set "
        "(lorch x correction x window enumerated at random); compared with the explicit three-step composition on the real code; "
        "non-trivial = >= 3 input points")
DIST = ["entry", "lorch", "omitted", "window", "unc"]
SHRINK = None


def gen(rng, i, tier):
    e = ENTRIES[int(rng.integers(0, len(ENTRIES)))]
    c = cases.make_case(rng, e, maxn=50 if tier == "quick" else 400)
    if rng.random() < 0.1 and not c["meta"]["window"]:
        # the same table listed from high to low abscissa (time-of-flight order): every named transform is still conversion ; core ; conversion
        c["args"] = [None if a is None else np.asarray(a)[::-1].copy() if k in (0, 1, 3) else a for k, a in enumerate(c["args"])]
    return dict(entry=e, args=[tolist(a) for a in c["args"]], kw=c["kw"], lorch=c["meta"]["lorch"], omitted=c["meta"]["omitted"],
                window=c["meta"]["window"], unc=c["meta"]["unc"])


def evaluate(case):
    tr, cv = impl.obj("Transformer"), impl.obj("Converter")
    name = case["entry"].split(".")[1]
    X, Y = name.split("_to_")
    x, y, xo, dy = [None if a is None else np.asarray(a, dtype=float) for a in case["args"]]
    kw = case["kw"]
    fails = []
    snap_in = [None if a is None else a.copy() for a in (x, y, xo, dy)]
    with np.errstate(all="ignore"):
        got = getattr(tr, name)(x, y, xo, dy, **kw)
        for nm, a0, a1 in zip(("abscissa", "data", "output grid", "uncertainty"), snap_in, (x, y, xo, dy)):
            if a0 is not None and not np.array_equal(a0, a1, equal_nan=True):
                return [f"{name}: the call changes the caller's {nm} array (a second transform of the same arrays gets other input)"]
        kf = keyword_call_differs(tr, case["entry"], [x, y, xo, dy], kw, got)
        if kf:
            fails.append(kf)
        q2r = X in RK
        hub_in, hub_out = ("F", "G") if q2r else ("G", "F")
        if X == hub_in:
            f, df = y, dy
        else:
            f, df = getattr(cv, f"{X}_to_{hub_in}")(x, y, dy, **kw)
        core = tr.F_to_G if q2r else tr.G_to_F
        xr, v, dv = core(x, f, xo, df, **kw)
        # the hub is the core sine transform itself with the caller's options (2/pi only in Q->r): nothing is done to the table first
        _, v0, dv0 = tr.fourier_transform(x, f, xo, dy_in=df, **kw)
        k0 = 2 / np.pi if q2r else 1.0
        hsc = max(1.0, float(np.abs(np.asarray(v0)).max(initial=0.0)) * k0)
        if exceeds(np.abs(np.asarray(v, dtype=float) - k0 * np.asarray(v0, dtype=float)).max(initial=0.0), 1e-12 * hsc) or \
                exceeds(np.abs(np.asarray(dv, dtype=float) - k0 * np.asarray(dv0, dtype=float)).max(initial=0.0), 1e-12 * max(1.0, float(np.abs(np.asarray(dv0)).max(initial=0.0)))):
            fails.append(f"{'F_to_G' if q2r else 'G_to_F'}: is not {'(2/pi) x ' if q2r else ''}the core sine transform of the same table with the caller's options")
        if Y != hub_out:
            v, dv = getattr(cv, f"{hub_out}_to_{Y}")(xr, v, dv, **kw)
    names = api_names(case["entry"]) or []
    dkey = names[3] if len(names) > 3 else None
    with np.errstate(all="ignore"):
        if len(x) <= 200 and history_differs("Transformer", name, (x, y, xo), dict(kw, **({dkey: dy} if dkey and dy is not None else {})),
                                             transform_primers(name, x, y, xo, dkey, dy, kw={k: v for k, v in kw.items() if k in ("rho", "<b_coh>^2", "<b_tot^2>")})):
            fails.append(f"{name}: the caller's options are not the only options in force — the result depends on calls the same Transformer served before")
    for k, (a, b) in enumerate(zip(got, (xr, v, dv))):
        if a is None or b is None or not np.array_equal(np.asarray(a), np.asarray(b), equal_nan=True):
            fails.append(f"{name}: output {k} differs from conversion/core/conversion composition with the same options")
            break
    return fails


def nontrivial(c):
    return len(c["args"][0]) >= 3
