"""C20 — rebinning is a linear, constant-preserving local weighted average (real Pre_Proc.rebin)."""
import math
import numpy as np
import impl, proto, compare
from pystog import Pre_Proc
from gen import rng_for
from .common import tolist, exceeds

LEAN = "PystogVerif.Props.C20"
# theorems about the code generated from pre_proc.py by tools/translate_stog.py (built when rebin translates)
LEAN_GEN = "PystogVerif.Props.C20Gen"
STOG_METHODS = ["rebin"]
ENTRIES = []
RULE = ("irregular, shuffled abscissae (40% on grid nodes, points exactly at xmin/xmax, points outside [xmin,xmax]), random xmin, step, "
        "xmax (xmax on or off the grid), every bin populated; second data vector and coefficients for linearity; "
        "non-trivial = >= 3 bins and >= 1 point outside the range or off the nodes")
DIST = ["onnodes", "shuffled", "dups", "intopts"]
SHRINK = None
TRUSTED = ["lean/PystogVerif/Model/Rebin.lean is a hand-written model of Pre_Proc.rebin (modelled, not verified), tied to /repo by the correspondence run"]


def gen(rng, i, tier):
    xmin = float(rng.choice([0.0, 0.5, 1.0, 0.3]))
    xdiv = float(rng.choice([0.1, 0.05, 0.25, 0.02, 0.13]))
    intopts = bool(rng.random() < 0.12)
    if intopts:
        # whole-number grid parameters, handed over as Python integers (rebin(x, y, 0, 1, 10)): same numbers, same result
        xmin, xdiv = float(rng.integers(0, 3)), float(rng.integers(1, 4))
    nb = int(rng.integers(3, 40 if tier == "quick" else 400))
    xmax = xmin + nb * xdiv + (float(rng.uniform(0, xdiv)) if rng.random() < 0.5 else 0.0)
    onnodes = bool(rng.random() < 0.4)
    grid = xmin + np.arange(nb + 1) * xdiv
    if onnodes:
        x = grid.copy()
    else:
        per = rng.integers(1, 4, nb + 1)
        x = np.concatenate([g + rng.uniform(0, xdiv, p) for g, p in zip(grid, per)] + [grid[:1], [xmax]])
        x = np.concatenate([x, rng.uniform(xmin - 1, xmin - 1e-3, 3), rng.uniform(xmax + 1e-3, xmax + 1, 3)])
    if not onnodes and rng.random() < 0.12:
        # exactly as many points as grid nodes, first and last on the grid, interior irregular: not "data already on the grid"
        x = grid.copy()
        x[1:-1] = x[1:-1] + rng.uniform(-0.45, 0.45, len(x) - 2) * xdiv
        xmax = float(grid[-1])
    if not onnodes and rng.random() < 0.1:
        # a node whose only contributor is almost one bin width away (weight ~1e-9): still "receives data", and its value is that point's y
        k0 = int(rng.integers(1, nb))
        x = np.concatenate([x[(x < grid[k0] - xdiv) | (x > grid[k0] + xdiv)], [grid[k0 - 1], grid[k0] + xdiv * (1 - 1e-9), grid[k0 + 1] if k0 + 1 <= nb else grid[k0]]])
    dups = False
    if rng.random() < 0.25 and len(x) > 3:
        # bit-identical repeated abscissae (two runs on the same grid concatenated): every point counts
        x = np.concatenate([x, x[rng.integers(0, len(x), int(rng.integers(1, 6)))]])
        dups = True
    r = rng.random()
    shuffled = bool(r < 0.5)
    if shuffled:
        x = rng.permutation(x)
    elif r < 0.7:
        # two ascending banks with overlapping ranges, concatenated (the first one runs past xmax before the second starts)
        xs = np.sort(x)
        x = np.concatenate([xs[0::2], xs[1::2]])
        shuffled = True
    y = rng.normal(size=len(x)) * 2 + 1
    z = rng.normal(size=len(x))
    return dict(x=tolist(x), y=tolist(y), z=tolist(z), xmin=xmin, xdiv=xdiv, xmax=float(xmax), a=float(rng.normal()), b=float(rng.normal()),
                c=float(rng.normal() * 3), onnodes=onnodes, shuffled=shuffled, dups=dups, intopts=intopts, perm=[int(t) for t in rng.permutation(len(x))])


def hat_reference(x, y, xmin, xdiv, xmax):
    n = int((xmax - xmin) / xdiv) + 1
    g = [xmin + k * xdiv for k in range(n)]
    out, wts = [], []
    for gk in g:
        num, den = [], []
        for xi, yi in zip(x, y):
            if xmin <= xi <= xmax:
                h = max(0.0, 1.0 - abs(xi - gk) / xdiv)
                if h > 0:
                    num.append(yi * h)
                    den.append(h)
        out.append(math.fsum(num) / math.fsum(den) if den else float("nan"))
        wts.append(math.fsum(den) if den else 0.0)
    hat_reference.weights = np.array(wts)       # total hat weight per node (conditioning of the average)
    return np.array(g), np.array(out)


def evaluate(case):
    x, y, z = (np.asarray(case[k], dtype=float) for k in ("x", "y", "z"))
    xmin, xdiv, xmax = case["xmin"], case["xdiv"], case["xmax"]
    fails = []
    # calls that fail and are caught by the caller (a bin without data; y shorter than x) leave nothing behind for the next call
    for bad in ((np.array([xmin, xmin + 5 * xdiv]), np.array([1.0, 2.0]), xmin, xdiv, xmin + 5 * xdiv), (x, y[:max(len(y) // 2, 1)], xmin, xdiv, xmax)):
        try:
            Pre_Proc.rebin(*bad)
        except Exception:  # noqa: BLE001
            pass
    try:
        g, v = Pre_Proc.rebin(x, y, xmin, xdiv, xmax)
    except ZeroDivisionError:
        # an empty bin is outside the property's quantifier; but a bin that does receive data (by the independent
        # reference) must not come out empty
        if np.isfinite(hat_reference(x, y, xmin, xdiv, xmax)[1]).all():
            return ["rebin raises ZeroDivisionError (a bin came out empty) although every returned bin receives data from the input points"]
        return []
    g, v = np.asarray(g, dtype=float), np.asarray(v, dtype=float)
    n = int((xmax - xmin) / xdiv) + 1
    if len(g) != n or abs(g[0] - xmin) > 0 or (g > xmax + 1e-12).any() or exceeds(np.abs(np.diff(g) - xdiv).max(initial=0.0), 1e-9):
        fails.append("grid is not xmin + k*xdiv, k < floor((xmax-xmin)/xdiv)+1, within xmax"
                     + (f": {len(g)} points returned, {n} expected; last grid point {g[-1]!r} lies beyond xmax={xmax!r}" if len(g) and g[-1] > xmax + 1e-12
                        else f": {len(g)} points returned, {n} expected" if len(g) != n else ""))
    if len(g) != n or len(v) != n:
        return fails
    rg, rv = hat_reference(x, y, xmin, xdiv, xmax)
    ok = np.isfinite(rv)
    # points that sit within 1e-9 of a node may change bins through rounding of (x-xmin)/xdiv: compare with a tolerance
    # scaled by the data spread (a hat weight changes continuously there)
    # a node whose total weight W is tiny is an ill-conditioned average (weights carry ~1e-16 of absolute rounding): allow 1e-13/W on top
    wk = np.maximum(hat_reference.weights, 1e-300)
    tolk = (1e-6 + 1e-13 / wk) * max(1.0, float(np.abs(y).max()))
    if (np.abs(v - rv) > tolk)[ok].any():
        k = int(np.argmax((np.abs(v - rv) / tolk) * ok))
        fails.append(f"output at grid point {g[k]!r} is {v[k]!r}; hat-weighted average of the points within one bin width is {rv[k]!r}")
    _, vc = Pre_Proc.rebin(x, np.full_like(y, case["c"]), xmin, xdiv, xmax)
    if exceeds(np.abs(np.asarray(vc) - case["c"]).max(), 1e-12 * max(1.0, abs(case["c"]))):
        fails.append("a constant is not preserved")
    # whole-number ordinates (counts, a 0/1 mask) handed over in an integer or boolean array are averaged like the same numbers as floats:
    # the local average of whole numbers is in general not a whole number
    yw = np.rint(y * 3)
    try:
        _, vwf = Pre_Proc.rebin(x, yw, xmin, xdiv, xmax)
        _, vwi = Pre_Proc.rebin(x, yw.astype(np.int64), xmin, xdiv, xmax)
        _, vwb = Pre_Proc.rebin(x, yw > 0, xmin, xdiv, xmax)
        _, vwbf = Pre_Proc.rebin(x, (yw > 0).astype(float), xmin, xdiv, xmax)
        if np.asarray(vwi).shape != np.asarray(vwf).shape or not np.allclose(np.asarray(vwi, dtype=float), np.asarray(vwf, dtype=float), rtol=1e-12, atol=1e-12, equal_nan=True):
            fails.append(f"rebin: integer-typed ordinates give {np.asarray(vwi).tolist()[:3]} (dtype {np.asarray(vwi).dtype}), the same numbers as floats give "
                         f"{np.asarray(vwf, dtype=float).tolist()[:3]}: the averages were truncated")
        elif not np.allclose(np.asarray(vwb, dtype=float), np.asarray(vwbf, dtype=float), rtol=1e-12, atol=1e-12, equal_nan=True):
            fails.append("rebin: a boolean mask as ordinates is not averaged like the same 0/1 values as floats")
    except ZeroDivisionError:
        pass
    _, vz = Pre_Proc.rebin(x, z, xmin, xdiv, xmax)
    _, vl = Pre_Proc.rebin(x, case["a"] * y + case["b"] * z, xmin, xdiv, xmax)
    if exceeds(np.abs(np.asarray(vl) - (case["a"] * v + case["b"] * np.asarray(vz))).max(), 1e-10 * max(1.0, float(np.abs(y).max()) * 3)):
        fails.append("not linear in y")
    inr = (x >= xmin) & (x <= xmax)
    if (v < y[inr].min() - 1e-12).any() or (v > y[inr].max() + 1e-12).any():
        fails.append("output outside [min, max] of the in-range data")
    if case["onnodes"] and not case["shuffled"] and not case.get("dups"):
        m = min(len(v), len(y))
        if exceeds(np.abs(v[:m] - y[:m]).max(), 1e-7 * max(1.0, float(np.abs(y).max()))):
            fails.append("data already on the grid (one per node) do not come back unchanged")
    p = np.asarray(case["perm"])
    try:
        _, vp = Pre_Proc.rebin(x[p], y[p], xmin, xdiv, xmax)
        if exceeds(np.abs(np.asarray(vp) - v).max(), 1e-10 * max(1.0, float(np.abs(y).max()))):
            fails.append("result depends on the input order")
    except ZeroDivisionError:
        fails.append("result depends on the input order: a permutation of the same points makes rebin raise ZeroDivisionError (a populated bin came out empty)")
    # the returned arrays belong to the caller: editing them in place (bin centres, unit change) must not change a later call
    g1, v1 = Pre_Proc.rebin(x, y, xmin, xdiv, xmax)
    g1 = np.asarray(g1)
    v1 = np.asarray(v1)
    try:
        g1 += xdiv / 2
        v1 *= 3.0
    except (ValueError, TypeError):
        pass  # read-only results are fine
    g2, v2 = Pre_Proc.rebin(x, y, xmin, xdiv, xmax)
    if not (np.array_equal(np.asarray(g2, dtype=float), g) and np.array_equal(np.asarray(v2, dtype=float), v)):
        fails.append("rebin: editing the arrays returned by one call in place changes the result of the next call with the same arguments")
    if case.get("intopts"):
        im, idv = int(xmin), int(xdiv)
        ix = int(xmax) if float(xmax).is_integer() else xmax
        try:
            gi, vi = Pre_Proc.rebin(x, y, im, idv, ix)
            if not (np.array_equal(np.asarray(gi, dtype=float), g) and np.allclose(np.asarray(vi, dtype=float), v, rtol=1e-13, atol=0)):
                fails.append(f"rebin(x, y, {im!r}, {idv!r}, {ix!r}) with integer-typed grid parameters differs from the same numbers given as floats "
                             "(integer truncation of the weighted sums)")
        except ZeroDivisionError:
            fails.append("rebin with integer-typed grid parameters raises ZeroDivisionError where the same numbers as floats do not")
    xs, ys = x.copy(), y.copy()
    Pre_Proc.rebin(xs, ys, xmin, xdiv, xmax)
    if not (np.array_equal(xs, x) and np.array_equal(ys, y)):
        fails.append("rebin modifies its input arrays")
    return fails


def nontrivial(c):
    return int((c["xmax"] - c["xmin"]) / c["xdiv"]) + 1 >= 3 and (not c["onnodes"])


def correspond(seed, tier):
    n = 80 if tier == "quick" else 800
    lines, expect = [], {}
    for i in range(n):
        c = gen(rng_for(seed, "corr20", i), i, tier)
        x, y = np.asarray(c["x"], dtype=float), np.asarray(c["y"], dtype=float)
        try:
            g, v = Pre_Proc.rebin(x, y, c["xmin"], c["xdiv"], c["xmax"])
            expect[f"rb{i}"] = [np.asarray(g, dtype=float), np.asarray(v, dtype=float)]
        except ZeroDivisionError:
            expect[f"rb{i}"] = None
        lines.append(proto.request(f"rb{i}", "Model.rebin", {}, [x, y, c["xmin"], c["xdiv"], c["xmax"]]))
        if "GenStog.rebin" in proto.gen_entries():
            lines.append(proto.request(f"grb{i}", "GenStog.rebin", {}, [x, y, c["xmin"], c["xdiv"], c["xmax"]]))
            expect[f"grb{i}"] = expect[f"rb{i}"]
    res = proto.run_model(lines)
    dis, worst, empty = [], 0.0, 0
    for rid, exp in expect.items():
        st, out = res.get(rid, ("err", "no-response"))
        if st != "ok":
            dis.append(dict(id=rid, kind="status", model=str(out)[:200]))
            continue
        if exp is None:
            empty += 1
            if np.isfinite(out[1]).all():
                dis.append(dict(id=rid, kind="impl-raised-ZeroDivisionError-model-finite"))
            continue
        for k, (a, b) in enumerate(zip(exp, out)):
            ok, w, idx = compare.close(a, b, rtol=1e-13, atol=0.0)
            worst = max(worst, w if np.isfinite(w) else 1e300)
            if not ok:
                dis.append(dict(id=rid, kind="value", output=k, index=idx, shapes=(len(a), len(b))))
                break
    return dict(evaluations=len(expect), disagreements=dis, worst_ratio=worst, distribution={"empty_bin_cases": empty}, samples=[], cases={})

DRIVERS = ["drvp"]   # plus drvs (generated code), built by the check when Pre_Proc.rebin translates
