"""C11 — dataset ingestion crops, rescales, offsets, windows and converts faithfully (real StoG)."""
import numpy as np
from .common import exceeds
import impl
from pystog import StoG
import stogcases as sc

LEAN = "PystogVerif.Props.C11"
# theorems about the code generated from stog.py by tools/translate_stog.py (built when these methods translate)
LEAN_GEN = "PystogVerif.Props.C11Gen"
STOG_METHODS = ['apply_scales_and_offset', 'add_dataset']
ENTRIES = []
RULE = ("1-4 datasets of random kind (S, Q[S-1], F_K, DCS), per-dataset Qmin/Qmax (60%), Y scale/offset (55%), Q offset (50%, "
        "multiples and non-multiples of 0.01, positive and negative), global Qmin/Qmax window (50% each); after every add_dataset both "
        "storage arrays are compared with an independent recomputation of the statement; non-trivial = a Q offset or a global window present")
DIST = ["nd", "window", "offset", "shared_info", "reject_at", "edge_window", "lone_origin", "via_file"]
SHRINK = None


def gen(rng, i, tier):
    nd = int(rng.integers(1, 5))
    ds = [sc.mk_dataset(rng, maxn=40 if tier == "quick" else 300) for _ in range(nd)]
    qmin = float(rng.choice([0.5, 1.0, 2.0, 1.23, 0.0, 0.0])) if rng.random() < 0.5 else None
    qmax = float(rng.choice([2.5, 3.0, 4.0, 2.77])) if rng.random() < 0.5 else None
    if qmin == 0.0:
        # a window starting exactly at Q = 0 must still cut negative Q (reachable through a negative Q offset)
        for d in ds[:2]:
            d["X"] = {"Offset": float(rng.choice([-0.3, -1.5, -0.25]))}
            d.pop("Qmin", None)
    lone = False
    if rng.random() < 0.06:
        ds.insert(int(rng.integers(0, len(ds) + 1)), sc.lone_origin_point(rng))
        nd, lone = len(ds), True
        if qmin not in (None, 0.0):
            qmin = 0.0
    edge = False
    if qmin != 0.0 and rng.random() < 0.25:
        # the global window read off an offset curve: its bounds coincide with offset Q values (points on the edge are inside)
        w = sc.edge_window(rng, ds)
        if w is not None:
            (qmin, qmax), edge = w, True
    shared = bool(nd >= 2 and rng.random() < 0.2)
    if shared:
        # one description dictionary re-used for every dataset (a loop over banks that only replaces info["data"]): all datasets
        # carry the options of the first; mostly without per-dataset Qmin/Qmax
        opts = {k: v for k, v in ds[0].items() if k not in ("x", "y", "dy", "unsorted", "int_y")}
        if rng.random() < 0.7:
            opts.pop("Qmin", None), opts.pop("Qmax", None)
        for k, d in enumerate(ds):
            ds[k] = {kk: vv for kk, vv in d.items() if kk in ("x", "y", "dy", "unsorted", "int_y")} | {kk: (dict(vv) if isinstance(vv, dict) else vv) for kk, vv in opts.items()}
    # a dataset whose kind is not one of the four choices is rejected with ValueError; the caller carries on with the same object
    reject_at = int(rng.integers(0, nd + 1)) if rng.random() < 0.2 else None
    # the datasets live in text files (that is how the CLI and most scripts load them):
    #  "each": every dataset is read with read_dataset and its own column numbers; one multi-column file may hold two datasets (two banks)
    #  "all" : the files are registered in StoG.files and read with read_all_data — possibly after a dataset was added from memory, and possibly
    #          a second time after a merge (every read appends what the files hold; what is stored already stays)
    via_file = None
    if rng.random() < 0.16 and not shared and reject_at is None and not lone:
        import copy as _copy
        via_file = "each" if rng.random() < 0.5 else "all"
        if via_file == "each" and rng.random() < 0.7:
            k = int(rng.integers(0, len(ds)))
            twin = _copy.deepcopy(ds[k])
            twin["y"] = [float(v) * 2 + 1 for v in twin["y"]] if twin.get("int_y") else [float(v) * 1.5 + 0.125 for v in twin["y"]]
            if "dy" in twin:
                twin["dy"] = [float(v) * 2 for v in twin["dy"]]
            twin["twin_of_prev"] = True
            ds.insert(k + 1, twin)
        if via_file == "all":
            if rng.random() < 0.6 and len(ds) >= 2:
                ds[0]["mem"] = True
            if rng.random() < 0.6 and any(not d.get("mem") for d in ds):
                ds += [dict(_copy.deepcopy(d), again=True) for d in ds if not d.get("mem")]
        nd = len(ds)
    return dict(datasets=ds, qmin=qmin, qmax=qmax, bcoh=float(rng.uniform(1, 5)), btot=float(rng.uniform(1, 5)), nd=nd,
                window=(qmin is not None, qmax is not None), offset=any("X" in d for d in ds), shared_info=shared, reject_at=reject_at, edge_window=edge, lone_origin=lone,
                via_file=via_file)


def build(case, order=None):
    sc.decoy_instances()
    s = StoG(**{"<b_coh>^2": case["bcoh"], "<b_tot^2>": case["btot"]})
    s.qmin, s.qmax = case["qmin"], case["qmax"]
    sc.decoy_instances()      # before and after: a second object in the process changes nothing for this one
    steps = []
    if case.get("via_file"):
        return build_from_files(case, s, order)
    seq = list(order if order is not None else range(len(case["datasets"])))
    shared = None
    for pos, k in enumerate(seq):
        if case.get("reject_at") == pos:
            reject(s, case["datasets"][k])
        if case.get("shared_info"):
            if shared is None:
                shared = sc.to_info(case["datasets"][k])
            else:
                shared["data"] = sc.to_info(case["datasets"][k])["data"]
            s.add_dataset(shared)
        else:
            s.add_dataset(sc.to_info(case["datasets"][k]))
        steps.append((pos, s.reciprocal_individuals.copy(), s.sq_individuals.copy()))
    if case.get("reject_at") == len(seq):
        reject(s, case["datasets"][seq[-1]])
    return s, steps


def build_from_files(case, s, order=None):
    """the datasets reach the object from text files (see gen); steps are recorded where the storage can be compared with a prefix of the
    dataset list"""
    import tempfile, shutil, os
    ds = case["datasets"]
    steps = []
    tmp = tempfile.mkdtemp(prefix="verif_c11_")
    try:
        def cols(d, extra=None):
            c = [d["x"], d["y"], d.get("dy", [0.0] * len(d["x"]))]
            if extra is not None:
                c += [extra["y"], extra.get("dy", [0.0] * len(extra["x"]))]
            return c
        if case["via_file"] == "each":
            paths = {}
            for k, d in enumerate(ds):
                if d.get("twin_of_prev"):
                    paths[k] = paths[k - 1]
                else:
                    paths[k] = os.path.join(tmp, f"bank{k}.dat")
                    sc.write_columns(paths[k], cols(d, ds[k + 1] if k + 1 < len(ds) and ds[k + 1].get("twin_of_prev") else None))
            seq = list(order if order is not None else range(len(ds)))
            for pos, k in enumerate(seq):
                if ds[k].get("twin_of_prev"):
                    s.read_dataset(sc.file_info(ds[k], paths[k]), xcol=0, ycol=3, dycol=4)
                else:
                    s.read_dataset(sc.file_info(ds[k], paths[k]))
                steps.append((pos, s.reciprocal_individuals.copy(), s.sq_individuals.copy()))
            return s, steps
        # "all"
        last = -1
        for k, d in enumerate(ds):
            if d.get("mem"):
                s.add_dataset(sc.to_info(d))
                last = k
                steps.append((last, s.reciprocal_individuals.copy(), s.sq_individuals.copy()))
        files = []
        for k, d in enumerate(ds):
            if not d.get("mem") and not d.get("again"):
                pth = os.path.join(tmp, f"set{k}.dat")
                sc.write_columns(pth, cols(d))
                files.append(sc.file_info(d, pth))
                last = k
        s.files = files
        s.read_all_data()
        steps.append((last, s.reciprocal_individuals.copy(), s.sq_individuals.copy()))
        if any(d.get("again") for d in ds):
            if s.sq_individuals.shape[1] > 0:
                s.merge_data()        # (merging nothing raises ValueError on the pinned tree: not this property's business)
            s.files = [dict(f) for f in files]
            s.read_all_data()
            # merging re-orders the stored S(Q) points (it sorts them by Q): compare as sets of columns from here on
            steps.append((len(ds) - 1, s.reciprocal_individuals.copy(), s.sq_individuals.copy(), "unordered"))
        return s, steps
    finally:
        shutil.rmtree(tmp, ignore_errors=True)


def reject(s, d):
    """an add_dataset call that must fail (unknown ReciprocalFunction) and leave the object as it was"""
    bad = sc.to_info(d)
    bad["ReciprocalFunction"] = "F(Q)"
    try:
        s.add_dataset(bad)
    except ValueError:
        pass


def evaluate(case):
    conv = impl.obj("Converter")
    fails = []
    with np.errstate(all="ignore"):
        s, steps = build(case)
        R = [sc.spec_ingest(d, case["qmin"], case["qmax"], case["bcoh"], case["btot"], conv) for d in case["datasets"]]
    for st in steps:
        k, got_r, got_s = st[:3]
        rec = np.concatenate([r[0] for r in R[:k + 1]], axis=1)
        sq = np.concatenate([r[1] for r in R[:k + 1]], axis=1)
        if len(st) > 3:
            # a merge happened in between: it may re-order the stored columns; what must hold is that nothing was lost, added or altered
            def canon(a):
                a = np.asarray(a, dtype=float)
                return a[:, np.lexsort((a[2], a[1], np.rint(a[0] * 100)))] if a.shape[1] else a
            if got_s.shape != sq.shape:
                fails.append(f"after reading the files again ({case['via_file']}; a dataset added from memory: {any(d.get('mem') for d in case['datasets'])}): "
                             f"{got_s.shape[1]} S(Q) points stored, {sq.shape[1]} expected (every read appends what the files hold; what was stored stays)")
                break
            if not np.allclose(canon(got_s)[1:], canon(sq)[1:], rtol=1e-12, atol=1e-15) or not np.allclose(canon(got_s)[0], canon(sq)[0], rtol=0, atol=5.1e-3):
                fails.append("after reading the files again: the stored S(Q) points are not those of the inputs")
                break
            continue
        if got_r.shape != got_s.shape or not np.array_equal(got_r[0], got_s[0]):
            fails.append(f"after dataset {k}: the two storage arrays are not aligned")
            break
        if got_r.shape != rec.shape:
            inside = rec.shape[1]
            d = case["datasets"][k]
            fails.append(f"after dataset {k} ({d.get('ReciprocalFunction','S(Q)')}, X offset {d.get('X',{}).get('Offset')}, "
                         f"window {case['qmin']}..{case['qmax']}): {got_r.shape[1]} points stored, {inside} expected "
                         + ("(points inside both windows lost)" if got_r.shape[1] < inside else "(points outside the global window kept)"))
            break
        if not (np.allclose(got_r[0], rec[0], rtol=0, atol=5.1e-3) and np.allclose(got_r[1:], rec[1:], rtol=1e-12, atol=1e-15)):
            fails.append(f"after dataset {k}: stored raw row differs from crop/scale/offset/window of the input")
            break
        if not np.allclose(got_s[1:], sq[1:], rtol=1e-12, atol=1e-15):
            fails.append(f"after dataset {k}: stored S(Q) row is not the conversion of the stored raw row")
            break
        # Q offset is applied as given, up to the final 0.01-lattice rounding
        if exceeds(np.abs(got_r[0] - rec[0]).max(initial=0.0), 5.0000001e-3):
            fails.append(f"after dataset {k}: stored Q differs from offset Q by more than the 0.01-lattice rounding")
            break
    merged_between = any(d.get("again") for d in case["datasets"])     # a merge sorts the stored S(Q) points by Q; the raw rows keep their order
    if not merged_between and (s.reciprocal_individuals.shape != s.sq_individuals.shape or not np.array_equal(s.reciprocal_individuals[0], s.sq_individuals[0])):
        fails.append("the two storage arrays are not aligned at the end (a rejected dataset left one of them changed)")
    lo, hi = case["qmin"], case["qmax"]
    x = s.reciprocal_individuals[0]
    if lo is not None and (x < lo - 1e-9).any():
        fails.append(f"stored point Q={x[x < lo - 1e-9][0]!r} lies below the global Qmin={lo}")
    if hi is not None and (x > hi + 1e-9).any():
        fails.append(f"stored point Q={x[x > hi + 1e-9][0]!r} lies above the global Qmax={hi}")
    return fails


def nontrivial(c):
    return bool(c["offset"]) or any(c["window"])


def correspond(seed, tier):
    import stogcorr
    return stogcorr.run(seed, tier, gen, tag="stogcorr11")


TRUSTED = ["lean/PystogVerif/Model/Stog.lean is a hand-written model of StoG.add_dataset (modelled, not verified): tied to /repo only "
           "by the step-by-step correspondence run (bit-exact so far)"]

DRIVERS = ["drvm"]
