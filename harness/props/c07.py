"""C07 — transform uncertainties (real code)."""
import numpy as np
import impl
from gen import grid, data, unc
from .common import arr, tolist, exceeds
from .c02 import weights
from .c14 import weight as lorch_weight

LEAN = "PystogVerif.Props.C07"
LEAN_EXTRA = ["PystogVerif.Props.C07Named"]
ENTRIES = ["Transformer.fourier_transform", "Transformer.F_to_G", "Transformer.S_to_g", "Transformer.g_to_S", "Transformer.GK_to_DCS"]
RULE = ("random strictly increasing grid (25% uniform), data, non-negative uncertainties, output grid, Lorch on/off, optional "
        "window; non-trivial = >= 3 in-window points and non-zero uncertainties")
DIST = ["grid", "lorch", "window"]
SHRINK = None


def gen(rng, i, tier):
    n = int(rng.integers(3, 50 if tier == "quick" else 500))
    x, gk = grid(rng, n=n)
    y, _ = data(rng, x)
    y2, _ = data(rng, x)
    e = unc(rng, x, allow_none=False)
    grow = np.abs(rng.normal(size=n)) * (rng.random(n) < 0.5)
    xo, _ = grid(rng, n=int(rng.integers(1, 8)) + 1)
    hi = None
    if rng.random() < 0.4:
        k = int(rng.integers(len(x) // 2, len(x)))
        r = rng.random()
        if r < 0.4:
            hi = float(x[k])                                   # on a grid point
        elif r < 0.7 and k + 1 < len(x):
            hi = float(x[k] + rng.uniform(0.1, 0.9) * (x[k + 1] - x[k]))   # a round number between two grid points
        else:
            hi = float(x[-1] + rng.uniform(0.05, 0.5) * (x[-1] - x[0]))  # beyond the end of the data
    return dict(x=tolist(x), y=tolist(y), y2=tolist(y2), e=tolist(e), grow=tolist(grow), xo=tolist(xo), c=float(abs(rng.normal()) * 3),
                hi=hi, lorch=bool(rng.random() < 0.4), grid=gk, window=hi is not None, omitted=bool(rng.random() < 0.3))


def evaluate(case):
    tr = impl.obj("Transformer")
    x, y, y2, e, grow, xo = (arr(case[k]) for k in ("x", "y", "y2", "e", "grow", "xo"))
    c, hi = case["c"], case["hi"]
    kw = {"lorch": True} if case["lorch"] else {}
    if case.get("omitted"):
        kw["OmittedXrangeCorrection"] = True     # an option like any other: the bounds are stated for "the options", all of them
    fails = []
    _, _, u = tr.fourier_transform(x, y, xo, xmax=hi, dy_in=e, **kw)
    u = np.asarray(u, dtype=float)
    # the uncertainty depends on "the grids, the options and the input uncertainties" — not on what the same object was asked before:
    # a bare cropping call without uncertainties, a transform that raised and was caught
    try:
        tr.apply_cropping(x, y, float(x.min()), float(x.max()))
        tr.fourier_transform(x[:-1], y, xo)
    except Exception:  # noqa: BLE001
        pass
    _, _, u_after = tr.fourier_transform(x, y, xo, xmax=hi, dy_in=e, **kw)
    if not np.array_equal(np.asarray(u_after, dtype=float), u):
        fails.append("transform uncertainty depends on earlier calls of the same object (a cropping call without uncertainties, or a "
                     f"transform that raised): {np.asarray(u_after, dtype=float).tolist()[:3]} after them, {u.tolist()[:3]} before")
    _, _, u2 = tr.fourier_transform(x, y2, xo, xmax=hi, dy_in=e, **kw)
    if not np.array_equal(u, np.asarray(u2)):
        fails.append("transform uncertainty depends on the data values")
    _, _, u0 = tr.fourier_transform(x, y, xo, xmax=hi, **kw)
    if not np.all(np.asarray(u0) == 0.0):
        fails.append("transform uncertainty not zero when no input uncertainty is given")
    _, _, uc = tr.fourier_transform(x, y, xo, xmax=hi, dy_in=c * e, **kw)
    sc = float(np.abs(u).max()) + 1e-300
    if exceeds(np.abs(np.asarray(uc) - c * u).max(), 1e-12 * max(c, 1.0) * sc):
        fails.append("transform uncertainty not homogeneous of degree 1 in the input uncertainties")
    _, _, ug = tr.fourier_transform(x, y, xo, xmax=hi, dy_in=e + grow, **kw)
    if (np.asarray(ug) < u - 1e-12 * sc).any():
        fails.append("transform uncertainty decreased when an input uncertainty grew")
    # an output point next to the origin (an r grid started at 1e-10 "to avoid r = 0"): the bound holds there as anywhere
    if float(np.abs(x).max()) > 0:
        xo = np.concatenate([xo, [1e-9 / float(np.abs(x).max())]])
        _, _, u = tr.fourier_transform(x, y, xo, xmax=hi, dy_in=e, **kw)
        u = np.asarray(u, dtype=float)
    # exact uncorrelated propagation through the trapezoid weights
    top = float(x.max()) if hi is None else hi
    m = x <= top
    xc, ec = x[m], e[m]
    f = lorch_weight(xc, np.pi / top) if case["lorch"] else np.ones_like(xc)
    if len(xc) >= 2:
        w = weights(xc)
        for k, t in enumerate(xo):
            s = f * ec * np.sin(xc * t)
            exact = np.sqrt(np.sum((w * s) ** 2))
            tol = 1e-9 * (exact + 1e-300)
            if u[k] < exact - tol - 1e-300 or u[k] > np.sqrt(2) * exact + tol + 1e-300:
                fails.append(f"uncertainty {u[k]!r} outside [1, sqrt2] x exact propagation {exact!r}")
                break
            d = np.diff(xc)
            if np.allclose(d, d[0], rtol=1e-12, atol=0):
                diff = u[k] ** 2 - exact ** 2
                exp = d[0] ** 2 * (s[0] ** 2 + s[-1] ** 2) / 4
                if abs(diff - exp) > 1e-9 * (u[k] ** 2 + 1e-300):
                    fails.append("uniform grid: coded and exact variances differ by more than the two end-point terms")
                    break
    # "depends only on the grids, the options and the input uncertainties": integer-typed data (counts) with the same
    # non-integer uncertainties must give the same uncertainty as any float data
    yi = np.rint(y * 3).astype(np.int64)
    try:
        _, _, ui = tr.fourier_transform(x, yi, xo, xmax=hi, dy_in=e, **kw)
        if np.asarray(ui).shape != u.shape or exceeds(np.abs(np.asarray(ui, dtype=float) - u).max(), 1e-12 * sc):
            fails.append("transform uncertainty depends on the data: integer-typed data give a different (truncated) uncertainty")
    except Exception as ex:  # noqa: BLE001
        fails.append(f"integer-typed data with float uncertainties raise {type(ex).__name__}")
    # the 24 named transforms: the returned uncertainty is the same first-order propagation, through the input conversion, the core
    # transform and the output conversion — whichever named entry point is used (one of them per case)
    if hi is None and len(x) >= 2 and (x > 0).all():
        cvn = impl.obj("Converter")
        RS, QS = ["g", "G", "GK"], ["S", "F", "FK", "DCS"]
        names = [(a, b) for a in QS for b in RS] + [(a, b) for a in RS for b in QS]
        X, Y = names[(len(x) * 7 + len(xo) * 3 + int(case["lorch"])) % len(names)]
        mat = {"rho": 0.03 * (1 + len(x) % 5), "<b_coh>^2": 1.5 + (len(xo) % 4), "<b_tot^2>": 2.5}
        q2r = X in QS
        core_in, core_out = ("F", "G") if q2r else ("G", "F")
        with np.errstate(all="ignore"):
            e_core = e if X == core_in else np.asarray(getattr(cvn, f"{X}_to_{core_in}")(x, y, e, **mat)[1], dtype=float)
            fw = lorch_weight(x, np.pi / float(x.max())) if case["lorch"] else np.ones_like(x)
            wts = weights(x)
            ex_core = np.array([np.sqrt(np.sum((wts * fw * e_core * np.sin(x * t)) ** 2)) for t in xo]) * ((2 / np.pi) if q2r else 1.0)
            ex_out = ex_core if Y == core_out else np.asarray(getattr(cvn, f"{core_out}_to_{Y}")(xo, np.zeros_like(xo), ex_core, **mat)[1], dtype=float)
            dkey = {"S": "dsq", "F": "dfq", "FK": "dfq_keen", "DCS": "ddcs", "g": "dgr", "G": "dgr", "GK": "dgr"}[X]
            try:
                un = np.asarray(getattr(tr, f"{X}_to_{Y}")(x, y, xo, **{dkey: e}, **mat, **kw)[2], dtype=float)
                tol_n = 1e-9 * (float(np.abs(ex_out).max()) + 1e-300)
                bad = (un < ex_out - tol_n) | (un > np.sqrt(2) * ex_out + tol_n)
                if un.shape != ex_out.shape or bad.any():
                    j = int(np.argmax(bad)) if un.shape == ex_out.shape else 0
                    fails.append(f"{X}_to_{Y}: uncertainty {un[j] if un.shape == ex_out.shape else un.shape!r} at x'={xo[j]!r} is outside [1, sqrt2] x the exact "
                                 f"propagation {ex_out[j]!r} through input conversion, core transform and output conversion")
            except TypeError as ex:
                fails.append(f"{X}_to_{Y}: does not accept its documented uncertainty keyword {dkey} ({str(ex)[:60]})")
    # ... and only on the *values* of the output grid: bin numbers / whole-number abscissae held in an integer array give the
    # uncertainties of the same grid held as floats
    xw = np.arange(1, 2 + len(xo) % 4, dtype=np.int64)
    try:
        _, _, uf = tr.fourier_transform(x, y, xw.astype(float), xmax=hi, dy_in=e, **kw)
        _, _, uw = tr.fourier_transform(x, y, xw, xmax=hi, dy_in=e, **kw)
        if np.asarray(uw).shape != np.asarray(uf).shape or exceeds(np.abs(np.asarray(uw, dtype=float) - np.asarray(uf, dtype=float)).max(),
                                                                    1e-12 * (float(np.abs(uf).max()) + 1e-300)):
            fails.append(f"transform uncertainty on the integer-typed output grid {xw.tolist()} differs from the same grid as floats "
                         f"({np.asarray(uw).tolist()[:3]} vs {np.asarray(uf).tolist()[:3]})")
        _, _, ugw = tr.F_to_G(x, y, xw, dfq=e, **kw) if hi is None else tr.F_to_G(x, y, xw, dfq=e, xmax=hi, **kw)
        if exceeds(np.abs(np.asarray(ugw, dtype=float) - np.asarray(uf, dtype=float) * 2 / np.pi).max(), 1e-12 * (float(np.abs(uf).max()) + 1e-300)):
            fails.append("F_to_G uncertainty on an integer-typed output grid is not (2/pi) x core uncertainty of the same grid as floats")
    except Exception as ex:  # noqa: BLE001
        fails.append(f"an integer-typed output grid with float uncertainties raises {type(ex).__name__}")
    # 2/pi scaling in the Q->r direction
    _, _, ug2 = tr.F_to_G(x, y, xo, dfq=e, **kw) if hi is None else tr.F_to_G(x, y, xo, dfq=e, xmax=hi, **kw)
    if exceeds(np.abs(np.asarray(ug2) - u * 2 / np.pi).max(), 1e-12 * sc):
        fails.append("F_to_G uncertainty is not (2/pi) x core uncertainty")
    return fails


def nontrivial(c):
    x = np.asarray(c["x"])
    top = x.max() if c["hi"] is None else c["hi"]
    return int((x <= top).sum()) >= 3 and max(c["e"]) > 0
