"""Helpers shared by the per-property oracle modules.

A property module provides
  LEAN      : Lean module holding the property theorems (Props/Cnn.lean)
  ENTRIES   : entry points whose correspondence (impl vs Float model) belongs to this property
  gen(rng, i, tier) -> case (json-serialisable dict)
  evaluate(case)    -> list of failure strings (empty = property held on this case)   [runs the REAL code]
  nontrivial(case)  -> bool
"""
import numpy as np


def arr(x):
    return None if x is None else np.asarray(x, dtype=float)


def tolist(x):
    if x is None:
        return None
    if isinstance(x, np.ndarray):
        return [float(t) for t in x.ravel()]
    if isinstance(x, (list, tuple)):
        return [tolist(t) if isinstance(t, (list, tuple, np.ndarray)) else t for t in x]
    return x


def relerr(a, b, scale=None):
    a = np.asarray(a, dtype=float)
    b = np.asarray(b, dtype=float)
    if a.shape != b.shape:
        return float("inf")
    if a.size == 0:
        return 0.0
    if not (np.isfinite(a).all() and np.isfinite(b).all()):
        same = np.array_equal(np.isnan(a), np.isnan(b)) and np.array_equal(a[np.isinf(a)], b[np.isinf(b)])
        if not same:
            return float("inf")
        m = np.isfinite(a) & np.isfinite(b)
        a, b = a[m], b[m]
        if a.size == 0:
            return 0.0
    s = scale if scale is not None else max(1.0, float(np.abs(a).max()), float(np.abs(b).max()))
    return float(np.abs(a - b).max() / s)


class Unchanged:
    """context: the arrays handed to the library must be bit-identical afterwards (C16 clause, checked wherever cheap)"""

    def __init__(self, *arrays):
        self.arrays = [a for a in arrays if isinstance(a, np.ndarray)]
        self.snap = [a.copy() for a in self.arrays]

    def violated(self):
        return any(not np.array_equal(a, b, equal_nan=True) for a, b in zip(self.arrays, self.snap))


def confusable(x):
    """a different strictly increasing grid with the same length, first and last value as x (None if impossible):
    anything that identifies a grid by (len, x[0], x[-1]) confuses the two"""
    x = np.asarray(x, dtype=float)
    if len(x) < 3 or not np.all(np.diff(x) > 0):
        return None
    t = (x - x[0]) / (x[-1] - x[0])
    x2 = x[0] + (x[-1] - x[0]) * t ** 1.7
    x2[0], x2[-1] = x[0], x[-1]
    if not np.all(np.diff(x2) > 0) or np.array_equal(x2, x):
        return None
    return x2


def fresh(cls):
    """a new instance of a library class (no history)"""
    import impl
    return getattr(impl.pystog, cls)()


def bits_equal(a, b):
    if isinstance(a, tuple) or isinstance(b, tuple):
        return isinstance(a, tuple) and isinstance(b, tuple) and len(a) == len(b) and all(bits_equal(p, q) for p, q in zip(a, b))
    if a is None or b is None:
        return a is None and b is None
    a, b = np.asarray(a, dtype=float), np.asarray(b, dtype=float)
    return a.shape == b.shape and np.array_equal(a.view(np.uint64) if a.flags.c_contiguous else np.ascontiguousarray(a).view(np.uint64),
                                                 b.view(np.uint64) if b.flags.c_contiguous else np.ascontiguousarray(b).view(np.uint64))


def history_differs(cls, method, args, kw, primers):
    """True if method(*args, **kw) on an instance that first executed the primer calls [(method, args, kw), ...] differs
    bit-wise from the same call on a fresh instance ("irrespective of earlier calls")"""
    ref = getattr(fresh(cls), method)(*args, **kw)
    # the whole sequence, and each primer alone as the immediately preceding call (a one-slot cache is evicted by the next primer)
    for seq in [primers] + ([[p] for p in primers] if len(primers) > 1 else []):
        used = fresh(cls)
        for m, pa, pk in seq:
            try:
                getattr(used, m)(*pa, **pk)
            except Exception:  # noqa: BLE001
                pass
        got = getattr(used, method)(*args, **kw)
        if not bits_equal(ref, got):
            return True
    # ... and irrespective of what *another* instance of the class did before (state kept on the class or in the module, a mutable default
    # argument): the primers run on one instance, the call on a new one
    other = fresh(cls)
    for m, pa, pk in primers:
        try:
            getattr(other, m)(*pa, **pk)
        except Exception:  # noqa: BLE001
            pass
    if not bits_equal(ref, getattr(fresh(cls), method)(*args, **kw)):
        return True
    return False


def inplace_history_differs(cls, method, args, kw, idx, other):
    """True if calling method(*args) on an instance that first served the same call with argument `idx` holding `other`
    in the *same array object* (then overwritten in place with the present values) differs bit-wise from a fresh instance:
    anything that recognises an array by identity instead of by content shows"""
    args = list(args)
    target = np.array(args[idx], dtype=float)
    ref = getattr(fresh(cls), method)(*[target.copy() if i == idx else a for i, a in enumerate(args)], **kw)
    buf = np.array(other, dtype=float)
    if buf.shape != target.shape:
        return False
    used = fresh(cls)
    a1 = [buf if i == idx else a for i, a in enumerate(args)]
    try:
        getattr(used, method)(*a1, **kw)
    except Exception:  # noqa: BLE001
        pass
    buf[...] = target
    got = getattr(used, method)(*a1, **kw)
    return not bits_equal(tuple(ref) if isinstance(ref, (tuple, list)) else ref, tuple(got) if isinstance(got, (tuple, list)) else got)


_API = None


def api_names(entry):
    """documented parameter names of a public method at the pinned commit (harness/api_names.json, tools/mk_api_names.py)"""
    global _API
    if _API is None:
        import json, os
        _API = json.load(open(os.path.join(os.path.dirname(os.path.dirname(os.path.abspath(__file__))), "api_names.json")))
    return _API.get(entry)


def keyword_call_differs(obj, entry, args, kw, ref):
    """Call the method with every argument passed under its documented keyword name (None arguments omitted) and compare
    bit-wise with the positional result `ref`.  Every public method also accepts **kwargs, so a renamed parameter does not
    raise: the argument is silently swallowed.  Returns a failure string or None."""
    names = api_names(entry)
    if names is None or len(names) < len(args):
        return None
    named = {n: a for n, a in zip(names, args) if a is not None}
    meth = entry.split(".")[1]
    try:
        with np.errstate(all="ignore"):
            got = getattr(obj, meth)(**named, **kw)
    except TypeError as ex:
        return f"{meth}: calling with the documented keyword names raises TypeError ({str(ex)[:80]})"
    if not bits_equal(tuple(ref) if isinstance(ref, (tuple, list)) else ref, tuple(got) if isinstance(got, (tuple, list)) else got):
        return (f"{meth}: passing the arguments under their documented keyword names ({', '.join(named)}) gives a different result than "
                "passing them positionally (an argument is swallowed by **kwargs)")
    return None


def transform_primers(method, x, y, xo, dy_key=None, dy=None, kw=None):
    """calls that an instance may have served before the call under test: the same arguments with every option switched on,
    a look-alike input grid (same length and end points), a look-alike output grid, other data"""
    kw = dict(kw or {})
    base = dict(kw)
    if dy_key and dy is not None:
        base[dy_key] = dy
    hot = dict(base, lorch=True, OmittedXrangeCorrection=True)
    prim = [(method, (x, y, xo), hot)]
    if len(x) >= 3:
        prim.append((method, (x, y, xo), dict(hot, xmin=float(np.sort(x)[1]), xmax=float(np.sort(x)[-2]))))
    x2 = confusable(x)
    if x2 is not None:
        prim.append((method, (x2, y, xo), base))
        prim.append((method, (x2, y, xo), hot))
    xo2 = confusable(xo)
    if xo2 is not None:
        prim.append((method, (x, y, xo2), base))
    prim.append((method, (x, np.asarray(y, dtype=float) * 1.3 + 0.2, xo), base))
    return prim


def exceeds(value, tol):
    """value > tol, with NaN counting as exceeding (a NaN in a difference must never pass as agreement)"""
    return not (value <= tol)


_NEW_OPTS = None


def new_options():
    """keyword option names that the current source reads from **kwargs and the pinned tree did not (harness/known_options.json, written from the
    pinned tree): on the unchanged tree this is empty.  A failing-input search aid: a feature added behind a new keyword is exercised by switching it on."""
    global _NEW_OPTS
    if _NEW_OPTS is None:
        import ast, glob, json, os
        import impl
        known = set(json.load(open(os.path.join(os.path.dirname(os.path.dirname(os.path.abspath(__file__))), "known_options.json"))))
        found = set()
        srcdir = os.path.dirname(impl.pystog.__file__)
        for f in glob.glob(os.path.join(srcdir, "*.py")):
            try:
                t = ast.parse(open(f).read())
            except SyntaxError:
                continue
            for n in ast.walk(t):
                if (isinstance(n, ast.Call) and isinstance(n.func, ast.Attribute) and n.func.attr in ("get", "pop", "setdefault")
                        and isinstance(n.func.value, ast.Name) and n.func.value.id == "kwargs" and n.args
                        and isinstance(n.args[0], ast.Constant) and isinstance(n.args[0].value, str)):
                    found.add(n.args[0].value)
                if (isinstance(n, ast.Subscript) and isinstance(n.value, ast.Name) and n.value.id == "kwargs"
                        and isinstance(n.slice, ast.Constant) and isinstance(n.slice.value, str)):
                    found.add(n.slice.value)
                if (isinstance(n, ast.Compare) and len(n.ops) == 1 and isinstance(n.ops[0], ast.In) and isinstance(n.left, ast.Constant)
                        and isinstance(n.left.value, str) and isinstance(n.comparators[0], ast.Name) and n.comparators[0].id == "kwargs"):
                    found.add(n.left.value)
        _NEW_OPTS = sorted(found - known)
    return _NEW_OPTS
