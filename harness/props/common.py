"""Helpers shared by the per-property oracle modules.

A property module provides
  LEAN      : Lean module holding the property theorems (Props/Cnn.lean)
  ENTRIES   : entry points whose correspondence (impl vs Float model) belongs to this property
  gen(rng, i, tier) -> case (json-serialisable dict)
  evaluate(case)    -> list of failure strings (empty = property held on this case)   [runs the REAL code]
  nontrivial(case)  -> bool
"""
import numpy as np


def arr(x):
    return None if x is None else np.asarray(x, dtype=float)


def tolist(x):
    if x is None:
        return None
    if isinstance(x, np.ndarray):
        return [float(t) for t in x.ravel()]
    if isinstance(x, (list, tuple)):
        return [tolist(t) if isinstance(t, (list, tuple, np.ndarray)) else t for t in x]
    return x


def relerr(a, b, scale=None):
    a = np.asarray(a, dtype=float)
    b = np.asarray(b, dtype=float)
    if a.shape != b.shape:
        return float("inf")
    if a.size == 0:
        return 0.0
    if not (np.isfinite(a).all() and np.isfinite(b).all()):
        same = np.array_equal(np.isnan(a), np.isnan(b)) and np.array_equal(a[np.isinf(a)], b[np.isinf(b)])
        if not same:
            return float("inf")
        m = np.isfinite(a) & np.isfinite(b)
        a, b = a[m], b[m]
        if a.size == 0:
            return 0.0
    s = scale if scale is not None else max(1.0, float(np.abs(a).max()), float(np.abs(b).max()))
    return float(np.abs(a - b).max() / s)


class Unchanged:
    """context: the arrays handed to the library must be bit-identical afterwards (C16 clause, checked wherever cheap)"""

    def __init__(self, *arrays):
        self.arrays = [a for a in arrays if isinstance(a, np.ndarray)]
        self.snap = [a.copy() for a in self.arrays]

    def violated(self):
        return any(not np.array_equal(a, b, equal_nan=True) for a, b in zip(self.arrays, self.snap))
