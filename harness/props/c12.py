"""C12 — StoG workflow steps equal the library primitives and are history-independent (real StoG)."""
import contextlib, io, os, shutil, tempfile
import numpy as np
import impl, proto, compare
from pystog import StoG
from gen import rng_for, grid, data
from .common import tolist

LEAN = "PystogVerif.Props.C12"
# theorems about the code generated from stog.py by tools/translate_stog.py (built when these methods translate)
LEAN_GEN = "PystogVerif.Props.C12Gen"
STOG_METHODS = ["create_domain", "__update_dr", "transform_merged", "fourier_filter", "apply_lorch", "_add_keen_fq", "_add_keen_gr",
                "write_out_ft", "write_out_ft_sq", "write_out_ft_gr", "write_out_lorched_gr", "write_out_rmc_fq", "write_out_rmc_gr"]
ENTRIES = []
RULE = ("random merged S(Q) (Q>0, 8-40 points), r grid (5-25 points, Rmin 0 or >0), real-space function, density, <b_coh>^2, low-Q "
        "correction flag, cutoff; a random legal sequence of 1-8 operations (thorough 1-30) out of transform / filter / lorch / "
        "keen-F(Q) / keen-G(r); every step is compared with a direct library call and with the other orders; "
        "non-trivial = the sequence contains a filter and at least one repeated operation")
DIST = ["rsf", "lowq", "nops", "retuned", "qwin", "cutkind", "qzero", "switch"]
SHRINK = None
TRUSTED = ["lean/PystogVerif/Model/Workflow.lean is a hand-written state machine for the five workflow steps whose numeric work is the "
           "generated code; tied to /repo by the op-sequence correspondence (all master dictionaries after every step)"]
RSF = ["g(r)", "G(r)", "GK(r)"]
SHORT = {"g(r)": "g", "G(r)": "G", "GK(r)": "GK"}
OPS = ["T", "F", "L", "KF", "KG", "rho:=;T", "bcoh:=;T", "rgrid:=", "rsf:="]


def gen(rng, i, tier):
    q, _ = grid(rng, n=int(rng.integers(8, 40)), zero=False, lo=float(rng.uniform(0.2, 1.0)), hi=float(rng.uniform(8, 25)))
    q = np.round(q, 2)
    q = np.unique(q)
    qzero = bool(rng.random() < 0.15)
    if qzero:
        q = np.concatenate([[0.0], q])      # a merged grid whose first bin is Q = 0
    s, _ = data(rng, q, kind=str(rng.choice(["noise", "smooth"])), base=1.0)
    rmin = 0.0 if rng.random() < 0.5 else 0.1
    nops = int(rng.integers(1, 9 if tier == "quick" else 31))
    ops = [int(t) for t in rng.integers(0, 5, nops)]
    # 35% of the histories re-tune the instance in between: op 5 = set a new density, op 6 = set a new <b_coh>^2, each followed by
    # transform_merged (the re-tuned instance must behave like a fresh one with the new constants)
    if rng.random() < 0.35:
        for _ in range(int(rng.integers(1, 3))):
            ops.insert(int(rng.integers(1, len(ops) + 1)), int(rng.integers(5, 7)))
    # 25%: the r-grid settings (Rmax, Rdelta) are changed in between *without* transforming again (op 7): curves already stored keep
    # the grid they were computed on; a later explicit transform uses the new grid
    if rng.random() < 0.25:
        ops.insert(int(rng.integers(1, len(ops) + 1)), 7)
    # 15%: the selectable real-space function is switched in between (op 8), on an instance whose merged-curve label the user may have
    # renamed: "for each selectable real-space function" the steps after the switch give what the primitives give for the new function
    switch = bool(rng.random() < 0.15)
    if switch:
        ops.insert(int(rng.integers(1, len(ops) + 1)), 8)
    cutoff = float(rng.uniform(0.6, 2.0))
    rdelta = float(rng.choice([0.1, 0.2, 0.25]))
    cutkind = "ordinary"
    if rng.random() < 0.15:
        # a cutoff that leaves exactly one stored r point in [0, cutoff] (the first grid point itself, or anywhere below the second)
        cutoff = rmin if rng.random() < 0.4 else rmin + float(rng.uniform(0.05, 0.9)) * rdelta
        cutkind = "one-point"
    rsf = int(rng.integers(0, 3))
    # a null-scattering sample (<b_coh>^2 exactly 0) in one case out of fifteen, for the functions that do not divide by it
    bcoh = 0.0 if (rsf != 2 and rng.random() < 0.07) else float(rng.uniform(0.5, 6))
    rmax_ = float(rng.uniform(3, 6))
    if cutkind == "ordinary" and rng.random() < 0.08:
        cutoff, cutkind = rmax_ + 1.0, "whole-grid"     # the filter window covers the whole r grid
    return dict(qzero=qzero, cutkind=cutkind, q=tolist(q), s=tolist(s), rsf=rsf, rho=float(10 ** rng.uniform(-2, -0.5)), bcoh=bcoh,
                lowq=bool(rng.random() < 0.4), cutoff=cutoff, rmin=rmin, rmax=rmax_,
                rdelta=rdelta, ops=ops, nops=nops, rho2=float(10 ** rng.uniform(-2, -0.5)), bcoh2=float(rng.uniform(0.5, 6)),
                retuned=any(o >= 5 for o in ops), switch=switch, rsf2=int(rng.integers(1, 3)), custom_title=bool(switch and rng.random() < 0.5), rmax2=float(rng.uniform(3, 6)), rdelta2=float(rng.choice([0.1, 0.2, 0.25, 0.05])),
                qwin=(None if rng.random() < 0.6 else
                      [float(rng.choice([0.0, 0.1])), float(rng.choice([q[-1] + 5.0, q[-1] - 0.003, q[len(q) // 2] + 0.004, q[-1]]))]))


@contextlib.contextmanager
def workdir():
    d = tempfile.mkdtemp(prefix="verif_c12_")
    cwd = os.getcwd()
    os.chdir(d)
    try:
        with contextlib.redirect_stdout(io.StringIO()):
            yield d
    finally:
        os.chdir(cwd)
        shutil.rmtree(d, ignore_errors=True)


def mk(case):
    st = StoG(**{"RealSpaceFunction": RSF[case["rsf"]], "Rmin": case["rmin"], "Rmax": case["rmax"], "Rdelta": case["rdelta"],
                "NumberDensity": case["rho"], "<b_coh>^2": case["bcoh"], "<b_tot^2>": 1.0,
                "OmittedXrangeCorrection": case["lowq"], "FourierFilter": {"Cutoff": case["cutoff"]}, "Outputs": {"StemName": "wf"}})
    if case.get("qwin"):
        st.qmin, st.qmax = case["qwin"]     # "Merging": {"Transform": {"Qmin", "Qmax"}}: the window of the ingestion step
    if len(case["q"]) % 5 == 1:
        # the instance loaded a dataset earlier, with the loading keywords of add_dataset's signature spelled out (precision of the loaded
        # columns etc.): how the data were loaded is no business of the workflow steps, which act on the merged curve
        st.add_dataset({"data": [np.array([1.0, 1.5, 2.0]), np.array([1.12345678, 0.9, 1.05]), np.array([0.01, 0.02, 0.03])],
                        "ReciprocalFunction": "S(Q)"}, ydecimals=3, yscale=1.0, yoffset=0.0, xoffset=0.0)
    st.q_master[st.sq_title] = np.array(case["q"], dtype=float)
    st.sq_master[st.sq_title] = np.array(case["s"], dtype=float)
    if len(case["q"]) % 3 == 0:
        # the merged S(Q) was edited after the merge: the Q[S(Q)-1] curve stored by that merge is stale; the steps work on "the merged data"
        st.q_master[st.qsq_minus_one_title] = np.array(case["q"], dtype=float)
        st.sq_master[st.qsq_minus_one_title] = np.array(case["q"], dtype=float) * (np.array(case["s"], dtype=float)[::-1] - 1.0) * 0.5
    return st


def cur(st):
    """the data cli.py would hand to the next step"""
    if st.sq_ft_title in st.sq_master:
        q, s = st.q_master[st.sq_ft_title], st.sq_master[st.sq_ft_title]
    else:
        q, s = st.q_master[st.sq_title], st.sq_master[st.sq_title]
    if st.gr_ft_title in st.gr_master:
        r = st.r_master[st.gr_ft_title]
    elif st.gr_title in st.gr_master:
        r = st.r_master[st.gr_title]
    else:
        r = st.dr
    g = None
    for t in (st.gr_lorch_title, st.gr_ft_title, st.gr_title):
        if t in st.gr_master:
            g = (st.r_master[t], st.gr_master[t])
            break
    return q, s, r, g


def apply(st, op):
    q, s, r, g = cur(st)
    if op == 0:
        st.transform_merged()
    elif op in (5, 6):
        st.transform_merged()
    elif op in (7, 8):
        pass
    elif op == 1:
        return st.fourier_filter()
    elif op == 2:
        return st.apply_lorch(q, s, r)
    elif op == 3:
        st._add_keen_fq(q, s)
    elif op == 4 and g is not None:
        st._add_keen_gr(g[0], g[1])
    return None


def snapshot(st):
    keys = [("gr", st.r_master, st.gr_master, st.gr_title), ("ft", st.q_master, st.sq_master, st._ft_title),
            ("sqFt", st.q_master, st.sq_master, st.sq_ft_title), ("grFt", st.r_master, st.gr_master, st.gr_ft_title),
            ("grLorch", st.r_master, st.gr_master, st.gr_lorch_title), ("fqKeen", st.q_master, st.sq_master, st.fq_title),
            ("gkKeen", st.r_master, st.gr_master, st.GKofR_title)]
    out = {"sq": (np.array(st.q_master[st.sq_title]), np.array(st.sq_master[st.sq_title]))}
    for name, xd, yd, title in keys:
        out[name] = (np.array(xd[title]), np.array(yd[title])) if title in yd else None
    return out


def evaluate(case):
    tr, ff, cv = impl.obj("Transformer"), impl.obj("FourierFilter"), impl.obj("Converter")
    fails = []
    X = SHORT[RSF[case["rsf"]]]
    kw = {"rho": case["rho"], "<b_coh>^2": case["bcoh"]}
    with workdir(), np.errstate(all="ignore"):
        st = mk(case)
        if case.get("custom_title"):
            st.gr_title = "my merged curve"      # a label of the user's own for the merged real-space curve
        q, s = st.q_master[st.sq_title].copy(), st.sq_master[st.sq_title].copy()
        r0, g0, _ = getattr(tr, f"S_to_{X}")(q, s, st.dr, lorch=False, **kw)
        ref = getattr(ff, f"{X}_using_S")(r0, g0, q, s, case["cutoff"], lorch=False, OmittedXrangeCorrection=case["lowq"], **kw)
        for k, op in enumerate(case["ops"]):
            if op in (5, 6):
                # re-tune through the public setter; the references follow "the instance's density, scattering lengths"
                if op == 5:
                    st.density = case["rho2"]
                    kw["rho"] = case["rho2"]
                else:
                    st.bcoh_sqrd = case["bcoh2"]
                    kw["<b_coh>^2"] = case["bcoh2"]
                r0, g0, _ = getattr(tr, f"S_to_{X}")(q, s, st.dr, lorch=False, **kw)
                ref = getattr(ff, f"{X}_using_S")(r0, g0, q, s, case["cutoff"], lorch=False, OmittedXrangeCorrection=case["lowq"], **kw)
            if op == 8:
                # another real-space function is selected on the same instance: nothing computed for the old one may be taken for the new
                new = RSF[(case["rsf"] + case["rsf2"]) % 3]
                if new == "GK(r)" and kw["<b_coh>^2"] == 0.0:
                    new = "G(r)"
                st.real_space_function = new
                if SHORT[new] != X:
                    # (selecting the function that is selected already — the null-scattering fallback above — switches nothing: the curves
                    # stored for it, on the grid they were computed on, stay the reference)
                    X = SHORT[new]
                    r0, g0, _ = getattr(tr, f"S_to_{X}")(q, s, st.dr, lorch=False, **kw)
                    ref = getattr(ff, f"{X}_using_S")(r0, g0, q, s, case["cutoff"], lorch=False, OmittedXrangeCorrection=case["lowq"], **kw)
            if op == 7:
                # halve-or-so the grid: same number of points as often as not, so that a stale pairing of a stored curve with the new
                # grid is a wrong value rather than an exception
                st.rmax, st.rdelta = case["rmax2"], case["rdelta2"]
                if st.gr_title not in st.gr_master:
                    r0, g0, _ = getattr(tr, f"S_to_{X}")(q, s, st.dr, lorch=False, **kw)
                    ref = getattr(ff, f"{X}_using_S")(r0, g0, q, s, case["cutoff"], lorch=False, OmittedXrangeCorrection=case["lowq"], **kw)
            if op == 0:
                r0, g0, _ = getattr(tr, f"S_to_{X}")(q, s, st.dr, lorch=False, **kw)
                ref = getattr(ff, f"{X}_using_S")(r0, g0, q, s, case["cutoff"], lorch=False, OmittedXrangeCorrection=case["lowq"], **kw)
            qc, sc_, rc, gc = cur(st)
            # frame: what a step does not (re)compute stays what it was — the stored curves are the object's own arrays, not views of a
            # buffer that a later transform reuses
            before_all = {("g", t): np.array(v, copy=True) for t, v in st.gr_master.items()} | {("s", t): np.array(v, copy=True) for t, v in st.sq_master.items()}
            writes = {0: {("g", st.gr_title)}, 5: {("g", st.gr_title)}, 6: {("g", st.gr_title)},
                      1: {("s", st._ft_title), ("s", st.sq_ft_title), ("g", st.gr_ft_title)} | ({("g", st.gr_title)} if st.gr_title not in st.gr_master else set()),
                      2: {("g", st.gr_lorch_title)}, 3: {("s", st.fq_title)}, 4: {("g", st.GKofR_title)}, 7: set(), 8: set()}[op]
            try:
                ret = apply(st, op)
            except Exception as ex:  # noqa: BLE001
                fails.append(f"step {k} ({OPS[op]}): raises {type(ex).__name__} (history {[OPS[t] for t in case['ops'][:k]]})")
                break
            if not (np.array_equal(st.q_master[st.sq_title], q) and np.array_equal(st.sq_master[st.sq_title], s)):
                fails.append(f"step {k} ({OPS[op]}): the merged S(Q) was overwritten")
                break
            for key, old in before_all.items():
                if key in writes:
                    continue
                now = (st.gr_master if key[0] == "g" else st.sq_master).get(key[1])
                if now is None or not np.array_equal(np.asarray(now), old, equal_nan=True):
                    fails.append(f"step {k} ({OPS[op]}): the curve stored under '{key[1]}' changed although this step does not compute it "
                                 f"(history {[OPS[t] for t in case['ops'][:k]]})")
                    break
            if fails:
                break
            if op in (0, 5, 6) and not np.array_equal(st.gr_master[st.gr_title], g0):
                fails.append(f"step {k}: transform_merged does not store Transformer.S_to_{X} of the merged data with the instance's settings")
            if op == 1:
                qq, ss, rr, gg = ret
                ok = (np.allclose(ss, ref[3], rtol=1e-15, atol=1e-16) and np.array_equal(gg, ref[5])
                      and np.allclose(st.sq_master[st._ft_title], ref[1], rtol=1e-15, atol=1e-16)
                      and np.array_equal(st.gr_master[st.gr_ft_title], ref[5]) and np.array_equal(st.gr_master[st.gr_title], g0))
                if not ok:
                    fails.append(f"step {k}: fourier_filter differs from FourierFilter.{X}_using_S on the merged data (history {[OPS[t] for t in case['ops'][:k]]})")
            if op == 2:
                lk = {"g": {"lorch": True, "rho": kw["rho"]}, "G": {"lorch": True}, "GK": {"lorch": True, **kw}}[X]
                _, gl, _ = getattr(tr, f"S_to_{X}")(qc, sc_, rc, **lk)
                if not (np.array_equal(ret[1], gl) and np.array_equal(st.gr_master[st.gr_lorch_title], gl)):
                    fails.append(f"step {k}: apply_lorch differs from Transformer.S_to_{X}(lorch=True)")
            if op == 3:
                fk, _ = cv.S_to_FK(qc, sc_, **kw)
                if not np.array_equal(st.sq_master[st.fq_title], fk):
                    fails.append(f"step {k}: Keen F(Q) output is not the conversion of the final S(Q)")
            if op == 4 and gc is not None:
                gk = gc[1] if X == "GK" else getattr(cv, f"{X}_to_GK")(gc[0], gc[1], **kw)[0]
                if not np.array_equal(st.gr_master[st.GKofR_title], gk):
                    fails.append(f"step {k}: Keen G(r) output is not the conversion of the final real-space curve")
            if fails:
                break
    return fails


def nontrivial(c):
    return 1 in c["ops"] and len(set(c["ops"])) < len(c["ops"])


def correspond(seed, tier):
    n = 30 if tier == "quick" else 300
    lines, expect = [], {}
    gen_twin = set(proto.gen_entries())      # the Float reading of the workflow methods generated from stog.py, as a twin of every request
    dist = {"ops": {o: 0 for o in OPS}, "steps": 0, "generated_code_twins": bool(gen_twin)}
    for i in range(n):
        c = gen(rng_for(seed, "corr12", i), i, tier)
        c["ops"] = [o for o in c["ops"] if o < 5]
        with workdir(), np.errstate(all="ignore"):
            st = mk(c)
            dr = np.array(st.dr, dtype=float)
            for k, op in enumerate(c["ops"]):
                apply(st, op)
                rid = f"wf{i}.{k}"
                wargs = [float(c["rsf"]), c["rho"], c["bcoh"], 1.0 if c["lowq"] else 0.0, c["cutoff"], dr,
                         np.array(c["q"]), np.array(c["s"]), np.array(c["ops"][:k + 1], dtype=float)]
                lines.append(proto.request(rid, "Wf.run", {}, wargs))
                expect[rid] = snapshot(st)
                if "GenStog.wfRun" in gen_twin:
                    lines.append(proto.request("g" + rid, "GenStog.wfRun", {}, wargs))
                    expect["g" + rid] = expect[rid]
                dist["ops"][OPS[op]] += 1
                dist["steps"] += 1
    res = proto.run_model(lines)
    dis, worst = [], 0.0
    names = ["gr", "ft", "sqFt", "grFt", "grLorch", "fqKeen", "gkKeen"]
    for rid, snap in expect.items():
        st_, out = res.get(rid, ("err", "no-response"))
        if st_ != "ok":
            dis.append(dict(id=rid, kind="status", model=str(out)[:200]))
            continue
        pairs = [("sq", snap["sq"], (out[0], out[1]), True)]
        for j, nm in enumerate(names):
            present = bool(len(out[2 + 3 * j]) and out[2 + 3 * j][0] == 1.0)
            pairs.append((nm, snap[nm], (out[3 + 3 * j], out[4 + 3 * j]), present))
        for nm, exp, got, present in pairs:
            if (exp is not None) != present:
                dis.append(dict(id=rid, kind="presence", key=nm, impl=exp is not None, model=present))
                break
            if exp is None:
                continue
            bad = False
            for a, b in zip(exp, got):
                ok, w, idx = compare.close(a, b, rtol=1e-9, atol=1e-12 * max(1.0, float(np.abs(a).max(initial=0.0))))
                worst = max(worst, w if np.isfinite(w) else 1e300)
                if not ok:
                    dis.append(dict(id=rid, kind="value", key=nm, index=idx, shapes=(len(a), len(b))))
                    bad = True
                    break
            if bad:
                break
    return dict(evaluations=len(expect), disagreements=dis, worst_ratio=worst, distribution=dist, samples=[], cases={})

DRIVERS = ["drvm"]
