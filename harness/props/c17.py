"""C17 — post-merge scale/offset options compose as documented; stored curves agree (real StoG)."""
import math
import numpy as np
from .common import exceeds
import impl
from pystog import StoG
import stogcases as sc
from .c10 import keys

LEAN = "PystogVerif.Props.C17"
# theorems about the code generated from stog.py by tools/translate_stog.py (built when these methods translate)
LEAN_GEN = "PystogVerif.Props.C10Gen"
STOG_METHODS = ['apply_scales_and_offset', 'merge_data']
ENTRIES = []
RULE = ("all 2^4 present/absent subsets of the four leaf keys (Y.Scale, Y.Offset, Q[S(Q)-1].Y.Scale, Q[S(Q)-1].Y.Offset) and of the "
        "container keys (Merging, Y, Q[S(Q)-1], Q[S(Q)-1].Y) are enumerated by index; random values, 1-3 overlapping S(Q) datasets with Q>0; "
        "non-trivial = at least one option present with a non-identity value")
DIST = ["subset", "reverse"]
SHRINK = None
LEAVES = [("Y", "Scale"), ("Y", "Offset"), ("F", "Scale"), ("F", "Offset")]


def gen(rng, i, tier):
    nd = int(rng.integers(1, 4))
    ds = []
    for _ in range(nd):
        d = sc.mk_dataset(rng, kind="S(Q)", maxn=25)
        while min(d["x"]) <= 0.005:          # the property speaks of merged data with Q > 0
            d = sc.mk_dataset(rng, kind="S(Q)", maxn=25)
        d.pop("X", None)
        ds.append(d)
    idx = i % 64 if i >= 0 else int(rng.integers(0, 64))
    present = [(idx >> b) & 1 for b in range(4)]
    containers = (idx >> 4) & 3  # 0: containers only when needed, 1: empty "Y" present, 2: empty "Q[S(Q)-1]" present, 3: no Merging at all
    vals = [float(rng.uniform(0.5, 2.0)), float(rng.uniform(-0.5, 0.5)), float(rng.uniform(0.5, 2.0)), float(rng.uniform(-0.5, 0.5))]
    for k in range(4):
        if rng.random() < 0.12:
            vals[k] = 0.0        # "all scale/offset values": zero is a value, not "absent"
    # the transform window (qmin/qmax) re-set through its setters after the data were loaded: it belongs to loading and to the transforms,
    # the merge stores what was loaded
    late = None
    if rng.random() < 0.15:
        allx = sorted(x for d in ds for x in d["x"])
        late = [float(allx[len(allx) // 4]) if rng.random() < 0.7 else None, float(allx[(3 * len(allx)) // 4]) if rng.random() < 0.7 else None]
    return dict(datasets=ds, present=present, containers=containers, vals=vals, subset="".join(map(str, present)) + f"/{containers}",
                reverse=bool(rng.random() < 0.5), late_window=late)


def opts(case):
    if case["containers"] == 3:
        return None
    m = {}
    p, v = case["present"], case["vals"]
    if p[0] or p[1] or case["containers"] == 1:
        m["Y"] = {}
        if p[0]:
            m["Y"]["Scale"] = v[0]
        if p[1]:
            m["Y"]["Offset"] = v[1]
    if p[2] or p[3] or case["containers"] == 2:
        m["Q[S(Q)-1]"] = {"Y": {}}
        if p[2]:
            m["Q[S(Q)-1]"]["Y"]["Scale"] = v[2]
        if p[3]:
            m["Q[S(Q)-1]"]["Y"]["Offset"] = v[3]
    if case.get("reverse"):
        # the same options written in the other key order (Offset before Scale, Q[S(Q)-1] before Y), as in the docstring / a sorted JSON
        def rev(d):
            return {k: (rev(v) if isinstance(v, dict) else v) for k, v in reversed(list(d.items()))}
        m = rev(m)
    return m


def evaluate(case):
    fails = []
    o = opts(case)
    kw = {} if o is None else {"Merging": o}
    p, v = case["present"], case["vals"]
    if o is None:
        aS, bS, cF, dF = 1.0, 0.0, 1.0, 0.0
    else:
        aS, bS = (v[0] if p[0] else 1.0), (v[1] if p[1] else 0.0)
        cF, dF = (v[2] if p[2] else 1.0), (v[3] if p[3] else 0.0)
    try:
        s = StoG(**kw)
        sc.decoy_instances()
        for d in case["datasets"]:
            s.add_dataset(sc.to_info(d))
        if len(case["datasets"][0]["x"]) % 7 == 0 and s.sq_individuals.shape[1] >= 1:
            # a point at a tiny positive Q (the storage array is public; 1e-9 is "Q > 0" like any other)
            tiny = np.array([[1e-9], [float(s.sq_individuals[1][0]) + 0.25], [0.0]])
            s.sq_individuals = np.concatenate([tiny, s.sq_individuals], axis=1)
        stored = s.sq_individuals.copy()
        if case.get("late_window"):
            lo, hi = case["late_window"]
            if lo is not None:
                s.qmin = lo
            if hi is not None:
                s.qmax = hi
        s.merge_data()
    except Exception as ex:  # noqa: BLE001
        return [f"merge with post-merge options {o!r} raises {type(ex).__name__}({ex}) — an absent key must behave as its identity value"]
    q = np.asarray(s.q_master[s.sq_title], dtype=float)
    S = np.asarray(s.sq_master[s.sq_title], dtype=float)
    F = np.asarray(s.sq_master[s.qsq_minus_one_title], dtype=float)
    if not np.array_equal(q, s.q_master[s.qsq_minus_one_title]):
        fails.append("the two stored curves are on different grids")
    if not (q.shape == S.shape == F.shape):
        return fails + [f"stored S(Q) has {S.size} points, stored Q[S(Q)-1] has {F.size}, their stored Q grid has {q.size}"
                        + (" (transform window re-set after loading)" if case.get("late_window") else "")]
    if np.isnan(S).any() or np.isnan(F).any():
        fails.append("stored curves contain NaN")
    ks, kq = keys(stored[0]), keys(q)
    mean = np.array([math.fsum(stored[1][ks == k].tolist()) / int((ks == k).sum()) for k in kq])
    expF = cF * q * (aS * mean + bS - 1.0) + dF
    sc_ = max(1.0, float(np.abs(expF).max()))
    # point by point, each relative to the magnitudes that enter *that* point (a huge value in one bin — direct-beam leakage — is no
    # excuse for the other bins)
    sci = np.maximum(1.0, np.abs(q * cF) * (np.abs(aS * mean) + abs(bS) + 1.0) + abs(dF))
    if (np.abs(F - expF) > 1e-11 * sci).any():
        j = int(np.argmax(np.abs(F - expF) / sci))
        fails.append(f"stored Q[S(Q)-1] differs from cF*Q*(aS*mean+bS-1)+dF by {np.abs(F - expF)[j]:.3g} at Q={q[j]!r} where the value is {expF[j]!r} (options {o!r})")
    with np.errstate(all="ignore"):
        scs = np.maximum(1.0, sci / np.where(q > 0, q, 1.0))
    if (np.abs(S - (expF / q + 1.0)) > 1e-11 * scs)[q > 0].any():
        fails.append("stored S(Q) differs from stored Q[S(Q)-1]/Q + 1")
    if (np.abs(F - q * (S - 1.0)) > 1e-11 * sci)[q > 0].any():
        fails.append("stored curves do not satisfy Q[S(Q)-1] = Q*(S(Q)-1)")
    # "after merging": every merge, not only the first one on an object — merge again with the same options, then with the options
    # re-tuned through the setter (tuning the scale and re-merging is the normal way of working), always against the same formula
    if not fails:
        for rep in (1, 2):
            try:
                s.merge_data()
            except Exception as ex:  # noqa: BLE001
                fails.append(f"merge #{rep + 1} on the same object raises {type(ex).__name__}")
                break
            F2 = np.asarray(s.sq_master[s.qsq_minus_one_title], dtype=float)
            S2 = np.asarray(s.sq_master[s.sq_title], dtype=float)
            if F2.shape != expF.shape or exceeds(np.abs(F2 - expF).max(), 1e-11 * sc_) or exceeds(np.abs(S2 - (expF / q + 1.0)).max(), 1e-11 * max(1.0, float(np.abs(S).max()))):
                fails.append(f"merge #{rep + 1} on the same object (same data, same options {o!r}): stored curves no longer follow "
                             "cF*Q*(aS*mean+bS-1)+dF")
                break
        if not fails:
            s.merged_opts = {}
            s.merge_data()
            F3 = np.asarray(s.sq_master[s.qsq_minus_one_title], dtype=float)
            if F3.shape != mean.shape or exceeds(np.abs(F3 - q * (mean - 1.0)).max(), 1e-11 * max(1.0, float(np.abs(q * (mean - 1.0)).max()))):
                fails.append("after resetting the post-merge options to {} a new merge does not give Q*(mean-1): an earlier merge left its scale/offset behind")
    return fails


def nontrivial(c):
    return c["containers"] != 3 and any(c["present"])


def _mo(case):
    o = opts(case)
    p, v = case["present"], case["vals"]
    if o is None:
        return (None, {})
    return (o, {k: val for k, val, pp in zip(("aS", "bS", "cF", "dF"), v, p) if pp})


def correspond(seed, tier):
    import stogcorr
    return stogcorr.run(seed, tier, gen, _mo, n=64 if tier == "quick" else 640, tag="stogcorr17")


TRUSTED = ["lean/PystogVerif/Model/Stog.lean (postMerge) is a hand-written model of the tail of StoG.merge_data: tied to /repo only by "
           "the correspondence run over all present/absent option subsets"]

DRIVERS = ["drvm"]
