"""C13 — a transform window uses exactly the in-window points (real code)."""
import numpy as np
import impl
from gen import grid, data, unc
from .common import arr, tolist, history_differs, confusable

LEAN = "PystogVerif.Props.C13"
ENTRIES = ["Transformer.apply_cropping", "Transformer.fourier_transform"]
RULE = ("random grid/data/uncertainty; window with limits on grid points (40%), between points, partly outside the data or "
        "absent; options lorch / correction at random; outside points replaced by other finite values and by NaN/inf; "
        "non-trivial = at least one point outside and two inside the window")
DIST = ["wkind", "lorch", "omitted", "side"]
SHRINK = None


def gen(rng, i, tier):
    n = int(rng.integers(4, 50 if tier == "quick" else 400))
    x, gk = grid(rng, n=n, extra=0.12, extra_kinds=["crossing", "negative"])
    y, _ = data(rng, x)
    dy = unc(rng, x)
    xo, _ = grid(rng, n=int(rng.integers(1, 8)) + 1)
    r = rng.random()
    if r < 0.4:
        i0, i1 = sorted(rng.choice(len(x), 2, replace=False))
        if i1 - i0 < 1:
            i0, i1 = 0, len(x) - 1
        lo, hi, wk = float(x[i0]), float(x[i1]), "on-points"
    elif r < 0.8:
        lo, hi = sorted(rng.uniform(x[0] - 0.2 * (x[-1] - x[0]), x[-1] + 0.2 * (x[-1] - x[0]), 2))
        lo, hi, wk = float(lo), float(hi), "between"
    else:
        lo, hi, wk = None, None, "absent"
    if wk == "on-points" and rng.random() < 0.45:
        # limits a hair away from grid points (a few ulps up to 1e-6 relative), on either side: the closed interval is exact,
        # no tolerance may pull a point in or push one out
        def nudge(v):
            eps = float(rng.choice([4 * np.spacing(abs(v) + 1e-300), abs(v) * 1e-9 + 1e-12, abs(v) * 3e-6 + 3e-9]))
            return float(v + eps * (1 if rng.random() < 0.5 else -1))
        lo, hi, wk = nudge(lo), nudge(hi), "near-points"
    if wk != "absent" and rng.random() < 0.1 and len(x) > 3:
        # a window that contains no grid point at all: strictly between two neighbours, or entirely beyond the data
        k = int(rng.integers(0, len(x) - 1))
        if rng.random() < 0.6:
            lo, hi = float(x[k] + 0.3 * (x[k + 1] - x[k])), float(x[k] + 0.7 * (x[k + 1] - x[k]))
        else:
            lo, hi = float(x[-1] + 1.0), float(x[-1] + 2.0)
        wk = "empty"
    if lo is not None and wk != "empty" and int(((x >= lo) & (x <= hi)).sum()) < 2:
        lo, hi, wk = float(x[0]), float(x[-2]), "on-points"
    # one-sided windows: only xmin or only xmax given (the other side is the data range)
    side = "both"
    if lo is not None and wk != "empty" and rng.random() < 0.35:
        side = "xmax-only" if rng.random() < 0.5 else "xmin-only"
    return dict(x=tolist(x), y=tolist(y), dy=tolist(dy), xo=tolist(xo), lo=lo, hi=hi, wkind=wk,
                lorch=bool(rng.random() < 0.4), omitted=bool(rng.random() < 0.3), pert=float(rng.normal() * 5), side=side)


def same(a, b):
    return all(np.array_equal(np.asarray(p), np.asarray(q), equal_nan=True) for p, q in zip(a, b))


def evaluate(case):
    tr = impl.obj("Transformer")
    x, y, dy, xo = arr(case["x"]), arr(case["y"]), arr(case["dy"]), arr(case["xo"])
    lo, hi = case["lo"], case["hi"]
    kw = {}
    if case["lorch"]:
        kw["lorch"] = True
    if case["omitted"]:
        kw["OmittedXrangeCorrection"] = True
    fails = []
    # a grid of whole numbers held in an integer array, with window limits between the grid points: the window is what was asked for
    if len(x) >= 5:
        xi = np.arange(len(x), dtype=np.int64)
        loi, hii = 1.5, len(x) - 2.5
        with np.errstate(all="ignore"):
            wi = tr.fourier_transform(xi, y, xo, xmin=loi, xmax=hii, dy_in=dy, **kw)
            wf = tr.fourier_transform(xi.astype(float), y, xo, xmin=loi, xmax=hii, dy_in=dy, **kw)
        if not same(wi, wf):
            fails.append(f"fourier_transform on the integer-typed grid 0..{len(x) - 1} with the window [{loi}, {hii}] differs from the same grid as floats "
                         "(the window limits were not applied as given)")
            return fails
    # the arrays handed in are the caller's: a transform (window covering everything, Lorch on) leaves them as they were
    snap13 = [a.copy() for a in (x, y) ] + [None if dy is None else dy.copy()]
    with np.errstate(all="ignore"):
        tr.fourier_transform(x, y, xo, dy_in=dy, lorch=True)
        tr.fourier_transform(x, y, xo, xmin=float(x.min()) - 1.0, xmax=float(x.max()) + 1.0, dy_in=dy, **kw)
    if not (np.array_equal(snap13[0], x) and np.array_equal(snap13[1], y, equal_nan=True) and (dy is None or np.array_equal(snap13[2], dy, equal_nan=True))):
        return ["fourier_transform changes an array the caller passed in (values entering a later, narrower window are no longer the caller's data)"]
    # "for all grids": the same rows in another order (descending, or two banks stored high-angle first) — omitting the window, or one
    # side of it, still means the full data range
    if len(x) >= 4:
        k = 1 + len(x) // 3
        for oname, order in (("descending", np.arange(len(x))[::-1]), ("two banks, high first", np.concatenate([np.arange(k, len(x)), np.arange(0, k)]))):
            xr, yr, er = x[order], y[order], None if dy is None else dy[order]
            with np.errstate(all="ignore"):
                expl = tr.fourier_transform(xr, yr, xo, xmin=float(x.min()), xmax=float(x.max()), dy_in=er, **kw)
                for wname, w in (("no window", {}), ("xmax only", dict(xmax=float(x.max()))), ("xmin only", dict(xmin=float(x.min())))):
                    got = tr.fourier_transform(xr, yr, xo, dy_in=er, **w, **kw)
                    if not same(got, expl):
                        fails.append(f"fourier_transform on a grid stored {oname}: {wname} differs from the explicit full data range "
                                     f"[{float(x.min())!r}, {float(x.max())!r}]")
                        break
            if fails:
                return fails
    if lo is None:
        full = tr.fourier_transform(x, y, xo, dy_in=dy, **kw)
        expl = tr.fourier_transform(x, y, xo, xmin=float(x.min()), xmax=float(x.max()), dy_in=dy, **kw)
        if not same(full, expl):
            fails.append("fourier_transform: omitting the window differs from the full data range")
        return fails
    side = case.get("side", "both")
    if side != "both":
        # a one-sided window: the omitted side means the data range; equivalent to the explicit two-sided window
        one = dict(xmax=hi) if side == "xmax-only" else dict(xmin=lo)
        two = dict(xmin=float(x.min()), xmax=hi) if side == "xmax-only" else dict(xmin=lo, xmax=float(x.max()))
        m1 = (x <= hi) if side == "xmax-only" else (x >= lo)
        got = tr.fourier_transform(x, y, xo, dy_in=dy, **one, **kw)
        exp = tr.fourier_transform(x, y, xo, dy_in=dy, **two, **kw)
        pre = tr.fourier_transform(x[m1], y[m1], xo, dy_in=None if dy is None else dy[m1], **one, **kw)
        if not same(got, exp):
            fails.append(f"fourier_transform({side}): differs from the two-sided window with the data range on the omitted side")
        elif not same(got, pre) and int(m1.sum()) >= 2:
            fails.append(f"fourier_transform({side}): differs from transforming the pre-deleted data with the same window")
        return fails
    m = (x >= lo) & (x <= hi)
    # the documented positional form fourier_transform(xin, yin, xout, xmin, xmax, dy_in) is the keyword form
    if case["wkind"] != "empty":
        with np.errstate(all="ignore"):
            kwform = tr.fourier_transform(x, y, xo, xmin=lo, xmax=hi, dy_in=dy, **kw)
            try:
                posform = tr.fourier_transform(x, y, xo, lo, hi, dy, **kw)
                if not same(posform, kwform):
                    fails.append(f"fourier_transform(xin, yin, xout, {lo!r}, {hi!r}, dy): the documented positional form gives a different result "
                                 "than xmin=, xmax=, dy_in= by keyword")
            except Exception as ex:  # noqa: BLE001
                fails.append(f"fourier_transform with the window given positionally raises {type(ex).__name__}")
    if case["wkind"] != "empty" and len(x) >= 6:
        # the same rows stored as two banks, high bank first: the window [lo, hi] still equals deleting the outside rows beforehand
        k2 = len(x) // 2
        order = np.concatenate([np.arange(k2, len(x)), np.arange(0, k2)])
        xr, yr, er = x[order], y[order], None if dy is None else dy[order]
        mr = (xr >= lo) & (xr <= hi)
        if int(mr.sum()) >= 2:
            with np.errstate(all="ignore"):
                w1 = tr.fourier_transform(xr, yr, xo, xmin=lo, xmax=hi, dy_in=er, **kw)
                w2 = tr.fourier_transform(xr[mr], yr[mr], xo, xmin=lo, xmax=hi, dy_in=None if er is None else er[mr], **kw)
            if not same(w1, w2):
                fails.append(f"fourier_transform on rows stored as two banks (high first) with the window [{lo!r}, {hi!r}]: differs from "
                             "transforming the pre-deleted rows with the same window")
    # a window whose lower limit lies above its upper limit is a closed interval with nothing in it
    if len(x) >= 3:
        xs_ = np.sort(x)
        rl, rh = float(xs_[-2]), float(xs_[1])
        if rl > rh:
            cx, cy, ce = tr.apply_cropping(x, y, rl, rh, dy=dy)
            if len(cx) or len(cy) or len(ce):
                fails.append(f"apply_cropping: the window [{rl!r}, {rh!r}] (lower limit above upper limit: an empty interval) returns {len(cx)} points instead of none")
                return fails
    if case["wkind"] == "empty":
        cx, cy, ce = tr.apply_cropping(x, y, lo, hi, dy=dy)
        if len(cx) or len(cy) or len(ce):
            fails.append(f"apply_cropping: a window [{lo!r}, {hi!r}] that contains no grid point returns {len(cx)} points instead of none")
        return fails
    # the cropping utility on abscissae that are not monotonic (two overlapping banks appended): still exactly the in-window points, in order
    if len(x) > 4:
        xb = np.concatenate([x[0::2], x[1::2]])
        yb = np.concatenate([y[0::2], y[1::2]])
        db = None if dy is None else np.concatenate([dy[0::2], dy[1::2]])
        mb = (xb >= lo) & (xb <= hi)
        bx, by, be = tr.apply_cropping(xb, yb, lo, hi, dy=db)
        if not (np.array_equal(bx, xb[mb]) and np.array_equal(by, yb[mb]) and np.array_equal(be, (np.zeros_like(yb) if db is None else db)[mb])):
            fails.append("apply_cropping: on non-monotonic abscissae (two banks appended) the result is not the in-window points in order")
    cx, cy, ce = tr.apply_cropping(x, y, lo, hi, dy=dy)
    if not (np.array_equal(cx, x[m]) and np.array_equal(cy, y[m]) and np.array_equal(ce, (np.zeros_like(y) if dy is None else dy)[m])):
        fails.append("apply_cropping: result is not the closed-interval selection of x, y, dy in order")
    base = tr.fourier_transform(x, y, xo, xmin=lo, xmax=hi, dy_in=dy, **kw)
    pre = tr.fourier_transform(x[m], y[m], xo, xmin=lo, xmax=hi, dy_in=None if dy is None else dy[m], **kw)
    if not same(base, pre):
        fails.append("fourier_transform(xmin,xmax): differs from transforming the pre-deleted data with the same window")
    # the same window on another grid with the same length and end points, served by the same Transformer just before
    x2 = confusable(x)
    if x2 is not None and len(x) <= 120:
        wkw = dict(xmin=lo, xmax=hi, dy_in=dy, **kw)
        prim = [("fourier_transform", (x2, y, xo), wkw), ("apply_cropping", (x2, y, lo, hi), dict(dy=dy))]
        with np.errstate(all="ignore"):
            if history_differs("Transformer", "fourier_transform", (x, y, xo), wkw, prim):
                fails.append("fourier_transform(xmin,xmax): the result depends on windowed calls the same Transformer served before "
                             "(a grid with the same length, end points and window)")
            elif history_differs("Transformer", "apply_cropping", (x, y, lo, hi), dict(dy=dy), prim):
                fails.append("apply_cropping: the result depends on calls the same Transformer served before")
    for bad in (case["pert"], np.nan, np.inf):
        y2 = y.copy()
        y2[~m] = bad
        d2 = None
        if dy is not None:
            d2 = dy.copy()
            d2[~m] = abs(bad) if np.isfinite(bad) else bad
        got = tr.fourier_transform(x, y2, xo, xmin=lo, xmax=hi, dy_in=d2, **kw)
        if not same(base, got):
            fails.append(f"fourier_transform(xmin,xmax): points outside the window influence the result (outside values set to {bad!r})")
            break
    return fails


def nontrivial(c):
    if c["lo"] is None:
        return False
    x = np.asarray(c["x"])
    m = (x >= c["lo"]) & (x <= c["hi"])
    return int(m.sum()) >= 2 and int((~m).sum()) >= 1
