"""Generators: one PRNG (numpy Generator seeded from VERIF_SEED) drives everything."""
import numpy as np


def rng_for(seed, *tags):
    import hashlib
    h = hashlib.sha256(("|".join(map(str, (seed,) + tags))).encode()).digest()
    return np.random.default_rng(int.from_bytes(h[:8], "little"))


EXTRA_GRIDS = ["nearuniform", "tiny", "huge", "crossing", "negative"]


def grid(rng, n=None, kind=None, lo=None, hi=None, zero=None, extra=0.0, extra_kinds=None):
    """strictly increasing abscissa grid; returns (x, kind-string).
    `extra` = probability of one of the stress kinds: "nearuniform" (bin widths equal to ~1e-7 relative: every
    tolerance-based uniformity test says yes, the grid is not uniform), "tiny" / "huge" (an ordinary grid in units
    1e-9 / 1e5 times smaller / larger: absolute tolerances and unit assumptions show)"""
    if kind is None and extra and rng.random() < extra:
        kind = str(rng.choice(extra_kinds or EXTRA_GRIDS))
    if kind in ("tiny", "huge"):
        x, k = grid(rng, n=n, kind=str(rng.choice(["uniform", "jitter", "irregular"])), lo=lo, hi=hi, zero=zero)
        return np.ascontiguousarray(x * (1e-9 if kind == "tiny" else 1e5)), kind + "-" + k
    if kind in ("crossing", "negative"):
        # strictly increasing grids with negative abscissae: crossing zero (with or without a point exactly at 0) or entirely below it
        x, k = grid(rng, n=n, kind=str(rng.choice(["uniform", "jitter", "irregular"])), lo=lo, hi=hi, zero=zero)
        if kind == "negative":
            x = -x[::-1] - (0.0 if x[0] > 0 else float(rng.uniform(0.1, 1.0)))
        else:
            j = int(rng.integers(0, max(len(x) - 1, 1)))   # the largest abscissa stays positive
            x = x - (x[j] if rng.random() < 0.6 else 0.5 * (x[0] + x[-1]))
        return np.ascontiguousarray(x, dtype=float), kind + "-" + k
    if kind == "nearuniform":
        x, _ = grid(rng, n=n, kind="uniform", lo=lo, hi=hi, zero=zero)
        if len(x) > 2:
            d = (x[-1] - x[0]) / (len(x) - 1)
            x = x.copy()
            x[1:-1] += rng.uniform(-1, 1, len(x) - 2) * d * float(10 ** rng.uniform(-7.5, -5.5))
        return np.ascontiguousarray(x), kind
    kind = kind or rng.choice(["uniform", "jitter", "irregular", "centi"])
    n = n or int(rng.integers(2, 60))
    hi = hi if hi is not None else float(rng.uniform(2.0, 30.0))
    zero = (rng.random() < 0.4) if zero is None else zero
    lo = 0.0 if zero else (lo if lo is not None else float(rng.uniform(0.01, 1.5)))
    if kind == "uniform":
        x = np.linspace(lo, hi, n)
    elif kind == "jitter":
        x = np.linspace(lo, hi, n)
        d = (hi - lo) / max(n - 1, 1)
        x[1:-1] += rng.uniform(-0.4, 0.4, max(n - 2, 0)) * d
    elif kind == "centi":
        lo_i = int(round(lo * 100))
        steps = rng.integers(1, 30, n - 1)
        x = (lo_i + np.concatenate([[0], np.cumsum(steps)])) / 100.0
    else:
        x = np.sort(rng.uniform(lo, hi, n))
        x[0] = lo
        x = np.unique(x)
        if len(x) < 2:
            x = np.array([lo, hi])
    return np.ascontiguousarray(x, dtype=float), kind


def data(rng, x, kind=None, base=0.0):
    kind = kind or rng.choice(["noise", "smooth", "spike", "const", "ints", "big"])
    n = len(x)
    if kind == "noise":
        y = base + rng.normal(size=n) * rng.uniform(0.05, 2.0)
    elif kind == "smooth":
        y = base + np.sin(x * rng.uniform(0.3, 3.0)) * np.exp(-x * rng.uniform(0.01, 0.3)) * rng.uniform(0.2, 3.0)
    elif kind == "spike":
        y = np.full(n, base)
        y[int(rng.integers(0, n))] += rng.uniform(-5, 5)
    elif kind == "const":
        y = np.full(n, base + rng.uniform(-2, 2))
    elif kind == "ints":
        y = base + rng.integers(-5, 6, n).astype(float)
    else:
        y = base + rng.normal(size=n) * 10 ** rng.uniform(2, 6)
    return np.ascontiguousarray(y, dtype=float), kind


def special(rng, y, base=0.0, p=0.3):
    """with probability p, set some entries (often the first and/or last) to exactly `base` (reduced function exactly 0):
    the values at which `if v == 0`, `v or default`, `np.any(v)` style shortcuts fire"""
    y = np.array(y, dtype=float)
    if rng.random() < p and len(y):
        m = rng.random(len(y)) < rng.uniform(0.0, 0.4)
        if rng.random() < 0.6:
            m[0] = True
        if rng.random() < 0.4:
            m[-1] = True
        y[m] = base
    return y


def unc_relative(rng, y, base=0.0):
    """uncertainty proportional to |y - base| (exactly zero wherever the reduced function is exactly zero)"""
    return np.ascontiguousarray(np.abs(np.asarray(y, dtype=float) - base) * float(10 ** rng.uniform(-3, -0.5)))


def unc(rng, x, allow_none=True):
    r = rng.random()
    if allow_none and r < 0.25:
        return None
    if r < 0.35:
        return np.zeros(len(x))
    if r < 0.43:
        # very small but non-zero uncertainties (every entry below any absolute "is it zero" tolerance)
        return np.ascontiguousarray(rng.uniform(0.1, 1.0, len(x)) * 10 ** rng.uniform(-14, -8.5), dtype=float)
    return np.ascontiguousarray(rng.uniform(0.0, 1.0, len(x)) * 10 ** rng.uniform(-3, 0), dtype=float)


def material(rng, negative_bcoh=False, special=True):
    kw = {"rho": float(10 ** rng.uniform(-2.5, 0.3)), "<b_coh>^2": float(10 ** rng.uniform(-1, 1.5)),
          "<b_tot^2>": float(10 ** rng.uniform(-1, 1.5))}
    if special:
        # constants at which `x or default`, `if x:`, `x != 1` style shortcuts fire: <b_tot^2> = 0 (a legitimate value of
        # "all <b_tot^2>"), <b_coh>^2 = 1, rho = 1, <b_tot^2> = <b_coh>^2
        r = rng.random()
        if r < 0.12:
            kw["<b_tot^2>"] = 0.0
        elif r < 0.17:
            kw["<b_tot^2>"] = kw["<b_coh>^2"]
        r = rng.random()
        if r < 0.08:
            kw["<b_coh>^2"] = 1.0
        r = rng.random()
        if r < 0.06:
            kw["rho"] = 1.0
    if negative_bcoh and rng.random() < 0.3:
        kw["<b_coh>^2"] = -kw["<b_coh>^2"]
    if special and rng.random() < 0.1:
        # whole-number constants given as Python integers (JSON configurations do that): integer arithmetic on an option shows
        for k in list(kw):
            if rng.random() < 0.7:
                kw[k] = int(rng.integers(2, 9)) * (-1 if kw[k] < 0 else 1)
    elif special and rng.random() < 0.08:
        # scattering lengths in other units (A^2 or cm^2 instead of fm^2): the same physics with both constants 10^-10 times smaller
        # (both, so that their ratio — the conditioning of DCS <-> S — stays what it was); every formula is homogeneous in them
        kw["<b_coh>^2"] *= 1e-10
        kw["<b_tot^2>"] *= 1e-10
    return kw
