"""Compile and run the reference routine `stog_bit` of /repo/fortran/stog_new3.f90 (extracted by its delimiting lines)."""
import atexit, hashlib, os, re, shutil, subprocess, tempfile
import numpy as np

REPO = os.environ.get("VERIF_REPO", "/repo")
_DRV = """
program drv
  implicit none
  integer :: n, m, i, il
  double precision, allocatable :: xin(:), y(:), xout(:), yout(:)
  double precision :: delr, rho
  logical :: lmod
  read(*,*) n, m, delr, rho, il
  lmod = (il .ne. 0)
  allocate(xin(n), y(n), xout(m), yout(m))
  do i=1,n
    read(*,*) xin(i), y(i)
  end do
  call stog_bit(n, m, xin, y, delr, rho, lmod, xout, yout)
  write(*,'(A)') '---'
  do i=1,m
    write(*,'(2ES26.17E3)') xout(i), yout(i)
  end do
end program
"""
_state = {}


def _cleanup():
    d = _state.get("dir")
    if d and os.path.isdir(d):
        shutil.rmtree(d, ignore_errors=True)


def build():
    """returns path of the compiled driver, or None when gfortran / the routine is unavailable"""
    if "exe" in _state:
        return _state["exe"]
    _state["exe"] = None
    if shutil.which("gfortran") is None:
        _state["why"] = "gfortran not found"
        return None
    src = open(os.path.join(REPO, "fortran", "stog_new3.f90"), errors="replace").read().splitlines()
    try:
        a = next(i for i, l in enumerate(src) if re.match(r"\s*subroutine\s+stog_bit\b", l, re.I))
        b = next(i for i, l in enumerate(src) if i > a and re.match(r"\s*end\s+subroutine\s+stog_bit\b", l, re.I))
    except StopIteration:
        _state["why"] = "subroutine stog_bit not found"
        return None
    d = tempfile.mkdtemp(prefix="verif_fortran_")
    _state["dir"] = d
    atexit.register(_cleanup)
    with open(os.path.join(d, "bit.f90"), "w") as fh:
        fh.write("\n".join(src[a:b + 1]) + "\n" + _DRV)
    p = subprocess.run(["gfortran", "-O0", "-ffree-line-length-none", "-o", "drv", "bit.f90"], cwd=d, capture_output=True, text=True)
    if p.returncode != 0:
        _state["why"] = "gfortran failed: " + p.stderr[-500:]
        return None
    _state["exe"] = os.path.join(d, "drv")
    _state["sha"] = hashlib.sha256("\n".join(src[a:b + 1]).encode()).hexdigest()
    return _state["exe"]


def stog_bit(q, s, nr, delr, rho, lorch):
    """returns (r, g(r)) as computed by the compiled Fortran (r_n = n*delr, n = 1..nr), or None"""
    exe = build()
    if exe is None:
        return None
    inp = "%d %d %r %r %d\n" % (len(q), nr, float(delr), float(rho), 1 if lorch else 0)
    inp += "".join("%r %r\n" % (float(a), float(b)) for a, b in zip(q, s))
    p = subprocess.run([exe], input=inp, capture_output=True, text=True, cwd=_state["dir"], timeout=120)
    if p.returncode != 0:
        return None
    lines = p.stdout.split("---\n", 1)[1].splitlines()
    fr = np.array([[float(v) for v in l.split()] for l in lines if l.strip()])
    return fr[:, 0], fr[:, 1]


def lowq_conditioning(qmin, smin, qmax, r, lorch, rho):
    """Element-wise bound on the rounding error that the reference routine's own analytic low-Q term contributes to g(r):
    its closed forms are quotients with numerators of order one, (…)/r^3 and (…)/r^2 without the Lorch window and
    (…)/(r -+ pi/Qmax)^2, (…)/(r -+ pi/Qmax) with it, so an error of a few ulps of one is divided by those powers and then by
    4 pi rho r.  (The Python port evaluates the Lorch case with sinc forms since the F11 repair and is accurate there; the
    Fortran text is not.)  Used to widen the comparison tolerances where the reference itself is ill-conditioned."""
    import numpy as np
    r = np.asarray(r, dtype=float)
    u = 4.5e-16
    k = abs(smin) / max(abs(qmin), 1e-300)
    if lorch:
        a = np.pi / qmax
        with np.errstate(all="ignore"):
            e1 = 4 * u * (1 / (r - a) ** 2 + 1 / (r + a) ** 2) / (2 * a)
            e2 = 2 * u * (1 / np.abs(r - a) + 1 / np.abs(r + a)) / (2 * a)
    else:
        e1 = 6 * u / r ** 3
        e2 = 3 * u / r ** 2
    yds = (2 / np.pi) * (e1 * k + e2)
    out = 10 * yds / (4 * np.pi * rho * r)
    return np.where(np.isfinite(out), out, np.inf)
