"""Line coverage of the implementation (/repo/src/pystog) reached by one check run: which lines of the code a property is
anchored in were actually executed by the correspondence and the oracle.  Uses sys.monitoring (Python 3.12): every location
reports once and is then disabled, so the overhead is negligible.  Reported in the evidence file; never a verdict."""
import os, sys


class Cover:
    def __init__(self, root):
        self.root = os.path.realpath(root) + os.sep
        self.hits = {}
        self.on = False

    def start(self):
        mon = getattr(sys, "monitoring", None)
        if mon is None:
            return
        try:
            self.tool = mon.COVERAGE_ID
            mon.use_tool_id(self.tool, "verif-cover")
        except Exception:  # noqa: BLE001
            return
        mon.register_callback(self.tool, mon.events.LINE, self._line)
        mon.set_events(self.tool, mon.events.LINE)
        self.on = True

    def _line(self, code, lineno):
        fn = code.co_filename
        if fn.startswith(self.root):
            self.hits.setdefault(fn, set()).add(lineno)
        return sys.monitoring.DISABLE

    def stop(self):
        if not self.on:
            return
        mon = sys.monitoring
        mon.set_events(self.tool, 0)
        mon.register_callback(self.tool, mon.events.LINE, None)
        mon.free_tool_id(self.tool)
        self.on = False

    def report(self, files):
        """files: paths relative to the repo root (e.g. src/pystog/stog.py).  Returns a compact dict."""
        out = {}
        tot_h = tot_n = 0
        repo = os.path.dirname(os.path.dirname(self.root.rstrip(os.sep)))
        for rel in files:
            if not rel.endswith(".py"):
                continue
            path = os.path.realpath(os.path.join(repo, rel))
            try:
                src = open(path).read()
                top = compile(src, path, "exec")
            except Exception:  # noqa: BLE001
                continue
            hit = self.hits.get(path, set())
            funcs = {}

            def walk(co):
                for c in co.co_consts:
                    if hasattr(c, "co_code"):
                        lines = {l for _, _, l in c.co_lines() if l is not None and l != c.co_firstlineno}
                        if lines and not c.co_name.startswith("<"):
                            funcs[getattr(c, "co_qualname", c.co_name)] = lines
                        walk(c)
            walk(top)
            per = {}
            never = []
            for name, lines in sorted(funcs.items()):
                h = len(lines & hit)
                if h == 0:
                    never.append(name)
                else:
                    missed = sorted(lines - hit)
                    per[name] = dict(hit=h, of=len(lines), missed_lines=missed[:12] + (["…"] if len(missed) > 12 else []))
                    tot_h += h
                    tot_n += len(lines)
            out[rel] = dict(functions_reached=per, functions_not_reached=never)
        out["_summary"] = dict(lines_hit_in_reached_functions=tot_h, lines_in_reached_functions=tot_n,
                               note="lines of the implementation executed by this run's correspondence and oracle (sys.monitoring); "
                                    "functions_not_reached are outside what this property's check drives")
        return out
