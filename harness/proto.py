"""Line protocol between the harness and the Lean driver (lean/Main.lean).

Floats cross the pipe as decimal UInt64 bit patterns (exact).  See DESIGN.md Appendix B.
"""
import os, struct, subprocess, sys
import numpy as np

VERIF = os.path.dirname(os.path.dirname(os.path.abspath(__file__)))
LEAN_DIR = os.path.join(VERIF, "lean")
BIN = os.path.join(LEAN_DIR, ".lake", "build", "bin")


def driver_for(entry):
    """which of the three drivers serves an entry point (see lean/lakefile.toml)"""
    if entry.startswith("GenStog."):
        return "drvs", "MainStog.lean"
    if entry.startswith("Stog.") or entry.startswith("Wf."):
        return "drvm", "MainModel.lean"
    if entry.startswith("Model.") or entry.startswith("Cfg."):
        return "drvp", "MainPure.lean"
    return "drv", "MainGen.lean"


def f2b(x):
    return struct.unpack("<Q", struct.pack("<d", float(x)))[0]


def b2f(n):
    return struct.unpack("<d", struct.pack("<Q", int(n)))[0]


def enc_vec(v):
    a = np.asarray(v, dtype=np.float64).ravel()
    return " ".join(map(str, a.view(np.uint64).tolist()))


def dec_vec(s):
    s = s.strip()
    if not s:
        return np.zeros(0)
    return np.array([int(t) for t in s.split()], dtype=np.uint64).view(np.float64)


def enc_arg(a):
    """None -> '-', python/numpy scalar -> 's <bits>', sequence -> 'v <bits>…', str -> 't <text>'"""
    if a is None:
        return "-"
    if isinstance(a, str):
        return "t " + a
    if np.isscalar(a) or (isinstance(a, np.ndarray) and a.ndim == 0):
        return "s " + str(f2b(a))
    return ("v " + enc_vec(a)).rstrip() if len(a) else "v"


def enc_kw(kw):
    """kw: python kwargs dict of the library ('rho', '<b_coh>^2', '<b_tot^2>', 'lorch', 'OmittedXrangeCorrection', 'xmin', 'xmax')"""
    parts = []
    for key, name in (("rho", "rho"), ("<b_coh>^2", "bcoh"), ("<b_tot^2>", "btot")):
        if key in kw:
            parts.append(f"{name}={f2b(kw[key])}")
    parts.append("lorch=%d" % (1 if kw.get("lorch", False) else 0))
    parts.append("omitted=%d" % (1 if kw.get("OmittedXrangeCorrection", False) else 0))
    for key in ("xmin", "xmax"):
        v = kw.get(key)
        parts.append(f"{key}=" + ("-" if v is None else str(f2b(v))))
    return " ".join(parts)


def request(rid, entry, kw, args, junk_fill=0.0):
    return ";".join([str(rid), entry, enc_kw(kw), str(f2b(junk_fill))] + [enc_arg(a) for a in args])


def gen_entries():
    """entry points of the Float reading of the code generated from stog.py / pre_proc.py that the driver `drvs` serves right now
    (empty when the driver did not build or the translator refused the methods)"""
    import json
    if not os.path.exists(os.path.join(BIN, "drvs")):
        return []
    try:
        return list(json.load(open(os.path.join(LEAN_DIR, "PystogVerif", "Gen", "stog_report.json"))).get("driver_entries", []))
    except Exception:  # noqa: BLE001
        return []


class ModelError(Exception):
    pass


def run_model(lines, exe=None, timeout=600):
    """send all request lines (routed to the driver that serves each entry), return {id: ('ok', [np.array…]) | ('err', msg)}"""
    groups = {}
    for l in lines:
        entry = l.split(";", 2)[1]
        groups.setdefault(driver_for(entry), []).append(l)
    out = {}
    for (name, root), ls in groups.items():
        path = os.path.join(BIN, name)
        if os.path.exists(path):
            cmd = [path]
        else:  # fall-back: interpreter
            cmd = ["lake", "env", "lean", "--run", root]
        p = subprocess.run(cmd, input="\n".join(ls) + "\n", capture_output=True, text=True, cwd=LEAN_DIR, timeout=timeout)
        if p.returncode != 0:
            raise ModelError(f"driver {name} exit {p.returncode}: {p.stderr[-2000:]}")
        for l in p.stdout.splitlines():
            if not l.strip():
                continue
            rid, _, rest = l.partition(" ")
            st, _, body = rest.partition(" ")
            if st == "ok":
                out[rid] = ("ok", [dec_vec(t) for t in body.split("|")])
            else:
                out[rid] = ("err", body)
    return out
