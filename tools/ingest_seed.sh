#!/bin/sh
# ingest_seed.sh <round-dir> <Cnn> <new-id>   e.g. tools/ingest_seed.sh /tmp/seed2 C02 S22-C02
# copies patch.diff/demo.py/README.md written by a sub-agent into seeded/<new-id>/, writes meta.json, validates and runs the property's check
set -e
cd "$(dirname "$0")/.."
src="$1/$2/SEED"; id="$3"; d="seeded/$id"
mkdir -p "$d"
git -C "$1/$2" diff -- src > "$d/patch.diff"
cp "$src/demo.py" "$d/demo.py"; cp "$src/README.md" "$d/README.md"
python3 - "$d" "$id" "$2" <<'PY'
import json,sys
d,i,p=sys.argv[1:4]
json.dump(dict(id=i,property=p,author="independent sub-agent given only the property record and a scratch worktree",
               needs=open(d+"/README.md").read()[:1500]),open(d+"/meta.json","w"),indent=1)
PY
shift 3
python3 tools/seedtest.py "$d" "$@"
