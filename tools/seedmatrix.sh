#!/bin/sh
# Run every check against every seeded change (patch applied to /repo, undone afterwards); results go to seeded/<id>/meta.json
cd "$(dirname "$0")/.."
ALL="C01 C02 C03 C04 C05 C06 C07 C08 C09 C10 C11 C12 C13 C14 C15 C16 C17 C18 C19 C20"
for d in ${SEEDS:-seeded/S*}; do
  echo "=== $d"
  python3 tools/seedtest.py "$d" --skip-validate $ALL 2>&1 | grep -v "^validation" 
done
git -C "${VERIF_REPO:-/repo}" status --short
