#!/usr/bin/env python3
"""Evaluate a seeded change against the checks.

usage: seedtest.py <seeded-dir> [check ids...]
  <seeded-dir> holds patch.diff, demo.py, meta.json (property).
Steps: (1) in a scratch worktree of /repo (under /tmp, removed afterwards): demo passes on the clean tree, fails with the patch, the
pinned suite still passes with the patch; (2) apply the patch to /repo, run the named checks (default: the property's own), undo.
Prints one line per check: caught / missed, and updates meta.json["results"].
"""
import json, os, subprocess, sys, tempfile, shutil

VERIF = os.path.dirname(os.path.dirname(os.path.abspath(__file__)))
REPO = os.environ.get("VERIF_REPO", "/repo")   # the checks honour the same variable


def sh(cmd, **kw):
    return subprocess.run(cmd, capture_output=True, text=True, **kw)


def main():
    d = os.path.abspath(sys.argv[1])
    meta_p = os.path.join(d, "meta.json")
    meta = json.load(open(meta_p)) if os.path.exists(meta_p) else {}
    checks = sys.argv[2:] or [meta.get("property")]
    patch = os.path.join(d, "patch.diff")
    res = meta.setdefault("results", {})
    if "--skip-validate" not in sys.argv:
        wt = tempfile.mkdtemp(prefix="verif_seed_wt_")
        os.rmdir(wt)
        try:
            assert sh(["git", "-C", "/repo", "worktree", "add", "-q", "--detach", wt, "HEAD"]).returncode == 0
            shutil.copy("/repo/src/pystog/_version.py", os.path.join(wt, "src/pystog/_version.py"))
            env = dict(os.environ, PYTHONPATH=os.path.join(wt, "src"))
            clean = sh(["/venv/bin/python", os.path.join(d, "demo.py")], cwd=wt, env=env, timeout=600)
            ap = sh(["git", "-C", wt, "apply", patch])
            if ap.returncode != 0:
                print("patch does not apply to the current tree:", ap.stderr[-300:])
                res["validated"] = "patch-does-not-apply"
                json.dump(meta, open(meta_p, "w"), indent=1)
                return 2
            dirty = sh(["/venv/bin/python", os.path.join(d, "demo.py")], cwd=wt, env=env, timeout=600)
            base = sh(["python3", os.path.join(VERIF, "tools", "baseline.py")], env=dict(os.environ, VERIF_REPO=wt), timeout=1800)
            res["validated"] = dict(demo_clean_exit=clean.returncode, demo_patched_exit=dirty.returncode,
                                    suite_with_patch=base.stdout.strip().splitlines()[0] if base.stdout.strip() else base.stderr[-200:])
            print("validation:", res["validated"])
            ok = clean.returncode == 0 and dirty.returncode != 0 and base.returncode == 0
            if not ok:
                print("NOT a valid seeded change (demo/suite conditions not met)")
        finally:
            sh(["git", "-C", "/repo", "worktree", "remove", "--force", wt])
            shutil.rmtree(wt, ignore_errors=True)
    args = [c for c in checks if c and not c.startswith("--")]
    if sh(["git", "apply", "-R", "--check", patch], cwd=REPO).returncode == 0:
        print("patch is already applied to", REPO)
        return 2
    ap = sh(["git", "apply", patch], cwd=REPO)
    if ap.returncode != 0:
        print("patch does not apply to", REPO, ap.stderr[-300:])
        return 2
    # the evidence files are records of the unchanged tree: keep them as they are while the checks run on the patched tree
    saved = {}
    for c in args:
        ep = os.path.join(VERIF, "evidence", f"{c}.json")
        saved[ep] = open(ep, "rb").read() if os.path.exists(ep) else None
    try:
        for c in args:
            r = sh([os.path.join(VERIF, "check"), c], cwd=VERIF, timeout=3000)
            lines = [l for l in r.stdout.splitlines() if l.startswith("VIOLATION") or " quick:" in l]
            caught = r.returncode == 1 and any(l.startswith("VIOLATION") for l in lines)
            kind = "failing-input" if caught and not any("no-failing-input-found" in l for l in lines) else ("no-failing-input-found" if caught else "missed")
            detail = ""
            if caught:
                try:
                    rp = [l for l in lines if l.startswith("VIOLATION")][0].split("replay=")[1].split()[0]
                    rj = json.load(open(os.path.join(VERIF, rp)))
                    detail = "; ".join(rj.get("failures", [])[:2]) or str(rj.get("obligations_failed", ""))[:200]
                except Exception:  # noqa: BLE001
                    pass
            res[c] = dict(caught=caught, kind=kind, exit=r.returncode, summary=lines[-1] if lines else r.stdout[-200:], detail=detail[:400])
            print(f"{c}: {'CAUGHT' if caught else 'missed'} ({kind}) {detail[:160]}")
    finally:
        sh(["git", "apply", "-R", patch], cwd=REPO)
        for ep, data in saved.items():
            if data is not None:
                open(ep, "wb").write(data)
    json.dump(meta, open(meta_p, "w"), indent=1)
    return 0


if __name__ == "__main__":
    sys.exit(main())
