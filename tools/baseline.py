#!/usr/bin/env python3
"""Run the pinned test suite of /repo and compare with /root/.vp/BASELINE.json (283 stable passes)."""
import json, subprocess, sys, tempfile, os, xml.etree.ElementTree as ET
base = json.load(open("/root/.vp/BASELINE.json"))
with tempfile.TemporaryDirectory() as d:
    x = os.path.join(d, "j.xml")
    subprocess.run(["/venv/bin/python", "-m", "pytest", "-ra", "-q", "-p", "no:cacheprovider", "--timeout=900",
                    "--continue-on-collection-errors", f"--junitxml={x}"], cwd=os.environ.get("VERIF_REPO", "/repo"),
                   capture_output=True, text=True,
                   env=dict(os.environ, PYTHONPATH=os.path.join(os.environ.get("VERIF_REPO", "/repo"), "src")))
    ok = set()
    for tc in ET.parse(x).getroot().iter("testcase"):
        if not any(c.tag in ("failure", "error", "skipped") for c in tc):
            ok.add(f"{tc.get('classname')}::{tc.get('name')}")
missing = [t for t in base["stable_pass"] if t not in ok]
print(f"baseline: {len(base['stable_pass']) - len(missing)}/{len(base['stable_pass'])} stable tests pass")
for m in missing[:20]:
    print("  FAIL", m)
sys.exit(1 if missing else 0)
