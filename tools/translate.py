#!/usr/bin/env python3
"""Translate the three algebra modules of PyStoG (converter.py, transformer.py,
fourier_filter.py; a numpy subset) into Lean 4 definitions over `Vec α`.

usage: translate.py <pystog-src-dir> <out-dir>   (out-dir = lean/PystogVerif/Gen)

Writes Converter.lean, Transformer.lean, FourierFilter.lean, Facts.lean, Dispatch.lean and
report.json.  Every file starts with the SHA-256 of the source it came from.
Anything outside the subset is *refused* (function omitted together with its dependants and
listed in report.json); nothing is guessed.  See DESIGN.md section 4.
"""
import ast, sys, textwrap, hashlib, json, os, itertools
from fractions import Fraction

S, V, M, OV, OS, B = "S", "V", "M", "OV", "OS", "B"

KW_FIELDS = {"rho": ("rho", S), "<b_coh>^2": ("bcoh", S), "<b_tot^2>": ("btot", S),
             "lorch": ("lorch", B), "OmittedXrangeCorrection": ("omitted", B)}
KW_PARAM_FIELDS = {"xmin": OS, "xmax": OS}  # names that **kwargs may bind to callee params
SCALAR_PARAMS = {"cutoff", "xmin", "xmax"}
# functions that update one of their *arguments* in place and return it; the caller must pass a
# locally allocated ("fresh") array there.  Checked at every call site.
MUTATES = {"_low_x_correction": {"yout"}}
MODULES = [("converter.py", "Converter"), ("transformer.py", "Transformer"), ("fourier_filter.py", "FourierFilter")]

HEADER_VARS = ("variable {α : Type} [Add α] [Sub α] [Mul α] [Div α] [Neg α] [LT α] [LE α] [NatCast α] "
               "[DecidableLT α] [DecidableLE α] [Transc α]")


class Unsupported(Exception):
    pass


def tname(t):
    if isinstance(t, tuple):
        return "(" + " × ".join(tname(x) for x in t) + ")"
    return {S: "α", V: "Vec α", M: "Mask", OV: "Option (Vec α)", OS: "Option α", B: "Bool"}[t]


class Fn:
    def __init__(self, cls, node):
        self.cls = cls
        self.node = node
        self.name = node.name
        a = node.args
        if a.vararg or a.kwonlyargs or a.posonlyargs:
            self.sig_error = "signature form"
        else:
            self.sig_error = None
        self.params = [x.arg for x in a.args if x.arg != "self"]
        nd = len(a.defaults)
        self.defaults = dict(zip(self.params[len(self.params) - nd:], a.defaults))
        for d in self.defaults.values():
            if not (isinstance(d, ast.Constant) and d.value is None):
                self.sig_error = "default other than None"
        self.has_kwargs = a.kwarg is not None
        if a.kwarg is not None and a.kwarg.arg != "kwargs":
            self.sig_error = "**kwargs under another name"
        self.ptypes = {}
        for p in self.params:
            sc = p in SCALAR_PARAMS
            if p in self.defaults:
                self.ptypes[p] = OS if sc else OV
            else:
                self.ptypes[p] = S if sc else V
        self.ret = None
        self.lean = None
        self.reads = set()      # kwargs keys read (transitively)
        self.junk_sites = []    # global site numbers reachable from here
        self.error = None
        self.fresh_ret = None   # which returned components are locally allocated

    @property
    def qual(self):
        return f"{self.cls}.{self.name}"


def nat(n):
    return f"(({n} : Nat) : α)"


def lit(v):
    if isinstance(v, bool):
        return ("true" if v else "false"), B
    if isinstance(v, (int, float)):
        f = float(v)
        if f == int(f) and f >= 0:
            return nat(int(f)), S
        if f == int(f) and f < 0:
            return f"(-{nat(int(-f))})", S
        fr = Fraction(repr(v))
        sign = "-" if fr < 0 else ""
        fr = abs(fr)
        return f"({sign}({nat(fr.numerator)} / {nat(fr.denominator)}))", S
    raise Unsupported(f"literal {v!r}")


OPS = {ast.Add: ("add", "+"), ast.Sub: ("sub", "-"), ast.Mult: ("mul", "*"), ast.Div: ("div", "/")}
CMP = {ast.Gt: "gt", ast.GtE: "ge", ast.Lt: "lt", ast.LtE: "le", ast.NotEq: "ne", ast.Eq: "eq"}


class Tr:
    def __init__(self, classes):
        self.classes = classes
        self.swallowed = []
        self.attr_cls = {"converter": "Converter", "transformer": "Transformer"}
        self.site = 0           # global counter of uninitialised-read sites
        self.site_info = []     # (site, function, source line)

    # ------------------------------------------------------------------ functions
    def fn(self, f):
        if f.sig_error:
            raise Unsupported(f.sig_error)
        self.cur = f
        self.env = dict(f.ptypes)
        self.fresh = set(MUTATES.get(f.name, ()))
        self.ret_fresh = None
        lines, ret = self.block(f.node.body)
        if ret is None:
            raise Unsupported("no return")
        f.ret = ret[1]
        f.fresh_ret = self.ret_fresh
        sig = " ".join(f"({p} : {tname(f.ptypes[p])})" for p in f.params)
        pre = []
        if f.has_kwargs and any(p in KW_PARAM_FIELDS for p in f.params):
            # named parameters xmin/xmax consume those keys of **kwargs
            pre = ["let kw := Kw.dropWindow kw"]
        body = "\n".join(pre + lines + [ret[0]])
        return (f"def {f.name} (kw : Kw α) (junk : Junk α) {sig} : {tname(f.ret)} :=\n" + textwrap.indent(body, "  "))

    def block(self, stmts):
        out = []
        for idx, s in enumerate(stmts):
            if isinstance(s, ast.Expr) and isinstance(s.value, ast.Constant):
                continue  # docstring
            if isinstance(s, ast.If) and not s.orelse and len(s.body) == 1 and isinstance(s.body[0], ast.Return) \
                    and s.body[0].value is not None:
                # guard clause `if c: return e` followed by the rest of the block: `if c then e else (rest)`
                c, ct = self.expr(s.test)
                if ct != B:
                    raise Unsupported("if condition not Bool")
                env0, fresh0 = dict(self.env), set(self.fresh)
                e1, t1 = self.ret_expr(s.body[0].value)
                fr1 = self.ret_fresh
                self.env, self.fresh = env0, fresh0
                rest, r2 = self.block(stmts[idx + 1:])
                if r2 is None:
                    raise Unsupported("guard return without a return after it")
                if r2[1] != t1:
                    raise Unsupported("guard return of another type")
                fr2 = self.ret_fresh
                self.ret_fresh = [a and b for a, b in zip(fr1, fr2)] if isinstance(fr1, list) and isinstance(fr2, list) and len(fr1) == len(fr2) else fr2
                body = "\n".join(rest + [r2[0]])
                return out, (f"if {c} then {e1}\nelse (\n{textwrap.indent(body, '    ')})", t1)
            if isinstance(s, ast.Expr) and isinstance(s.value, ast.BinOp):
                self.expr(s.value)  # dead expression statement (np.pi / xmax): must still be in the subset
                continue
            if isinstance(s, ast.Return):
                return out, self.ret_expr(s.value)
            if isinstance(s, ast.Assign) and len(s.targets) != 1:
                raise Unsupported("chained assignment")
            if isinstance(s, ast.Assign) and isinstance(s.targets[0], ast.Subscript):
                out += self.masked_store(s)
                continue
            if isinstance(s, ast.Assign):
                out += self.assign(s.targets[0], s.value)
                continue
            if isinstance(s, ast.AugAssign):
                if not isinstance(s.target, ast.Name):
                    raise Unsupported("augassign target")
                n = s.target.id
                if n not in self.fresh:
                    raise Unsupported(f"in-place update of non-fresh '{n}'")
                e = ast.BinOp(left=ast.Name(id=n, ctx=ast.Load()), op=s.op, right=s.value)
                ex, ty = self.expr(e)
                if ty != self.env[n]:
                    raise Unsupported("in-place update changes type")
                out.append(f"let {n} := {ex}")
                continue
            if isinstance(s, ast.If):
                out += self.if_stmt(s)
                continue
            if isinstance(s, ast.For):
                out += self.for_stmt(s)
                continue
            if isinstance(s, ast.Expr) and isinstance(s.value, ast.Call):
                out += self.mutating_call(s.value)
                continue
            raise Unsupported("statement " + type(s).__name__)
        return out, None

    def ret_expr(self, v):
        if isinstance(v, ast.Tuple):
            es, ts, fr = [], [], []
            for x in v.elts:
                e, t = self.expr(x)
                if t in (OV, OS):
                    raise Unsupported("returns possibly-None component")
                if isinstance(t, tuple):
                    raise Unsupported("nested tuple return")
                es.append(e)
                ts.append(t)
                fr.append(self.is_fresh(x))
            self.ret_fresh = fr
            return "(" + ", ".join(es) + ")", tuple(ts)
        e, t = self.expr(v)
        if t in (OV, OS):
            raise Unsupported("returns possibly-None value")
        if isinstance(t, tuple):
            self.ret_fresh = self.call_fresh(v)[:len(t)]
        else:
            self.ret_fresh = [self.is_fresh(v)]
        return e, t

    def assign(self, tgt, value):
        # `x = default if x is None else x`  /  `x = x if x is not None else default`: same as `if x is None: x = default`
        if isinstance(value, ast.IfExp) and isinstance(tgt, ast.Name):
            t = value.test
            if isinstance(t, ast.Compare) and len(t.ops) == 1 and isinstance(t.ops[0], (ast.Is, ast.IsNot)) \
                    and isinstance(t.comparators[0], ast.Constant) and t.comparators[0].value is None \
                    and isinstance(t.left, ast.Name) and t.left.id == tgt.id:
                isnone = isinstance(t.ops[0], ast.Is)
                dflt, keep = (value.body, value.orelse) if isnone else (value.orelse, value.body)
                if isinstance(keep, ast.Name) and keep.id == tgt.id:
                    stmt = ast.If(test=ast.Compare(left=ast.Name(id=tgt.id, ctx=ast.Load()), ops=[ast.Is()],
                                                   comparators=[ast.Constant(value=None)]),
                                  body=[ast.Assign(targets=[ast.Name(id=tgt.id, ctx=ast.Store())], value=dflt)], orelse=[])
                    return self.if_stmt(stmt)
            raise Unsupported("conditional expression")
        e, ty = self.expr(value)
        if isinstance(tgt, ast.Name):
            if tgt.id == "kwargs" or tgt.id == "self":
                raise Unsupported("assignment to " + tgt.id)
            self.env[tgt.id] = ty
            if self.is_fresh(value):
                self.fresh.add(tgt.id)
            else:
                self.fresh.discard(tgt.id)
            return [f"let {tgt.id} := {e}"]
        if isinstance(tgt, ast.Tuple):
            if not all(isinstance(n, ast.Name) for n in tgt.elts):
                raise Unsupported("tuple target shape")
            names = [n.id for n in tgt.elts]
            if not isinstance(ty, tuple) or len(ty) != len(names):
                raise Unsupported(f"tuple arity {names} vs {ty}")
            for n, t in zip(names, ty):
                self.env[n] = t
            fr = self.call_fresh(value)
            for n, isf in zip(names, fr):
                (self.fresh.add if isf else self.fresh.discard)(n)
            return [f"let ({', '.join(names)}) := {e}"]
        raise Unsupported("assign target " + type(tgt).__name__)

    def masked_store(self, s):
        sub = s.targets[0]
        if not (isinstance(sub.value, ast.Name) and isinstance(sub.slice, ast.Name)):
            raise Unsupported("store shape")
        arr, mask = sub.value.id, sub.slice.id
        if self.env.get(mask) != M:
            raise Unsupported("store index is not a mask")
        if arr not in self.fresh:
            raise Unsupported(f"masked store into non-fresh '{arr}'")

        class Strip(ast.NodeTransformer):
            ok = True

            def visit_Subscript(self_, n):
                if isinstance(n.slice, ast.Name) and n.slice.id == mask and isinstance(n.value, ast.Name):
                    return n.value
                self_.ok = False
                return n
        st = Strip()
        rhs = st.visit(ast.parse(ast.unparse(s.value), mode="eval").body)
        if not st.ok:
            raise Unsupported("masked store RHS")
        e, ty = self.expr(rhs)
        if ty != V:
            raise Unsupported("masked store RHS type")
        return [f"let {arr} := Vec.select {mask} {e} {arr}"]

    def is_fresh(self, v):
        """is the value of this expression a newly allocated array (or a scalar)?"""
        if isinstance(v, ast.Name):
            return v.id in self.fresh or self.env.get(v.id) in (S, B)
        if isinstance(v, (ast.BinOp, ast.UnaryOp, ast.Constant)):
            return True
        if isinstance(v, ast.Subscript):
            # boolean-mask indexing copies; slices are views
            return isinstance(v.slice, ast.Name) and self.env.get(v.slice.id) == M
        if isinstance(v, ast.Call):
            f = v.func
            if isinstance(f, ast.Attribute) and isinstance(f.value, ast.Name) and f.value.id == "np":
                return f.attr not in ("asarray",)
            if isinstance(f, ast.Name) and f.id in ("min", "max"):
                return True
            if isinstance(f, ast.Attribute) and f.attr == "sum":
                return True
            if isinstance(f, ast.Attribute):
                callee = self.resolve(f)
                if callee is not None and callee.fresh_ret is not None and len(callee.fresh_ret) == 1:
                    return callee.fresh_ret[0]
        return False

    def call_fresh(self, v):
        if isinstance(v, ast.Call) and isinstance(v.func, ast.Attribute):
            callee = self.resolve(v.func)
            if callee is not None and callee.fresh_ret is not None:
                return list(callee.fresh_ret)
        return [False] * 16

    def if_stmt(self, s):
        t = s.test
        if isinstance(t, ast.Compare) and len(t.ops) == 1 and isinstance(t.ops[0], (ast.Is, ast.IsNot)) \
                and isinstance(t.comparators[0], ast.Constant) and t.comparators[0].value is None \
                and isinstance(t.left, ast.Name):
            x = t.left.id
            xt = self.env.get(x)
            if xt not in (OV, OS):
                raise Unsupported("None test on non-optional")
            isnone = isinstance(t.ops[0], ast.Is)
            none_body, some_body = (s.body, s.orelse) if isnone else (s.orelse, s.body)
            inner = V if xt == OV else S

            def single(body):
                if len(body) != 1 or not isinstance(body[0], ast.Assign) or not isinstance(body[0].targets[0], ast.Name):
                    raise Unsupported("None-test branch shape")
                return body[0].targets[0].id, body[0].value
            if none_body and not some_body:
                tgt, val = single(none_body)
                e, ty = self.expr(val)
                if tgt != x:
                    raise Unsupported("None-test assigns other var")
                if ty != inner:
                    raise Unsupported("None-test default has wrong type")
                self.env[x] = inner
                self.fresh.discard(x)
                return [f"let {x} : {tname(inner)} := match {x} with | some v => v | none => {e}"]
            if none_body and some_body:
                tn, vn = single(none_body)
                ts, vs = single(some_body)
                if tn != ts:
                    raise Unsupported("None-test branches differ")
                en, tyn = self.expr(vn)
                saved = self.env[x]
                self.env[x] = inner
                es, tys = self.expr(vs)
                self.env[x] = saved
                if tys != tyn:
                    raise Unsupported("None-test branch types differ")
                self.env[tn] = tyn
                self.fresh.discard(tn)
                return [f"let {tn} : {tname(tyn)} := match {x} with | some {x} => {es} | none => {en}"]
            raise Unsupported("None-test shape")
        c, ct = self.expr(t)
        if ct != B:
            raise Unsupported("if condition not Bool")
        before = dict(self.env)
        fresh_before = set(self.fresh)
        bl, r1 = self.block(s.body)
        env1, fresh1 = self.env, self.fresh
        self.env = dict(before)
        self.fresh = set(fresh_before)
        el, r2 = self.block(s.orelse) if s.orelse else ([], None)
        env2, fresh2 = self.env, self.fresh
        if r1 or r2:
            raise Unsupported("return inside if")
        a1 = self._targets(s.body)
        a2 = self._targets(s.orelse)
        if s.orelse:
            live = [v for v in a1 if v in a2 or v in before] + [v for v in a2 if v not in a1 and v in before]
        else:
            live = [v for v in a1 if v in before]
        if not live:
            raise Unsupported("if without live assignments")
        for v in live:
            if env1.get(v, before.get(v)) != env2.get(v, before.get(v)):
                raise Unsupported(f"branch types differ for {v}")
        self.env = dict(before)
        self.fresh = fresh1 & fresh2
        for v in live:
            self.env[v] = env1.get(v, before.get(v))
        tup = "(" + ", ".join(live) + ")" if len(live) > 1 else live[0]
        th = "\n".join(bl + [tup])
        eb = "\n".join(el + [tup])
        return [f"let {tup} := if {c} then (\n{textwrap.indent(th, '    ')})\n  else (\n{textwrap.indent(eb, '    ')})"]

    def _targets(self, body):
        out = []
        for s in body:
            names = []
            if isinstance(s, ast.Assign):
                t = s.targets[0]
                names = [t.id] if isinstance(t, ast.Name) else [n.id for n in t.elts] if isinstance(t, ast.Tuple) else \
                    [t.value.id] if isinstance(t, ast.Subscript) and isinstance(t.value, ast.Name) else []
            elif isinstance(s, ast.AugAssign) and isinstance(s.target, ast.Name):
                names = [s.target.id]
            elif isinstance(s, ast.Expr) and isinstance(s.value, ast.Call) and isinstance(s.value.func, ast.Attribute) \
                    and s.value.func.attr in MUTATES:
                callee = s.value.func.attr
                fn = None
                for c in self.classes.values():
                    fn = fn or c.get(callee)
                for pname in MUTATES[callee]:
                    i = fn.params.index(pname)
                    if i < len(s.value.args) and isinstance(s.value.args[i], ast.Name):
                        names.append(s.value.args[i].id)
            elif isinstance(s, (ast.If, ast.For)):
                names = self._targets(s.body) + self._targets(getattr(s, "orelse", []))
            for n in names:
                if n not in out:
                    out.append(n)
        return out

    def for_stmt(self, s):
        it = s.iter
        if s.orelse:
            raise Unsupported("for-else")
        if not (isinstance(it, ast.Call) and isinstance(it.func, ast.Name) and it.func.id == "enumerate"
                and len(it.args) == 1 and isinstance(s.target, ast.Tuple) and len(s.target.elts) == 2):
            raise Unsupported("for shape")
        idx, xv = s.target.elts[0].id, s.target.elts[1].id
        src, st = self.expr(it.args[0])
        if st != V:
            raise Unsupported("enumerate over non-vector")
        before = dict(self.env)
        self.env[xv] = S
        lets = []
        outs = []
        stored = set()
        for b in s.body:
            if isinstance(b, ast.Assign) and len(b.targets) == 1 and isinstance(b.targets[0], ast.Subscript):
                sub = b.targets[0]
                if not (isinstance(sub.value, ast.Name) and isinstance(sub.slice, ast.Name) and sub.slice.id == idx):
                    raise Unsupported("indexed store shape")
                arr = sub.value.id
                if arr not in self.fresh:
                    raise Unsupported(f"indexed store into non-fresh '{arr}'")
                if arr in stored:
                    raise Unsupported("two stores into one array in a loop")
                # the loop reads no array it writes (each element is written once, from temporaries)
                for n in ast.walk(b.value):
                    if isinstance(n, ast.Name) and n.id in stored | {arr}:
                        raise Unsupported("loop body reads an array it writes")
                stored.add(arr)
                e, ty = self.expr(b.value)
                if ty != S:
                    raise Unsupported("indexed store of non-scalar")
                outs.append((arr, list(lets), e))
            elif isinstance(b, ast.Assign) and len(b.targets) == 1:
                for n in ast.walk(b.value):
                    if isinstance(n, ast.Name) and n.id in stored:
                        raise Unsupported("loop body reads an array it writes")
                lets += self.assign(b.targets[0], b.value)
            elif isinstance(b, ast.If):
                lets += self.if_stmt(b)
            elif isinstance(b, ast.Expr) and isinstance(b.value, ast.Constant):
                continue
            else:
                raise Unsupported("for body " + type(b).__name__)
        self.env = before
        if not outs:
            raise Unsupported("loop without stores")
        res = []
        for arr, ls, e in outs:
            # the buffer being overwritten must have the length of the iterated vector: it was created
            # by zeros_like/ones_like of the same vector (checked syntactically by the caller's freshness)
            body = "\n".join(ls + [e])
            res.append(f"let {arr} := ({src}).map (fun {xv} =>\n{textwrap.indent(body, '    ')})")
            self.env[arr] = V
        return res

    def mutating_call(self, call):
        f = call.func
        if isinstance(f, ast.Attribute) and f.attr in MUTATES:
            callee = self.resolve(f)
            if callee is None:
                raise Unsupported("call to " + ast.unparse(f))
            outs = []
            for pname in MUTATES[f.attr]:
                i = callee.params.index(pname)
                tgt = call.args[i] if i < len(call.args) else None
                if not isinstance(tgt, ast.Name) or tgt.id not in self.fresh:
                    raise Unsupported(f"{f.attr} mutates a non-fresh argument")
                outs.append(tgt.id)
            e, ty = self.expr(call)
            return [f"let {outs[0]} := {e}"]
        raise Unsupported("expression statement call")

    # ------------------------------------------------------------------ expressions
    def expr(self, e):
        if isinstance(e, ast.Name):
            if e.id not in self.env:
                raise Unsupported(f"unknown name {e.id}")
            return e.id, self.env[e.id]
        if isinstance(e, ast.Constant):
            if e.value is None:
                raise Unsupported("None literal")
            return lit(e.value)
        if isinstance(e, ast.Attribute) and isinstance(e.value, ast.Name) and e.value.id == "np" and e.attr == "pi":
            return "Transc.pi", S
        if isinstance(e, ast.Subscript):
            return self.subscript(e)
        if isinstance(e, ast.UnaryOp) and isinstance(e.op, ast.USub):
            x, t = self.expr(e.operand)
            if t == S:
                return f"(-{x})", S
            if t == V:
                return f"(Vec.neg {x})", V
            raise Unsupported("negation type")
        if isinstance(e, ast.BinOp):
            return self.binop(e)
        if isinstance(e, ast.Compare):
            return self.compare(e)
        if isinstance(e, ast.Call):
            return self.callexpr(e)
        raise Unsupported("expression " + type(e).__name__)

    def subscript(self, e):
        if isinstance(e.value, ast.Name) and e.value.id == "kwargs":
            k = e.slice.value if isinstance(e.slice, ast.Constant) else None
            if k not in KW_FIELDS or KW_FIELDS[k][1] != S:
                raise Unsupported(f"kwargs[{k!r}]")
            self.cur.reads.add(k)
            return f"kw.{KW_FIELDS[k][0]}", KW_FIELDS[k][1]
        base, bt = self.expr(e.value)
        sl = e.slice
        if bt != V:
            raise Unsupported("subscript of non-vector")
        if isinstance(sl, ast.Constant) and sl.value == 0:
            return f"(Vec.head {base})", S
        if isinstance(sl, ast.Name):
            m, mt = self.expr(sl)
            if mt == M:
                return f"(Vec.compress {m} {base})", V
        if isinstance(sl, ast.Slice) and sl.step is None:
            lo, hi = sl.lower, sl.upper
            if lo is not None and hi is None and isinstance(lo, ast.Constant) and lo.value == 1:
                return f"(Vec.tail1 {base})", V
            if lo is None and isinstance(hi, ast.UnaryOp) and isinstance(hi.op, ast.USub) \
                    and isinstance(hi.operand, ast.Constant) and hi.operand.value == 1:
                return f"(Vec.init1 {base})", V
        raise Unsupported("subscript form")

    def binop(self, e):
        if isinstance(e.op, ast.Pow):
            b, bt = self.expr(e.left)
            if isinstance(e.right, ast.Constant) and isinstance(e.right.value, (int, float)) and float(e.right.value) == 2.0:
                if bt == S:
                    return f"({b} * {b})", S
                if bt == V:
                    return f"(Vec.mul {b} {b})", V
            raise Unsupported("power")
        l, lt = self.expr(e.left)
        r, rt = self.expr(e.right)
        if type(e.op) not in OPS:
            raise Unsupported("operator " + type(e.op).__name__)
        op, sym = OPS[type(e.op)]
        if lt == S and rt == S:
            return f"({l} {sym} {r})", S
        if lt == V and rt == V:
            return f"(Vec.{op} {l} {r})", V
        if lt == V and rt == S:
            return f"(Vec.{op}S {l} {r})", V
        if lt == S and rt == V:
            return f"(Vec.s{op} {l} {r})", V
        raise Unsupported(f"binop types {lt} {rt}")

    def compare(self, e):
        if len(e.ops) != 1:
            raise Unsupported("chained compare")
        if type(e.ops[0]) not in CMP:
            raise Unsupported("comparison operator")
        l, lt = self.expr(e.left)
        r, rt = self.expr(e.comparators[0])
        op = CMP[type(e.ops[0])]
        if lt == V and rt == S:
            return f"(Vec.{op}S {l} {r})", M
        if lt == S and rt == S:
            return f"(Cmp.{op} {l} {r})", B
        raise Unsupported("compare types")

    def np_call(self, name, e):
        kws = {k.arg: k.value for k in e.keywords}
        allowed_kw = {"trapezoid": {"x"}, "divide": {"where", "out"}, "zeros_like": {"dtype"}, "ones_like": {"dtype"},
                      "array": {"dtype"}, "asarray": {"dtype"}}
        for k in kws:
            if k not in allowed_kw.get(name, ()):
                raise Unsupported(f"np.{name}({k}=)")
        if "dtype" in kws:
            d = kws["dtype"]
            if not ((isinstance(d, ast.Name) and d.id == "float") or
                    (isinstance(d, ast.Attribute) and d.attr in ("float64", "double"))):
                raise Unsupported("dtype other than float")
        args = [self.expr(a) for a in e.args]

        def a(i):
            return args[i][0]

        def t(i):
            return args[i][1]
        if name in ("array", "asarray") and len(args) == 1 and t(0) in (V, S):
            return args[0]
        if name == "zeros_like" and len(args) == 1:
            if t(0) == V:
                return f"(Vec.zerosLike {a(0)})", V
            if t(0) == S:
                return nat(0), S
        if name == "ones_like" and len(args) == 1:
            if t(0) == V:
                return f"(Vec.onesLike {a(0)})", V
            if t(0) == S:
                return nat(1), S
        if name in ("sin", "cos", "sqrt") and len(args) == 1:
            if t(0) == S:
                return f"(Transc.{name} {a(0)})", S
            if t(0) == V:
                return f"(Vec.{name} {a(0)})", V
        if name == "sinc" and len(args) == 1:
            # numpy.sinc(x) = sin(pi x)/(pi x), 1 at x = 0
            if t(0) == S:
                return f"(Num.sinc {a(0)})", S
            if t(0) == V:
                return f"(Vec.sinc {a(0)})", V
        if name == "square" and len(args) == 1:
            if t(0) == S:
                return f"({a(0)} * {a(0)})", S
            if t(0) == V:
                return f"(Vec.mul {a(0)} {a(0)})", V
        if name in ("add", "subtract", "multiply") and len(args) == 2:
            op = {"add": ast.Add(), "subtract": ast.Sub(), "multiply": ast.Mult()}[name]
            return self.binop(ast.BinOp(left=e.args[0], op=op, right=e.args[1]))
        if name == "power" and len(args) == 2:
            return self.binop(ast.BinOp(left=e.args[0], op=ast.Pow(), right=e.args[1]))
        if name == "sum" and len(args) == 1 and t(0) == V:
            return f"(Vec.sum {a(0)})", S
        if name == "diff" and len(args) == 1 and t(0) == V:
            return f"(Numpy.diff {a(0)})", V
        if name == "trapezoid" and len(args) == 1 and t(0) == V and "x" in kws:
            x, xt = self.expr(kws["x"])
            if xt != V:
                raise Unsupported("trapezoid x")
            return f"(Numpy.trapezoid {a(0)} {x})", S
        if name == "logical_and" and len(args) == 2 and t(0) == M and t(1) == M:
            return f"(Mask.and {a(0)} {a(1)})", M
        if name == "divide" and len(args) == 2:
            if "where" not in kws:
                if "out" in kws:
                    raise Unsupported("divide(out=) without where")
                return self.binop(ast.BinOp(left=e.args[0], op=ast.Div(), right=e.args[1]))
            w, wt = self.expr(kws["where"])
            vec = V in (t(0), t(1))
            if vec:
                if wt != M:
                    raise Unsupported("divide where= type")
                num = a(0) if t(0) == V else None
                den = a(1) if t(1) == V else None
                if num is None or den is None:
                    raise Unsupported("divide mixed scalar/vector with where=")
                if "out" in kws:
                    if not self.is_fresh(kws["out"]):
                        raise Unsupported("divide out= is not a fresh array")
                    o, ot = self.expr(kws["out"])
                    if ot != V:
                        raise Unsupported("divide out= type")
                else:
                    k = self.new_site(e)
                    o = f"(Vec.junkLike junk {k} {num})"
                return f"(Vec.divideWhere {num} {den} {w} {o})", V
            if wt != B or t(0) != S or t(1) != S:
                raise Unsupported("divide where= type")
            if "out" in kws:
                o, ot = self.expr(kws["out"])
                if ot != S:
                    raise Unsupported("divide out= type")
            else:
                k = self.new_site(e)
                o = f"(junk {k} 0)"
            return f"(if {w} then {a(0)} / {a(1)} else {o})", S
        raise Unsupported("np." + name)

    def new_site(self, node):
        k = self.site
        self.site += 1
        self.site_info.append((k, self.cur.qual, getattr(node, "lineno", 0)))
        self.cur.junk_sites.append(k)
        return k

    def resolve(self, f):
        if isinstance(f.value, ast.Name) and f.value.id == "self":
            return self.classes[self.cur.cls].get(f.attr)
        if isinstance(f.value, ast.Attribute) and isinstance(f.value.value, ast.Name) and f.value.value.id == "self":
            c = self.attr_cls.get(f.value.attr)
            return self.classes.get(c, {}).get(f.attr) if c else None
        return None

    def callexpr(self, e):
        f = e.func
        if isinstance(f, ast.Name) and f.id in ("min", "max") and len(e.args) == 1 and not e.keywords:
            a, t = self.expr(e.args[0])
            if t != V:
                raise Unsupported(f"{f.id} of non-vector")
            return f"(Vec.{f.id} {a})", S
        if isinstance(f, ast.Attribute) and isinstance(f.value, ast.Name) and f.value.id == "np":
            return self.np_call(f.attr, e)
        if isinstance(f, ast.Attribute) and isinstance(f.value, ast.Name) and f.value.id == "kwargs" and f.attr == "get":
            if len(e.args) != 2 or not isinstance(e.args[0], ast.Constant) or not isinstance(e.args[1], ast.Constant):
                raise Unsupported("kwargs.get form")
            k = e.args[0].value
            if k not in KW_FIELDS or KW_FIELDS[k][1] != B or e.args[1].value is not False:
                raise Unsupported(f"kwargs.get({k!r}, {e.args[1].value!r})")
            return f"kw.{KW_FIELDS[k][0]}", B
        if isinstance(f, ast.Attribute) and f.attr == "sum" and not e.args and not e.keywords:
            a, t = self.expr(f.value)
            if t != V:
                raise Unsupported("sum of non-vector")
            return f"(Vec.sum {a})", S
        if isinstance(f, ast.Attribute):
            callee = self.resolve(f)
            if callee is None:
                raise Unsupported("call to " + ast.unparse(f))
            if callee.lean is None:
                raise Unsupported(f"callee {callee.qual} unavailable")
            return self.call(callee, e)
        raise Unsupported("call")

    def call(self, callee, e):
        bound = {}
        if len(e.args) > len(callee.params):
            raise Unsupported("too many positional arguments")
        for p, a in zip(callee.params, e.args):
            if isinstance(a, ast.Starred):
                raise Unsupported("starred argument")
            bound[p] = a
        passes_kw = False
        for k in e.keywords:
            if k.arg is None:
                if not (isinstance(k.value, ast.Name) and k.value.id == "kwargs"):
                    raise Unsupported("** of something other than kwargs")
                passes_kw = True
            elif k.arg in callee.params:
                if k.arg in bound:
                    raise Unsupported(f"argument {k.arg} given twice")
                bound[k.arg] = k.value
            elif callee.has_kwargs:
                if k.arg in KW_FIELDS or k.arg in [v[0] for v in KW_FIELDS.values()]:
                    raise Unsupported("explicit option keyword")
                # Python binds this into the callee's **kwargs, where nothing reads it
                self.swallowed.append((self.cur.qual, callee.qual, k.arg))
            else:
                raise Unsupported(f"unexpected keyword {k.arg}")
        args = []
        for p in callee.params:
            pt = callee.ptypes[p]
            if p in bound:
                s, ty = self.expr(bound[p])
                if pt in (OV, OS):
                    if ty == (V if pt == OV else S):
                        s = f"(some {s})"
                    elif ty != pt:
                        raise Unsupported(f"arg type {ty} for {p}:{pt}")
                elif ty != pt:
                    raise Unsupported(f"arg type {ty} for {p}:{pt}")
                if p in MUTATES.get(callee.name, ()) and not self.is_fresh(bound[p]):
                    raise Unsupported(f"{callee.name} mutates a non-fresh argument")
                args.append(s)
            elif p in callee.defaults:
                if passes_kw and p in KW_PARAM_FIELDS:
                    args.append(f"kw.{p}")
                else:
                    args.append("none")
            else:
                raise Unsupported(f"missing argument {p}")
        kw = "kw" if passes_kw else "Kw.none"
        if passes_kw:
            self.cur.reads |= callee.reads
        elif callee.reads:
            raise Unsupported(f"callee {callee.qual} reads {sorted(callee.reads)} but no **kwargs forwarded")
        for k in callee.junk_sites:
            if k not in self.cur.junk_sites:
                self.cur.junk_sites.append(k)
        ns = "" if callee.cls == self.cur.cls else f"{callee.cls}."
        return f"({ns}{callee.name} {kw} junk " + " ".join(args) + ")", callee.ret


# ---------------------------------------------------------------------- purity side conditions
def purity_facts(trees):
    """module-level facts the functional reading relies on (DESIGN 4.5)"""
    facts = {"selfAssignOutsideInit": [], "moduleState": [], "mutableDefaults": [], "globals": []}
    for mod, tree in trees.items():
        for n in tree.body:
            if isinstance(n, (ast.Assign, ast.AugAssign, ast.AnnAssign)):
                facts["moduleState"].append(f"{mod}:{n.lineno}")
        for cls in [n for n in tree.body if isinstance(n, ast.ClassDef)]:
            for item in cls.body:
                if isinstance(item, (ast.Assign, ast.AugAssign, ast.AnnAssign)):
                    facts["moduleState"].append(f"{mod}:{item.lineno}")
                if not isinstance(item, ast.FunctionDef):
                    continue
                for d in item.args.defaults + item.args.kw_defaults:
                    if d is not None and not isinstance(d, ast.Constant):
                        facts["mutableDefaults"].append(f"{cls.name}.{item.name}")
                for n in ast.walk(item):
                    if isinstance(n, (ast.Global, ast.Nonlocal)):
                        facts["globals"].append(f"{cls.name}.{item.name}")
                    tg = []
                    if isinstance(n, ast.Assign):
                        tg = n.targets
                    elif isinstance(n, (ast.AugAssign, ast.AnnAssign)):
                        tg = [n.target]
                    for t in tg:
                        for u in ast.walk(t):
                            if isinstance(u, ast.Attribute) and isinstance(u.value, ast.Name) and u.value.id == "self" \
                                    and item.name != "__init__":
                                facts["selfAssignOutsideInit"].append(f"{cls.name}.{item.name}")
    return facts


# ---------------------------------------------------------------------- dtype abstract run
I_, F_ = "int", "float"


def _join(a, b):
    return F_ if F_ in (a, b) else I_


class DtypeAbs:
    """abstract interpretation over {int, float} of the same subset (DESIGN 4.6): flags
    lossy stores of float values into int buffers and in-place float updates of int buffers."""

    def __init__(self, nodes):
        self.classes = nodes
        self.attr = {"converter": "Converter", "transformer": "Transformer"}

    def run(self, cls, name, argtypes):
        f = self.classes[cls][name]
        params = [a.arg for a in f.args.args if a.arg != "self"]
        env = {}
        nd = len(f.args.defaults)
        for i, p in enumerate(params):
            env[p] = argtypes.get(p, None if i >= len(params) - nd else F_)
        self.flags = set()
        self.depth = 0
        return self.block(cls, f.body, env), self.flags

    def block(self, cls, body, env):
        for s in body:
            if isinstance(s, ast.Expr):
                if isinstance(s.value, ast.Call):
                    self.ev(cls, s.value, env)
                continue
            if isinstance(s, ast.Return):
                return self.ev(cls, s.value, env)
            if isinstance(s, ast.Assign):
                t = s.targets[0]
                v = self.ev(cls, s.value, env)
                if isinstance(t, ast.Name):
                    env[t.id] = v
                elif isinstance(t, ast.Tuple):
                    if isinstance(v, tuple):
                        for n, x in zip(t.elts, v):
                            if isinstance(n, ast.Name):
                                env[n.id] = x
                elif isinstance(t, ast.Subscript) and isinstance(t.value, ast.Name):
                    buf = env.get(t.value.id)
                    if buf == I_ and v == F_:
                        self.flags.add(("lossy-store", cls, t.value.id))
                continue
            if isinstance(s, ast.AugAssign) and isinstance(s.target, ast.Name):
                v = self.ev(cls, s.value, env)
                buf = env.get(s.target.id)
                if isinstance(s.op, ast.Div) and buf == I_:
                    self.flags.add(("raises-inplace", cls, s.target.id))
                if buf == I_ and v == F_:
                    self.flags.add(("raises-inplace", cls, s.target.id))
                continue
            if isinstance(s, ast.If):
                e1 = dict(env)
                r1 = self.block(cls, s.body, e1)
                e2 = dict(env)
                r2 = self.block(cls, s.orelse, e2)
                for k in set(e1) | set(e2):
                    a, b = e1.get(k), e2.get(k)
                    env[k] = a if b is None else b if a is None else (_join(a, b) if isinstance(a, str) and isinstance(b, str) else a)
                continue
            if isinstance(s, ast.For) and isinstance(s.target, ast.Tuple):
                env[s.target.elts[0].id] = I_
                env[s.target.elts[1].id] = self.ev(cls, s.iter.args[0], env) if isinstance(s.iter, ast.Call) and s.iter.args else F_
                self.block(cls, s.body, env)
                continue
        return None

    def ev(self, cls, e, env):
        if isinstance(e, ast.Name):
            return env.get(e.id)
        if isinstance(e, ast.Constant):
            return None if e.value is None else (F_ if isinstance(e.value, float) else I_)
        if isinstance(e, ast.Attribute):
            return F_
        if isinstance(e, ast.Tuple):
            return tuple(self.ev(cls, x, env) for x in e.elts)
        if isinstance(e, ast.UnaryOp):
            return self.ev(cls, e.operand, env)
        if isinstance(e, ast.Compare):
            return "bool"
        if isinstance(e, ast.BinOp):
            a, b = self.ev(cls, e.left, env), self.ev(cls, e.right, env)
            if isinstance(e.op, ast.Div):
                return F_
            if not isinstance(a, str) or not isinstance(b, str):
                return F_
            return _join(a, b)
        if isinstance(e, ast.Subscript):
            if isinstance(e.value, ast.Name) and e.value.id == "kwargs":
                return F_
            return self.ev(cls, e.value, env)
        if isinstance(e, ast.Call):
            return self.call(cls, e, env)
        return F_

    def call(self, cls, e, env):
        f = e.func
        if isinstance(f, ast.Name) and f.id in ("min", "max", "enumerate") and e.args:
            return self.ev(cls, e.args[0], env)
        if isinstance(f, ast.Attribute) and isinstance(f.value, ast.Name) and f.value.id == "np":
            n = f.attr
            kws = {k.arg: k.value for k in e.keywords}
            if n in ("array", "asarray", "zeros_like", "ones_like"):
                if "dtype" in kws:
                    return F_
                return self.ev(cls, e.args[0], env) if e.args else F_
            if n in ("sin", "cos", "sqrt", "sinc", "divide", "trapezoid"):
                if n == "divide" and "out" in kws:
                    o = self.ev(cls, kws["out"], env)
                    if o == I_:
                        self.flags.add(("raises-out", cls, "divide"))
                return F_
            if n in ("square", "diff", "sum"):
                return self.ev(cls, e.args[0], env) if e.args else F_
            if n in ("add", "subtract", "multiply", "power") and len(e.args) == 2:
                a, b = self.ev(cls, e.args[0], env), self.ev(cls, e.args[1], env)
                return _join(a, b) if isinstance(a, str) and isinstance(b, str) else F_
            if n == "logical_and":
                return "bool"
            return F_
        if isinstance(f, ast.Attribute) and isinstance(f.value, ast.Name) and f.value.id == "kwargs":
            return "bool"
        if isinstance(f, ast.Attribute) and f.attr == "sum":
            return self.ev(cls, f.value, env)
        if isinstance(f, ast.Attribute):
            if isinstance(f.value, ast.Name) and f.value.id == "self":
                c = cls
            elif isinstance(f.value, ast.Attribute):
                c = self.attr.get(f.value.attr)
            else:
                c = None
            g = self.classes.get(c, {}).get(f.attr) if c else None
            if g is None or self.depth > 12:
                return F_
            params = [a.arg for a in g.args.args if a.arg != "self"]
            at = {}
            for p, a in zip(params, e.args):
                at[p] = self.ev(cls, a, env)
            for k in e.keywords:
                if k.arg in params:
                    at[k.arg] = self.ev(cls, k.value, env)
            nd = len(g.args.defaults)
            env2 = {}
            for i, p in enumerate(params):
                env2[p] = at.get(p, None if i >= len(params) - nd else F_)
            self.depth += 1
            r = self.block(c, g.body, env2)
            self.depth -= 1
            return r
        return F_


def dtype_table(nodes):
    ab = DtypeAbs(nodes)
    rows = []
    total = 0
    for cls, fns in nodes.items():
        for name, f in fns.items():
            if name.startswith("__"):
                continue
            params = [a.arg for a in f.args.args if a.arg != "self"]
            arr = [p for p in params if p not in SCALAR_PARAMS]
            for combo in itertools.product([I_, F_], repeat=len(arr)):
                at = dict(zip(arr, combo))
                at.update({p: F_ for p in params if p in SCALAR_PARAMS})
                try:
                    ret, flags = ab.run(cls, name, at)
                except Exception as ex:  # analysis failure is a flag, never silence
                    flags = {("analysis-error", cls, str(ex)[:40])}
                total += 1
                for kind, c, what in sorted(flags):
                    rows.append((f"{cls}.{name}", "".join("i" if x == I_ else "f" for x in combo), kind, f"{c}.{what}"))
    return total, rows


# ---------------------------------------------------------------------- driver
def load(srcdir, modfile, clsname):
    src = open(os.path.join(srcdir, modfile), "rb").read()
    tree = ast.parse(src)
    cls = [n for n in tree.body if isinstance(n, ast.ClassDef) and n.name == clsname]
    if not cls:
        raise SystemExit(f"class {clsname} not found in {modfile}")
    cls = cls[0]
    fns = {n.name: Fn(cls.name, n) for n in cls.body if isinstance(n, ast.FunctionDef) and n.name != "__init__"}
    nodes = {n.name: n for n in cls.body if isinstance(n, ast.FunctionDef)}
    return src, tree, fns, nodes


def lstr(s):
    return '"' + s.replace("\\", "\\\\").replace('"', '\\"') + '"'


def dispatch_case(f):
    lines = [f'  | {lstr(f.qual)} => do']
    names = []
    for i, p in enumerate(f.params):
        getter = {V: "getVec", S: "getScalar", OV: "getOVec", OS: "getOScalar"}[f.ptypes[p]]
        lines.append(f"      let a{i} ← Arg.{getter} a {i}")
        names.append(f"a{i}")
    lines.append(f"      if a.size != {len(f.params)} then throw \"arity\"")
    lines.append(f"      let r := {f.qual} kw junk {' '.join(names)}")
    if isinstance(f.ret, tuple):
        n = len(f.ret)
        comps = []
        for i, t in enumerate(f.ret):
            path = "r" + ".2" * i + (".1" if i < n - 1 else "")
            comps.append(f"Out.ofS ({path})" if t == S else f"({path})")
        lines.append(f"      pure [{', '.join(comps)}]")
    else:
        lines.append("      pure [r]" if f.ret == V else "      pure [Out.ofS r]")
    return "\n".join(lines)


def write_if_changed(path, text):
    try:
        if open(path).read() == text:
            return
    except OSError:
        pass
    with open(path, "w") as fh:
        fh.write(text)


def main():
    srcdir, outdir = sys.argv[1], sys.argv[2]
    os.makedirs(outdir, exist_ok=True)
    classes, nodes, trees, shas = {}, {}, {}, {}
    for mod, cls in MODULES:
        src, tree, fns, nd = load(srcdir, mod, cls)
        classes[cls] = fns
        nodes[cls] = nd
        trees[mod] = tree
        shas[mod] = hashlib.sha256(src).hexdigest()
    tr = Tr(classes)
    order, seen = [], set()

    def deps(f):
        saved = getattr(tr, "cur", None)
        tr.cur = f
        out = []
        for n in ast.walk(f.node):
            if isinstance(n, ast.Call) and isinstance(n.func, ast.Attribute) and isinstance(n.func.value, (ast.Name, ast.Attribute)):
                c = tr.resolve(n.func)
                if c is not None:
                    out.append(c)
        tr.cur = saved
        return out

    def visit(f, stack=()):
        if f.qual in seen:
            return
        if f.qual in stack:
            return
        for d in deps(f):
            visit(d, stack + (f.qual,))
        if f.qual not in seen:
            seen.add(f.qual)
            order.append(f)

    for _, c in MODULES:
        for f in classes[c].values():
            visit(f)
    # keep module order: Converter functions first, etc. (order is already dependency-sorted within visit)
    order.sort(key=lambda f: [m[1] for m in MODULES].index(f.cls))
    report = {}
    texts = {c: [] for _, c in MODULES}
    for f in order:
        try:
            f.lean = tr.fn(f)
            texts[f.cls].append(f.lean + "\n")
            report[f.qual] = "ok"
        except Unsupported as ex:
            f.lean = None
            f.error = str(ex)
            texts[f.cls].append(f"-- REFUSED {f.qual}: {ex}\n")
            report[f.qual] = f"refused: {ex}"
    imports = {"Converter": ["PystogVerif.Vec"], "Transformer": ["PystogVerif.Gen.Converter"],
               "FourierFilter": ["PystogVerif.Gen.Transformer"]}
    for mod, c in MODULES:
        head = [f"-- GENERATED by tools/translate.py from {mod}; do not edit", f"-- source-sha256: {shas[mod]}"]
        head += [f"import {i}" for i in imports[c]]
        head += ["set_option linter.unusedVariables false", HEADER_VARS, "", f"namespace {c}"]
        body = "\n".join(head + texts[c] + [f"end {c}", ""])
        write_if_changed(os.path.join(outdir, f"{c}.lean"), body)
    ok = [f for f in order if f.lean is not None]
    # ---- facts
    total_dt, dt_rows = dtype_table(nodes)
    pf = purity_facts(trees)
    allsha = hashlib.sha256("".join(shas[m] for m, _ in MODULES).encode()).hexdigest()
    F = ["-- GENERATED by tools/translate.py; do not edit", f"-- source-sha256: {allsha}", "namespace Gen.Facts", ""]
    sw = ", ".join(f"({lstr(a)}, {lstr(b)}, {lstr(c)})" for a, b, c in tr.swallowed)
    F.append("/-- keyword arguments that a call site passes under a name the callee does not have: Python binds them\n"
             "    into the callee's `**kwargs`, where nothing reads them (caller, callee, keyword) -/")
    F.append(f"def swallowed : List (String × String × String) := [{sw}]")
    for _, c in MODULES:
        swc = ", ".join(f"({lstr(a)}, {lstr(b)}, {lstr(k)})" for a, b, k in tr.swallowed if a.startswith(c + "."))
        F.append(f"/-- the same, call sites inside `{c}` only -/")
        F.append(f"def swallowed{c} : List (String × String × String) := [{swc}]")
    F.append("/-- per function: sites of `np.divide(where=)` without `out=` reachable from it -/")
    F.append("def uninitSites : List (String × List Nat) := [" +
             ", ".join(f"({lstr(f.qual)}, {sorted(f.junk_sites)})" for f in ok) + "]")
    F.append("/-- per function: keys of `**kwargs` read with hard access (transitively) -/")
    F.append("def requiredKeys : List (String × List String) := [" +
             ", ".join(f"({lstr(f.qual)}, [{', '.join(lstr(k) for k in sorted(f.reads))}])" for f in ok) + "]")
    F.append("/-- functions of the three modules that could not be translated (outside the subset) -/")
    F.append("def refused : List (String × String) := [" +
             ", ".join(f"({lstr(f.qual)}, {lstr(f.error or '')})" for f in order if f.lean is None) + "]")
    F.append("def translated : List String := [" + ", ".join(lstr(f.qual) for f in ok) + "]")
    for k, v in pf.items():
        F.append(f"def {k} : List String := [{', '.join(lstr(x) for x in sorted(set(v)))}]")
    F.append("/-- dtype abstract run over {int,float}: (function, dtype assignment of its array parameters, flag, where) -/")
    F.append("def dtypeFlags : List (String × String × String × String) := [" +
             ", ".join(f"({lstr(a)}, {lstr(b)}, {lstr(c)}, {lstr(d)})" for a, b, c, d in dt_rows) + "]")
    F.append("/-- the same, restricted to public methods (name not starting with `_`); private helpers are still analysed\n"
             "    through every public call chain that reaches them -/")
    F.append("def dtypeFlagsPublic : List (String × String × String × String) := [" +
             ", ".join(f"({lstr(a)}, {lstr(b)}, {lstr(c)}, {lstr(d)})" for a, b, c, d in dt_rows
                       if not a.split(".")[1].startswith("_")) + "]")
    F.append(f"def dtypeAssignmentsEvaluated : Nat := {total_dt}")
    # ---- division audit: every `/` of the three modules whose denominator is not a literal (function, denominator source).  The ℝ reading
    # totalises x/0 = 0, so a theorem can hold at a vanishing denominator for the wrong reason; the list is pinned by a theorem
    # (Props/C16Div) so that a new unguarded division cannot appear unnoticed, and DESIGN names the condition that keeps each one non-zero.
    divs = []
    for m, c in MODULES:
        for cls_node in [n for n in trees[m].body if isinstance(n, ast.ClassDef) and n.name == c]:
            for fn_node in [n for n in cls_node.body if isinstance(n, ast.FunctionDef)]:
                for n in ast.walk(fn_node):
                    den = None
                    if isinstance(n, ast.BinOp) and isinstance(n.op, ast.Div):
                        den = n.right
                    elif isinstance(n, ast.AugAssign) and isinstance(n.op, ast.Div):
                        den = n.value
                    if den is not None and not (isinstance(den, ast.Constant) and isinstance(den.value, (int, float)) and den.value != 0):
                        divs.append((f"{c}.{fn_node.name}", ast.unparse(den)))
    divs = sorted(set(divs))
    F.append("/-- every `/` whose denominator is not a non-zero literal: (function, denominator); guarded `np.divide(where=)` calls are not in it -/")
    F.append("def unguardedDivisions : List (String × String) := [" + ", ".join(f"({lstr(a)}, {lstr(b)})" for a, b in divs) + "]")
    F.append("end Gen.Facts\n")
    write_if_changed(os.path.join(outdir, "Facts.lean"), "\n".join(F))
    # ---- junk independence: one `rfl` theorem per function (fails to elaborate iff an uninitialised read is reachable)
    J = ["-- GENERATED by tools/translate.py; do not edit", f"-- source-sha256: {allsha}",
         "import PystogVerif.Gen.FourierFilter", "set_option linter.unusedVariables false", HEADER_VARS, "",
         "namespace Gen.JunkFree"]
    for f in ok:
        sig = " ".join(f"({p} : {tname(f.ptypes[p])})" for p in f.params)
        args = " ".join(f.params)
        J.append(f"theorem {f.cls}_{f.name} (kw : Kw α) (junk junk' : Junk α) {sig} :\n"
                 f"    {f.qual} kw junk {args} = {f.qual} kw junk' {args} := rfl")
    J.append("end Gen.JunkFree\n")
    write_if_changed(os.path.join(outdir, "JunkFree.lean"), "\n".join(J))
    # ---- dispatch
    D = ["-- GENERATED by tools/translate.py; do not edit", f"-- source-sha256: {allsha}",
         "import PystogVerif.Gen.FourierFilter", "import PystogVerif.Driver", "",
         "def Gen.dispatch (name : String) (kw : Kw Float) (junk : Junk Float) (a : Array Arg) : Except String (List (List Float)) :=",
         "  match name with"]
    for f in ok:
        D.append(dispatch_case(f))
    D.append('  | _ => throw "unknown-entry"')
    D.append("")
    D.append("def Gen.entries : List String := [" + ", ".join(lstr(f.qual) for f in ok) + "]\n")
    write_if_changed(os.path.join(outdir, "Dispatch.lean"), "\n".join(D))
    rep = {"sha256": shas, "functions": report, "swallowed": tr.swallowed,
           "uninit_sites": [{"site": k, "function": fn, "line": ln} for k, fn, ln in tr.site_info],
           "purity": pf, "dtype_assignments": total_dt,
           "dtype_flagged_functions": sorted({r[0] for r in dt_rows}),
           "signatures": {f.qual: {"params": [(p, f.ptypes[p]) for p in f.params],
                                   "ret": list(f.ret) if isinstance(f.ret, tuple) else [f.ret],
                                   "reads": sorted(f.reads), "junk_sites": sorted(f.junk_sites),
                                   "mutates": sorted(MUTATES.get(f.name, ()))} for f in ok}}
    with open(os.path.join(outdir, "report.json"), "w") as fh:
        json.dump(rep, fh, indent=1, sort_keys=True)
    nref = sum(1 for v in report.values() if v != "ok")
    print(f"translated {len(ok)} of {len(report)} functions; refused {nref}; swallowed {len(tr.swallowed)}; "
          f"uninit sites {tr.site}; dtype-flagged functions {len({r[0] for r in dt_rows})}")
    for k, v in report.items():
        if v != "ok":
            print("  ", k, v)


if __name__ == "__main__":
    main()
