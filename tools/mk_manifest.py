#!/usr/bin/env python3
"""Regenerates /verif/MANIFEST.json from the table below (kept in one place so that it is always valid)."""
import json, os
VERIF = os.path.dirname(os.path.dirname(os.path.abspath(__file__)))
ids = [json.loads(l)["id"] for l in open(os.path.join(VERIF, "properties.jsonl"))]

NOTE_COMMON = ("Trusted: Lean 4.33 kernel + Mathlib; axioms propext/Classical.choice/Quot.sound only (audited each run); theorems "
               "are about the real-number reading of the model; translator / hand models tied to /repo by the correspondence run; "
               "see DESIGN.md section 10.")

CLAIMED = {
 "C03": dict(text="Theorems for all grids/data/material constants about the Lean model regenerated from converter.py on every run: "
             "each of the 12 reciprocal-space conversions equals its pointwise defining formula (refinement), there-and-back is the identity "
             "and every two-step path equals the direct conversion for Q>0, conventional finite values where Q<=0. Correspondence run "
             "(implementation vs Float reading of the same definitions, bit-identical so far) ties the model to /repo; a Python oracle of the "
             "property on the real code finds the replay when a proof or the correspondence breaks. Float-only clause (never NaN/inf) is "
             "checked by the oracle, not proved.", ref="8 (C03), 4, 7",
             tech="Lean 4 theorems on translator output (refinement to pointwise spec + field identities) + differential correspondence"),
 "C04": dict(text="Same as C03 for the 6 real-space conversions (g, G, G_K): refinement to the pointwise formulas, round trips, paths, "
             "values at r=0, for all grids/data with rho>0, <b_coh>^2 != 0.", ref="8 (C04)",
             tech="Lean 4 theorems on translator output + differential correspondence"),
 "C06": dict(text="Theorems: the uncertainty output of every one of the 18 conversions is slope*input uncertainty where the slope is proved to be "
             "the derivative of the value map (HasDerivAt), hence |dY/dX|*dX for positive abscissa/density/<b_coh>^2; independent of the "
             "values; zeros when none supplied; non-negative; restored by a round trip. Model regenerated from converter.py each run; the "
             "translator's type inference refuses a conversion that can return None.", ref="8 (C06)",
             tech="Lean 4 theorems on translator output (slope = derivative, refinement) + differential correspondence"),
 "C02": dict(text="Theorems on the model regenerated from transformer.py each run: for every input grid, output grid and data vector the core "
             "transform (no options) returns the trapezoid sine quadrature T[x,y](x') (refinement through the crop-identity, kernel and "
             "trapezoid lemmas); T is exactly 0 at x'=0, odd, additive and homogeneous in the data, and equals the weighted sum with "
             "w_0=d_0/2, w_j=(d_{j-1}+d_j)/2, w_{n-1}=d_{n-2}/2. Correspondence + oracle (fsum reference) on the real code. Fortran "
             "comparison: see DESIGN (partial).", ref="8 (C02)",
             tech="Lean 4 refinement theorem on translator output + trapezoid algebra; differential correspondence"),
 "C05": dict(text="For all 24 named transforms, all data/uncertainties/grids/options: wrapper = conversion-in ; core (F_to_G or G_to_F with the "
             "same options) ; conversion-out, values and uncertainties, proved by unfolding the regenerated definitions (rfl); cores are "
             "the core transform with 2/pi only in Q->r; no call site of Converter/Transformer passes a keyword the callee swallows "
             "(decide on the translator's call-binding table).", ref="8 (C05)",
             tech="Lean 4 definitional-unfolding theorems on translator output + call-binding facts; oracle vs explicit composition"),
 "C07": dict(text="Theorems on the regenerated eout channel: refinement to sqrt(sum d_i^2 (s_i^2+s_{i+1}^2)/2) over in-window points; independent "
             "of the data; zero without input uncertainties; homogeneous (c>=0); monotone in each input uncertainty; "
             "exact <= coded <= 2*exact (ratio in [1,sqrt2]) against uncorrelated propagation through the trapezoid weights on every "
             "non-decreasing grid; 2/pi scaling in F_to_G. Props/C07Named joins this with C05's factorisation and the conversion refinements: for all 24 "
             "named transforms the returned uncertainty is (dY/d core at the output abscissa) x [core uncertainty of (d core/dX at the input abscissa) x dX] "
             "entry by entry (P_r2q_unc, P_q2r_unc) - a wrapper that hands the unconverted uncertainty to the core, drops it or converts it twice falsifies them.", ref="8 (C07)",
             tech="Lean 4 theorems (induction along the grid, nlinarith step lemma) on translator output + correspondence"),
 "C13": dict(text="Theorems: apply_cropping = closed-interval filter on x,y,dy (order preserved, membership iff in [lo,hi]); crop idempotent; "
             "fourier_transform with a window = fourier_transform of the pre-deleted data with the same window, as a full-triple "
             "equality for every option set (Lorch, correction); inputs agreeing inside the window give identical results; no window = "
             "identity crop; a window with lower limit above upper limit is empty (P_crop_reversed_empty, P_apply_cropping_reversed_empty). Non-finite outside "
             "values are exercised on the real code.", ref="8 (C13), 42",
             tech="Lean 4 theorems on translator output (filter/compress lemmas) + correspondence + bitwise oracle"),
 "C14": dict(text="Theorems: Lorch weight = sin(ax)/(ax), exactly 1 at x=0, |w|<=1; Lorch transform = plain transform of pre-multiplied data and "
             "of pre-multiplied uncertainties (any window/grid); no uninitialised read reachable (translator fact, decide) and the "
             "generated transform is independent of `junk` (rfl). Finite/reproducible under heap poisoning is checked on the real code. "
             "Fortran window comparison: see DESIGN (partial).", ref="8 (C14)",
             tech="Lean 4 theorems on translator output + uninitialised-read facts; heap-grooming oracle on the real code"),
 "C16": dict(text="Partial: theorems about the translator's analyses of the current source — all 58 functions inside the functional subset "
             "(in-place updates only on fresh arrays), no uninitialised reads (plus one generated rfl theorem per function: result "
             "independent of junk), no state, dtype abstract run over all 1340 int/float assignments flags nothing for public methods. "
             "The runtime observables (arguments bit-identical, results bit-identical across poisoned allocations and repeated calls, "
             "int vs float copies) are checked on the real code on every run; CPython/numpy aliasing itself is not modelled.", ref="8 (C16), 4.4-4.6",
             tech="Lean 4 decide/rfl over translator-emitted facts + runtime purity oracle (partial)"),
 "C08": dict(text="Theorems on the regenerated g_using_F (core of all 12 variants, C09): removed + corrected = input for all inputs, cutoffs, "
             "options; d_corrected = sqrt(d_in^2 + d_removed^2) entrywise; removed (and its uncertainty) is a function of "
             "crop(r,g,dg; 0,cutoff) only; with plain options removed(Q) = T[r<=c, 4 pi rho r g](Q) and vanishes when g vanishes on "
             "[0,cutoff]; returned real-space triple = F_to_g of the returned corrected function (rfl). Props/C08All combines this with C09's "
             "factorisation (each variant = conversions around the core, by unfolding the regenerated definitions) and C03's conversion refinements: "
             "for ALL 12 variants, on every grid with Q>0, corrected + removed - base(Y) = input entry by entry (base = 0 for Q[S-1] and F_K, 1 for S, "
             "<b_tot^2> for DCS: P_filter_additive_all) and d_corrected = sqrt(d_in^2 + d_removed^2) in the variant's own units for <b_coh>^2 > 0 "
             "(P_filter_quadrature_all).", ref="8 (C08), 31",
             tech="Lean 4 theorems on translator output (normal form of g_using_F via crop/transform lemmas) + correspondence"),
 "C09": dict(text="For all inputs/cutoffs/options each of the other 11 variants = conversion-out ; g_using_F ; conversion-in on all nine outputs "
             "including the three uncertainty outputs (rfl on regenerated definitions, so a dropped or renamed uncertainty argument "
             "breaks it); no call site in FourierFilter passes a swallowed keyword (decide). Props/C09All discharges the remaining hypothesis with the "
             "conversion laws (path law for values C03/C04, chain rule for slopes): for all pairs of variants (X,Y),(X',Y'), inputs that are pointwise "
             "conversions of one another (values and uncertainties; r>0, Q>0) give nine outputs that are the pointwise conversions of one another "
             "(P_variants_physically_agree); a variant called without uncertainties returns on all nine outputs what it returns for zero vectors "
             "(P_variant_none_eq_zeros). Oracle converts all 12 variants' outputs to (g, Q[S-1]) on the real code.", ref="8 (C09), 41",
             tech="Lean 4 definitional-unfolding theorems on translator output + call-binding facts + conversion oracle"),
 "C01": dict(text="Theorems on regenerated F_to_G/G_to_F/S_to_g/g_to_S for every N>=1, dr>0 on the matched grids r_j=j dr, "
             "Q_k=k pi/(N dr): G_to_F(F_to_G f) = f and F_to_G(G_to_F G) = G for all data vanishing at both ends (DST-I orthogonality from a "
             "telescoping cosine sum, trapezoid rule on uniform grids); g_to_S(S_to_g S) = S and S_to_g(g_to_S g) = g for every rho>0 and all "
             "data with the conventional value 1 at index 0 and at index N (Props/C01Sg: wrapper = conversion;core;conversion by rfl, "
             "conversion refinements, values independent of the uncertainties handed on internally); each direction separately returns "
             "the discrete closed-form partner (sin(Q_k r_m) <-> delta_m/dr), which pins 2/pi to Q->r and the bare kernel to r->Q. Props/C01Gauss "
             "(Mathlib measure theory) proves that the closed-form family of the statement IS a sine-Fourier pair under the documented conventions: "
             "int_0^inf A r exp(-a r^2) sin(Qr) dr = A sqrt(pi) Q/(4 a^1.5) exp(-Q^2/4a) and (2/pi) int_0^inf of that times sin(Qr) dQ = A r exp(-a r^2), "
             "for every A, a>0, Q, r, and for finite sums of members - so the target of the numerical comparison is a theorem, not a formula typed twice. 'To "
             "discretisation accuracy' is a theorem on uniform grids starting at 0 (Props/C01Quad, on Mathlib's trapezoidal error bound): the generated "
             "fourier_transform on x_j = j d, j<=N, IS Mathlib's trapezoidal_integral of data*sin (R_ft_is_trapezoidal), and for every member, every A, a>0, "
             "N>=1, d>0 and every output point t: |G_to_F value - closed-form partner| <= R d^2 zeta/12 + |A| exp(-a R^2)/(2a) with R = N d and "
             "zeta = |A|(6aR + 4a^2R^3 + 2|t|(1+2aR^2) + t^2 R) (second-derivative bound on [0,R] + Gaussian tail); the same with the factor 2/pi in "
             "the Q->r direction, and for finite sums of members (sum of the members' bounds). Non-uniform grids and the size of the constant in "
             "practice stay with the oracle, which "
             "compares both directions of the real code with the closed form at 1e-9 of scale on grids where the "
             "trapezoid rule has converged (with and without accompanying uncertainties).", ref="8 (C01), 29",
             tech="Lean 4 theorems (DST orthogonality, Finset sums, conversion refinements) on translator output + Lean 4/Mathlib theorems for the continuous closed-form pair and the trapezoid discretisation error + closed-form numerical sweep"),
 "C15": dict(text="Theorems on regenerated _low_x_correction and its call sites: the code adds codeTerm(lorch,Qmin,S(Qmin),Qmax,r) "
             "(refinement), which equals int_0^Qmin Q[S_lin(Q)-1] w(Q) sin(Qr) dQ for S_lin = S(Qmin) Q/Qmin, plain and Lorch-damped "
             "(FTC with explicit antiderivatives; plain: r != 0; Lorch: every r, the poles r = +-pi/Qmax included, after the fix: commit that "
             "writes the term with sinc forms — found through the hypothesis the earlier proof needed); zero for Qmin=0; zero at r=0; a function of (Qmin,S(Qmin),Qmax) "
             "only; 2/pi applied once in F_to_G. Equality with the compiled Fortran stog_bit and with Gauss-Legendre quadrature of the "
             "model is checked numerically; the discretised-transform-of-extended-data reading holds only in the limit (not a theorem).",
             ref="8 (C15)", tech="Lean 4 theorems (interval integrals via FTC) on translator output + compiled-Fortran/quadrature oracle"),
 "C10": dict(text="Theorems on the hand model of merge_data (stable sort + five-variable run-length fold, mirrored statement by statement): "
             "merge = group-by-Q specification (sorted distinct stored Q values, each with the arithmetic mean and sqrt(sum dy^2)/n) for "
             "every list of points; grid strictly increasing with each stored Q exactly once; value between min and max of its "
             "contributions; invariant under permutation of the stored points, hence (with the ingestion model) independent of the "
             "add order; merging the sorted storage again changes nothing. The model is tied to the real StoG by an op-sequence "
             "correspondence compared after every add_dataset/merge_data (bit-exact). Float-only effect (0.1+0.2 != 0.3 splitting a "
             "bin) is covered by the Float reading + oracle."
             " SECOND TIE (this property's part of stog.py is also *regenerated* on every run by tools/translate_stog.py and proved equal to the hand model; when the translator refuses a construct the check falls back to hand model + correspondence and says so in the evidence): Refine/Merge.lean: the generated merge_data (sort block, five-variable loop as a left fold with the loop body as a named step function, closing append, post-merge options, write-back) = Stog.mergeData for every non-empty storage, by a fold invariant (run open iff count >= 1 iff previous abscissa set) that also discharges the translator's two guarded Option coercions; empty storage raises ValueError. Props/C10Gen transports grid / mean / idempotence to the generated code.", ref="8 (C10), 5",
             tech="refinement of code generated from stog.py (fold invariant) + Lean 4 theorems on a hand-written model (fold invariant, Finset.sort, List.Perm) + op-sequence correspondence"),
 "C11": dict(text="Theorems on the hand model of add_dataset (crop and conversions delegated to the generated code): ingestion is "
             "history-free (storage = concatenation of per-dataset rows), both arrays carry the same Q row after any sequence "
             "(invariant by induction), no stored point outside the global window, S(Q) row = generated conversion of the raw row with "
             "the instance's scattering lengths, scale-then-offset/uncertainty-scaled-only/Q-shift formula, a plain lattice dataset is "
             "stored whole. Full statement (P_stored_spec): for every well-formed dataset the stored as-given rows are, as a list of "
             "(Q, y, dy) triples in order and with multiplicity, exactly the rounded input rows inside the per-dataset window, each "
             "adjusted (scale, offset, Q shift, 0.01 lattice), then those inside the global window; hence no point inside both windows "
             "is lost, none is invented, the columns stay aligned (which discharges the premise of C10's order-independence theorem)."
             " SECOND TIE (this property's part of stog.py is also *regenerated* on every run by tools/translate_stog.py and proved equal to the hand model; when the translator refuses a construct the check falls back to hand model + correspondence and says so in the evidence): Refine/Ingest.lean (every scalar type): the generated add_dataset appends to both arrays exactly Stog.datasetRows for each of the four kinds and an absent kind, rejects any other kind with ValueError, and leaves the ingestion settings untouched; lists of datasets by induction. Props/C11Gen transports the full stored-row specification and the alignment invariant to the generated code.", ref="8 (C11), 5, 23",
             tech="refinement of code generated from stog.py + Lean 4 theorems on a hand-written model + generated code; op-sequence correspondence; recomputation oracle"),
 "C17": dict(text="Theorems on the hand model of the tail of merge_data for all 16 present/absent subsets of the four option keys: stored "
             "Q[S-1] = cF*Q*(aS*mean+bS-1)+dF; stored S = F/Q+1 for Q>0; F = Q(S-1) on the common grid; each absent key == its identity "
             "value. NaN-freeness is a float statement checked by the oracle."
             " SECOND TIE (this property's part of stog.py is also *regenerated* on every run by tools/translate_stog.py and proved equal to the hand model; when the translator refuses a construct the check falls back to hand model + correspondence and says so in the evidence): Same refinement as C10 (Refine/Merge.lean): the generated S(Q)-level and Q[S(Q)-1]-level option handling and the write-back equal Stog.postMerge for all present/absent subsets; Props/C10Gen.P_gen_stored_curves states the two stored-curve formulas for the generated code.", ref="8 (C17), 5",
             tech="refinement of code generated from stog.py + Lean 4 theorems (case split over Option fields) on a hand-written model + exhaustive-subset correspondence"),
 "C20": dict(text="Theorems on the hand model of Pre_Proc.rebin (bit-exact against the real code in the correspondence): grid = xmin+k*xdiv, "
             "k < floor((xmax-xmin)/xdiv)+1, within [xmin,xmax]; the weight of an in-range point in bin k is the hat function "
             "max(0,1-|x-g_k|/xdiv) (so exactly the points within one bin width count); each bin is numerator/weight with both as sums "
             "over contributing points: linear in y, constants preserved, between min and max of contributing y, permutation invariant; "
             "a point on node i gives weight 1 to node i, 0 to node i+1, and data already on the grid (one point per returned node) come back unchanged "
             "(P_rebin_on_grid; every bin then has weight exactly 1). Empty bins raise ZeroDivisionError in the code: theorems assume "
             "non-zero accumulated weight."
             " SECOND TIE: Pre_Proc.rebin is also regenerated on every run by tools/translate_stog.py (range/append loop, accumulator lists, indexed +=, "
             "in-place division loop) and proved equal to the hand model for xdiv>0 and equal lengths (Refine/Rebin.lean rebin_refines, by a per-bin invariant "
             "that also shows every guarded index is in range); Props/C20Gen restates grid, bin values and permutation invariance for the generated code; the "
             "generated code runs at Float as a twin of every correspondence request. When the translator refuses a construct the check falls back to hand "
             "model + correspondence and says so in the evidence.", ref="8 (C20), 5, 26",
             tech="refinement of code generated from pre_proc.py + Lean 4 theorems (floor arithmetic, fold = sums) on a hand-written model + correspondence + hat-weight oracle"),
 "C18": dict(text="Partial. Theorems on the hand model of _write_out_to_file (own digit functions; the model's file is compared byte for byte "
             "with the files of all 8 real writers): the text of every finite double parses back to exactly (sign, "
             "round-half-even(|v| 10^12)) and lies within 5e-13 of the stored value (exact rational arithmetic on the bit pattern); "
             "the file starts with the row count, then one comment line, then exactly that many rows; reading back (skip 2, drop #, "
             "split at the blank) returns the rows in order. np.loadtxt's text->nearest-double step is outside the model; the one-ulp "
             "effect it causes for 4096<=|v|<8192 is a recorded known finding (F9a). Re-ingestion of a written S(Q) is checked by the "
             "oracle on the real code."
             " SECOND TIE (this property's part of stog.py is also *regenerated* on every run by tools/translate_stog.py and proved equal to the hand model; when the translator refuses a construct the check falls back to hand model + correspondence and says so in the evidence): Props/C18Gen: for the eight generated write_out_* methods the writer table (dictionary pair, title, default name = stem + extension, explicit name wins, KeyError when the curve is absent, nothing else changed). _write_out_to_file itself is regenerated as the text it writes (with-open blocks in order, every literal, the %d header, the field order of the row format and the default places=12 read from the source) and proved equal to the hand model's file (Refine/Writer.lean); with Proofs/WriterText (no line contains a newline, so the flat text splits back into the model's lines) the read-back, header and 5e-13 theorems are restated for the generated text (P_gen_text, P_gen_read_write, P_gen_header, P_gen_read_back_value); the generated text function runs at the same inputs as a twin of every byte-exact correspondence request.", ref="8 (C18), 5, 26",
             tech="writer table and file text on code generated from stog.py + Lean 4 theorems (digit round trips, rational rounding bound) on a hand-written model + byte-exact correspondence (partial)"),
 "C12": dict(text="Theorems on the hand-written workflow state machine whose numeric content is the generated code: each step stores the "
             "named Transformer/FourierFilter/Converter call with the option dictionary the code builds; no step overwrites the "
             "merged curve (frame); filter before = filter after the explicit transform; every step is idempotent in every state; by "
             "induction over arbitrary op sequences the curves '<rsf> Merged', 'FT term', 'S(Q) FT', '<rsf> FT' are absent or equal to "
             "a fixed function of (merged S(Q), settings). The weight is on the correspondence: random op sequences on the real StoG, "
             "all master dictionaries compared after every step."
             " SECOND TIE (this property's part of stog.py is also *regenerated* on every run by tools/translate_stog.py and proved equal to the hand model; when the translator refuses a construct the check falls back to hand model + correspondence and says so in the evidence): Refine/Workflow.lean (every scalar type, so also at Float where the hand model is compared with the real StoG): explicit refinement equations for the generated transform_merged, fourier_filter (curve stored / not stored), apply_lorch, _add_keen_fq, _add_keen_gr with the files each writes, and a simulation theorem: every operation sequence of the generated code succeeds on a state satisfying the invariant and leaves exactly the named curves of Workflow.run. Props/C12Gen: history independence etc. on the generated code; default titles pairwise distinct; every option dictionary contains the keys its callee reads.", ref="8 (C12), 5",
             tech="simulation theorem for code generated from stog.py + Lean 4 theorems (invariant by induction over op lists) on a hand-written state machine + op-sequence correspondence"),
 "C19": dict(text="Theorems on the hand model of configuration handling: every given key lands in its setting (Rdelta wins over Rpoints; "
             "Rpoints -> Rmax/Rpoints); each omitted optional key == its default (settings, hence steps and files); invalid "
             "RealSpaceFunction / non-bool LorchFlag / OmittedXrangeCorrection give an error, never a silent default; the CLI runs exactly "
             "the step list of a library drive with the same settings; numpy.arange's length is the ceiling, so the r grid starts at Rmin "
             "with constant step and covers Rmax; flag form defaults. The model is tied to the real code by the correspondence "
             "(attributes, r grid bit for bit, files written by pystog_cli); file *contents* CLI vs library vs defaults-filled-in are "
             "compared byte for byte by the oracle over enumerated present/absent subsets."
             " SECOND TIE (this property's part of stog.py is also *regenerated* on every run by tools/translate_stog.py and proved equal to the hand model; when the translator refuses a construct the check falls back to hand model + correspondence and says so in the evidence): Props/C19Gen: the workflow part of pystog_cli is regenerated from cli.py; chaining the step refinements, from a freshly ingested object it succeeds and writes exactly the files of Config.libSteps (S(Q), real-space function, [filter: 3 files], [Lorch], Keen F(Q), Keen G(r)) in that order, the optional steps governed by the instance's cutoff and Lorch flag. __init__, __kwargs2attr (one step function per key), the validating setters and io.parse_cli_args are regenerated too: Refine/Config.construct_refines (StoG(**kwargs) fails exactly when the hand model does, with the same error kind, and otherwise yields the hand model's settings, r grid, stem name and post-merge options) and parse_cli_args_refines (= Config.parseFlags; Python truthiness drops a zero --Rdelta); the generated constructor runs at Float as a twin of every configuration request.", ref="8 (C19), 5",
             tech="generated CLI workflow (chained refinements) + Lean 4 theorems (case analysis over Option fields, floor/ceil arithmetic) on a hand-written model + end-to-end CLI correspondence"),
}

m = {"version": 1, "setup_cmd": "./setup.sh",
     "hooks": {"guard": "PYSTOG_VERIF",
               "enable": "no hooks are needed: checks import the working tree of /repo in-process (sys.path) and re-translate its sources; PYSTOG_VERIF is reserved and unused",
               "baseline_off_cmd": "cd /repo && /venv/bin/python -m pytest -ra -q -p no:cacheprovider --timeout=900 --continue-on-collection-errors",
               "source_commits": [], "add_only": True},
     "engines": [{"name": "lean4-proof", "path": "lean/", "serves_properties": sorted(CLAIMED),
                  "kind_free_text": "Lean 4.33 + Mathlib theorems about a model regenerated from the Python source (tools/translate.py for the algebra modules, "
                                    "tools/translate_stog.py for the stateful glue of stog.py/cli.py/utils.py) or written by hand (lean/PystogVerif/Model) and proved "
                                    "equal to the regenerated code (lean/PystogVerif/Refine), tied to /repo by a differential correspondence run (harness/); ./check <id> orchestrates"}],
     "checks": [], "notes": "see DESIGN.md; known_findings.json lists repaired (fixed:) and recorded defects",
     "not_applicable": []}
for i in ids:
    if i in CLAIMED:
        c = CLAIMED[i]
        m["checks"].append({"property_id": i, "quick_cmd": f"./check {i} --tier quick", "thorough_cmd": f"./check {i} --tier thorough",
                            "evidence_file": f"evidence/{i}.json", "replay_cmd_template": f"./check {i} --replay {{path}}",
                            "engine": "lean4-proof",
                            "level_claimed": {"category": "proof", "text": c["text"], "design_ref": "DESIGN.md section " + c["ref"]},
                            "level_note": c.get("note", NOTE_COMMON), "technique": c["tech"]})
    else:
        m["not_applicable"].append({"property_id": i, "reason": "check not built yet"})
json.dump(m, open(os.path.join(VERIF, "MANIFEST.json"), "w"), indent=1)
print("claimed:", sorted(CLAIMED))
