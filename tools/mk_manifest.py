#!/usr/bin/env python3
"""Regenerates /verif/MANIFEST.json from the table below (kept in one place so that it is always valid)."""
import json, os
VERIF = os.path.dirname(os.path.dirname(os.path.abspath(__file__)))
ids = [json.loads(l)["id"] for l in open(os.path.join(VERIF, "properties.jsonl"))]

NOTE_COMMON = ("Trusted: Lean 4.33 kernel + Mathlib; axioms propext/Classical.choice/Quot.sound only (audited each run); theorems "
               "are about the real-number reading of the model; translator / hand models tied to /repo by the correspondence run; "
               "see DESIGN.md section 10.")

CLAIMED = {
 "C03": dict(text="Theorems for all grids/data/material constants about the Lean model regenerated from converter.py on every run: "
             "each of the 12 reciprocal-space conversions equals its pointwise defining formula (refinement), there-and-back is the identity "
             "and every two-step path equals the direct conversion for Q>0, conventional finite values where Q<=0. Correspondence run "
             "(implementation vs Float reading of the same definitions, bit-identical so far) ties the model to /repo; a Python oracle of the "
             "property on the real code finds the replay when a proof or the correspondence breaks. Float-only clause (never NaN/inf) is "
             "checked by the oracle, not proved.", ref="8 (C03), 4, 7",
             tech="Lean 4 theorems on translator output (refinement to pointwise spec + field identities) + differential correspondence"),
 "C04": dict(text="Same as C03 for the 6 real-space conversions (g, G, G_K): refinement to the pointwise formulas, round trips, paths, "
             "values at r=0, for all grids/data with rho>0, <b_coh>^2 != 0.", ref="8 (C04)",
             tech="Lean 4 theorems on translator output + differential correspondence"),
 "C06": dict(text="Theorems: the uncertainty output of every one of the 18 conversions is slope*input uncertainty where the slope is proved to be "
             "the derivative of the value map (HasDerivAt), hence |dY/dX|*dX for positive abscissa/density/<b_coh>^2; independent of the "
             "values; zeros when none supplied; non-negative; restored by a round trip. Model regenerated from converter.py each run; the "
             "translator's type inference refuses a conversion that can return None.", ref="8 (C06)",
             tech="Lean 4 theorems on translator output (slope = derivative, refinement) + differential correspondence"),
}

m = {"version": 1, "setup_cmd": "./setup.sh",
     "hooks": {"guard": "PYSTOG_VERIF",
               "enable": "no hooks are needed: checks import the working tree of /repo in-process (sys.path) and re-translate its sources; PYSTOG_VERIF is reserved and unused",
               "baseline_off_cmd": "cd /repo && /venv/bin/python -m pytest -ra -q -p no:cacheprovider --timeout=900 --continue-on-collection-errors",
               "source_commits": [], "add_only": True},
     "engines": [{"name": "lean4-proof", "path": "lean/", "serves_properties": sorted(CLAIMED),
                  "kind_free_text": "Lean 4.33 + Mathlib theorems about a model regenerated from the Python source (tools/translate.py) or written by hand "
                                    "(lean/PystogVerif/Model), tied to /repo by a differential correspondence run (harness/); ./check <id> orchestrates"}],
     "checks": [], "notes": "see DESIGN.md; known_findings.json lists repaired (fixed:) and recorded defects",
     "not_applicable": []}
for i in ids:
    if i in CLAIMED:
        c = CLAIMED[i]
        m["checks"].append({"property_id": i, "quick_cmd": f"./check {i} --tier quick", "thorough_cmd": f"./check {i} --tier thorough",
                            "evidence_file": f"evidence/{i}.json", "replay_cmd_template": f"./check {i} --replay {{path}}",
                            "engine": "lean4-proof",
                            "level_claimed": {"category": "proof", "text": c["text"], "design_ref": "DESIGN.md section " + c["ref"]},
                            "level_note": c.get("note", NOTE_COMMON), "technique": c["tech"]})
    else:
        m["not_applicable"].append({"property_id": i, "reason": "check not built yet (work in progress; planned in DESIGN.md section 8) — not a statement that the technique cannot apply"})
json.dump(m, open(os.path.join(VERIF, "MANIFEST.json"), "w"), indent=1)
print("claimed:", sorted(CLAIMED))
