#!/usr/bin/env python3
"""Record the public parameter names of Converter / Transformer / FourierFilter / Pre_Proc / StoG.apply_scales_and_offset methods of the
tree at /repo (run once on the pinned tree; the table is the documented calling convention that keyword-style callers rely on)."""
import inspect, json, os, sys
sys.path.insert(0, os.path.join(os.environ.get("VERIF_REPO", "/repo"), "src"))
import pystog
out = {}
for cls in ("Converter", "Transformer", "FourierFilter", "Pre_Proc"):
    C = getattr(pystog, cls)
    for name, fn in inspect.getmembers(C, predicate=inspect.isfunction):
        if name.startswith("_"):
            continue
        ps = [p.name for p in inspect.signature(fn).parameters.values()
              if p.name != "self" and p.kind in (p.POSITIONAL_OR_KEYWORD, p.KEYWORD_ONLY)]
        out[f"{cls}.{name}"] = ps
json.dump(out, open(os.path.join(os.path.dirname(os.path.abspath(__file__)), "..", "harness", "api_names.json"), "w"), indent=1, sort_keys=True)
print(len(out), "methods")
