#!/usr/bin/env python3
"""Write one prompt per property for a round of seeded changes by independent sub-agents.

usage: mk_seed_prompts.py <round-dir> [style-file]
  <round-dir>/Cnn must be scratch worktrees of /repo (created by the caller); prompts go to <round-dir>/prompt_Cnn.txt.
The prompt contains the property record, the worktree path, the rules (breaks the property, passes the suite, plausible, needs something
specific), the list of mechanisms earlier rounds used for that property (first lines of seeded/*/README, written by those agents), and an
optional style paragraph.  Nothing else from /verif goes into a prompt.
"""
import json, glob, os, sys

VERIF = os.path.dirname(os.path.dirname(os.path.abspath(__file__)))
rd = sys.argv[1].rstrip("/")
style = open(sys.argv[2]).read().strip() + "\n\n" if len(sys.argv) > 2 else ""
props = {}
for l in open(os.path.join(VERIF, "properties.jsonl")):
    p = json.loads(l)
    props[p["id"]] = p
used = {}
for d in sorted(glob.glob(os.path.join(VERIF, "seeded", "S*"))):
    m = json.load(open(d + "/meta.json"))
    t = (m.get("needs") or "").strip().splitlines()
    title = t[0].lstrip("# ").strip() if t else ""
    extra = " ".join(x.strip() for x in t[1:6] if x.strip() and not x.startswith("#"))[:200]
    used.setdefault(m["property"], []).append(f"- {title} — {extra}")
for pid, p in props.items():
    wt = f"{rd}/{pid}"
    txt = f"""You are helping to evaluate a verification framework for the open-source Python package PyStoG (neutrons/pystog): a NumPy-based converter,
sine-Fourier transformer and Fourier filter between total-scattering functions S(Q), F(Q), g(r), G(r).  Your job is to play the
part of a plausible but subtly wrong code change.

Your scratch git worktree of the repository is {wt} (source in {wt}/src/pystog, tests in {wt}/tests).  Work ONLY inside that
directory.  Do not read or touch /repo or /verif (they are off limits for this task), and do not commit anything.

THE PROPERTY (a semantic property of the package that users rely on):

{json.dumps(p, indent=1)}

YOUR TASK.  Make a change to the package source under {wt}/src/pystog that

 1. BREAKS this property (for some input / call sequence the statement above becomes false), and
 2. still imports/compiles and still passes the existing test suite:
      cd {wt} && PYTHONPATH={wt}/src /venv/bin/python -m pytest -q -p no:cacheprovider --timeout=900 --continue-on-collection-errors
    (on the unchanged tree 283 tests pass and 8 NeXus-related tests fail/err; your change must not make any passing test fail —
     run the suite before and after and compare the sets of passing tests), and
 3. looks like something a maintainer could plausibly write (a refactor, an optimisation, a "robustness fix", a clean-up), and
 4. needs something SPECIFIC to manifest — a particular multi-step sequence of calls, an unusual but legitimate input (special value,
    grid shape, dtype, ordering, option combination), state left over from an earlier call, or two cooperating edits at different
    sites that each look fine alone.  A change that ordinary everyday use would expose at once is NOT wanted.

{style}Earlier rounds already used the following mechanisms for this property; find a DIFFERENT code site and trigger, not a variation of these:
{chr(10).join(used.get(pid, []))}

DELIVERABLES, inside {wt}:
 * the source change itself, left UNCOMMITTED in the worktree (so that `git -C {wt} diff -- src` shows it);
 * {wt}/SEED/demo.py — a small stand-alone program (run as `cd {wt} && PYTHONPATH={wt}/src /venv/bin/python SEED/demo.py`) that checks the
   property on the triggering input/sequence using only the public API: it must exit 0 on the unchanged tree and exit non-zero
   (with a message saying what is wrong) with your change.  Verify both yourself WITHOUT `git stash` (the stash is shared between all worktrees of the repository and other
   people work in sibling worktrees): `git -C {wt} diff -- src > {wt}/SEED/my.patch; git -C {wt} apply -R {wt}/SEED/my.patch` (clean tree),
   run the demo, then `git -C {wt} apply {wt}/SEED/my.patch` (changed tree again), run the demo.
 * {wt}/SEED/README.md — what the change is, why it violates the property, exactly what is needed for it to manifest, and why the existing
   tests do not notice.

Python to use: /venv/bin/python (numpy is installed there; always set PYTHONPATH={wt}/src so that YOUR copy of pystog is imported —
check with `python -c "import pystog; print(pystog.__file__)"`).  There is no network.  Keep the change small (typically 1-15 lines).
Do not deliberate at length: pick a site, make the edit, test it, write the deliverables.
When you are done, reply with a 5-line summary: files changed, the trigger, demo exit codes on clean/changed tree, and the test-suite
pass counts before/after.
"""
    open(f"{rd}/prompt_{pid}.txt", "w").write(txt)
print("prompts written to", rd)
